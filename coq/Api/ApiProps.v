(** C11, part A - proofs about the table regenerated from generate_header / generate_source (Gen/GApi.v).

    Every theorem is universally quantified over the flag vector (and over the truth value of every test on
    the program's outputs, and over the hook / finish-code / yield-code lists).  The flag quantifier is discharged
    by reflection: a boolean check is evaluated by [vm_compute] on all 2^k assignments of the k flags that occur
    in a relevant guard or in the documented API (k is printed below; flags that do not occur are irrelevant by
    lemma [emitted_ext]) and lifted by [by_enumeration]; the list quantifiers are discharged structurally
    (Permutation through flat_map).  No proof step follows the shape of the generated table. *)
From Coq Require Import String List Bool Arith Lia Permutation.
Import ListNotations.
Open Scope string_scope.
From NV Require Import Api.ApiSpec Gen.GApi.
Open Scope list_scope.

(** the tables are only ever looked at by [vm_compute] (which ignores opacity); tactics never unfold them *)
Global Opaque header_items source_items.

(** * Assignments of a finite set of flags *)
Fixpoint assignments (fl : list string) : list (list (string * bool)) :=
  match fl with
  | [] => [[]]
  | f :: r => flat_map (fun a => [(f, true) :: a; (f, false) :: a]) (assignments r)
  end.
Fixpoint lookup (f : string) (a : list (string * bool)) : bool :=
  match a with
  | [] => false
  | (g, b) :: r => if String.eqb f g then b else lookup f r
  end.
Definition fv_of (a : list (string * bool)) : flagvec := fun f => lookup f a.
Definition restrict (fv : flagvec) (fl : list string) : list (string * bool) := map (fun f => (f, fv f)) fl.

Lemma restrict_in : forall fv fl, In (restrict fv fl) (assignments fl).
Proof.
  induction fl as [|f r IH]; simpl; [left; reflexivity|].
  apply in_flat_map. exists (restrict fv r). split; [exact IH|].
  destruct (fv f); simpl; auto.
Qed.

Lemma restrict_agree : forall fv fl f, In f fl -> fv_of (restrict fv fl) f = fv f.
Proof.
  unfold fv_of. induction fl as [|g r IH]; simpl; intros f H; [contradiction|].
  destruct (String.eqb f g) eqn:E.
  - apply String.eqb_eq in E. subst. reflexivity.
  - destruct H as [H|H]; [subst; rewrite String.eqb_refl in E; discriminate|auto].
Qed.

(** * Which flags a table looks at *)
Definition lit_flags (l : lit) : list string := match l with LFlag f _ => [f] | LData _ _ => [] end.
Definition guard_flags (g : guard) : list string := flat_map lit_flags g.
Definition items_flags (tab : list (guard * item)) : list string := flat_map (fun gi => guard_flags (fst gi)) tab.
Definition flag_only (g : guard) : bool := forallb (fun l => match l with LFlag _ _ => true | LData _ _ => false end) g.
Definition flag_only_tab (tab : list (guard * item)) : bool := forallb (fun gi => flag_only (fst gi)) tab.

Lemma eval_guard_ext : forall data data' fv fv' g, flag_only g = true ->
  (forall f, In f (guard_flags g) -> fv f = fv' f) -> eval_guard data fv g = eval_guard data' fv' g.
Proof.
  induction g as [|l g IH]; simpl; intros FO AG; [reflexivity|].
  apply andb_true_iff in FO. destruct FO as [FL FO].
  rewrite (IH FO) by (intros; apply AG; apply in_or_app; right; assumption).
  destruct l; [|discriminate]. simpl. rewrite (AG f) by (simpl; auto). reflexivity.
Qed.

Lemma emitted_ext : forall data data' fv fv' tab, flag_only_tab tab = true ->
  (forall f, In f (items_flags tab) -> fv f = fv' f) -> emitted data fv tab = emitted data' fv' tab.
Proof.
  unfold emitted. induction tab as [|[g i] tab IH]; simpl; intros FO AG; [reflexivity|].
  apply andb_true_iff in FO. destruct FO as [FG FO]. simpl in FG.
  rewrite (eval_guard_ext data data' fv fv' g FG) by (intros; apply AG; apply in_or_app; left; assumption).
  destruct (eval_guard data' fv' g); simpl; rewrite IH; auto; intros; apply AG; apply in_or_app; right; assumption.
Qed.

(** restriction of a table to the items of interest commutes with evaluation *)
Definition sub_tab (rel : item -> bool) (tab : list (guard * item)) := filter (fun gi => rel (snd gi)) tab.
Lemma emitted_sub_tab : forall rel data fv tab, emitted data fv (sub_tab rel tab) = filter rel (emitted data fv tab).
Proof.
  unfold emitted, sub_tab. induction tab as [|[g i] tab IH]; simpl; [reflexivity|].
  destruct (rel i) eqn:R; destruct (eval_guard data fv g) eqn:G; simpl; rewrite ?G, ?R; simpl; rewrite IH; reflexivity.
Qed.

(** * The reflection principle *)
Definition enum_flags (tab : list (guard * item)) (extra : list string) : list string :=
  nodup string_dec (items_flags tab ++ extra).

Lemma by_enumeration : forall (tab : list (guard * item)) (extra : list string) (P : flagvec -> list item -> bool),
  flag_only_tab tab = true ->
  (forall fv fv', (forall f, In f extra -> fv f = fv' f) -> forall l, P fv l = P fv' l) ->
  forallb (fun a => P (fv_of a) (emitted (fun _ => false) (fv_of a) tab)) (assignments (enum_flags tab extra)) = true ->
  forall data fv, P fv (emitted data fv tab) = true.
Proof.
  intros tab extra P FO EXT ALL data fv.
  rewrite forallb_forall in ALL.
  specialize (ALL _ (restrict_in fv (enum_flags tab extra))).
  rewrite <- ALL.
  assert (AG : forall f, In f (items_flags tab ++ extra) -> fv f = fv_of (restrict fv (enum_flags tab extra)) f).
  { intros f H. symmetry. apply restrict_agree. unfold enum_flags. apply nodup_In. exact H. }
  rewrite (emitted_ext data (fun _ => false) fv (fv_of (restrict fv (enum_flags tab extra))) tab FO)
    by (intros; apply AG; apply in_or_app; left; assumption).
  apply EXT. intros; apply AG; apply in_or_app; right; assumption.
Qed.

(** * Decidable equality of declarations; multiset equality as a boolean *)
Definition decl_eq_dec : forall a b : decl, {a = b} + {a <> b}.
Proof. decide equality; apply string_dec. Defined.

Inductive sdecl := SOne (d : decl) | SHookProtos (sig : string) | SHookMembers | SFinishes | SYields.
Definition sdecl_eq_dec : forall a b : sdecl, {a = b} + {a <> b}.
Proof. decide equality; [apply decl_eq_dec | apply string_dec]. Defined.

Definition perm_check (l1 l2 : list sdecl) : bool :=
  forallb (fun x => Nat.eqb (count_occ sdecl_eq_dec l1 x) (count_occ sdecl_eq_dec l2 x)) (l1 ++ l2).

Lemma perm_check_sound : forall l1 l2, perm_check l1 l2 = true -> Permutation l1 l2.
Proof.
  intros l1 l2 H. apply (Permutation_count_occ sdecl_eq_dec). intro x.
  unfold perm_check in H. rewrite forallb_forall in H.
  destruct (in_dec sdecl_eq_dec x (l1 ++ l2)) as [I|N].
  - apply Nat.eqb_eq. apply H. exact I.
  - assert (~ In x l1) by (intro; apply N; apply in_or_app; auto).
    assert (~ In x l2) by (intro; apply N; apply in_or_app; auto).
    rewrite (proj1 (count_occ_not_In sdecl_eq_dec l1 x)), (proj1 (count_occ_not_In sdecl_eq_dec l2 x)); auto.
Qed.

(** * The symbolic layer: one symbol per line, instantiated with the hook / code lists *)
Definition inst (hooks fcs ycs : list string) (s : sdecl) : list decl :=
  match s with
  | SOne d => [d]
  | SHookProtos sig => map (fun h => DHookProto h sig) hooks
  | SHookMembers => map DHookMember hooks
  | SFinishes => map (fun c => DEnum ("FINISH_" ++ c)) fcs
  | SYields => map (fun c => DEnum ("YIELD_" ++ c)) ycs
  end.

Definition item_sym (i : item) : list sdecl :=
  match i with
  | Proto name sig => [SOne (DFun name sig)]
  | HookProto sig => [SHookProtos sig]
  | HookMember => [SHookMembers]
  | Enumerator e => [SOne (DEnum e)]
  | EnumeratorPerFinish => [SFinishes]
  | EnumeratorPerYield => [SYields]
  | _ => []
  end.

Lemma item_decls_sym : forall h f y i, item_decls h f y i = flat_map (inst h f y) (item_sym i).
Proof. destruct i; simpl; rewrite ?app_nil_r; reflexivity. Qed.

Lemma flat_map_flat_map : forall {A B C} (f : B -> list C) (g : A -> list B) l,
  flat_map f (flat_map g l) = flat_map (fun x => flat_map f (g x)) l.
Proof. induction l; simpl; [reflexivity|]. rewrite flat_map_app, IHl. reflexivity. Qed.

Lemma declared_sym_ok : forall h f y l,
  flat_map (item_decls h f y) l = flat_map (inst h f y) (flat_map item_sym l).
Proof.
  intros. rewrite flat_map_flat_map. apply flat_map_ext. intro. apply item_decls_sym.
Qed.

Definition documented_sym (fv : flagvec) : list sdecl :=
  [SOne (DFun "start" sig_start);
   SOne (DFun "feed" (if fv "INDIRECT_START_PTR" then sig_feed_ind else sig_feed_dir))]
  ++ (if fv "EOF_SUPPORT" then [SOne (DFun "end" sig_end)] else [])
  ++ (if fv "DYNAMIC_MEMORY" then [SOne (DFun "free" sig_free)] else [])
  ++ (if fv "HOOK_GLOBAL" then [SHookProtos sig_hook] else [])
  ++ (if fv "HOOK_PER_STATE" then [SHookMembers] else [])
  ++ [SOne (DEnum "OK"); SOne (DEnum "FAIL"); SOne (DEnum "DONE"); SFinishes; SYields].

Lemma documented_sym_ok : forall fv h f y, documented fv h f y = flat_map (inst h f y) (documented_sym fv).
Proof.
  intros. unfold documented, documented_functions, documented_sym.
  destruct (fv "EOF_SUPPORT"), (fv "DYNAMIC_MEMORY"), (fv "HOOK_GLOBAL"), (fv "HOOK_PER_STATE");
    simpl; rewrite ?app_nil_r; reflexivity.
Qed.

Definition doc_flags := ["INDIRECT_START_PTR"; "EOF_SUPPORT"; "DYNAMIC_MEMORY"; "HOOK_GLOBAL"; "HOOK_PER_STATE"].

Lemma documented_sym_ext : forall fv fv', (forall f, In f doc_flags -> fv f = fv' f) -> documented_sym fv = documented_sym fv'.
Proof.
  intros fv fv' H. unfold documented_sym.
  rewrite (H "INDIRECT_START_PTR"), (H "EOF_SUPPORT"), (H "DYNAMIC_MEMORY"), (H "HOOK_GLOBAL"), (H "HOOK_PER_STATE");
    simpl; tauto.
Qed.

(** * api_exact *)
Definition is_api (i : item) : bool :=
  match i with
  | Proto _ _ | HookProto _ | HookMember | Enumerator _ | EnumeratorPerFinish | EnumeratorPerYield => true
  | _ => false
  end.

Lemma flat_map_filter_api : forall h f y l, flat_map (item_decls h f y) l = flat_map (item_decls h f y) (filter is_api l).
Proof.
  induction l as [|i l IH]; simpl; [reflexivity|].
  destruct i; simpl; rewrite IH; reflexivity.
Qed.

Definition api_tab := sub_tab is_api header_items.
Definition api_check (fv : flagvec) (l : list item) : bool := perm_check (flat_map item_sym l) (documented_sym fv).

(** the API lines are guarded by flags only (no test on the program's outputs decides whether a function exists) *)
Lemma api_tab_flag_only : flag_only_tab api_tab = true.
Proof. vm_compute. reflexivity. Qed.

(** number of flags the enumeration ranges over, and number of assignments checked (recorded in the evidence) *)
Definition api_enum_flags := enum_flags api_tab doc_flags.
Eval vm_compute in (api_enum_flags, length (assignments api_enum_flags)).

Lemma api_check_all : forallb (fun a => api_check (fv_of a) (emitted (fun _ => false) (fv_of a) api_tab)) (assignments api_enum_flags) = true.
Proof. vm_compute. reflexivity. Qed.

Theorem api_exact : forall (data : string -> bool) (fv : flagvec) (hooks fcs ycs : list string),
  Permutation (declared data fv hooks fcs ycs header_items) (documented fv hooks fcs ycs).
Proof.
  intros. unfold declared.
  rewrite flat_map_filter_api, <- (emitted_sub_tab is_api data fv header_items).
  rewrite declared_sym_ok, documented_sym_ok.
  apply Permutation_flat_map. apply perm_check_sound.
  apply (by_enumeration api_tab doc_flags api_check api_tab_flag_only).
  - intros fv1 fv2 H l. unfold api_check. rewrite (documented_sym_ext fv1 fv2 H). reflexivity.
  - exact api_check_all.
Qed.

(** the same statement in the words of the property: a function / hook / enumerator is declared by the header
    if and only if it is documented for those flags, and exactly as often *)
Corollary api_exact_iff : forall data fv hooks fcs ycs d,
  In d (declared data fv hooks fcs ycs header_items) <-> In d (documented fv hooks fcs ycs).
Proof.
  intros. split; apply Permutation_in; [|apply Permutation_sym]; apply api_exact.
Qed.

Corollary api_exact_once : forall data fv hooks fcs ycs d,
  count_occ decl_eq_dec (declared data fv hooks fcs ycs header_items) d = count_occ decl_eq_dec (documented fv hooks fcs ycs) d.
Proof. intros. apply Permutation_count_occ. apply api_exact. Qed.

(** * header_defines_what_source_defines *)
Definition pair_eqb (p q : string * string) : bool := String.eqb (fst p) (fst q) && String.eqb (snd p) (snd q).
Lemma pair_eqb_eq : forall p q, pair_eqb p q = true <-> p = q.
Proof.
  intros [a b] [c d]. unfold pair_eqb. simpl. rewrite andb_true_iff, !String.eqb_eq.
  split; [intros [-> ->]; reflexivity | intro H; inversion H; auto].
Qed.
Definition subsetb (l1 l2 : list (string * string)) : bool := forallb (fun p => existsb (pair_eqb p) l2) l1.
Lemma subsetb_sound : forall l1 l2, subsetb l1 l2 = true -> forall p, In p l1 -> In p l2.
Proof.
  unfold subsetb. intros l1 l2 H p I. rewrite forallb_forall in H. specialize (H p I).
  apply existsb_exists in H. destruct H as [q [Iq E]]. apply pair_eqb_eq in E. subst. exact Iq.
Qed.
Fixpoint nodupb (l : list string) : bool :=
  match l with [] => true | x :: r => negb (existsb (String.eqb x) r) && nodupb r end.
Lemma nodupb_sound : forall l, nodupb l = true -> NoDup l.
Proof.
  induction l as [|x r IH]; simpl; intro H; [constructor|].
  apply andb_true_iff in H. destruct H as [N H]. constructor; [|auto].
  intro I. apply negb_true_iff in N. assert (existsb (String.eqb x) r = true); [|congruence].
  apply existsb_exists. exists x. split; [exact I | apply String.eqb_refl].
Qed.

Definition is_proto (i : item) := match i with Proto _ _ => true | _ => false end.
Definition is_define (i : item) := match i with Define _ _ => true | _ => false end.
Lemma protos_filter : forall l, flat_map item_protos l = flat_map item_protos (filter is_proto l).
Proof. induction l as [|i l IH]; simpl; [reflexivity|]. destruct i; simpl; rewrite IH; reflexivity. Qed.
Lemma defines_filter : forall l, flat_map item_defines l = flat_map item_defines (filter is_define l).
Proof. induction l as [|i l IH]; simpl; [reflexivity|]. destruct i; simpl; rewrite IH; reflexivity. Qed.

(** header and source are evaluated on one combined table: header protos first, source definitions after *)
Definition fun_tab := (sub_tab is_proto header_items ++ sub_tab is_define source_items)%list.
Definition fun_check (fv : flagvec) (l : list item) : bool :=
  let ps := flat_map item_protos l in
  let ds := flat_map item_defines l in
  subsetb ps ds && subsetb ds ps && nodupb (map fst ps) && nodupb (map fst ds).

Lemma fun_tab_flag_only : flag_only_tab fun_tab = true.
Proof. vm_compute. reflexivity. Qed.
Lemma fun_check_all : forallb (fun a => fun_check (fv_of a) (emitted (fun _ => false) (fv_of a) fun_tab)) (assignments (enum_flags fun_tab [])) = true.
Proof. vm_compute. reflexivity. Qed.

Lemma emitted_app : forall data fv t1 t2, emitted data fv (t1 ++ t2) = emitted data fv t1 ++ emitted data fv t2.
Proof. intros. unfold emitted. rewrite filter_app, map_app. reflexivity. Qed.

Lemma flat_map_protos_defines_nil : forall l, flat_map item_protos (filter is_define l) = [].
Proof. induction l as [|i l IH]; simpl; [reflexivity|]. destruct i; simpl; auto. Qed.
Lemma flat_map_defines_protos_nil : forall l, flat_map item_defines (filter is_proto l) = [].
Proof. induction l as [|i l IH]; simpl; [reflexivity|]. destruct i; simpl; auto. Qed.

Theorem header_defines_what_source_defines : forall (data : string -> bool) (fv : flagvec),
  (forall name sig, In (name, sig) (declared_functions data fv header_items) <-> In (name, sig) (defined_functions data fv source_items))
  /\ NoDup (map fst (declared_functions data fv header_items))
  /\ NoDup (map fst (defined_functions data fv source_items)).
Proof.
  intros data fv.
  assert (C : fun_check fv (emitted data fv fun_tab) = true).
  { apply (by_enumeration fun_tab [] fun_check fun_tab_flag_only); [reflexivity | exact fun_check_all]. }
  unfold fun_check, fun_tab in C. cbv zeta in C. rewrite emitted_app, !emitted_sub_tab, !flat_map_app in C.
  rewrite flat_map_protos_defines_nil, flat_map_defines_protos_nil, app_nil_r, app_nil_l in C.
  rewrite <- protos_filter, <- defines_filter in C.
  unfold declared_functions, defined_functions.
  repeat (apply andb_true_iff in C; destruct C as [C ?]).
  split; [|split].
  - intros name sig. split; [apply (subsetb_sound _ _ C) | apply (subsetb_sound _ _ H1)].
  - apply nodupb_sound. assumption.
  - apply nodupb_sound. assumption.
Qed.

(** * guards_balanced *)
Definition is_pp (i : item) : bool :=
  match i with PragmaOnce | GuardOpen | GuardDefine | Endif | CppIfdef | ExternCOpen | CloseBrace => true | _ => false end.

Lemma pp_depth_filter : forall l d, pp_depth d l = pp_depth d (filter is_pp l).
Proof. induction l as [|i l IH]; intro d; simpl; [reflexivity|]. destruct i; simpl; try apply IH. destruct d; auto. Qed.
Lemma extern_depth_filter : forall l d, extern_depth d l = extern_depth d (filter is_pp l).
Proof. induction l as [|i l IH]; intro d; simpl; [reflexivity|]. destruct i; simpl; try apply IH. destruct d; auto. Qed.
Lemma count_filter_pp : forall p l, (forall i, p i = true -> is_pp i = true) -> count_item p l = count_item p (filter is_pp l).
Proof.
  unfold count_item. intros p l H. induction l as [|i l IH]; simpl; [reflexivity|].
  destruct (p i) eqn:P.
  - rewrite (H i P). simpl. rewrite P. simpl. rewrite IH. reflexivity.
  - destruct (is_pp i); simpl; rewrite ?P; exact IH.
Qed.
Lemma balanced_filter : forall l, balanced l = balanced (filter is_pp l).
Proof.
  intro l. unfold balanced.
  rewrite <- pp_depth_filter, <- extern_depth_filter.
  rewrite <- (count_filter_pp is_pragma), <- (count_filter_pp is_guard_open), <- (count_filter_pp is_guard_define);
    try reflexivity; intros [] E; simpl in *; congruence.
Qed.

Definition pp_tab := sub_tab is_pp header_items.
Lemma pp_tab_flag_only : flag_only_tab pp_tab = true.
Proof. vm_compute. reflexivity. Qed.
Lemma pp_check_all : forallb (fun a => balanced (emitted (fun _ => false) (fv_of a) pp_tab)) (assignments (enum_flags pp_tab [])) = true.
Proof. vm_compute. reflexivity. Qed.

Theorem guards_balanced : forall (data : string -> bool) (fv : flagvec), balanced (emitted data fv header_items) = true.
Proof.
  intros. rewrite balanced_filter, <- (emitted_sub_tab is_pp data fv header_items).
  apply (by_enumeration pp_tab [] (fun _ l => balanced l) pp_tab_flag_only); [reflexivity | exact pp_check_all].
Qed.

(** * Hook members are members of the state struct, prototypes and enumerators are not *)
Definition delims_unguarded (tab : list (guard * item)) : bool :=
  forallb (fun gi => match snd gi with StructOpen | CloseDecl => match fst gi with [] => true | _ => false end | _ => true end) tab.

Lemma members_inside_skip : forall i b r, match i with StructOpen | CloseDecl => False | _ => True end ->
  members_inside b (i :: r) = true -> members_inside b r = true.
Proof.
  intros i b r ND H. destruct i; simpl in *; try contradiction; try exact H;
    apply andb_true_iff in H; destruct H; assumption.
Qed.

Lemma members_inside_emitted : forall data fv tab b, delims_unguarded tab = true ->
  members_inside b (map snd tab) = true -> members_inside b (emitted data fv tab) = true.
Proof.
  unfold emitted. induction tab as [|[g i] tab IH]; intros b DU H; [exact H|].
  simpl in DU. apply andb_true_iff in DU. destruct DU as [Di DU].
  simpl. destruct (eval_guard data fv g) eqn:G.
  - simpl. simpl in H. destruct i; simpl in *;
      repeat match goal with
             | H : _ && _ = true |- _ => apply andb_true_iff in H; destruct H
             | |- _ && _ = true => apply andb_true_iff; split
             end; auto.
  - apply IH; [exact DU|]. simpl in H.
    apply (members_inside_skip i b); [|exact H].
    destruct i; auto; simpl in Di; destruct g; try discriminate; simpl in G; discriminate.
Qed.

Lemma header_layout_static : delims_unguarded header_items = true /\ members_inside false (map snd header_items) = true.
Proof. split; vm_compute; reflexivity. Qed.

Theorem hook_members_inside_struct : forall (data : string -> bool) (fv : flagvec),
  members_inside false (emitted data fv header_items) = true.
Proof. intros. apply members_inside_emitted; apply header_layout_static. Qed.

(** * Includes: the header pulls in what its own declarations need; <stdlib.h> iff dynamic memory *)
Definition is_include (i : item) : bool := match i with Include _ | IncludeSelf => true | _ => false end.
Definition item_eqb_inc (h : string) (i : item) : bool := match i with Include g => String.eqb g h | _ => false end.
Definition has_include (h : string) (l : list item) : bool := existsb (item_eqb_inc h) l.
Lemma has_include_filter : forall h l, has_include h l = has_include h (filter is_include l).
Proof. unfold has_include. induction l as [|i l IH]; simpl; [reflexivity|]. destruct i; simpl; rewrite ?IH; reflexivity. Qed.
Lemma has_include_In : forall h l, has_include h l = true <-> In (Include h) l.
Proof.
  unfold has_include. intros. rewrite existsb_exists. split.
  - intros [i [I E]]. destruct i; simpl in E; try discriminate. apply String.eqb_eq in E. subst. exact I.
  - intro I. exists (Include h). split; [exact I | simpl; apply String.eqb_refl].
Qed.

Definition hinc_tab := sub_tab is_include header_items.
Definition sinc_tab := sub_tab is_include source_items.
Definition hinc_check (_ : flagvec) (l : list item) := has_include "stdint.h" l && has_include "stdbool.h" l.
Definition sinc_check (fv : flagvec) (l : list item) :=
  Bool.eqb (has_include "stdlib.h" l) (fv "DYNAMIC_MEMORY") && has_include "string.h" l && existsb (fun i => match i with IncludeSelf => true | _ => false end) l.

Lemma inc_tabs_flag_only : flag_only_tab hinc_tab = true /\ flag_only_tab sinc_tab = true.
Proof. split; vm_compute; reflexivity. Qed.
Lemma hinc_check_all : forallb (fun a => hinc_check (fv_of a) (emitted (fun _ => false) (fv_of a) hinc_tab)) (assignments (enum_flags hinc_tab [])) = true.
Proof. vm_compute. reflexivity. Qed.
Lemma sinc_check_all : forallb (fun a => sinc_check (fv_of a) (emitted (fun _ => false) (fv_of a) sinc_tab)) (assignments (enum_flags sinc_tab ["DYNAMIC_MEMORY"])) = true.
Proof. vm_compute. reflexivity. Qed.

Theorem includes_exact : forall (data : string -> bool) (fv : flagvec),
  In (Include "stdint.h") (emitted data fv header_items)
  /\ In (Include "stdbool.h") (emitted data fv header_items)
  /\ In IncludeSelf (emitted data fv source_items)
  /\ (In (Include "stdlib.h") (emitted data fv source_items) <-> fv "DYNAMIC_MEMORY" = true).
Proof.
  intros data fv.
  assert (H : hinc_check fv (emitted data fv hinc_tab) = true).
  { apply (by_enumeration hinc_tab [] hinc_check (proj1 inc_tabs_flag_only)); [reflexivity | exact hinc_check_all]. }
  assert (S : sinc_check fv (emitted data fv sinc_tab) = true).
  { apply (by_enumeration sinc_tab ["DYNAMIC_MEMORY"] sinc_check (proj2 inc_tabs_flag_only)); [|exact sinc_check_all].
    intros fv1 fv2 E l. unfold sinc_check. rewrite (E "DYNAMIC_MEMORY") by (simpl; auto). reflexivity. }
  unfold hinc_check, hinc_tab in H. unfold sinc_check, sinc_tab in S. rewrite emitted_sub_tab in H, S.
  rewrite <- !has_include_filter in H. rewrite <- !has_include_filter in S.
  apply andb_true_iff in H. destruct H as [H1 H2].
  apply andb_true_iff in S. destruct S as [S S3]. apply andb_true_iff in S. destruct S as [S1 S2].
  repeat split.
  - apply has_include_In. exact H1.
  - apply has_include_In. exact H2.
  - apply existsb_exists in S3. destruct S3 as [i [I E]]. apply filter_In in I. destruct I as [I _].
    destruct i; try discriminate. exact I.
  - intro I. apply has_include_In in I. rewrite I in S1. apply eqb_prop in S1. auto.
  - intro D. rewrite D in S1. apply has_include_In. destruct (has_include "stdlib.h" (emitted data fv source_items)); [reflexivity | discriminate].
Qed.
