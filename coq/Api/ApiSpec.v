(** C11, part A - the DOCUMENTED API of a generated parser (docs/user-ref/generated-code.md, cli.md) as a
    function of the resolved flag vector, the declared hooks and the declared finish / yield codes; and the
    vocabulary of the table that translator/header2coq.py regenerates from CodegenCtx.generate_header /
    generate_source (Gen/GApi.v).

    This file is a specification: nothing here is derived from nmfu.py. *)
From Coq Require Import String List Bool.
Import ListNotations.
Open Scope string_scope.

(** * Flag vectors: the value of every ProgramFlag after load_commandline_flags, by member name *)
Definition flagvec := string -> bool.

(** * Vocabulary of the regenerated table *)
Inductive lit :=
| LFlag (f : string) (pol : bool)      (* ProgramData.do(ProgramFlag.f) = pol *)
| LData (t : string) (pol : bool).     (* any other test (on the program's outputs), kept as text *)
Definition guard := list lit.

Inductive item :=
| Proto (name sig : string)            (* <ret> {pn}_<name>(<params>);   sig = "<ret>(<parameter types>)" *)
| Define (name sig : string)           (* the same head followed by a body, in the .c *)
| HookProto (sig : string)             (* void {pn}_{hook}_hook(...);    once per declared hook *)
| HookMember                           (* {pn}_hook_t {hook}_hook;       once per declared hook *)
| HookTypedef (sig : string)
| Enumerator (e : string)              (* {PN}_OK, / {PN}_FAIL, / {PN}_DONE, *)
| EnumeratorPerFinish                  (* {PN}_FINISH_{fc},              once per finish code *)
| EnumeratorPerYield                   (* {PN}_YIELD_{yc},               once per yield code *)
| Include (h : string) | IncludeSelf
| PragmaOnce | GuardOpen | GuardDefine | Endif
| CppIfdef | ExternCOpen | CloseBrace
| StructFwd | StructOpen | CloseDecl | StateTypedef | UserPtr
| EnumOpen (packed : bool) | ResultTypedef
| Other (text : string).

(** * What a header declares / a source defines *)
Inductive decl :=
| DFun (name sig : string)             (* function {pn}_<name> with that signature *)
| DHookProto (h sig : string)          (* function {pn}_<h>_hook *)
| DHookMember (h : string)             (* member <h>_hook of the state struct, of type {pn}_hook_t *)
| DEnum (e : string).                  (* enumerator {PN}_<e> of {pn}_result *)

(** * The documented signatures (generated-code.md; parameter names are not part of a signature) *)
Definition sig_start    := "{pn}_result_t({pn}_state_t*)".
Definition sig_feed_dir := "{pn}_result_t(const uint8_t*,const uint8_t*,{pn}_state_t*)".
Definition sig_feed_ind := "{pn}_result_t(const uint8_t**,const uint8_t*,{pn}_state_t*)".
Definition sig_end      := "{pn}_result_t({pn}_state_t*)".
Definition sig_free     := "void({pn}_state_t*)".
Definition sig_hook     := "void({pn}_state_t*,uint8_t)".

(** * The documented API *)
Definition documented_functions (fv : flagvec) : list decl :=
  [DFun "start" sig_start;
   DFun "feed" (if fv "INDIRECT_START_PTR" then sig_feed_ind else sig_feed_dir)]
  ++ (if fv "EOF_SUPPORT" then [DFun "end" sig_end] else [])
  ++ (if fv "DYNAMIC_MEMORY" then [DFun "free" sig_free] else []).

Definition documented (fv : flagvec) (hooks fcs ycs : list string) : list decl :=
  documented_functions fv
  ++ (if fv "HOOK_GLOBAL" then map (fun h => DHookProto h sig_hook) hooks else [])
  ++ (if fv "HOOK_PER_STATE" then map DHookMember hooks else [])
  ++ [DEnum "OK"; DEnum "FAIL"; DEnum "DONE"]
  ++ map (fun c => DEnum ("FINISH_" ++ c)) fcs
  ++ map (fun c => DEnum ("YIELD_" ++ c)) ycs.

(** * Evaluation of a table *)
Definition eval_lit (data : string -> bool) (fv : flagvec) (l : lit) : bool :=
  match l with
  | LFlag f pol => Bool.eqb (fv f) pol
  | LData t pol => Bool.eqb (data t) pol
  end.
Definition eval_guard data fv (g : guard) : bool := forallb (eval_lit data fv) g.

(** the lines emitted under a flag vector (and a truth value for every data test), in order *)
Definition emitted (data : string -> bool) (fv : flagvec) (items : list (guard * item)) : list item :=
  map snd (filter (fun gi => eval_guard data fv (fst gi)) items).

(** what one emitted line declares *)
Definition item_decls (hooks fcs ycs : list string) (i : item) : list decl :=
  match i with
  | Proto name sig => [DFun name sig]
  | HookProto sig => map (fun h => DHookProto h sig) hooks
  | HookMember => map DHookMember hooks
  | Enumerator e => [DEnum e]
  | EnumeratorPerFinish => map (fun c => DEnum ("FINISH_" ++ c)) fcs
  | EnumeratorPerYield => map (fun c => DEnum ("YIELD_" ++ c)) ycs
  | _ => []
  end.

Definition declared data fv hooks fcs ycs (items : list (guard * item)) : list decl :=
  flat_map (item_decls hooks fcs ycs) (emitted data fv items).

(** functions defined by the .c / declared by the .h, with their signatures *)
Definition item_defines (i : item) : list (string * string) :=
  match i with Define name sig => [(name, sig)] | _ => [] end.
Definition item_protos (i : item) : list (string * string) :=
  match i with Proto name sig => [(name, sig)] | _ => [] end.
Definition defined_functions data fv items := flat_map item_defines (emitted data fv items).
Definition declared_functions data fv items := flat_map item_protos (emitted data fv items).

(** * Preprocessor structure of the header *)
(** depth of #if nesting after each line, None when an #endif has no opener *)
Fixpoint pp_depth (d : nat) (l : list item) : option nat :=
  match l with
  | [] => Some d
  | (GuardOpen | CppIfdef) :: r => pp_depth (S d) r
  | Endif :: r => match d with O => None | S d' => pp_depth d' r end
  | _ :: r => pp_depth d r
  end.
(** extern "C" { ... } : depth of the linkage block *)
Fixpoint extern_depth (d : nat) (l : list item) : option nat :=
  match l with
  | [] => Some d
  | ExternCOpen :: r => extern_depth (S d) r
  | CloseBrace :: r => match d with O => None | S d' => extern_depth d' r end
  | _ :: r => extern_depth d r
  end.
Definition count_item (p : item -> bool) (l : list item) : nat := length (filter p l).
Definition is_pragma (i : item) := match i with PragmaOnce => true | _ => false end.
Definition is_guard_open (i : item) := match i with GuardOpen => true | _ => false end.
Definition is_guard_define (i : item) := match i with GuardDefine => true | _ => false end.

(** the header is protected against double inclusion in exactly one of the two documented ways, every #if is
    closed, and the extern "C" block is opened iff it is closed *)
Definition balanced (l : list item) : bool :=
  match pp_depth 0 l, extern_depth 0 l with
  | Some 0, Some 0 =>
      match count_item is_pragma l, count_item is_guard_open l, count_item is_guard_define l with
      | 1, 0, 0 | 0, 1, 1 => true
      | _, _, _ => false
      end
  | _, _ => false
  end.

(** hook members and the user pointer are members of the state struct: they appear between `struct {pn}_state {`
    and the `};` that follows it (a property of the order of the table, whatever the flags) *)
Fixpoint members_inside (inside : bool) (l : list item) : bool :=
  match l with
  | [] => negb inside
  | StructOpen :: r => negb inside && members_inside true r
  | CloseDecl :: r => members_inside false r
  | (HookMember | UserPtr) :: r => inside && members_inside inside r
  | (Proto _ _ | HookProto _ | Enumerator _ | EnumeratorPerFinish | EnumeratorPerYield) :: r => negb inside && members_inside inside r
  | _ :: r => members_inside inside r
  end.
