(** C11, part B - which `goto`s and which labels the C code generator emits, and that they resolve.

    A hand mirror (Tie 2) of the label-relevant part of CodegenCtx in /repo/nmfu.py:
      _transition_will_directly_jump, _transition_skip_action_label, _generate_transition_body,
      _generate_action_implementation (AppendTo / AppendCharTo overflow: `goto repeatswitch`, BreakAction:
      `goto skipaction_<id>`, ConditionalAction: recursion), _generate_switch_body / _generate_condition_point_body
      (which transitions of a state are emitted in feed), _generate_end_switch_body (which in end),
      _emitted_transitions_pointing_to, _generate_feed_implementation, _generate_end_implementation.

    The harness compares the lists computed by these definitions with the `goto X;` / `X:` lines scraped from
    the text of feed() and end() of every real compilation of a run (Python mirror on all of them, these very
    definitions under vm_compute on a sample).

    A machine is what the emitter looks at and nothing else: EVERY state of dfa.states (reachable or not) with
    all its transitions. *)
From Coq Require Import List Bool Arith Lia.
Import ListNotations.

(** * The abstract input of the emitter *)

(** actions, as far as labels are concerned *)
Inductive action :=
| AOther                          (* assignment, delete, hook call, yield: override mode NONE, no jump *)
| AFinish                         (* finish / finish code: override mode ALWAYS_GOTO_UNDEFINED, `return` *)
| AAppend                         (* AppendTo / AppendCharTo: override MAY_GOTO_TARGET, overflow -> goto repeatswitch *)
| ABreak (repl : list action)     (* BreakAction: replacement_actions() inlined, then goto skipaction_<id(transition)> *)
| ACond (subs : list action).     (* ConditionalAction: all sub-actions of all branches *)

Record trans := {
  tid : nat;                      (* id(transition): names the skip label *)
  tgt : option nat;               (* dfa.states.index(target), None when the target is not in dfa.states *)
  fall : bool;                    (* is_fallthrough *)
  tgt_acc : bool;                 (* target in dfa.accepting_states *)
  tgt_all_err : bool;             (* all(x.error_handling for x in target.transitions) *)
  has_byte : bool;                (* some on_value is not End: _generate_condition_for_transition is non-empty *)
  is_else : bool;                 (* this is next(state.all_transitions_for((Else,))) *)
  is_end : bool;                  (* this is state[End] (falls back to the Else transition) *)
  acts : list action }.

Inductive skind := KNormal | KCond | KFail.      (* DFState | DFConditionPoint | the generic fail state *)
Record state := { kind : skind; ts : list trans }.
Definition machine := list state.

Inductive label := LRepeat | LFall (n : nat) | LJpto (n : nat) | LSkip (t : nat).

(** * Mirror of the emission rules *)
Section Emit.
  Variable strict : bool.         (* ProgramFlag.STRICT_DONE_TOKEN_GENERATION *)

  (** get_target_override_mode() == ActionOverrideMode.NONE *)
  Fixpoint override_none (a : action) : bool :=
    match a with
    | AOther => true
    | AFinish | AAppend | ABreak _ => false
    | ACond subs => forallb override_none subs
    end.

  (** _transition_will_directly_jump(t, excl_fall) *)
  Definition wdj (excl_fall : bool) (t : trans) : bool :=
    (excl_fall || negb (fall t)) && negb (tgt_acc t && negb strict) && forallb override_none (acts t).

  Definition immediate_done (t : trans) : bool := tgt_acc t && negb strict && tgt_all_err t.

  (** gotos written by _generate_action_implementation(action, transition=t) *)
  Fixpoint action_gotos (id : nat) (a : action) : list label :=
    match a with
    | AOther | AFinish => []
    | AAppend => [LRepeat]
    | ABreak repl => flat_map (action_gotos id) repl ++ [LSkip id]
    | ACond subs => flat_map (action_gotos id) subs
    end.

  (** DTAG.ACTION_MAY_SKIP is imbued on every BreakAction that has been generated; the label is written when some
      member of action.all_subactions() carries it - all_subactions follows embeds(), i.e. the branches of a
      ConditionalAction but NOT the replacement actions of a break *)
  Fixpoint has_skip (a : action) : bool :=
    match a with
    | ABreak _ => true
    | ACond subs => existsb has_skip subs
    | _ => false
    end.

  (** _generate_transition_body(t, from_end) *)
  Definition trans_gotos (from_end : bool) (t : trans) : list label :=
    flat_map (action_gotos (tid t)) (acts t)
    ++ (if fall t then
          match tgt t with
          | Some n => [if wdj true t then LFall n else LRepeat]
          | None => []
          end
        else if immediate_done t then []
        else if from_end then []
        else match tgt t with
             | Some n => [if wdj false t then LJpto n else LRepeat]
             | None => []
             end).
  Definition trans_labels (t : trans) : list label :=
    if existsb has_skip (acts t) then [LSkip (tid t)] else [].

  (** which transitions of a state get a body in feed: _generate_switch_body (every transition other than the else
      transition whose condition text is non-empty, then the else transition), _generate_condition_point_body (all),
      nothing for the generic fail state *)
  Definition emitted_feed (s : state) : list trans :=
    match kind s with
    | KFail => []
    | KCond => ts s
    | KNormal => filter (fun t => negb (is_else t) && has_byte t) (ts s) ++ filter is_else (ts s)
    end.
  (** in end: state[End] only; all branches of a condition point *)
  Definition emitted_end (s : state) : list trans :=
    match kind s with
    | KFail => []
    | KCond => ts s
    | KNormal => filter is_end (ts s)
    end.

  (** _emitted_transitions_pointing_to(state n): from every state of dfa.states *)
  Definition all_trans (m : machine) : list trans := flat_map ts m.
  Definition into (m : machine) (n : nat) : list trans :=
    filter (fun t => match tgt t with Some k => Nat.eqb k n | None => false end) (all_trans m).

  (** the labels written right after `case n:` *)
  Definition feed_head (m : machine) (n : nat) : list label :=
    (if existsb (fun t => fall t && wdj true t) (into m n) then [LFall n] else [])
    ++ (if existsb (wdj false) (into m n) then [LJpto n] else []).
  Definition end_head (m : machine) (n : nat) : list label :=
    if existsb fall (into m n) then [LFall n] else [].
  Definition feed_state_labels (m : machine) (n : nat) (s : state) : list label :=
    feed_head m n ++ flat_map trans_labels (emitted_feed s).
  Definition end_state_labels (m : machine) (n : nat) (s : state) : list label :=
    end_head m n ++ flat_map trans_labels (emitted_end s).

  Fixpoint number {A} (n : nat) (l : list A) : list (nat * A) :=
    match l with [] => [] | x :: r => (n, x) :: number (S n) r end.

  Definition feed_labels (m : machine) : list label :=
    LRepeat :: flat_map (fun ns => feed_state_labels m (fst ns) (snd ns)) (number 0 m).
  Definition feed_gotos (m : machine) : list label :=
    flat_map (fun s => flat_map (trans_gotos false) (emitted_feed s)) m.
  Definition end_labels (m : machine) : list label :=
    LRepeat :: flat_map (fun ns => end_state_labels m (fst ns) (snd ns)) (number 0 m).
  Definition end_gotos (m : machine) : list label :=
    flat_map (fun s => flat_map (trans_gotos true) (emitted_end s)) m.

  (** * Facts about the input that hold by construction in Python *)
  (** list.index returns a position of the list *)
  Definition targets_in_range (m : machine) : Prop :=
    forall t n, In t (all_trans m) -> tgt t = Some n -> n < length m.
  (** id() of distinct live objects differ, and no transition object sits in two states *)
  Definition tids_distinct (m : machine) : Prop := NoDup (map tid (all_trans m)).

  (** * Induction principle for the nested action type *)
  Section ActionInd.
    Variable P : action -> Prop.
    Hypothesis HO : P AOther.
    Hypothesis HF : P AFinish.
    Hypothesis HA : P AAppend.
    Hypothesis HB : forall repl, Forall P repl -> P (ABreak repl).
    Hypothesis HC : forall subs, Forall P subs -> P (ACond subs).
    Fixpoint action_ind' (a : action) : P a :=
      match a with
      | AOther => HO | AFinish => HF | AAppend => HA
      | ABreak repl => HB repl ((fix go (l : list action) : Forall P l :=
                                   match l with [] => Forall_nil P | x :: r => Forall_cons x (action_ind' x) (go r) end) repl)
      | ACond subs => HC subs ((fix go (l : list action) : Forall P l :=
                                   match l with [] => Forall_nil P | x :: r => Forall_cons x (action_ind' x) (go r) end) subs)
      end.
  End ActionInd.

  (** * Lemmas *)
  Lemma nodup_app : forall {A} (l1 l2 : list A), NoDup l1 -> NoDup l2 -> (forall x, In x l1 -> In x l2 -> False) -> NoDup (l1 ++ l2).
  Proof.
    induction l1 as [|x r IH]; simpl; intros l2 N1 N2 D; [exact N2|].
    inversion N1; subst. constructor.
    - intro I. apply in_app_or in I. destruct I; [contradiction | eapply D; eauto].
    - apply IH; auto. intros y I1 I2. eapply D; eauto.
  Qed.
  Lemma nodup_app_l : forall {A} (l1 l2 : list A), NoDup (l1 ++ l2) -> NoDup l1.
  Proof.
    induction l1 as [|x r IH]; simpl; intros l2 N; [constructor|]. inversion N; subst. constructor; [|eauto].
    intro I. apply H1. apply in_or_app; auto.
  Qed.
  Lemma nodup_app_r : forall {A} (l1 l2 : list A), NoDup (l1 ++ l2) -> NoDup l2.
  Proof. induction l1 as [|x r IH]; simpl; intros l2 N; [exact N|]. inversion N; subst. eauto. Qed.
  Lemma nodup_app_disjoint : forall {A} (l1 l2 : list A), NoDup (l1 ++ l2) -> forall x, In x l1 -> In x l2 -> False.
  Proof.
    induction l1 as [|y r IH]; simpl; intros l2 N x I1 I2; [contradiction|].
    inversion N; subst. destruct I1 as [->|I1]; [apply H1; apply in_or_app; auto | eapply IH; eauto].
  Qed.
  (** an action only ever jumps to repeatswitch or to the skip label of ITS transition *)
  Lemma action_gotos_shape : forall id a l, In l (action_gotos id a) -> l = LRepeat \/ l = LSkip id.
  Proof.
    intros id a. induction a as [| | |repl IH|subs IH] using action_ind'; simpl; intros l H; try contradiction.
    - destruct H as [<-|[]]; auto.
    - apply in_app_or in H. destruct H as [H|[<-|[]]]; auto.
      apply in_flat_map in H. destruct H as [x [Ix Hx]]. rewrite Forall_forall in IH. eauto.
    - apply in_flat_map in H. destruct H as [x [Ix Hx]]. rewrite Forall_forall in IH. eauto.
  Qed.

  (** the heart of the skip-label rule: whenever generating an action writes `goto skipaction_`, the first break on
      the way down is reachable through embeds() and has been marked *)
  Lemma skip_goto_marked : forall id a, In (LSkip id) (action_gotos id a) -> has_skip a = true.
  Proof.
    intros id a. induction a as [| | |repl IH|subs IH] using action_ind'; simpl; intro H; try contradiction; auto.
    - destruct H as [H|[]]. discriminate.
    - apply in_flat_map in H. destruct H as [x [Ix Hx]]. rewrite Forall_forall in IH.
      apply existsb_exists. exists x. split; auto.
  Qed.

  Lemma number_spec : forall {A} (l : list A) k n x, In (n, x) (number k l) <-> (k <= n /\ nth_error l (n - k) = Some x).
  Proof.
    induction l as [|y r IH]; intros k n x; simpl.
    - split; [contradiction|]. intros [_ H]. destruct (n - k); discriminate.
    - split.
      + intros [H|H].
        * inversion H; subst. split; [lia|]. rewrite Nat.sub_diag. reflexivity.
        * apply IH in H. destruct H as [L H]. split; [lia|].
          replace (n - k) with (S (n - S k)) by lia. exact H.
      + intros [L H]. destruct (Nat.eq_dec n k) as [->|NE].
        * rewrite Nat.sub_diag in H. inversion H. auto.
        * right. apply IH. split; [lia|]. replace (n - k) with (S (n - S k)) in H by lia. exact H.
  Qed.

  Lemma number_all : forall {A} (l : list A) n, n < length l -> exists x, In (n, x) (number 0 l).
  Proof.
    intros A l n H. destruct (nth_error l n) as [x|] eqn:E.
    - exists x. apply number_spec. rewrite Nat.sub_0_r. split; [lia | exact E].
    - apply nth_error_None in E. lia.
  Qed.

  Lemma emitted_feed_sub : forall s t, In t (emitted_feed s) -> In t (ts s).
  Proof.
    intros s t. unfold emitted_feed. destruct (kind s); try contradiction; auto.
    intro H. apply in_app_or in H. destruct H as [H|H]; apply filter_In in H; tauto.
  Qed.
  Lemma emitted_end_sub : forall s t, In t (emitted_end s) -> In t (ts s).
  Proof.
    intros s t. unfold emitted_end. destruct (kind s); try contradiction; auto.
    intro H. apply filter_In in H; tauto.
  Qed.

  Lemma in_all_trans : forall m s t, In s m -> In t (ts s) -> In t (all_trans m).
  Proof. intros. unfold all_trans. apply in_flat_map. eauto. Qed.

  Lemma in_into : forall m t n, In t (all_trans m) -> tgt t = Some n -> In t (into m n).
  Proof. intros. unfold into. apply filter_In. split; [assumption|]. rewrite H0. apply Nat.eqb_refl. Qed.

  (** every goto of one emitted transition body is resolved by the labels of the function, given which labels
      the target states get *)
  Lemma trans_gotos_cases : forall from_end t l, In l (trans_gotos from_end t) ->
    l = LRepeat
    \/ (l = LSkip (tid t) /\ existsb has_skip (acts t) = true)
    \/ (exists n, l = LFall n /\ tgt t = Some n /\ fall t = true /\ wdj true t = true)
    \/ (exists n, l = LJpto n /\ tgt t = Some n /\ from_end = false /\ wdj false t = true).
  Proof.
    intros from_end t l H. unfold trans_gotos in H. apply in_app_or in H. destruct H as [H|H].
    - apply in_flat_map in H. destruct H as [a [Ia Ha]].
      destruct (action_gotos_shape _ _ _ Ha) as [->| ->]; [auto|].
      right; left. split; [reflexivity|]. apply existsb_exists. exists a. split; [exact Ia|].
      eapply skip_goto_marked; eauto.
    - destruct (fall t) eqn:F.
      + destruct (tgt t) as [n|] eqn:T; [|contradiction].
        destruct (wdj true t) eqn:W; destruct H as [<-|[]]; auto.
        right; right; left. exists n. auto.
      + destruct (immediate_done t); [contradiction|].
        destruct from_end; [contradiction|].
        destruct (tgt t) as [n|] eqn:T; [|contradiction].
        destruct (wdj false t) eqn:W; destruct H as [<-|[]]; auto.
        right; right; right. exists n. auto.
  Qed.

  (** * No goto without its label *)
  Theorem feed_gotos_resolve : forall m, targets_in_range m ->
    forall l, In l (feed_gotos m) -> In l (feed_labels m).
  Proof.
    intros m TR l H. unfold feed_gotos in H.
    apply in_flat_map in H. destruct H as [s [Is H]].
    apply in_flat_map in H. destruct H as [t [It H]].
    assert (IA : In t (all_trans m)) by (eapply in_all_trans; eauto using emitted_feed_sub).
    destruct (trans_gotos_cases _ _ _ H) as [->|[[-> SK]|[[n [-> [T [F W]]]]|[n [-> [T [_ W]]]]]]].
    - left; reflexivity.
    - right. apply In_nth_error in Is. destruct Is as [k Ek].
      apply in_flat_map. exists (k, s). split.
      + apply number_spec. rewrite Nat.sub_0_r. split; [lia | exact Ek].
      + unfold feed_state_labels. simpl. apply in_or_app; right.
        apply in_flat_map. exists t. split; [exact It|]. unfold trans_labels. rewrite SK. left; reflexivity.
    - right. destruct (number_all m n (TR t n IA T)) as [s' Is'].
      apply in_flat_map. exists (n, s'). split; [exact Is'|].
      unfold feed_state_labels, feed_head. simpl. apply in_or_app; left. apply in_or_app; left.
      replace (existsb (fun t0 => fall t0 && wdj true t0) (into m n)) with true; [left; reflexivity|].
      symmetry. apply existsb_exists. exists t. split; [apply in_into; assumption | rewrite F, W; reflexivity].
    - right. destruct (number_all m n (TR t n IA T)) as [s' Is'].
      apply in_flat_map. exists (n, s'). split; [exact Is'|].
      unfold feed_state_labels, feed_head. simpl. apply in_or_app; left. apply in_or_app; right.
      replace (existsb (wdj false) (into m n)) with true; [left; reflexivity|].
      symmetry. apply existsb_exists. exists t. split; [apply in_into; assumption | exact W].
  Qed.

  Theorem end_gotos_resolve : forall m, targets_in_range m ->
    forall l, In l (end_gotos m) -> In l (end_labels m).
  Proof.
    intros m TR l H. unfold end_gotos in H.
    apply in_flat_map in H. destruct H as [s [Is H]].
    apply in_flat_map in H. destruct H as [t [It H]].
    assert (IA : In t (all_trans m)) by (eapply in_all_trans; eauto using emitted_end_sub).
    destruct (trans_gotos_cases _ _ _ H) as [->|[[-> SK]|[[n [-> [T [F W]]]]|[n [-> [T [FE W]]]]]]].
    - left; reflexivity.
    - right. apply In_nth_error in Is. destruct Is as [k Ek].
      apply in_flat_map. exists (k, s). split.
      + apply number_spec. rewrite Nat.sub_0_r. split; [lia | exact Ek].
      + unfold end_state_labels. simpl. apply in_or_app; right.
        apply in_flat_map. exists t. split; [exact It|]. unfold trans_labels. rewrite SK. left; reflexivity.
    - right. destruct (number_all m n (TR t n IA T)) as [s' Is'].
      apply in_flat_map. exists (n, s'). split; [exact Is'|].
      unfold end_state_labels, end_head. simpl. apply in_or_app; left.
      replace (existsb fall (into m n)) with true; [left; reflexivity|].
      symmetry. apply existsb_exists. exists t. split; [apply in_into; assumption | exact F].
    - discriminate.
  Qed.

  (** * No label twice *)
  Definition is_skip (l : label) : bool := match l with LSkip _ => true | _ => false end.

  Lemma trans_labels_skip : forall t l, In l (trans_labels t) -> l = LSkip (tid t).
  Proof. intros t l. unfold trans_labels. destruct (existsb has_skip (acts t)); simpl; intuition. Qed.

  Lemma NoDup_map_filter_app : forall {A B} (f : A -> B) (p q : A -> bool) l,
    (forall x, p x = true -> q x = true -> False) -> NoDup (map f l) -> NoDup (map f (filter p l ++ filter q l)).
  Proof.
    intros A B f p q l D. induction l as [|x r IH]; simpl; intro N; [constructor|].
    inversion N as [|? ? NI N']; subst.
    assert (NIf : forall g, ~ In (f x) (map f (filter g r))).
    { intros g I. apply NI. apply in_map_iff in I. destruct I as [y [E I]]. apply filter_In in I.
      apply in_map_iff. exists y. tauto. }
    destruct (p x) eqn:P; destruct (q x) eqn:Q.
    - exfalso; eauto.
    - simpl. constructor; [|auto]. rewrite map_app. intro I. apply in_app_or in I. destruct I as [I|I]; eapply NIf; eauto.
    - rewrite map_app. simpl. apply NoDup_Add with (a := f x) (l := map f (filter p r) ++ map f (filter q r)).
      + apply Add_app.
      + split; [rewrite <- map_app; auto|]. intro I. apply in_app_or in I. destruct I as [I|I]; eapply NIf; eauto.
    - auto.
  Qed.

  Lemma NoDup_map_filter : forall {A B} (f : A -> B) (p : A -> bool) l, NoDup (map f l) -> NoDup (map f (filter p l)).
  Proof.
    intros A B f p l. induction l as [|x r IH]; simpl; intro N; [constructor|].
    inversion N as [|? ? NI N']; subst. destruct (p x); simpl; auto. constructor; auto.
    intro I. apply NI. apply in_map_iff in I. destruct I as [y [E I]]. apply filter_In in I. apply in_map_iff. exists y. tauto.
  Qed.

  Lemma emitted_feed_tids : forall s, NoDup (map tid (ts s)) -> NoDup (map tid (emitted_feed s)).
  Proof.
    intros s N. unfold emitted_feed. destruct (kind s); [|exact N|constructor].
    apply NoDup_map_filter_app; [|exact N].
    intros x P Q. rewrite Q in P. discriminate.
  Qed.
  Lemma emitted_end_tids : forall s, NoDup (map tid (ts s)) -> NoDup (map tid (emitted_end s)).
  Proof.
    intros s N. unfold emitted_end. destruct (kind s); [|exact N|constructor].
    apply NoDup_map_filter. exact N.
  Qed.

  (** skip labels of a list of transitions with distinct ids are distinct *)
  Lemma skip_labels_nodup : forall l, NoDup (map tid l) -> NoDup (flat_map trans_labels l).
  Proof.
    induction l as [|t r IH]; simpl; intro N; [constructor|].
    inversion N as [|? ? NI N']; subst. unfold trans_labels at 1.
    destruct (existsb has_skip (acts t)); simpl; auto.
    constructor; auto. intro I. apply in_flat_map in I. destruct I as [t' [I' H]].
    apply trans_labels_skip in H. inversion H as [E]. apply NI. rewrite E. apply in_map. exact I'.
  Qed.

  (** the labels of a whole function: a general shape lemma used for feed and for end *)
  Section Once.
    Variable emitted : state -> list trans.
    Variable head : machine -> nat -> list label.      (* the fall_/jpto_ labels of case n *)
    Hypothesis emitted_sub : forall s t, In t (emitted s) -> In t (ts s).
    Hypothesis emitted_tids : forall s, NoDup (map tid (ts s)) -> NoDup (map tid (emitted s)).
    Hypothesis head_shape : forall m n l, In l (head m n) -> l = LFall n \/ l = LJpto n.
    Hypothesis head_nodup : forall m n, NoDup (head m n).

    Definition fn_labels (m0 : machine) (k : nat) (m : machine) : list label :=
      flat_map (fun ns => head m0 (fst ns) ++ flat_map trans_labels (emitted (snd ns))) (number k m).

    Lemma fn_labels_in : forall m0 m k l, In l (fn_labels m0 k m) ->
      (exists n, k <= n /\ (l = LFall n \/ l = LJpto n)) \/ (exists s t, In s m /\ In t (ts s) /\ l = LSkip (tid t)).
    Proof.
      intros m0 m. induction m as [|s r IH]; simpl; intros k l H; [contradiction|].
      unfold fn_labels in H. simpl in H. apply in_app_or in H. destruct H as [H|H].
      - apply in_app_or in H. destruct H as [H|H].
        + left. exists k. split; [lia|]. eapply head_shape; eauto.
        + right. apply in_flat_map in H. destruct H as [t [It H]]. apply trans_labels_skip in H.
          exists s, t. split; [left; reflexivity|]. split; [apply emitted_sub; exact It | exact H].
      - apply IH in H. destruct H as [[n [L H]]|[s' [t [Is [It H]]]]].
        + left. exists n. split; [lia | exact H].
        + right. exists s', t. split; [right; exact Is | auto].
    Qed.

    Lemma fn_labels_nodup : forall m0 m k, NoDup (map tid (all_trans m)) -> NoDup (fn_labels m0 k m).
    Proof.
      intros m0 m. induction m as [|s r IH]; intros k N; [constructor|].
      unfold fn_labels. simpl. unfold all_trans in N. simpl in N. rewrite map_app in N.
      assert (Ns : NoDup (map tid (ts s))) by (eapply nodup_app_l; eauto).
      assert (Nr : NoDup (map tid (all_trans r))) by (eapply nodup_app_r; eauto).
      (* three pairwise disjoint duplicate-free parts *)
      assert (D1 : NoDup (head m0 k ++ flat_map trans_labels (emitted s))).
      { apply nodup_app; [apply head_nodup | apply skip_labels_nodup; apply emitted_tids; exact Ns |].
        intros l H1 H2. apply in_flat_map in H2. destruct H2 as [t [_ H2]]. apply trans_labels_skip in H2.
        destruct (head_shape _ _ _ H1); congruence. }
      apply nodup_app; [exact D1 | apply (IH (S k) Nr) |].
      intros l H1 H2. apply fn_labels_in in H2.
      apply in_app_or in H1. destruct H1 as [H1|H1].
      - destruct (head_shape _ _ _ H1) as [->| ->]; destruct H2 as [[n [L [E|E]]]|[s' [t [_ [_ E]]]]]; try discriminate;
          inversion E; lia.
      - apply in_flat_map in H1. destruct H1 as [t [It E]]. apply trans_labels_skip in E. subst l.
        destruct H2 as [[n [_ [E|E]]]|[s' [t' [Is' [It' E]]]]]; try discriminate. inversion E as [E'].
        (* the same id in state s and in a later state: contradicts distinctness *)
        apply (nodup_app_disjoint _ _ N (tid t)).
        + apply in_map. apply emitted_sub. exact It.
        + rewrite E'. apply in_map. apply in_flat_map. exists s'. auto.
    Qed.
  End Once.
  (** * The two functions *)
  Lemma feed_labels_fn : forall m, feed_labels m = LRepeat :: fn_labels emitted_feed feed_head m 0 m.
  Proof. reflexivity. Qed.
  Lemma end_labels_fn : forall m, end_labels m = LRepeat :: fn_labels emitted_end end_head m 0 m.
  Proof. reflexivity. Qed.

  Lemma feed_head_shape : forall m n l, In l (feed_head m n) -> l = LFall n \/ l = LJpto n.
  Proof.
    intros m n l. unfold feed_head.
    destruct (existsb _ (into m n)); destruct (existsb (wdj false) (into m n)); simpl; intuition.
  Qed.
  Lemma feed_head_nodup : forall m n, NoDup (feed_head m n).
  Proof.
    intros m n. unfold feed_head.
    destruct (existsb _ (into m n)); destruct (existsb (wdj false) (into m n)); simpl;
      repeat constructor; simpl; intuition discriminate.
  Qed.
  Lemma end_head_shape : forall m n l, In l (end_head m n) -> l = LFall n \/ l = LJpto n.
  Proof. intros m n l. unfold end_head. destruct (existsb fall (into m n)); simpl; intuition. Qed.
  Lemma end_head_nodup : forall m n, NoDup (end_head m n).
  Proof. intros m n. unfold end_head. destruct (existsb fall (into m n)); repeat constructor; simpl; tauto. Qed.

  Theorem feed_labels_once : forall m, tids_distinct m -> NoDup (feed_labels m).
  Proof.
    intros m N. rewrite feed_labels_fn. constructor.
    - intro I. apply (fn_labels_in emitted_feed feed_head emitted_feed_sub feed_head_shape) in I.
      destruct I as [[n [_ [E|E]]]|[s [t [_ [_ E]]]]]; discriminate.
    - apply fn_labels_nodup; [exact emitted_feed_sub | exact emitted_feed_tids | exact feed_head_shape | exact feed_head_nodup | exact N].
  Qed.
  Theorem end_labels_once : forall m, tids_distinct m -> NoDup (end_labels m).
  Proof.
    intros m N. rewrite end_labels_fn. constructor.
    - intro I. apply (fn_labels_in emitted_end end_head emitted_end_sub end_head_shape) in I.
      destruct I as [[n [_ [E|E]]]|[s [t [_ [_ E]]]]]; discriminate.
    - apply fn_labels_nodup; [exact emitted_end_sub | exact emitted_end_tids | exact end_head_shape | exact end_head_nodup | exact N].
  Qed.
End Emit.

Definition label_eq_dec : forall a b : label, {a = b} + {a <> b}.
Proof. decide equality; apply Nat.eq_dec. Defined.

(** * labels_resolve: for EVERY machine - whatever its states, reachable or not, whatever its transitions and
    actions - and both settings of strict-done, every goto written into feed() has its label written exactly once
    in feed(), every goto written into end() has its label written exactly once in end(), and no label is written
    twice in either function.  The two hypotheses are facts about Python values, not about the compiler's
    logic: list.index returns a position of the list; id() is injective on live objects (and a transition object
    belongs to one state). *)
Theorem labels_resolve : forall (strict : bool) (m : machine), targets_in_range m -> tids_distinct m ->
  (forall l, In l (feed_gotos strict m) -> count_occ label_eq_dec (feed_labels strict m) l = 1)
  /\ (forall l, In l (end_gotos strict m) -> count_occ label_eq_dec (end_labels m) l = 1)
  /\ NoDup (feed_labels strict m) /\ NoDup (end_labels m).
Proof.
  intros strict m TR TD.
  pose proof (feed_labels_once strict m TD) as NF. pose proof (end_labels_once m TD) as NE.
  repeat split; auto.
  - intros l H. apply (proj1 (NoDup_count_occ' label_eq_dec _) NF). apply feed_gotos_resolve; assumption.
  - intros l H. apply (proj1 (NoDup_count_occ' label_eq_dec _) NE). apply (end_gotos_resolve strict); assumption.
Qed.

(** * Executable side conditions and comparison, for the harness (evaluated by vm_compute on real machines) *)
Definition targets_in_rangeb (m : machine) : bool :=
  forallb (fun t => match tgt t with Some n => Nat.ltb n (length m) | None => true end) (all_trans m).
Fixpoint nat_nodupb (l : list nat) : bool :=
  match l with [] => true | x :: r => negb (existsb (Nat.eqb x) r) && nat_nodupb r end.
Definition tids_distinctb (m : machine) : bool := nat_nodupb (map tid (all_trans m)).

Lemma targets_in_rangeb_ok : forall m, targets_in_rangeb m = true -> targets_in_range m.
Proof.
  unfold targets_in_rangeb, targets_in_range. intros m H t n I T. rewrite forallb_forall in H.
  specialize (H t I). rewrite T in H. apply Nat.ltb_lt. exact H.
Qed.
Lemma nat_nodupb_ok : forall l, nat_nodupb l = true -> NoDup l.
Proof.
  induction l as [|x r IH]; simpl; intro H; [constructor|].
  apply andb_true_iff in H. destruct H as [N H]. constructor; auto.
  intro I. apply negb_true_iff in N. assert (existsb (Nat.eqb x) r = true); [|congruence].
  apply existsb_exists. exists x. split; [exact I | apply Nat.eqb_refl].
Qed.
Lemma tids_distinctb_ok : forall m, tids_distinctb m = true -> tids_distinct m.
Proof. intros. apply nat_nodupb_ok. assumption. Qed.

Definition labels_eqb (a b : list label) : bool := if list_eq_dec label_eq_dec a b then true else false.
