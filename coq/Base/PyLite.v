(** PyLite: the reading of the Python subset that translator/pylite2coq.py emits.
    Strings are lists of code points (N); Python ints are Z; every operation
    that can raise in CPython returns an explicit [Raise e]; loops run on fuel
    and fuel exhaustion is the distinct outcome [Fuel]. *)
From Coq Require Import ZArith NArith List Bool Lia.
Import ListNotations.

Definition pystr := list N.

Inductive exn := KeyError | IndexError | ValueError | TypeError | NotImplementedError | OtherError
  | Diagnosed (* an NMFUError: a diagnosed compile error, not an internal exception *).

Inductive pyres (A : Type) := Ok (a : A) | Raise (e : exn) | Fuel.
Arguments Ok {A}. Arguments Raise {A}. Arguments Fuel {A}.

Definition bind {A B} (x : pyres A) (f : A -> pyres B) : pyres B :=
  match x with Ok a => f a | Raise e => Raise e | Fuel => Fuel end.
Notation "x <- e ;; k" := (bind e (fun x => k)) (at level 61, e at next level, right associativity).

Definition is_ok {A} (x : pyres A) : bool := match x with Ok _ => true | _ => false end.

(** ** strings *)
Definition py_len {A} (s : list A) : Z := Z.of_nat (length s).

Fixpoint str_eqb (a b : pystr) : bool :=
  match a, b with
  | [], [] => true
  | x :: a', y :: b' => N.eqb x y && str_eqb a' b'
  | _, _ => false
  end.

Lemma str_eqb_eq a b : str_eqb a b = true <-> a = b.
Proof.
  revert b; induction a as [|x a IH]; destruct b as [|y b]; simpl; split; intros H; try discriminate; auto.
  - apply andb_prop in H as [H1 H2]. apply N.eqb_eq in H1. apply IH in H2. subst; auto.
  - inversion H; subst. rewrite N.eqb_refl. simpl. apply IH. reflexivity.
Qed.

Lemma str_eqb_refl a : str_eqb a a = true.
Proof. apply str_eqb_eq; reflexivity. Qed.

(** s[i] for a (possibly negative) Python index; the result is a one-character string *)
Definition norm_index {A} (s : list A) (i : Z) : option nat :=
  let n := py_len s in
  let j := if (i <? 0)%Z then (n + i)%Z else i in
  if ((0 <=? j) && (j <? n))%Z then Some (Z.to_nat j) else None.

Definition py_index (s : pystr) (i : Z) : pyres pystr :=
  match norm_index s i with
  | Some j => match nth_error s j with Some c => Ok [c] | None => Raise IndexError end
  | None => Raise IndexError
  end.

Definition py_index_gen {A} (s : list A) (i : Z) : pyres A :=
  match norm_index s i with
  | Some j => match nth_error s j with Some c => Ok c | None => Raise IndexError end
  | None => Raise IndexError
  end.

(** slice bounds are clamped as CPython does; [None] bounds are the defaults for step 1 *)
Definition clamp_bound {A} (s : list A) (b : option Z) (dflt : Z) : nat :=
  let n := py_len s in
  match b with
  | None => Z.to_nat dflt
  | Some i => let j := if (i <? 0)%Z then Z.max 0 (n + i) else Z.min i n in Z.to_nat j
  end.

Definition py_slice {A} (s : list A) (lo hi : option Z) : list A :=
  let l := clamp_bound s lo 0 in
  let h := clamp_bound s hi (py_len s) in
  firstn (h - l) (skipn l s).

(** s[start::2] *)
Fixpoint every_other {A} (s : list A) : list A :=
  match s with
  | x :: _ :: r => x :: every_other r
  | [x] => [x]
  | [] => []
  end.
Definition py_slice_step2 {A} (s : list A) (lo : option Z) : list A :=
  every_other (skipn (clamp_bound s lo 0) s).

(** [c in s] for a one-character string c and a string (or list of characters) s *)
Definition py_in_chars (c : pystr) (s : pystr) : bool :=
  match c with [x] => existsb (N.eqb x) s | _ => false end.

Definition py_in_strlist (c : pystr) (l : list pystr) : bool := existsb (str_eqb c) l.

Definition py_chr (n : Z) : pyres pystr :=
  if ((0 <=? n) && (n <? 1114112))%Z then Ok [Z.to_N n] else Raise ValueError.

Definition py_ord (s : pystr) : pyres Z :=
  match s with [c] => Ok (Z.of_N c) | _ => Raise TypeError end.

(** ** dictionaries with string keys (literal tables) *)
Fixpoint dict_get {V} (d : list (pystr * V)) (k : pystr) : pyres V :=
  match d with
  | [] => Raise KeyError
  | (k', v) :: r => if str_eqb k k' then Ok v else dict_get r k
  end.
Definition dict_get_default {V} (d : list (pystr * V)) (k : pystr) (dflt : V) : V :=
  match dict_get d k with Ok v => v | _ => dflt end.

Fixpoint zdict_get {V} (d : list (Z * V)) (k : Z) : option V :=
  match d with
  | [] => None
  | (k', v) :: r => if Z.eqb k k' then Some v else zdict_get r k
  end.

(** ** int(s, base) -- CPython's rules: surrounding whitespace stripped, optional sign,
    optional base prefix (only when it matches the base), digits separated by single
    underscores.  [py_int_lit] is cross-checked against CPython on every run. *)
Definition is_py_space (c : N) : bool :=
  (* str.isspace() for code points < 256 *)
  ((9 <=? c) && (c <=? 13) || (28 <=? c) && (c <=? 32) || (c =? 133) || (c =? 160))%N.

Fixpoint lstrip (s : pystr) : pystr :=
  match s with c :: r => if is_py_space c then lstrip r else s | [] => [] end.
Definition strip (s : pystr) : pystr := rev (lstrip (rev (lstrip s))).

Definition digit_val (c : N) : option Z :=
  if ((48 <=? c) && (c <=? 57))%N then Some (Z.of_N c - 48)%Z
  else if ((97 <=? c) && (c <=? 122))%N then Some (Z.of_N c - 87)%Z
  else if ((65 <=? c) && (c <=? 90))%N then Some (Z.of_N c - 55)%Z
  else None.

(** digits with single underscores between them; [prev_digit] says whether the previous
    character was a digit (an underscore is only legal then, and must be followed by a digit) *)
Fixpoint parse_digits (base : Z) (s : pystr) (acc : Z) (prev_digit : bool) : option Z :=
  match s with
  | [] => if prev_digit then Some acc else None
  | c :: r =>
    if (c =? 95)%N then (if prev_digit then parse_digits base r acc false else None)
    else match digit_val c with
         | Some v => if (v <? base)%Z then parse_digits base r (acc * base + v)%Z true else None
         | None => None
         end
  end.

Definition strip_prefix (base : Z) (s : pystr) : pystr * bool :=
  match s with
  | z :: p :: r =>
      if (z =? 48)%N &&
         (((base =? 16)%Z && ((p =? 120) || (p =? 88))%N)
          || ((base =? 2)%Z && ((p =? 98) || (p =? 66))%N)
          || ((base =? 8)%Z && ((p =? 111) || (p =? 79))%N))
      then (r, true) else (s, false)
  | _ => (s, false)
  end.

Definition split_sign (s : pystr) : Z * pystr :=
  match s with
  | c :: r => if (c =? 43)%N then (1%Z, r) else if (c =? 45)%N then ((-1)%Z, r) else (1%Z, s)
  | [] => (1%Z, s)
  end.

Definition py_int_lit (s : pystr) (base : Z) : pyres Z :=
  let s := strip s in
  let '(sign, s) := split_sign s in
  let '(body, had_prefix) := strip_prefix base s in
  (* after a prefix one leading underscore is allowed *)
  let body := if had_prefix then match body with u :: r => if (u =? 95)%N then r else body | _ => body end else body in
  match parse_digits base body 0 false with
  | Some v => Ok (sign * v)%Z
  | None => Raise ValueError
  end.

(** ** formatting *)
Definition hexdigit (v : N) : N := if (v <? 10)%N then (48 + v)%N else (87 + v)%N.
(** "{:02x}".format(i) for 0 <= i < 256 *)
Definition fmt_02x (i : Z) : pystr :=
  let n := Z.to_N i in [hexdigit (n / 16 mod 16); hexdigit (n mod 16)].

(** "{:03o}".format(i) for 0 <= i < 512 *)
Definition fmt_03o (i : Z) : pystr :=
  let n := Z.to_N i in [(48 + n / 64 mod 8)%N; (48 + n / 8 mod 8)%N; (48 + n mod 8)%N].

(** str.encode('latin-1'): UnicodeEncodeError above 255 *)
Fixpoint latin1_encode (s : pystr) : pyres (list Z) :=
  match s with
  | [] => Ok []
  | c :: r => if (c <? 256)%N then (t <- latin1_encode r ;; Ok (Z.of_N c :: t)) else Raise OtherError
  end.

(** str.encode('utf-8') for code points < 2^16 (all that the front end can produce: < 256
    from escapes, BMP from raw source characters); astral code points are out of the model *)
Fixpoint utf8_encode (s : pystr) : list N :=
  match s with
  | [] => []
  | c :: r =>
    (if (c <? 128)%N then [c]
     else if (c <? 2048)%N then [(192 + c / 64)%N; (128 + c mod 64)%N]
     else [(224 + c / 4096)%N; (128 + (c / 64) mod 64)%N; (128 + c mod 64)%N]) ++ utf8_encode r
  end.

Definition zip {A B} := @combine A B.
