(** Bridge lemmas about the PyLite operations, used by proofs over generated code. *)
From Coq Require Import ZArith NArith List Bool Lia.
Import ListNotations.
From NV Require Import Base.PyLite.

Lemma py_len_app {A} (a b : list A) : py_len (a ++ b) = (py_len a + py_len b)%Z.
Proof. unfold py_len. rewrite app_length. lia. Qed.

Lemma py_len_nonneg {A} (a : list A) : (0 <= py_len a)%Z.
Proof. unfold py_len. lia. Qed.

Lemma norm_index_at {A} (pre rest : list A) (c : A) :
  norm_index (pre ++ c :: rest) (py_len pre) = Some (length pre).
Proof.
  unfold norm_index.
  pose proof (py_len_nonneg pre) as Hp.
  assert (Hn : (py_len pre < py_len (pre ++ c :: rest))%Z) by (rewrite py_len_app; unfold py_len; simpl length; lia).
  destruct (Z.ltb_spec (py_len pre) 0); [lia|].
  destruct (Z.leb_spec 0 (py_len pre)); [|lia].
  destruct (Z.ltb_spec (py_len pre) (py_len (pre ++ c :: rest))); [|lia].
  simpl. unfold py_len. rewrite Nat2Z.id. reflexivity.
Qed.

Lemma nth_error_app_len {A} (pre : list A) x rest : nth_error (pre ++ x :: rest) (length pre) = Some x.
Proof. induction pre; simpl; auto. Qed.

Lemma py_index_at (pre rest : pystr) (c : N) :
  py_index (pre ++ c :: rest) (py_len pre) = Ok [c].
Proof. unfold py_index. rewrite norm_index_at, nth_error_app_len. reflexivity. Qed.

Lemma py_index_end (pre : pystr) : py_index pre (py_len pre) = Raise IndexError.
Proof.
  unfold py_index, norm_index.
  replace (py_len pre <? 0)%Z with false by (symmetry; apply Z.ltb_ge; apply py_len_nonneg).
  rewrite Z.ltb_irrefl. rewrite andb_false_r. reflexivity.
Qed.

Lemma ltb_len_in {A} (pre rest : list A) c : (py_len pre <? py_len (pre ++ c :: rest))%Z = true.
Proof. apply Z.ltb_lt. rewrite py_len_app. unfold py_len. simpl length. lia. Qed.

Lemma ltb_len_end {A} (pre : list A) : (py_len pre <? py_len (pre ++ []))%Z = false.
Proof. rewrite app_nil_r. apply Z.ltb_irrefl. Qed.

Lemma py_len_snoc {A} (pre : list A) c : (py_len pre + 1)%Z = py_len (pre ++ [c]).
Proof. rewrite py_len_app. reflexivity. Qed.

Lemma skipn_app_len {A} (pre rest : list A) : skipn (length pre) (pre ++ rest) = rest.
Proof. induction pre; simpl; auto. Qed.

Lemma firstn_app_len {A} (pre rest : list A) : firstn (length pre) (pre ++ rest) = pre.
Proof. induction pre; simpl; auto. f_equal; auto. Qed.

Lemma clamp_some_in {A} (s : list A) (i : Z) : (0 <= i <= py_len s)%Z ->
  clamp_bound s (Some i) 0 = Z.to_nat i.
Proof.
  intros H. unfold clamp_bound. replace (i <? 0)%Z with false by (symmetry; apply Z.ltb_ge; lia).
  rewrite Z.min_l by lia. reflexivity.
Qed.

(** s[len pre : len pre + len mid] on pre ++ mid ++ rest *)
Lemma py_slice_mid {A} (pre mid rest : list A) :
  py_slice (pre ++ mid ++ rest) (Some (py_len pre)) (Some (py_len pre + py_len mid)%Z) = mid.
Proof.
  unfold py_slice.
  assert (H1 : clamp_bound (pre ++ mid ++ rest) (Some (py_len pre)) 0 = length pre).
  { unfold clamp_bound. replace (py_len pre <? 0)%Z with false by (symmetry; apply Z.ltb_ge; apply py_len_nonneg).
    rewrite Z.min_l by (rewrite !py_len_app; pose proof (py_len_nonneg mid); pose proof (py_len_nonneg rest); lia).
    unfold py_len. apply Nat2Z.id. }
  assert (H2 : clamp_bound (pre ++ mid ++ rest) (Some (py_len pre + py_len mid)%Z) (py_len (pre ++ mid ++ rest)) = (length pre + length mid)%nat).
  { unfold clamp_bound. pose proof (py_len_nonneg pre). pose proof (py_len_nonneg mid). pose proof (py_len_nonneg rest).
    replace (py_len pre + py_len mid <? 0)%Z with false by (symmetry; apply Z.ltb_ge; lia).
    rewrite Z.min_l by (rewrite !py_len_app; lia).
    unfold py_len. lia. }
  rewrite H1, H2. rewrite skipn_app_len.
  replace (length pre + length mid - length pre)%nat with (length mid) by lia.
  apply firstn_app_len.
Qed.

(** a slice that runs off the end is truncated: s[len pre : len pre + k] with fewer than k left *)
Lemma py_slice_short {A} (pre rest : list A) (k : Z) : (py_len rest <= k)%Z ->
  py_slice (pre ++ rest) (Some (py_len pre)) (Some (py_len pre + k)%Z) = rest.
Proof.
  intros Hk. unfold py_slice.
  pose proof (py_len_nonneg pre). pose proof (py_len_nonneg rest).
  assert (H1 : clamp_bound (pre ++ rest) (Some (py_len pre)) 0 = length pre).
  { unfold clamp_bound. replace (py_len pre <? 0)%Z with false by (symmetry; apply Z.ltb_ge; lia).
    rewrite Z.min_l by (rewrite !py_len_app; lia). unfold py_len. apply Nat2Z.id. }
  assert (H2 : clamp_bound (pre ++ rest) (Some (py_len pre + k)%Z) (py_len (pre ++ rest)) = (length pre + length rest)%nat).
  { unfold clamp_bound. replace (py_len pre + k <? 0)%Z with false by (symmetry; apply Z.ltb_ge; lia).
    rewrite Z.min_r by (rewrite !py_len_app; lia). rewrite py_len_app. unfold py_len. lia. }
  rewrite H1, H2, skipn_app_len.
  replace (length pre + length rest - length pre)%nat with (length rest) by lia.
  rewrite <- (app_nil_r rest) at 2. apply firstn_app_len.
Qed.

(** s[1:-1] strips the quotes *)
Lemma py_slice_quotes {A} (q1 q2 : A) (s : list A) :
  py_slice (q1 :: s ++ [q2]) (Some 1%Z) (Some (-1)%Z) = s.
Proof.
  unfold py_slice, clamp_bound.
  assert (Hl : py_len (q1 :: s ++ [q2]) = (py_len s + 2)%Z).
  { unfold py_len. simpl length. rewrite app_length. simpl. lia. }
  pose proof (py_len_nonneg s).
  replace (1 <? 0)%Z with false by reflexivity.
  replace (-1 <? 0)%Z with true by reflexivity.
  rewrite Hl. rewrite Z.min_l by lia. rewrite Z.max_r by lia.
  replace (Z.to_nat 1) with 1%nat by reflexivity.
  replace (Z.to_nat (py_len s + 2 + -1)) with (S (length s)) by (unfold py_len; lia).
  simpl skipn. replace (S (length s) - 1)%nat with (length s) by lia.
  apply firstn_app_len.
Qed.

Lemma strip_id (s : pystr) : (forall c, In c s -> is_py_space c = false) -> strip s = s.
Proof.
  intros H. unfold strip.
  assert (L : forall t, (forall c, In c t -> is_py_space c = false) -> lstrip t = t).
  { intros t Ht. destruct t as [|c r]; simpl; auto. rewrite (Ht c) by (left; auto). reflexivity. }
  rewrite (L s H). rewrite L. apply rev_involutive.
  intros c Hc. apply H. apply in_rev. exact Hc.
Qed.
