(** Executable runs of the abstract machine under the concrete data semantics: what the gcc-built
    generated parser is compared with (start / feed on a chunk / end / one forced step). *)
From Coq Require Import ZArith NArith List Bool Lia.
Import ListNotations.
From NV Require Import Machine.Dfa Machine.Sem Expr.CArith CSkel.Store.

(** start(): state := start state, then the start actions (hooks get 0 as inval); an append overflow
    or a break in the start actions stores the handler state and returns OK *)
Fixpoint run_start (cfg : ccfg) (a : atree) (q : nat) (x : cdata) : option (res * nat * cdata) :=
  match a with
  | AEnd => Some (ROk, q, x)
  | APrim p k => match nth_error (c_prims cfg) (N.to_nat p) with
                 | Some cp => match exec_cprim cfg cp 0%N x with Some x' => run_start cfg k q x' | None => None end
                 | None => None end
  | ATest c kt kf => match nth_error (c_tests cfg) (N.to_nat c) with
                     | Some ct => match eval_ctest cfg ct 0%N x with
                                  | Some b => run_start cfg (if b then kt else kf) q x | None => None end
                     | None => None end
  | ARet r => Some (r, q, x)
  | AGoto q2 => Some (ROk, q2, x)
  | ABreak q2 => Some (ROk, q2, x)
  end.

Fixpoint apply_defaults (cfg : ccfg) (ps : list cprim) (x : cdata) : option cdata :=
  match ps with
  | [] => Some x
  | p :: r => match exec_cprim cfg p 0%N x with Some x' => apply_defaults cfg r x' | None => None end
  end.

Definition cstart (cfg : ccfg) (d : dfa) (x : cdata) : option (res * nat * cdata) :=
  match apply_defaults cfg (c_defaults cfg) x with
  | Some x0 => run_start cfg (d_start_acts d) (d_start d) x0
  | None => None end.

Record cret := { r_res : res; r_q : nat; r_x : cdata; r_consumed : nat }.

Fixpoint cfeed_go (cfg : ccfg) (d : dfa) (bs : list N) (q : nat) (x : cdata) (n : nat) : option cret :=
  match bs with
  | [] => Some {| r_res := ROk; r_q := q; r_x := x; r_consumed := n |}
  | b :: r =>
    match ceval_tree cfg (step_tree d q b) b x with
    | None => None
    | Some (LConsume q', x') => cfeed_go cfg d r q' x' (S n)
    | Some (LRet rc q' adv, x') => Some {| r_res := rc; r_q := q'; r_x := x'; r_consumed := if adv then S n else n |}
    end
  end.

Definition cfeed (cfg : ccfg) (d : dfa) (bs : list N) (q : nat) (x : cdata) : option cret :=
  match bs with
  | [] => if d_end_check d then Some {| r_res := ROk; r_q := q; r_x := x; r_consumed := 0 |} else None
  | _ => cfeed_go cfg d bs q x 0
  end.

Definition cend (cfg : ccfg) (d : dfa) (q : nat) (x : cdata) : option cret :=
  match ceval_tree cfg (step_tree d q sym_end) 255%N x with
  | Some (LRet rc q' _, x') => Some {| r_res := rc; r_q := q'; r_x := x'; r_consumed := 0 |}
  | _ => None
  end.

(** the concrete feed agrees with the generic [feed] instantiated at (cexec, cevalt) whenever it is
    defined, so the generic theorems (termination, chunk independence, protocol) transfer *)
Lemma cfeed_go_feed_go cfg d : forall bs q x n acc r,
  cfeed_go cfg d bs q x n = Some r ->
  exists evs, feed_go cdata (cexec cfg) (cevalt cfg) d bs q x n acc =
              Some {| f_res := r_res r; f_q := r_q r; f_x := r_x r; f_consumed := r_consumed r; f_evs := evs |}.
Proof.
  induction bs as [|b bs IH]; intros q x n acc r H; cbn [cfeed_go feed_go] in *.
  - inversion H; subst; cbn. eexists; reflexivity.
  - destruct (ceval_tree cfg (step_tree d q b) b x) as [[l x']|] eqn:E; try discriminate.
    destruct (ceval_tree_eval cfg _ _ _ _ _ E) as [es He]. rewrite He.
    destruct l as [q'|rc q' adv].
    + apply IH; auto.
    + inversion H; subst; cbn. eexists; reflexivity.
Qed.

(** ** the capacity invariant along every run (C03 at the level of contents and lengths) *)
Lemma ceval_tree_inv cfg : forall t s x l x', vals_ok (c_decls cfg) (vals x) = true ->
  ceval_tree cfg t s x = Some (l, x') -> vals_ok (c_decls cfg) (vals x') = true.
Proof.
  induction t as [l0|p k IH|c a IHa b IHb|]; cbn [ceval_tree]; intros s x l x' Hok H; try discriminate.
  - inversion H; subst; auto.
  - destruct (nth_error (c_prims cfg) (N.to_nat p)) as [cp|]; try discriminate.
    destruct (exec_cprim cfg cp s x) as [x1|] eqn:Ex; try discriminate.
    eapply IH; [|exact H]. eapply store_inv_prim; eauto.
  - destruct (nth_error (c_tests cfg) (N.to_nat c)) as [ct|]; try discriminate.
    destruct (eval_ctest cfg ct s x) as [bv|]; try discriminate.
    destruct bv; [eapply IHa | eapply IHb]; eauto.
Qed.

Lemma cfeed_go_inv cfg d : forall bs q x n r, vals_ok (c_decls cfg) (vals x) = true ->
  cfeed_go cfg d bs q x n = Some r -> vals_ok (c_decls cfg) (vals (r_x r)) = true.
Proof.
  induction bs as [|b bs IH]; intros q x n r Hok H; cbn [cfeed_go] in H.
  - inversion H; subst; auto.
  - destruct (ceval_tree cfg (step_tree d q b) b x) as [[l x']|] eqn:E; try discriminate.
    pose proof (ceval_tree_inv cfg _ _ _ _ _ Hok E) as Hok'.
    destruct l as [q'|rc q' adv]; [eapply IH; eauto | inversion H; subst; auto].
Qed.

Lemma apply_defaults_inv cfg : forall ps x x', vals_ok (c_decls cfg) (vals x) = true ->
  apply_defaults cfg ps x = Some x' -> vals_ok (c_decls cfg) (vals x') = true.
Proof.
  induction ps as [|p ps IH]; intros x x' Hok H; cbn [apply_defaults] in H.
  - inversion H; subst; auto.
  - destruct (exec_cprim cfg p 0%N x) as [x1|] eqn:E; try discriminate.
    eapply IH; [|exact H]. eapply store_inv_prim; eauto.
Qed.

Lemma run_start_inv cfg : forall a q x r q' x', vals_ok (c_decls cfg) (vals x) = true ->
  run_start cfg a q x = Some (r, q', x') -> vals_ok (c_decls cfg) (vals x') = true.
Proof.
  induction a as [|p k IH|c a1 IH1 a2 IH2|r0|q2|q2]; cbn [run_start]; intros q x r q' x' Hok H;
    try (inversion H; subst; auto; fail).
  - destruct (nth_error (c_prims cfg) (N.to_nat p)) as [cp|]; try discriminate.
    destruct (exec_cprim cfg cp 0%N x) as [x1|] eqn:Ex; try discriminate.
    eapply IH; [|exact H]. eapply store_inv_prim; eauto.
  - destruct (nth_error (c_tests cfg) (N.to_nat c)) as [ct|]; try discriminate.
    destruct (eval_ctest cfg ct 0%N x) as [bv|]; try discriminate.
    destruct bv; [eapply IH1 | eapply IH2]; eauto.
Qed.

(** a history of calls: start, then any sequence of feed / end calls *)
Inductive call := CFeed (bs : list N) | CEnd.

Fixpoint run_calls (cfg : ccfg) (d : dfa) (cs : list call) (q : nat) (x : cdata) : option (nat * cdata) :=
  match cs with
  | [] => Some (q, x)
  | CFeed bs :: r => match cfeed cfg d bs q x with Some ret => run_calls cfg d r (r_q ret) (r_x ret) | None => None end
  | CEnd :: r => match cend cfg d q x with Some ret => run_calls cfg d r (r_q ret) (r_x ret) | None => None end
  end.

Theorem capacity_invariant cfg d : forall x0 r q x cs q' x',
  vals_ok (c_decls cfg) (vals x0) = true ->
  cstart cfg d x0 = Some (r, q, x) ->
  run_calls cfg d cs q x = Some (q', x') ->
  vals_ok (c_decls cfg) (vals x) = true /\ vals_ok (c_decls cfg) (vals x') = true.
Proof.
  intros x0 r q x cs q' x' H0 Hs Hr.
  assert (Hx : vals_ok (c_decls cfg) (vals x) = true).
  { unfold cstart in Hs. destruct (apply_defaults cfg (c_defaults cfg) x0) as [x1|] eqn:E; try discriminate.
    eapply run_start_inv; [|exact Hs]. eapply apply_defaults_inv; eauto. }
  split; auto. clear Hs H0. revert q x Hx Hr.
  induction cs as [|c cs IH]; intros q x Hx Hr; cbn [run_calls] in Hr.
  - inversion Hr; subst; auto.
  - destruct c as [bs|].
    + destruct (cfeed cfg d bs q x) as [ret|] eqn:E; try discriminate.
      eapply IH; [|exact Hr]. unfold cfeed in E. destruct bs as [|b bs'].
      * destruct (d_end_check d); inversion E; subst; auto.
      * eapply cfeed_go_inv; eauto.
    + destruct (cend cfg d q x) as [ret|] eqn:E; try discriminate.
      eapply IH; [|exact Hr]. unfold cend in E.
      destruct (ceval_tree cfg (step_tree d q sym_end) 255%N x) as [[l x1]|] eqn:E2; try discriminate.
      destruct l; try discriminate. inversion E; subst; cbn. eapply ceval_tree_inv; eauto.
Qed.
