(** C03 (model level): a guarded append is always defined and stays inside the buffer; an unguarded
    one does not exist in certified machines; constants that do not fit are not executable. *)
From Coq Require Import ZArith NArith List Bool Lia.
Import ListNotations.
From NV Require Import Machine.Dfa Machine.Sem Expr.CArith CSkel.Store CSkel.Run.
Close Scope Z_scope.
Open Scope nat_scope.

Lemma full_false_room cfg v size null u8 s x :
  vals_ok (c_decls cfg) (vals x) = true ->
  nth_error (c_decls cfg) v = Some (DBuf size null u8) ->
  eval_ctest cfg (TFull v) s x = Some false ->
  exists cells n, nth_error (vals x) v = Some (VBuf cells n) /\ n < eff_size size null /\ length cells = size.
Proof.
  intros Hok Hd Ht. cbn [eval_ctest] in Ht. rewrite Hd in Ht.
  destruct (nth_error (vals x) v) as [[z|cells n]|] eqn:Ev; try discriminate.
  pose proof (vals_ok_nth _ _ _ _ _ Hok Hd Ev) as Hv. cbn [val_ok] in Hv. apply andb_prop in Hv as [Hl Hn].
  apply Nat.eqb_eq in Hl. apply Nat.leb_le in Hn. inversion Ht as [He]. apply Nat.eqb_neq in He.
  exists cells, n. repeat split; auto. lia.
Qed.

(** when the buffer-full test answers "not full" the append that follows it is performed, writes
    inside the array and keeps the invariant (overflow cannot happen behind the guard) *)
Theorem guarded_append_defined cfg v size null u8 s x :
  vals_ok (c_decls cfg) (vals x) = true ->
  nth_error (c_decls cfg) v = Some (DBuf size null u8) ->
  eval_ctest cfg (TFull v) s x = Some false ->
  exists x', exec_cprim cfg (PAppend v) s x = Some x' /\ vals_ok (c_decls cfg) (vals x') = true.
Proof.
  intros Hok Hd Ht. destruct (full_false_room _ _ _ _ _ _ _ Hok Hd Ht) as [cells [n [Ev [Hn Hl]]]].
  assert (E : exists x', exec_cprim cfg (PAppend v) s x = Some x').
  { cbn [exec_cprim]. rewrite Hd, Ev. apply Nat.ltb_lt in Hn. rewrite Hn. eexists; reflexivity. }
  destruct E as [x' E]. exists x'. split; auto. eapply store_inv_prim; eauto.
Qed.

Theorem guarded_append_expr_defined cfg v e size null u8 s x cv :
  vals_ok (c_decls cfg) (vals x) = true ->
  nth_error (c_decls cfg) v = Some (DBuf size null u8) ->
  eval_ctest cfg (TFull v) s x = Some false ->
  ceval (cenv cfg (vals x) s) e = Some cv ->
  exists x', exec_cprim cfg (PAppendExpr v e) s x = Some x' /\ vals_ok (c_decls cfg) (vals x') = true.
Proof.
  intros Hok Hd Ht Hc. destruct (full_false_room _ _ _ _ _ _ _ Hok Hd Ht) as [cells [n [Ev [Hn Hl]]]].
  assert (E : exists x', exec_cprim cfg (PAppendExpr v e) s x = Some x').
  { cbn [exec_cprim]. rewrite Hd, Ev, Hc. apply Nat.ltb_lt in Hn. rewrite Hn. eexists; reflexivity. }
  destruct E as [x' E]. exists x'. split; auto. eapply store_inv_prim; eauto.
Qed.

(** when the buffer is full the test says so: the out-of-space branch is taken instead of writing *)
Theorem full_detected cfg v size null u8 s x cells :
  nth_error (c_decls cfg) v = Some (DBuf size null u8) ->
  nth_error (vals x) v = Some (VBuf cells (eff_size size null)) ->
  eval_ctest cfg (TFull v) s x = Some true.
Proof. intros Hd Ev. cbn [eval_ctest]. rewrite Hd, Ev, Nat.eqb_refl. reflexivity. Qed.

(** certificate on an exported machine: every append primitive sits directly behind the buffer-full
    test of its own variable, on the "not full" side *)
Definition is_append_of (cfg : ccfg) (p : pid) : option nat :=
  match nth_error (c_prims cfg) (N.to_nat p) with
  | Some (PAppend v) => Some v | Some (PAppendExpr v _) => Some v | _ => None end.
Definition is_full_test (cfg : ccfg) (t : tid) (v : nat) : bool :=
  match nth_error (c_tests cfg) (N.to_nat t) with Some (TFull v') => Nat.eqb v v' | _ => false end.

Fixpoint atree_guarded (cfg : ccfg) (guard : option nat) (a : atree) : bool :=
  match a with
  | AEnd | ARet _ | AGoto _ | ABreak _ => true
  | APrim p k =>
      (match is_append_of cfg p with
       | Some v => match guard with Some g => Nat.eqb g v | None => false end
       | None => true end) && atree_guarded cfg None k
  | ATest t kt kf =>
      match nth_error (c_tests cfg) (N.to_nat t) with
      | Some (TFull v) => atree_guarded cfg None kt && atree_guarded cfg (Some v) kf
      | _ => atree_guarded cfg None kt && atree_guarded cfg None kf
      end
  end.

Definition appends_guarded (cfg : ccfg) (d : dfa) : bool :=
  atree_guarded cfg None (d_start_acts d) &&
  forallb (fun st => forallb (fun t => atree_guarded cfg None (t_acts t)) (state_trans st)) (d_states d).

(** constants: a string constant longer than the effective size is not executable in the model
    (the compiler must reject it); one that fits is written inside the array *)
Theorem setstr_fits_iff cfg v bs size null u8 s x cells n :
  nth_error (c_decls cfg) v = Some (DBuf size null u8) ->
  nth_error (vals x) v = Some (VBuf cells n) ->
  (exists x', exec_cprim cfg (PSetStr v bs) s x = Some x') <-> length bs <= eff_size size null.
Proof.
  intros Hd Ev. cbn [exec_cprim]. rewrite Hd, Ev. destruct (Nat.leb (length bs) (eff_size size null)) eqn:E.
  - apply Nat.leb_le in E. split; auto. intros _. eexists; reflexivity.
  - apply Nat.leb_gt in E. split; [intros [x' H]; discriminate | lia].
Qed.
