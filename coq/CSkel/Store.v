(** Concrete data semantics ("CData"): the C state struct's output members as values, and what each
    primitive / test the compiler emits does to them (mirrors CodegenCtx._generate_action_implementation
    and _generate_start_implementation at the level of contents, lengths and capacities). *)
From Coq Require Import ZArith NArith List Bool Lia.
Import ListNotations.
From NV Require Import Machine.Dfa Machine.Sem Expr.CArith.

Inductive odecl :=
| DInt (t : cty)                                  (* int / bool / enum output *)
| DBuf (size : nat) (null : bool) (u8 : bool).    (* str[size] (null-terminated or not) / raw of size bytes *)

Inductive oval :=
| VInt (z : Z)
| VBuf (cells : list (option N)) (counter : nat). (* the whole array; None = indeterminate byte *)

Inductive cprim :=
| PSetInt (v : nat) (e : iexpr)
| PSetStr (v : nat) (bs : list N)
| PDelete (v : nat) (freed : bool)   (* freed: delete may release an on-demand heap buffer (-fdelete-string-free-memory): no content survives it, the cells become indeterminate (among the start actions the buffer is kept, elsewhere it is freed and a later append gets a fresh one) *)
| PAppend (v : nat)
| PAppendExpr (v : nat) (e : iexpr)
| PHook (h : nat).

Inductive ctest := TFull (v : nat) | TCond (e : iexpr).

Record ccfg := {
  c_decls : list odecl;
  c_prims : list cprim;        (* pid -> primitive *)
  c_tests : list ctest;        (* tid -> test *)
  c_safe_idx : bool;
  c_defaults : list cprim }.   (* what start() does before the start actions: default values, in declaration order *)

Record hookrec := { h_id : nat; h_inval : N; h_snap : list oval }.
Record cdata := { vals : list oval; hooks : list hookrec }.

Definition eff_size (size : nat) (null : bool) : nat := if null then size - 1 else size.

(** the C type of a buffer's counter: _integer_containing(size, unsigned) *)
Definition counter_type (size : nat) : cty :=
  if (Z.of_nat size <? 256)%Z then TU8 else if (Z.of_nat size <? 65536)%Z then TU16 else TU32.

Fixpoint set_nth {A} (l : list A) (i : nat) (a : A) : list A :=
  match l, i with
  | [], _ => []
  | _ :: r, O => a :: r
  | x :: r, S i' => x :: set_nth r i' a
  end.

Lemma set_nth_length {A} (l : list A) i a : length (set_nth l i a) = length l.
Proof. revert i; induction l as [|x l IH]; destruct i; simpl; auto. Qed.

Definition cenv (cfg : ccfg) (vs : list oval) (inval : N) : env :=
  {| var_val := fun v => match nth_error (c_decls cfg) v, nth_error vs v with
                         | Some (DInt t), Some (VInt z) => Some (t, z) | _, _ => None end;
     len_val := fun v => match nth_error (c_decls cfg) v, nth_error vs v with
                         | Some (DBuf size _ _), Some (VBuf _ n) => Some (counter_type size, Z.of_nat n) | _, _ => None end;
     idx_val := fun v i => match nth_error (c_decls cfg) v, nth_error vs v with
                           | Some (DBuf size _ u8), Some (VBuf cells _) =>
                               if ((0 <=? i) && (i <? Z.of_nat size))%Z then
                                 Some (match nth_error cells (Z.to_nat i) with
                                       | Some (Some b) => Some (TU8, Z.of_N b)   (* read through a (uint8_t) cast, char or u8 storage alike *)
                                       | _ => None end)
                               else None
                           | _, _ => None end;
     safe_idx := c_safe_idx cfg;
     last := Z.of_N inval |}.

Fixpoint write_cells (cells : list (option N)) (at_ : nat) (bs : list N) : list (option N) :=
  match bs with [] => cells | b :: r => write_cells (set_nth cells at_ (Some b)) (S at_) r end.

(** [None] = the C code would have undefined behaviour / an undefined value (the step is then outside
    the property's scope and outside the comparison) *)
Definition exec_cprim (cfg : ccfg) (p : cprim) (inval : N) (x : cdata) : option cdata :=
  let vs := vals x in
  match p with
  | PSetInt v e =>
      match nth_error (c_decls cfg) v, ceval (cenv cfg vs inval) e with
      | Some (DInt t), Some cv => Some {| vals := set_nth vs v (VInt (store_conv t cv)); hooks := hooks x |}
      | _, _ => None end
  | PSetStr v bs =>
      match nth_error (c_decls cfg) v, nth_error vs v with
      | Some (DBuf size null _), Some (VBuf cells _) =>
          if Nat.leb (length bs) (eff_size size null) then
            Some {| vals := set_nth vs v (VBuf (write_cells cells 0 (if null then bs ++ [0%N] else bs)) (length bs)); hooks := hooks x |}
          else None
      | _, _ => None end
  | PDelete v freed =>
      match nth_error (c_decls cfg) v, nth_error vs v with
      | Some (DBuf size null _), Some (VBuf cells _) =>
          Some {| vals := set_nth vs v (VBuf (if freed then map (fun _ => None) cells
                                               else if null then set_nth cells 0 (Some 0%N) else cells) 0); hooks := hooks x |}
      | _, _ => None end
  | PAppend v =>
      match nth_error (c_decls cfg) v, nth_error vs v with
      | Some (DBuf size null _), Some (VBuf cells n) =>
          if Nat.ltb n (eff_size size null) then
            let cells' := set_nth cells n (Some inval) in
            Some {| vals := set_nth vs v (VBuf (if null then set_nth cells' (S n) (Some 0%N) else cells') (S n)); hooks := hooks x |}
          else None      (* the guarding TFull test excludes this *)
      | _, _ => None end
  | PAppendExpr v e =>
      match nth_error (c_decls cfg) v, nth_error vs v, ceval (cenv cfg vs inval) e with
      | Some (DBuf size null _), Some (VBuf cells n), Some cv =>
          if Nat.ltb n (eff_size size null) then
            let b := Z.to_N (wrap TU8 (snd cv)) in
            let cells' := set_nth cells n (Some b) in
            Some {| vals := set_nth vs v (VBuf (if null then set_nth cells' (S n) (Some 0%N) else cells') (S n)); hooks := hooks x |}
          else None
      | _, _, _ => None end
  | PHook h => Some {| vals := vs; hooks := hooks x ++ [{| h_id := h; h_inval := inval; h_snap := vs |}] |}
  end.

Definition eval_ctest (cfg : ccfg) (t : ctest) (inval : N) (x : cdata) : option bool :=
  match t with
  | TFull v => match nth_error (c_decls cfg) v, nth_error (vals x) v with
               | Some (DBuf size null _), Some (VBuf _ n) => Some (Nat.eqb n (eff_size size null))
               | _, _ => None end
  | TCond e => match ceval (cenv cfg (vals x) inval) e with Some cv => Some (truth cv) | None => None end
  end.

(** the instance of the generic data semantics (total: undefined steps leave the data unchanged /
    answer false; [ceval_tree] below is the partial evaluator that detects them) *)
Definition cexec (cfg : ccfg) (p : pid) (s : sym) (x : cdata) : cdata :=
  match nth_error (c_prims cfg) (N.to_nat p) with
  | Some cp => match exec_cprim cfg cp s x with Some x' => x' | None => x end
  | None => x end.
Definition cevalt (cfg : ccfg) (t : tid) (s : sym) (x : cdata) : bool :=
  match nth_error (c_tests cfg) (N.to_nat t) with
  | Some ct => match eval_ctest cfg ct s x with Some b => b | None => false end
  | None => false end.

Fixpoint ceval_tree (cfg : ccfg) (t : tree) (s : sym) (x : cdata) : option (leaf * cdata) :=
  match t with
  | Leaf l => Some (l, x)
  | Act p k => match nth_error (c_prims cfg) (N.to_nat p) with
               | Some cp => match exec_cprim cfg cp s x with Some x' => ceval_tree cfg k s x' | None => None end
               | None => None end
  | Test c kt kf => match nth_error (c_tests cfg) (N.to_nat c) with
                    | Some ct => match eval_ctest cfg ct s x with
                                 | Some b => ceval_tree cfg (if b then kt else kf) s x
                                 | None => None end
                    | None => None end
  | OutOfFuel => None
  end.

(** whenever the partial evaluator is defined it agrees with the generic semantics instantiated
    with (cexec, cevalt): every theorem proved for an arbitrary data semantics applies to it *)
Lemma ceval_tree_eval cfg : forall t s x l x', ceval_tree cfg t s x = Some (l, x') ->
  exists es, eval cdata (cexec cfg) (cevalt cfg) t s x = Some (es, l, x').
Proof.
  induction t as [l0|p k IH|c a IHa b IHb|]; cbn [ceval_tree eval]; intros s x l x' H; try discriminate.
  - inversion H; subst. eexists; reflexivity.
  - destruct (nth_error (c_prims cfg) (N.to_nat p)) as [cp|] eqn:Ep; try discriminate.
    destruct (exec_cprim cfg cp s x) as [x1|] eqn:Ex; try discriminate.
    destruct (IH _ _ _ _ H) as [es He].
    assert (Hx : cexec cfg p s x = x1) by (unfold cexec; rewrite Ep, Ex; reflexivity).
    rewrite Hx, He. eexists; reflexivity.
  - destruct (nth_error (c_tests cfg) (N.to_nat c)) as [ct|] eqn:Ec; try discriminate.
    destruct (eval_ctest cfg ct s x) as [bv|] eqn:Eb; try discriminate.
    assert (Hb : cevalt cfg c s x = bv) by (unfold cevalt; rewrite Ec, Eb; reflexivity).
    rewrite Hb. destruct bv.
    + destruct (IHa _ _ _ _ H) as [es He]. rewrite He. eexists; reflexivity.
    + destruct (IHb _ _ _ _ H) as [es He]. rewrite He. eexists; reflexivity.
Qed.

(** ** capacity invariant (C03 at the level of contents): every buffer's array has its declared
    size and its counter never exceeds the effective size; preserved by every primitive *)
Definition val_ok (d : odecl) (v : oval) : bool :=
  match d, v with
  | DInt t, VInt z => in_range t z
  | DBuf size null _, VBuf cells n => Nat.eqb (length cells) size && Nat.leb n (eff_size size null)
  | _, _ => false end.

Fixpoint vals_ok (ds : list odecl) (vs : list oval) : bool :=
  match ds, vs with
  | [], [] => true
  | d :: ds', v :: vs' => val_ok d v && vals_ok ds' vs'
  | _, _ => false end.

Lemma vals_ok_set ds : forall vs i d v, vals_ok ds vs = true -> nth_error ds i = Some d -> val_ok d v = true ->
  vals_ok ds (set_nth vs i v) = true.
Proof.
  induction ds as [|d0 ds IH]; intros vs i d v H Hn Hv; destruct vs as [|v0 vs]; cbn [vals_ok] in H; try discriminate.
  - destruct i; discriminate.
  - apply andb_prop in H as [H1 H2]. destruct i as [|i]; cbn [set_nth vals_ok].
    + cbn in Hn. inversion Hn; subst. rewrite Hv, H2. reflexivity.
    + rewrite H1. cbn in Hn. rewrite (IH vs i d v H2 Hn Hv). reflexivity.
Qed.

Lemma vals_ok_nth ds : forall vs i d v, vals_ok ds vs = true -> nth_error ds i = Some d -> nth_error vs i = Some v -> val_ok d v = true.
Proof.
  induction ds as [|d0 ds IH]; intros vs i d v H Hd Hv; destruct vs as [|v0 vs]; cbn [vals_ok] in H; try discriminate.
  - destruct i; discriminate.
  - apply andb_prop in H as [H1 H2]. destruct i as [|i]; cbn in Hd, Hv.
    + inversion Hd; inversion Hv; subst; auto.
    + eapply IH; eauto.
Qed.

Lemma write_cells_length bs : forall cells at_, length (write_cells cells at_ bs) = length cells.
Proof. induction bs as [|b r IH]; intros; cbn [write_cells]; auto. rewrite IH, set_nth_length. reflexivity. Qed.

Theorem store_inv_prim cfg p inval x x' :
  vals_ok (c_decls cfg) (vals x) = true -> exec_cprim cfg p inval x = Some x' ->
  vals_ok (c_decls cfg) (vals x') = true.
Proof.
  intros Hok H. destruct p as [v e|v bs|v freed|v|v e|h]; cbn [exec_cprim] in H.
  - destruct (nth_error (c_decls cfg) v) as [[t|? ? ?]|] eqn:Ed; try discriminate.
    destruct (ceval _ e) as [cv|]; try discriminate. inversion H; subst; cbn [vals].
    eapply vals_ok_set; eauto. cbn [val_ok]. apply wrap_in_range.
  - destruct (nth_error (c_decls cfg) v) as [[?|size null u8]|] eqn:Ed; try discriminate.
    destruct (nth_error (vals x) v) as [[?|cells n]|] eqn:Ev; try discriminate.
    destruct (Nat.leb (length bs) (eff_size size null)) eqn:El; try discriminate.
    inversion H; subst; cbn [vals]. eapply vals_ok_set; eauto. cbn [val_ok].
    pose proof (vals_ok_nth _ _ _ _ _ Hok Ed Ev) as Hv. cbn [val_ok] in Hv. apply andb_prop in Hv as [Hl _].
    rewrite write_cells_length, Hl, El. reflexivity.
  - destruct (nth_error (c_decls cfg) v) as [[?|size null u8]|] eqn:Ed; try discriminate.
    destruct (nth_error (vals x) v) as [[?|cells n]|] eqn:Ev; try discriminate.
    inversion H; subst; cbn [vals]. eapply vals_ok_set; eauto. cbn [val_ok].
    pose proof (vals_ok_nth _ _ _ _ _ Hok Ed Ev) as Hv. cbn [val_ok] in Hv. apply andb_prop in Hv as [Hl _].
    destruct freed; [rewrite map_length, Hl; reflexivity|].
    destruct null; rewrite ?set_nth_length, Hl; reflexivity.
  - destruct (nth_error (c_decls cfg) v) as [[?|size null u8]|] eqn:Ed; try discriminate.
    destruct (nth_error (vals x) v) as [[?|cells n]|] eqn:Ev; try discriminate.
    destruct (Nat.ltb n (eff_size size null)) eqn:El; try discriminate.
    inversion H; subst; cbn [vals]. eapply vals_ok_set; eauto. cbn [val_ok].
    pose proof (vals_ok_nth _ _ _ _ _ Hok Ed Ev) as Hv. cbn [val_ok] in Hv. apply andb_prop in Hv as [Hl _].
    apply Nat.ltb_lt in El. apply andb_true_intro. split.
    + destruct null; rewrite ?set_nth_length; exact Hl.
    + apply Nat.leb_le. lia.
  - destruct (nth_error (c_decls cfg) v) as [[?|size null u8]|] eqn:Ed; try discriminate.
    destruct (nth_error (vals x) v) as [[?|cells n]|] eqn:Ev; try discriminate.
    destruct (ceval _ e) as [cv|]; try discriminate.
    destruct (Nat.ltb n (eff_size size null)) eqn:El; try discriminate.
    inversion H; subst; cbn [vals]. eapply vals_ok_set; eauto. cbn [val_ok].
    pose proof (vals_ok_nth _ _ _ _ _ Hok Ed Ev) as Hv. cbn [val_ok] in Hv. apply andb_prop in Hv as [Hl _].
    apply Nat.ltb_lt in El. apply andb_true_intro. split.
    + destruct null; rewrite ?set_nth_length; exact Hl.
    + apply Nat.leb_le. lia.
  - inversion H; subst; cbn [vals]. exact Hok.
Qed.
