(** C arithmetic on an LP64 target (gcc / x86-64), as far as the expressions nmfu emits need it:
    integer promotions, usual arithmetic conversions, truncating division, [None] wherever C
    leaves the behaviour undefined (signed overflow, division by zero, out-of-range shifts,
    reading an indeterminate cell).  Specification used by C14 and by the concrete data model. *)
From Coq Require Import ZArith NArith List Bool Lia.
Import ListNotations.
Open Scope Z_scope.

Inductive cty := TBool | TI8 | TU8 | TI16 | TU16 | TI32 | TU32 | TI64 | TU64.

Definition cty_eqb (a b : cty) : bool :=
  match a, b with
  | TBool, TBool | TI8, TI8 | TU8, TU8 | TI16, TI16 | TU16, TU16 | TI32, TI32 | TU32, TU32 | TI64, TI64 | TU64, TU64 => true
  | _, _ => false end.

Definition width (t : cty) : Z :=
  match t with TBool => 1 | TI8 | TU8 => 8 | TI16 | TU16 => 16 | TI32 | TU32 => 32 | TI64 | TU64 => 64 end.
Definition is_signed (t : cty) : bool :=
  match t with TI8 | TI16 | TI32 | TI64 => true | _ => false end.
Definition tmin (t : cty) : Z := if is_signed t then - 2 ^ (width t - 1) else 0.
Definition tmax (t : cty) : Z := if is_signed t then 2 ^ (width t - 1) - 1 else 2 ^ (width t) - 1.
Definition in_range (t : cty) (z : Z) : bool := (tmin t <=? z) && (z <=? tmax t).

(** conversion to a type (C11 6.3.1.3; out-of-range signed is implementation-defined: gcc wraps) *)
Definition wrap (t : cty) (z : Z) : Z :=
  match t with
  | TBool => if z =? 0 then 0 else 1
  | _ => if is_signed t then (z + 2 ^ (width t - 1)) mod 2 ^ (width t) - 2 ^ (width t - 1)
         else z mod 2 ^ (width t)
  end.

Definition promote (t : cty) : cty :=
  match t with TBool | TI8 | TU8 | TI16 | TU16 => TI32 | _ => t end.

(** usual arithmetic conversions on promoted types *)
Definition uac (a b : cty) : cty :=
  match promote a, promote b with
  | TU64, _ | _, TU64 => TU64
  | TI64, _ | _, TI64 => TI64
  | TU32, _ | _, TU32 => TU32
  | _, _ => TI32
  end.

Inductive binop := OAdd | OSub | OMul | ODiv | OMod | OAnd | OOr | OXor | OShl | OShr
  | OEq | ONe | OLt | OGt | OLe | OGe | OLAnd | OLOr.

Inductive iexpr :=
| ELit (z : Z)                    (* decimal literal as nmfu prints it (negative: unary minus) *)
| EConstInt (z : Z)               (* true / false / enumeration constant: type int *)
| EVar (v : nat)
| ELen (v : nat)
| EIdx (v : nat) (e : iexpr)
| ELast
| EBin (op : binop) (a b : iexpr).

Definition cval := (cty * Z)%type.

(** what expression evaluation needs from the store *)
Record env := {
  var_val : nat -> option cval;                 (* integer / bool / enum output *)
  len_val : nat -> option cval;                 (* counter of a buffer, with the counter's C type *)
  idx_val : nat -> Z -> option (option cval);   (* buffer cell: None = index outside the array;
                                                   Some None = inside but indeterminate; Some (Some v) *)
  safe_idx : bool;                              (* bounds-checked indexing (default) *)
  last : Z }.                                   (* inval *)

Definition lit_type (z : Z) : option cty :=
  let a := Z.abs z in
  if a <=? tmax TI32 then Some TI32 else if a <=? tmax TI64 then Some TI64 else None.

Definition arith (t : cty) (z : Z) : option cval :=
  if is_signed t then (if in_range t z then Some (t, z) else None) else Some (t, wrap t z).

Definition truth (v : cval) : bool := negb (snd v =? 0).
Definition of_bool (b : bool) : cval := (TI32, if b then 1 else 0).

Definition eval_bin (op : binop) (x y : cval) : option cval :=
  let t := uac (fst x) (fst y) in
  let a := wrap t (snd x) in
  let b := wrap t (snd y) in
  match op with
  | OAdd => arith t (a + b)
  | OSub => arith t (a - b)
  | OMul => arith t (a * b)
  | ODiv => if b =? 0 then None else if is_signed t && (a =? tmin t) && (b =? -1) then None else Some (t, Z.quot a b)
  | OMod => if b =? 0 then None else if is_signed t && (a =? tmin t) && (b =? -1) then None else Some (t, Z.rem a b)
  | OAnd => Some (t, wrap t (Z.land a b))
  | OOr => Some (t, wrap t (Z.lor a b))
  | OXor => Some (t, wrap t (Z.lxor a b))
  | OShl | OShr =>
      let tl := promote (fst x) in
      let l := wrap tl (snd x) in
      let r := snd y in
      if (r <? 0) || (width tl <=? r) then None
      else match op with
           | OShl => if is_signed tl then (if (l <? 0) then None else if in_range tl (l * 2 ^ r) then Some (tl, l * 2 ^ r) else None)
                     else Some (tl, wrap tl (l * 2 ^ r))
           | _ => Some (tl, Z.shiftr l r)          (* arithmetic shift for negative values: gcc *)
           end
  | OEq => Some (of_bool (a =? b))
  | ONe => Some (of_bool (negb (a =? b)))
  | OLt => Some (of_bool (a <? b))
  | OGt => Some (of_bool (a >? b))
  | OLe => Some (of_bool (a <=? b))
  | OGe => Some (of_bool (a >=? b))
  | OLAnd => Some (of_bool (truth x && truth y))
  | OLOr => Some (of_bool (truth x || truth y))
  end.

Fixpoint ceval (E : env) (e : iexpr) : option cval :=
  match e with
  | ELit z => match lit_type z with Some t => Some (t, z) | None => None end
  | EConstInt z => Some (TI32, z)
  | EVar v => var_val E v
  | ELen v => len_val E v
  | ELast => Some (TU8, last E)
  | EIdx v i =>
      match ceval E i with
      | None => None
      | Some iv =>
          match idx_val E v (snd iv) with
          | None => if safe_idx E then Some (TI32, 0) else None      (* checked: 0; unchecked: out of bounds *)
          | Some None => None                                        (* indeterminate cell *)
          | Some (Some c) => Some (if safe_idx E then (promote (fst c), snd c) else c)
          end
      end
  | EBin OLAnd a b =>
      match ceval E a with
      | None => None
      | Some x => if truth x then match ceval E b with Some y => Some (of_bool (truth y)) | None => None end
                  else Some (of_bool false)
      end
  | EBin OLOr a b =>
      match ceval E a with
      | None => None
      | Some x => if truth x then Some (of_bool true)
                  else match ceval E b with Some y => Some (of_bool (truth y)) | None => None end
      end
  | EBin op a b =>
      match ceval E a, ceval E b with
      | Some x, Some y => eval_bin op x y
      | _, _ => None
      end
  end.

(** storing into an output of declared type t *)
Definition store_conv (t : cty) (v : cval) : Z := wrap t (snd v).

(** the exact-width C type nmfu declares for an int output of the given byte width / signedness *)
Definition int_type (w : Z) (sg : bool) : option cty :=
  match w, sg with
  | 1, true => Some TI8 | 1, false => Some TU8 | 2, true => Some TI16 | 2, false => Some TU16
  | 4, true => Some TI32 | 4, false => Some TU32 | 8, true => Some TI64 | 8, false => Some TU64
  | _, _ => None end.

Lemma wrap_in_range t z : in_range t (wrap t z) = true.
Proof.
  unfold in_range, wrap, tmin, tmax.
  destruct t; cbn [is_signed width];
    try (destruct (z =? 0); reflexivity);
    apply andb_true_intro; split; apply Z.leb_le;
    match goal with
    | |- context [(?a + ?h) mod ?m] => pose proof (Z.mod_pos_bound (a + h) m ltac:(reflexivity))
    | |- context [?a mod ?m] => pose proof (Z.mod_pos_bound a m ltac:(reflexivity))
    end; lia.
Qed.
