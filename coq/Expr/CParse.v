(** C's expression grammar for the operators nmfu's math expressions use (C11 6.5.3 - 6.5.14):
    precedence levels, left associativity of every binary operator, prefix [!] and [-] binding tighter
    than any binary operator; a total precedence-climbing parser [cparse]; the surface syntax of nmfu's
    [_math_expr] with a well-formedness predicate parameterised by a grammar table (instantiated with
    the table regenerated from nmfu's grammar string, Gen/GGrammar.v, and with C's table).
    Definitions (trusted as the reading of C) + the theorem that every surface expression which is
    well formed for C's table is parsed by [cparse] to its own tree.  Specification used by C14. *)
From Coq Require Import ZArith NArith List Bool Lia PeanoNat.
Import ListNotations.
From NV Require Import Expr.CArith.
Local Open Scope nat_scope.

(** * Tokens and C trees *)
Inductive unop := UNot | UNeg.

Inductive token :=
| TLP | TRP | TLB | TRB
| TNot                       (* ! *)
| TOp (op : binop)           (* a binary operator token; [TOp OSub] is also the prefix minus *)
| TNum (z : Z)               (* decimal constant (no sign) *)
| TConst (z : Z)             (* an identifier / character constant that is an integer constant of type int: true, false, enumerators, 'a' *)
| TVar (v : nat)             (* state->c.NAME of an int / bool / enum output *)
| TLen (v : nat)             (* state->NAME_counter *)
| TBuf (v : nat)             (* a buffer being indexed; always followed by [TLB] *)
| TLast.                     (* inval *)

Inductive cexpr :=
| CLit (z : Z) | CConst (z : Z) | CVar (v : nat) | CLen (v : nat) | CLast
| CIdx (v : nat) (i : cexpr)
| CNot (e : cexpr) | CNeg (e : cexpr)
| CBin (op : binop) (a b : cexpr).

(** C's precedence of the binary operators, loosest = 1 (6.5.14 logical OR) ... tightest = 10
    (6.5.5 multiplicative); every one of them associates to the left *)
Definition c_prec (op : binop) : nat :=
  match op with
  | OLOr => 1 | OLAnd => 2 | OOr => 3 | OXor => 4 | OAnd => 5
  | OEq | ONe => 6 | OLt | OGt | OLe | OGe => 7
  | OShl | OShr => 8 | OAdd | OSub => 9 | OMul | ODiv | OMod => 10
  end.
Definition c_unary_level : nat := 11.

(** * The parser: precedence climbing.  [pexpr minp] reads a unary expression and then every
    following [op rhs] whose operator has precedence >= minp, the right operand being read with
    [minp := prec op + 1] (left associativity). *)
Fixpoint pexpr (fuel : nat) (minp : nat) (ts : list token) {struct fuel} : option (cexpr * list token) :=
  match fuel with
  | O => None
  | S f =>
      match punary f ts with
      | Some (lhs, ts1) => ploop f minp lhs ts1
      | None => None
      end
  end
with ploop (fuel : nat) (minp : nat) (lhs : cexpr) (ts : list token) {struct fuel} : option (cexpr * list token) :=
  match fuel with
  | O => None
  | S f =>
      match ts with
      | TOp op :: ts1 =>
          if minp <=? c_prec op then
            match pexpr f (S (c_prec op)) ts1 with
            | Some (rhs, ts2) => ploop f minp (CBin op lhs rhs) ts2
            | None => None
            end
          else Some (lhs, ts)
      | _ => Some (lhs, ts)
      end
  end
with punary (fuel : nat) (ts : list token) {struct fuel} : option (cexpr * list token) :=
  match fuel with
  | O => None
  | S f =>
      match ts with
      | TNot :: ts1 => match punary f ts1 with Some (e, r) => Some (CNot e, r) | None => None end
      | TOp OSub :: ts1 => match punary f ts1 with Some (e, r) => Some (CNeg e, r) | None => None end
      | TLP :: ts1 => match pexpr f 0 ts1 with Some (e, TRP :: r) => Some (e, r) | _ => None end
      | TBuf v :: TLB :: ts1 => match pexpr f 0 ts1 with Some (e, TRB :: r) => Some (CIdx v e, r) | _ => None end
      | TNum z :: r => Some (CLit z, r)
      | TConst z :: r => Some (CConst z, r)
      | TVar v :: r => Some (CVar v, r)
      | TLen v :: r => Some (CLen v, r)
      | TLast :: r => Some (CLast, r)
      | _ => None
      end
  end.

Definition cparse (ts : list token) : option cexpr :=
  match pexpr (2 * length ts + 2) 0 ts with
  | Some (e, []) => Some e
  | _ => None
  end.

(** * Surface syntax of nmfu's math expressions (one constructor per grammar alternative;
    parentheses are explicit nodes) *)
Inductive sexpr :=
| SNum (z : Z)                 (* RADIX_NUMBER: the value; a negative one is spelled with its sign attached *)
| SChr (b : Z)                 (* CHAR_CONSTANT: its byte value *)
| SBool (b : bool)             (* BOOL_CONST *)
| SEnum (k : Z)                (* an enumeration constant (IDENTIFIER resolved against the target's enum): its index *)
| SVar (v : nat)               (* IDENTIFIER naming an output *)
| SLen (v : nat)               (* IDENTIFIER ".len" *)
| SIdx (v : nat) (i : sexpr)   (* IDENTIFIER "[" _math_expr "]" *)
| SLast                        (* "$" "last" *)
| SParen (e : sexpr)           (* "(" _math_expr ")" *)
| SNot (a : sexpr)             (* "!" operand *)
| SNeg (a : sexpr)             (* "-" operand *)
| SBin (op : binop) (a b : sexpr).

(** the token sequence C sees for the same text *)
Fixpoint tok (s : sexpr) : list token :=
  match s with
  | SNum z => if (z <? 0)%Z then [TOp OSub; TNum (- z)] else [TNum z]
  | SChr b => [TConst b]
  | SBool b => [TConst (if b then 1 else 0)%Z]
  | SEnum k => [TConst k]
  | SVar v => [TVar v]
  | SLen v => [TLen v]
  | SIdx v i => TBuf v :: TLB :: tok i ++ [TRB]
  | SLast => [TLast]
  | SParen e => TLP :: tok e ++ [TRP]
  | SNot a => TNot :: tok a
  | SNeg a => TOp OSub :: tok a
  | SBin op a b => tok a ++ TOp op :: tok b
  end.

(** the tree the grammar derivation denotes (parentheses dropped) *)
Fixpoint emb (s : sexpr) : cexpr :=
  match s with
  | SNum z => if (z <? 0)%Z then CNeg (CLit (- z)) else CLit z
  | SChr b => CConst b
  | SBool b => CConst (if b then 1 else 0)%Z
  | SEnum k => CConst k
  | SVar v => CVar v
  | SLen v => CLen v
  | SIdx v i => CIdx v (emb i)
  | SLast => CLast
  | SParen e => emb e
  | SNot a => CNot (emb a)
  | SNeg a => CNeg (emb a)
  | SBin op a b => CBin op (emb a) (emb b)
  end.

(** * Grammar tables.  [g_lvl op] = the layer of a binary operator (loosest = smallest);
    [g_chain op]: the layer is [a (op a)*] (left-associative chain) rather than [a (op a)?];
    unary expressions live on [g_unary_lvl], primaries one above. *)
Record gtab := {
  g_lvl : binop -> nat;
  g_chain : binop -> bool;
  g_unary_lvl : nat;
  g_unary_arg_primary : bool }.

(** [wf G m s]: [s] is derivable from the rule of level [m] of the stratified grammar described by [G] *)
Fixpoint wf (G : gtab) (m : nat) (s : sexpr) : bool :=
  match s with
  | SBin op a b =>
      let p := g_lvl G op in
      (m <=? p) && (p <? g_unary_lvl G) && wf G (if g_chain G op then p else S p) a && wf G (S p) b
  | SNot a | SNeg a =>
      (m <=? g_unary_lvl G) && wf G (if g_unary_arg_primary G then S (g_unary_lvl G) else g_unary_lvl G) a
  | SParen e => wf G 0 e
  | SIdx _ i => wf G 0 i
  | _ => true
  end.

Definition c_tab : gtab :=
  {| g_lvl := c_prec; g_chain := fun _ => true; g_unary_lvl := c_unary_level; g_unary_arg_primary := false |}.

(** the table described by a list of layers (as regenerated from nmfu's grammar string) *)
Definition binop_eqb (a b : binop) : bool :=
  match a, b with
  | OAdd, OAdd | OSub, OSub | OMul, OMul | ODiv, ODiv | OMod, OMod | OAnd, OAnd | OOr, OOr | OXor, OXor
  | OShl, OShl | OShr, OShr | OEq, OEq | ONe, ONe | OLt, OLt | OGt, OGt | OLe, OLe | OGe, OGe | OLAnd, OLAnd | OLOr, OLOr => true
  | _, _ => false end.
Definition mem_op (op : binop) (l : list binop) : bool := existsb (binop_eqb op) l.

Fixpoint layer_of (ls : list (list binop * bool)) (op : binop) (k : nat) : option (nat * bool) :=
  match ls with
  | [] => None
  | (ops, ch) :: r => if mem_op op ops then Some (k, ch) else layer_of r op (S k)
  end.

Definition tab_of_layers (ls : list (list binop * bool)) (arg_is_atom : bool) : gtab :=
  {| g_lvl := fun op => match layer_of ls op 1 with Some (k, _) => k | None => 0 end;
     g_chain := fun op => match layer_of ls op 1 with Some (_, c) => c | None => false end;
     g_unary_lvl := S (length ls);
     g_unary_arg_primary := arg_is_atom |}.

Definition all_ops : list binop :=
  [OAdd; OSub; OMul; ODiv; OMod; OAnd; OOr; OXor; OShl; OShr; OEq; ONe; OLt; OGt; OLe; OGe; OLAnd; OLOr].
Lemma all_ops_complete : forall op, In op all_ops.
Proof. destruct op; cbn; tauto. Qed.

(** [compat N C]: every derivation of the grammar [N] is a derivation of [C] with the same tree:
    a strictly tighter layer of N is strictly tighter in C; operators sharing a chain layer of N
    share their level in C and C lets them chain; binary levels lie below the unary level *)
Definition compat_pair (N C : gtab) (x y : binop) : bool :=
  (negb (g_lvl N x <? g_lvl N y) || (g_lvl C x <? g_lvl C y))
  && (negb (g_chain N x && (g_lvl N x =? g_lvl N y)) || ((g_lvl C x =? g_lvl C y) && g_chain C x)).
Definition compat_op (N C : gtab) (x : binop) : bool :=
  (1 <=? g_lvl N x) && (g_lvl N x <? g_unary_lvl N) && (g_lvl C x <? g_unary_lvl C).
Definition compat (N C : gtab) : bool :=
  forallb (fun x => compat_op N C x && forallb (compat_pair N C x) all_ops) all_ops
  && (g_unary_arg_primary N || negb (g_unary_arg_primary C)).

Lemma compat_facts N C : compat N C = true ->
  (forall x, 1 <= g_lvl N x /\ g_lvl N x < g_unary_lvl N /\ g_lvl C x < g_unary_lvl C)
  /\ (forall x y, g_lvl N x < g_lvl N y -> g_lvl C x < g_lvl C y)
  /\ (forall x y, g_chain N x = true -> g_lvl N x = g_lvl N y -> g_lvl C x = g_lvl C y /\ g_chain C x = true)
  /\ (g_unary_arg_primary C = true -> g_unary_arg_primary N = true).
Proof.
  unfold compat. intros H. apply andb_prop in H as [H HU].
  rewrite forallb_forall in H.
  assert (HO : forall x, compat_op N C x = true /\ forall y, compat_pair N C x y = true).
  { intros x. specialize (H x (all_ops_complete x)). apply andb_prop in H as [H1 H2]. split; auto.
    rewrite forallb_forall in H2. intros y. apply H2, all_ops_complete. }
  repeat split.
  - destruct (HO x) as [H1 _]. unfold compat_op in H1. apply andb_prop in H1 as [H1 _]. apply andb_prop in H1 as [H1 _].
    apply Nat.leb_le in H1. exact H1.
  - destruct (HO x) as [H1 _]. unfold compat_op in H1. apply andb_prop in H1 as [H1 _]. apply andb_prop in H1 as [_ H1].
    apply Nat.ltb_lt in H1. exact H1.
  - destruct (HO x) as [H1 _]. unfold compat_op in H1. apply andb_prop in H1 as [_ H1]. apply Nat.ltb_lt in H1. exact H1.
  - intros x y Hl. destruct (HO x) as [_ H2]. specialize (H2 y). unfold compat_pair in H2. apply andb_prop in H2 as [H2 _].
    apply Nat.ltb_lt in Hl. rewrite Hl in H2. cbn in H2. apply Nat.ltb_lt in H2. exact H2.
  - destruct (HO x) as [_ H2]. specialize (H2 y). unfold compat_pair in H2. apply andb_prop in H2 as [_ H2].
    rewrite H0 in H2. rewrite H1, Nat.eqb_refl in H2. cbn in H2. apply andb_prop in H2 as [H2 _]. apply Nat.eqb_eq in H2. exact H2.
  - destruct (HO x) as [_ H2]. specialize (H2 y). unfold compat_pair in H2. apply andb_prop in H2 as [_ H2].
    rewrite H0 in H2. rewrite H1, Nat.eqb_refl in H2. cbn in H2. apply andb_prop in H2 as [_ H2]. exact H2.
  - intros HC. rewrite HC in HU. cbn in HU. rewrite orb_false_r in HU. exact HU.
Qed.

(** [wf] is monotone: what derives from a tighter rule derives from a looser one *)
Lemma wf_mono G : forall s m m', m <= m' -> wf G m' s = true -> wf G m s = true.
Proof.
  destruct s; cbn [wf]; intros m m' Hm H; auto.
  - apply andb_prop in H as [H1 H2]. apply Nat.leb_le in H1. rewrite H2, andb_true_r. apply Nat.leb_le. lia.
  - apply andb_prop in H as [H1 H2]. apply Nat.leb_le in H1. rewrite H2, andb_true_r. apply Nat.leb_le. lia.
  - apply andb_prop in H as [H H3]. apply andb_prop in H as [H H2]. apply andb_prop in H as [H0 H1].
    apply Nat.leb_le in H0. rewrite H1, H2, H3, !andb_true_r. apply Nat.leb_le. lia.
Qed.

(** the relation between a level of N and the level of C at which the same text is read *)
Definition lvl_rel (N C : gtab) (m m' : nat) : Prop :=
  (forall op, m <= g_lvl N op -> m' <= g_lvl C op) /\ (m <= g_unary_lvl N -> m' <= g_unary_lvl C).

Theorem wf_transfer N C : compat N C = true ->
  forall s m m', lvl_rel N C m m' -> wf N m s = true -> wf C m' s = true.
Proof.
  intros HC. destruct (compat_facts N C HC) as (Hop & Hlt & Heq & Hun).
  assert (R0 : lvl_rel N C 0 0) by (split; intros; lia).
  assert (RU : lvl_rel N C (if g_unary_arg_primary N then S (g_unary_lvl N) else g_unary_lvl N)
                             (if g_unary_arg_primary C then S (g_unary_lvl C) else g_unary_lvl C)).
  { destruct (g_unary_arg_primary C) eqn:EC.
    - rewrite (Hun eq_refl). split.
      + intros op Hle. destruct (Hop op) as (_ & Hb & _). lia.
      + lia.
    - destruct (g_unary_arg_primary N); split.
      + intros op Hle. destruct (Hop op) as (_ & Hb & _). lia.
      + lia.
      + intros op Hle. destruct (Hop op) as (_ & Hb & _). lia.
      + lia. }
  induction s; cbn [wf]; intros m m' [R1 R2] H; auto.
  - apply (IHs _ _ R0 H).
  - apply (IHs _ _ R0 H).
  - apply andb_prop in H as [H1 H2]. apply Nat.leb_le in H1.
    rewrite (IHs _ _ RU H2), andb_true_r. apply Nat.leb_le. auto.
  - apply andb_prop in H as [H1 H2]. apply Nat.leb_le in H1.
    rewrite (IHs _ _ RU H2), andb_true_r. apply Nat.leb_le. auto.
  - apply andb_prop in H as [H H3]. apply andb_prop in H as [H H2]. apply andb_prop in H as [H0 H1].
    apply Nat.leb_le in H0. destruct (Hop op) as (Hp1 & Hp2 & Hp3).
    assert (RS : lvl_rel N C (S (g_lvl N op)) (S (g_lvl C op))).
    { split. - intros y Hy. pose proof (Hlt op y ltac:(lia)). lia. - lia. }
    rewrite (IHs2 _ _ RS H3), andb_true_r.
    assert (Ha : wf C (if g_chain C op then g_lvl C op else S (g_lvl C op)) s1 = true).
    { destruct (g_chain N op) eqn:EN.
      - destruct (Heq op op EN eq_refl) as [_ Hc]. rewrite Hc.
        apply (IHs1 (g_lvl N op)); auto. split.
        + intros y Hy. destruct (Nat.eq_dec (g_lvl N op) (g_lvl N y)) as [E|E].
          * destruct (Heq op y EN E) as [E' _]. lia.
          * pose proof (Hlt op y ltac:(lia)). lia.
        + lia.
      - pose proof (IHs1 _ _ RS H2) as Hs. destruct (g_chain C op); auto.
        eapply wf_mono; [|exact Hs]. lia. }
    rewrite Ha, andb_true_r. apply andb_true_intro. split.
    + apply Nat.leb_le. apply R1. exact H0.
    + apply Nat.ltb_lt. exact Hp3.
Qed.

(** * Completeness of the parser on C-well-formed surface expressions *)
Lemma parse_mono : forall f,
  (forall minp ts r, pexpr f minp ts = Some r -> forall f', f <= f' -> pexpr f' minp ts = Some r)
  /\ (forall minp lhs ts r, ploop f minp lhs ts = Some r -> forall f', f <= f' -> ploop f' minp lhs ts = Some r)
  /\ (forall ts r, punary f ts = Some r -> forall f', f <= f' -> punary f' ts = Some r).
Proof.
  induction f as [|f (IH1 & IH2 & IH3)].
  - repeat split; intros; discriminate.
  - repeat split.
    + intros minp ts r H f' Hf. destruct f' as [|f']; [lia|]. cbn [pexpr] in *.
      destruct (punary f ts) as [[lhs ts1]|] eqn:E; try discriminate.
      rewrite (IH3 _ _ E f' ltac:(lia)). apply (IH2 _ _ _ _ H). lia.
    + intros minp lhs ts r H f' Hf. destruct f' as [|f']; [lia|]. cbn [ploop] in *.
      destruct ts as [|t ts1]; auto. destruct t; auto.
      destruct (minp <=? c_prec op); auto.
      destruct (pexpr f (S (c_prec op)) ts1) as [[rhs ts2]|] eqn:E; try discriminate.
      rewrite (IH1 _ _ _ E f' ltac:(lia)). apply (IH2 _ _ _ _ H). lia.
    + intros ts r H f' Hf. destruct f' as [|f']; [lia|]. cbn [punary] in *.
      destruct ts as [|t ts1]; auto. destruct t; auto.
      * destruct (pexpr f 0 ts1) as [[e r0]|] eqn:E; try discriminate.
        rewrite (IH1 _ _ _ E f' ltac:(lia)). exact H.
      * destruct (punary f ts1) as [[e r0]|] eqn:E; try discriminate.
        rewrite (IH3 _ _ E f' ltac:(lia)). exact H.
      * destruct op; auto.
        destruct (punary f ts1) as [[e r0]|] eqn:E; try discriminate.
        rewrite (IH3 _ _ E f' ltac:(lia)). exact H.
      * destruct ts1 as [|t2 ts2]; auto. destruct t2; auto.
        destruct (pexpr f 0 ts2) as [[e r0]|] eqn:E; try discriminate.
        rewrite (IH1 _ _ _ E f' ltac:(lia)). exact H.
Qed.

Definition pexpr_mono f := proj1 (parse_mono f).
Definition ploop_mono f := proj1 (proj2 (parse_mono f)).
Definition punary_mono f := proj2 (proj2 (parse_mono f)).

(** fuel sufficient for an expression *)
Fixpoint cost (s : sexpr) : nat :=
  match s with
  | SBin _ a b => cost a + cost b + 2
  | SParen e => 4 + cost e
  | SIdx _ i => 4 + cost i
  | SNot a | SNeg a => S (cost a)
  | SNum z => if (z <? 0)%Z then 3 else 2
  | _ => 2
  end.

Lemma cost_pos s : 2 <= cost s.
Proof. induction s; cbn [cost]; try lia. destruct (z <? 0)%Z; lia. Qed.

Lemma cost_bound s : cost s <= 2 * length (tok s).
Proof.
  induction s; cbn [cost tok length]; rewrite ?app_length; cbn [length]; try lia.
  destruct (z <? 0)%Z; cbn [length]; lia.
Qed.

(** precedence of the top operator (unary level for everything else) *)
Definition lev (s : sexpr) : nat := match s with SBin op _ _ => c_prec op | _ => c_unary_level end.

(** the token after the expression does not continue it: it is not a binary operator binding tighter than [p] *)
Definition follow_ok (p : nat) (rest : list token) : bool :=
  match rest with TOp op :: _ => c_prec op <=? p | _ => true end.

Lemma c_prec_bound op : 1 <= c_prec op <= 10.
Proof. destruct op; cbn; lia. Qed.

Lemma follow_mono p q rest : p <= q -> follow_ok p rest = true -> follow_ok q rest = true.
Proof.
  destruct rest as [|t r]; auto. destruct t; auto. cbn. intros H H1. apply Nat.leb_le in H1. apply Nat.leb_le. lia.
Qed.

Lemma ploop_stop f minp lhs rest : follow_ok (pred minp) rest = true -> 1 <= minp ->
  ploop (S f) minp lhs rest = Some (lhs, rest).
Proof.
  intros H Hm. cbn [ploop]. destruct rest as [|t r]; auto. destruct t; auto.
  cbn in H. apply Nat.leb_le in H. destruct (minp <=? c_prec op) eqn:E; auto. apply Nat.leb_le in E. lia.
Qed.

Lemma wf_c_nonbin m s : (forall op a b, s <> SBin op a b) -> wf c_tab m s = true -> wf c_tab c_unary_level s = true.
Proof.
  destruct s; cbn [wf]; intros Hn H; auto.
  - apply andb_prop in H as [_ H]. rewrite H. reflexivity.
  - apply andb_prop in H as [_ H]. rewrite H. reflexivity.
  - exfalso. eapply Hn; reflexivity.
Qed.

Lemma wf_c_lev m s : wf c_tab m s = true -> m <= lev s \/ (forall op a b, s <> SBin op a b).
Proof.
  destruct s; cbn [wf lev]; intros H; try (right; intros; discriminate).
  left. apply andb_prop in H as [H _]. apply andb_prop in H as [H _]. apply andb_prop in H as [H _]. apply Nat.leb_le in H. exact H.
Qed.

Theorem pexpr_complete : forall s,
  (forall minp rest, wf c_tab minp s = true -> follow_ok (lev s) rest = true ->
     forall f0 r, ploop f0 minp (emb s) rest = Some r -> pexpr (f0 + cost s) minp (tok s ++ rest) = Some r)
  /\ (wf c_tab c_unary_level s = true -> forall rest f, cost s <= S f -> punary f (tok s ++ rest) = Some (emb s, rest)).
Proof.
  (* every non-binary form: the first claim follows from the second *)
  assert (NB : forall s, (forall op a b, s <> SBin op a b) ->
     (wf c_tab c_unary_level s = true -> forall rest f, cost s <= S f -> punary f (tok s ++ rest) = Some (emb s, rest)) ->
     forall minp rest, wf c_tab minp s = true -> follow_ok (lev s) rest = true ->
     forall f0 r, ploop f0 minp (emb s) rest = Some r -> pexpr (f0 + cost s) minp (tok s ++ rest) = Some r).
  { intros s Hn HU minp rest Hwf _ f0 r Hl. pose proof (cost_pos s) as Hc.
    replace (f0 + cost s) with (S (f0 + cost s - 1)) by lia. cbn [pexpr].
    rewrite (HU (wf_c_nonbin _ _ Hn Hwf) rest (f0 + cost s - 1) ltac:(lia)).
    apply (ploop_mono _ _ _ _ _ Hl). lia. }
  induction s; (split; [try (apply NB; [intros; discriminate|])|]).
  (* atoms *)
  all: try (intros _ rest f Hc; destruct f as [|f]; [cbn [cost] in Hc; try destruct (z <? 0)%Z; lia|]; cbn [tok emb app punary]; reflexivity).
  - (* SNum, unary claim *)
    intros _ rest f Hc. cbn [cost tok emb] in *. destruct (z <? 0)%Z.
    + destruct f as [|[|f]]; try lia. reflexivity.
    + destruct f as [|f]; try lia. reflexivity.
  - intros _ rest f Hc. cbn [cost tok emb] in *. destruct (z <? 0)%Z.
    + destruct f as [|[|f]]; try lia. reflexivity.
    + destruct f as [|f]; try lia. reflexivity.
  - (* SIdx *)
    intros Hwf rest f Hc. cbn [wf] in Hwf. cbn [cost] in Hc. destruct IHs as [IH _].
    destruct f as [|f]; [lia|]. cbn [tok emb app punary]. rewrite <- app_assoc. cbn [app].
    assert (Hp : pexpr f 0 (tok s ++ TRB :: rest) = Some (emb s, TRB :: rest)).
    { apply (pexpr_mono (1 + cost s)); [|lia]. apply IH; auto. }
    rewrite Hp. reflexivity.
  - intros Hwf rest f Hc. cbn [wf] in Hwf. cbn [cost] in Hc. destruct IHs as [IH _].
    destruct f as [|f]; [lia|]. cbn [tok emb app punary]. rewrite <- app_assoc. cbn [app].
    assert (Hp : pexpr f 0 (tok s ++ TRB :: rest) = Some (emb s, TRB :: rest)).
    { apply (pexpr_mono (1 + cost s)); [|lia]. apply IH; auto. }
    rewrite Hp. reflexivity.
  - (* SParen *)
    intros Hwf rest f Hc. cbn [wf] in Hwf. cbn [cost] in Hc. destruct IHs as [IH _].
    destruct f as [|f]; [lia|]. cbn [tok emb app punary]. rewrite <- app_assoc. cbn [app].
    assert (Hp : pexpr f 0 (tok s ++ TRP :: rest) = Some (emb s, TRP :: rest)).
    { apply (pexpr_mono (1 + cost s)); [|lia]. apply IH; auto. }
    rewrite Hp. reflexivity.
  - intros Hwf rest f Hc. cbn [wf] in Hwf. cbn [cost] in Hc. destruct IHs as [IH _].
    destruct f as [|f]; [lia|]. cbn [tok emb app punary]. rewrite <- app_assoc. cbn [app].
    assert (Hp : pexpr f 0 (tok s ++ TRP :: rest) = Some (emb s, TRP :: rest)).
    { apply (pexpr_mono (1 + cost s)); [|lia]. apply IH; auto. }
    rewrite Hp. reflexivity.
  - (* SNot *)
    intros Hwf rest f Hc. cbn [wf c_tab g_unary_arg_primary g_unary_lvl] in Hwf. apply andb_prop in Hwf as [_ Hwf].
    cbn [cost] in Hc. destruct IHs as [_ IH]. destruct f as [|f]; [pose proof (cost_pos s); lia|].
    cbn [tok emb app punary]. rewrite (IH Hwf rest f ltac:(lia)). reflexivity.
  - intros Hwf rest f Hc. cbn [wf c_tab g_unary_arg_primary g_unary_lvl] in Hwf. apply andb_prop in Hwf as [_ Hwf].
    cbn [cost] in Hc. destruct IHs as [_ IH]. destruct f as [|f]; [pose proof (cost_pos s); lia|].
    cbn [tok emb app punary]. rewrite (IH Hwf rest f ltac:(lia)). reflexivity.
  - (* SNeg *)
    intros Hwf rest f Hc. cbn [wf c_tab g_unary_arg_primary g_unary_lvl] in Hwf. apply andb_prop in Hwf as [_ Hwf].
    cbn [cost] in Hc. destruct IHs as [_ IH]. destruct f as [|f]; [pose proof (cost_pos s); lia|].
    cbn [tok emb app punary]. rewrite (IH Hwf rest f ltac:(lia)). reflexivity.
  - intros Hwf rest f Hc. cbn [wf c_tab g_unary_arg_primary g_unary_lvl] in Hwf. apply andb_prop in Hwf as [_ Hwf].
    cbn [cost] in Hc. destruct IHs as [_ IH]. destruct f as [|f]; [pose proof (cost_pos s); lia|].
    cbn [tok emb app punary]. rewrite (IH Hwf rest f ltac:(lia)). reflexivity.
  - (* SBin, main claim *)
    intros minp rest Hwf Hfo f0 r Hl. cbn [wf c_tab g_lvl g_chain g_unary_lvl] in Hwf.
    apply andb_prop in Hwf as [Hwf Hb]. apply andb_prop in Hwf as [Hwf Ha]. apply andb_prop in Hwf as [Hm _].
    apply Nat.leb_le in Hm. cbn [lev] in Hfo. cbn [tok emb cost] in *.
    destruct IHs1 as [IHa _]. destruct IHs2 as [IHb _]. pose proof (c_prec_bound op) as Hpb.
    rewrite <- app_assoc. cbn [app].
    replace (f0 + (cost s1 + cost s2 + 2)) with ((f0 + cost s2 + 2) + cost s1) by lia.
    apply IHa.
    + eapply wf_mono; [|exact Ha]. exact Hm.
    + destruct (wf_c_lev _ _ Ha) as [Hle|Hn].
      * cbn. apply Nat.leb_le. exact Hle.
      * assert (El : lev s1 = c_unary_level) by (destruct s1; try reflexivity; exfalso; eapply Hn; reflexivity).
        rewrite El. cbn. apply Nat.leb_le. unfold c_unary_level. lia.
    + replace (f0 + cost s2 + 2) with (S (f0 + cost s2 + 1)) by lia. cbn [ploop].
      destruct (minp <=? c_prec op) eqn:E; [|apply Nat.leb_gt in E; lia].
      assert (Hr : pexpr (f0 + cost s2 + 1) (S (c_prec op)) (tok s2 ++ rest) = Some (emb s2, rest)).
      { replace (f0 + cost s2 + 1) with (S f0 + cost s2) by lia. apply IHb; auto.
        - destruct (wf_c_lev _ _ Hb) as [Hle|Hn].
          + eapply follow_mono; [|exact Hfo]. lia.
          + assert (El : lev s2 = c_unary_level) by (destruct s2; try reflexivity; exfalso; eapply Hn; reflexivity).
            rewrite El. eapply follow_mono; [|exact Hfo]. unfold c_unary_level. lia.
        - apply ploop_stop; [exact Hfo|lia]. }
      rewrite Hr. apply (ploop_mono _ _ _ _ _ Hl). lia.
  - (* SBin is not a unary expression *)
    intros Hwf. cbn [wf c_tab g_lvl g_unary_lvl] in Hwf. pose proof (c_prec_bound op).
    apply andb_prop in Hwf as [Hwf _]. apply andb_prop in Hwf as [Hwf _]. apply andb_prop in Hwf as [Hwf _].
    apply Nat.leb_le in Hwf. unfold c_unary_level in Hwf. lia.
Qed.

(** C reads every C-well-formed surface expression as its own tree *)
Theorem cparse_complete s : wf c_tab 0 s = true -> cparse (tok s) = Some (emb s).
Proof.
  intros Hwf. unfold cparse.
  assert (H : pexpr (1 + cost s) 0 (tok s ++ []) = Some (emb s, [])).
  { apply (proj1 (pexpr_complete s)); auto. }
  rewrite app_nil_r in H. rewrite (pexpr_mono _ _ _ _ H). reflexivity.
  pose proof (cost_bound s). lia.
Qed.

(** every expression a grammar compatible with C's derives is read by C as the same tree *)
Theorem same_tree_for N : compat N c_tab = true ->
  forall s, wf N 0 s = true -> cparse (tok s) = Some (emb s).
Proof.
  intros HC s H. apply cparse_complete. apply (wf_transfer N c_tab HC s 0 0); auto. split; intros; lia.
Qed.
