(** Hand mirror (Tie 2) of the two ends of nmfu's treatment of math expressions:
    - [to_nexpr] mirrors ParseCtx._parse_math_expr / _parse_integer_expr: surface syntax -> IntegerExpr tree
      ([!x] becomes [x == false], [-x] becomes [0 - x], chains are collected into one n-ary node,
      [true]/[false] take the type of the target, an int used as a condition gets [!= 0]: [to_cond]);
    - [render] mirrors CodegenCtx._generate_code_for_int_expr: IntegerExpr tree -> C tokens
      (every operand of every node is wrapped in parentheses, the operands of one n-ary node are
      written side by side);
    - [fold] is the binary tree harness/cdrv.py (CfgPrinter.expr) hands to the concrete model:
      n-ary nodes folded to the left;
    and the C meaning of a C tree ([cceval]: CArith plus the two prefix operators as C11 6.5.3.3
    defines them).  Compared with the implementation on every run (props/c14.py). *)
From Coq Require Import ZArith NArith List Bool Lia.
Import ListNotations.
From NV Require Import Expr.CArith Expr.CParse.
Local Open Scope Z_scope.

(** * C meaning of C trees *)
(** 6.5.3.3p3: the result of unary - is the negative of its (promoted) operand, of the promoted type *)
Definition cneg (x : cval) : option cval := let t := promote (fst x) in arith t (- wrap t (snd x)).
(** 6.5.3.3p5: !E is equivalent to (0==E) *)
Definition cnot (x : cval) : option cval := eval_bin OEq (TI32, 0) x.

Fixpoint cceval (E : env) (c : cexpr) : option cval :=
  match c with
  | CLit z => match lit_type z with Some t => Some (t, z) | None => None end
  | CConst z => Some (TI32, z)
  | CVar v => var_val E v
  | CLen v => len_val E v
  | CLast => Some (TU8, last E)
  | CIdx v i =>
      match cceval E i with
      | None => None
      | Some iv =>
          match idx_val E v (snd iv) with
          | None => if safe_idx E then Some (TI32, 0) else None
          | Some None => None
          | Some (Some c) => Some (if safe_idx E then (promote (fst c), snd c) else c)
          end
      end
  | CNot e => match cceval E e with Some x => cnot x | None => None end
  | CNeg e => match cceval E e with Some x => cneg x | None => None end
  | CBin OLAnd a b =>
      match cceval E a with
      | None => None
      | Some x => if truth x then match cceval E b with Some y => Some (of_bool (truth y)) | None => None end
                  else Some (of_bool false)
      end
  | CBin OLOr a b =>
      match cceval E a with
      | None => None
      | Some x => if truth x then Some (of_bool true)
                  else match cceval E b with Some y => Some (of_bool (truth y)) | None => None end
      end
  | CBin op a b =>
      match cceval E a, cceval E b with
      | Some x, Some y => eval_bin op x y
      | _, _ => None
      end
  end.

(** the C tree of a binary model expression (a negative literal is C's unary minus on a constant) *)
Fixpoint cembed (e : iexpr) : cexpr :=
  match e with
  | ELit z => if z <? 0 then CNeg (CLit (- z)) else CLit z
  | EConstInt z => CConst z
  | EVar v => CVar v
  | ELen v => CLen v
  | EIdx v i => CIdx v (cembed i)
  | ELast => CLast
  | EBin op a b => CBin op (cembed a) (cembed b)
  end.

(** * nmfu's typing of integer expressions (OutputStorageType restricted to BOOL / INT / ENUM) *)
Inductive nty := NInt | NBool | NEnum.
Inductive vkind := KInt | KBool | KEnum | KBuf.
(** the [into_storage] argument of _parse_integer_expr, as far as it is looked at *)
Inductive into := IntoNone | IntoInt | IntoBool | IntoEnum.
Definition into_of_kind (k : vkind) : into :=
  match k with KInt => IntoInt | KBool => IntoBool | KEnum => IntoEnum | KBuf => IntoNone end.

(** * IntegerExpr trees.  An n-ary node (SumIntegerExpr, MulIntegerExpr, BitwiseIntegerExpr,
    Conjunction-/DisjunctionIntegerExpr with children c0 c1 ... cn) is the left spine
    [NNode opn (... (NNode op1 c0 false c1) ...) true cn]: [lchain = true] says "the left part is
    the beginning of the same node", [false] says "the left part is a child". *)
Inductive nexpr :=
| NLit (z : Z)                (* LiteralIntegerExpr, INT *)
| NBoolConst (b : bool)       (* LiteralIntegerExpr(1|0, BOOL) from the words true / false *)
| NFalseK                     (* LiteralIntegerExpr(False, BOOL) made by not_expr *)
| NEnumConst (k : Z)          (* LiteralIntegerExpr(name, ENUM) *)
| NVar (v : nat) | NLen (v : nat) | NIdx (v : nat) (i : nexpr) | NLast
| NNode (op : binop) (l : nexpr) (lchain : bool) (r : nexpr).

Definition is_cmp (op : binop) : bool := match op with OEq | ONe | OLt | OGt | OLe | OGe => true | _ => false end.
Definition top_op (s : sexpr) : option binop := match s with SBin op _ _ => Some op | _ => None end.
(** lark flattens [a op b op' c] of one [(op a)*] rule into a single tree node *)
Definition chains_with (G : gtab) (op : binop) (a : sexpr) : bool :=
  match top_op a with Some op' => g_chain G op && (g_lvl G op =? g_lvl G op')%nat | None => false end.

Fixpoint to_nexpr (G : gtab) (tenv : nat -> vkind) (io : into) (s : sexpr) : nexpr :=
  match s with
  | SNum z => NLit z
  | SChr b => NLit b
  | SBool b => match io with IntoInt => NLit (if b then 1 else 0) | _ => NBoolConst b end
  | SEnum k => NEnumConst k
  | SVar v => NVar v
  | SLen v => NLen v
  | SLast => NLast
  | SIdx v i => NIdx v (to_nexpr G tenv IntoNone i)
  | SParen e => to_nexpr G tenv io e
  | SNot a => NNode OEq (to_nexpr G tenv io a) false NFalseK
  | SNeg a => NNode OSub (NLit 0) false (to_nexpr G tenv io a)
  | SBin op a b =>
      if is_cmp op then
        let l := to_nexpr G tenv IntoNone a in
        NNode op l false (to_nexpr G tenv (match l with NVar v => into_of_kind (tenv v) | _ => IntoNone end) b)
      else NNode op (to_nexpr G tenv io a) (chains_with G op a) (to_nexpr G tenv io b)
  end.

(** IntegerExpr.result_type *)
Fixpoint ntype (tenv : nat -> vkind) (n : nexpr) : nty :=
  match n with
  | NLit _ => NInt
  | NBoolConst _ | NFalseK => NBool
  | NEnumConst _ => NEnum
  | NVar v => match tenv v with KBool => NBool | KEnum => NEnum | _ => NInt end
  | NLen _ | NIdx _ _ | NLast => NInt
  | NNode op l _ _ => if is_cmp op then NBool else ntype tenv l
  end.

(** IntegerCondition.__init__: an INT expression used as a condition is compared with 0 *)
Definition as_cond (tenv : nat -> vkind) (n : nexpr) : nexpr :=
  match ntype tenv n with NInt => NNode ONe n false (NLit 0) | _ => n end.
Definition to_cond (G : gtab) (tenv : nat -> vkind) (s : sexpr) : nexpr := as_cond tenv (to_nexpr G tenv IntoNone s).

(** * The binary tree given to the concrete model (harness/cdrv.py CfgPrinter.expr on export.expr_key) *)
Fixpoint fold (n : nexpr) : iexpr :=
  match n with
  | NLit z => ELit z
  | NBoolConst b => ELit (if b then 1 else 0)
  | NFalseK => EConstInt 0
  | NEnumConst k => EConstInt k
  | NVar v => EVar v
  | NLen v => ELen v
  | NIdx v i => EIdx v (fold i)
  | NLast => ELast
  | NNode op l _ r => EBin op (fold l) (fold r)
  end.

(** * The C text (CodegenCtx._generate_code_for_int_expr), as the surface form of what is printed:
    each child in parentheses, the spine of one node side by side; [(inval)] for $last; the indexed
    read keeps its index unparenthesised inside the brackets.  The bounds-check wrapper around an
    indexed read is a fixed template (recognised as such by the harness' tokeniser); its meaning is
    [guard_eval] below. *)
Fixpoint surf (n : nexpr) : sexpr :=
  match n with
  | NLit z => SNum z
  | NBoolConst b => SBool b
  | NFalseK => SBool false
  | NEnumConst k => SEnum k
  | NVar v => SVar v
  | NLen v => SLen v
  | NIdx v i => SIdx v (surf i)
  | NLast => SParen SLast
  | NNode op l lc r => SBin op (if lc then surf l else SParen (surf l)) (SParen (surf r))
  end.
Definition render (n : nexpr) : list token := tok (surf n).

(** the classes of n-ary IntegerExpr nodes: which operators may share one node *)
Inductive nclass := ClSum | ClMul | ClBitOr | ClBitXor | ClBitAnd | ClAnd | ClOr.
Definition chain_class (op : binop) : option nclass :=
  match op with
  | OAdd | OSub => Some ClSum
  | OMul | ODiv | OMod => Some ClMul
  | OOr => Some ClBitOr | OXor => Some ClBitXor | OAnd => Some ClBitAnd
  | OLAnd => Some ClAnd | OLOr => Some ClOr
  | _ => None
  end.
Definition nclass_eqb (a b : nclass) : bool :=
  match a, b with
  | ClSum, ClSum | ClMul, ClMul | ClBitOr, ClBitOr | ClBitXor, ClBitXor | ClBitAnd, ClBitAnd | ClAnd, ClAnd | ClOr, ClOr => true
  | _, _ => false end.
Definition same_class (x y : binop) : bool :=
  match chain_class x, chain_class y with Some a, Some b => nclass_eqb a b | _, _ => false end.

(** a spine only continues a node of the same class *)
Fixpoint nvalid (n : nexpr) : bool :=
  match n with
  | NIdx _ i => nvalid i
  | NNode op l lc r =>
      nvalid l && nvalid r &&
      (negb lc || match l with NNode op' _ _ _ => same_class op op' | _ => false end)
  | _ => true
  end.

(** character constants are bytes *)
Fixpoint chars_ok (s : sexpr) : bool :=
  match s with
  | SChr b => (0 <=? b) && (b <=? 255)
  | SIdx _ i => chars_ok i
  | SParen e | SNot e | SNeg e => chars_ok e
  | SBin _ a b => chars_ok a && chars_ok b
  | _ => true
  end.

(** * The bounds-check template around an indexed read:
      (((I) >= 0 && (I) < SIZE) ? ((uint8_t)BUF[I]) : 0)
    evaluated with C's rules for the index value [iv] ([I] has no side effects, so its three copies
    have one value); the conditional's type is the usual arithmetic conversion of uint8_t and int. *)
Definition guard_eval (E : env) (v : nat) (size : Z) (iv : cval) : option cval :=
  match eval_bin OGe iv (TI32, 0) with
  | None => None
  | Some c1 =>
      if truth c1 then
        match eval_bin OLt iv (TI32, size) with
        | None => None
        | Some c2 =>
            if truth c2 then
              match idx_val E v (snd iv) with
              | Some (Some c) => Some (uac TU8 TI32, wrap TU8 (snd c))
              | _ => None
              end
            else Some (uac TU8 TI32, 0)
        end
      else Some (uac TU8 TI32, 0)
  end.

(** what the store has to provide for the template to be meaningful *)
Definition env_sized (E : env) (v : nat) (size : Z) : Prop :=
  0 < size <= tmax TI32 /\ (forall i, idx_val E v i = None <-> ~ (0 <= i < size))
  /\ (forall i c, idx_val E v i = Some (Some c) -> fst c = TU8 /\ in_range TU8 (snd c) = true).

(** values of variables lie in the range of their C type *)
Definition env_ok (E : env) : Prop :=
  (forall v c, var_val E v = Some c -> in_range (fst c) (snd c) = true)
  /\ (forall v c, len_val E v = Some c -> in_range (fst c) (snd c) = true)
  /\ (forall v i c, idx_val E v i = Some (Some c) -> in_range (fst c) (snd c) = true)
  /\ in_range TU8 (last E) = true.

(** * Boolean equalities used by the per-run correspondence files *)
Fixpoint iexpr_eqb (a b : iexpr) : bool :=
  match a, b with
  | ELit x, ELit y | EConstInt x, EConstInt y => x =? y
  | EVar x, EVar y | ELen x, ELen y => Nat.eqb x y
  | EIdx x i, EIdx y j => Nat.eqb x y && iexpr_eqb i j
  | ELast, ELast => true
  | EBin o a1 a2, EBin p b1 b2 => binop_eqb o p && iexpr_eqb a1 b1 && iexpr_eqb a2 b2
  | _, _ => false
  end.

Fixpoint nexpr_eqb (a b : nexpr) : bool :=
  match a, b with
  | NLit x, NLit y | NEnumConst x, NEnumConst y => x =? y
  | NBoolConst x, NBoolConst y => Bool.eqb x y
  | NFalseK, NFalseK | NLast, NLast => true
  | NVar x, NVar y | NLen x, NLen y => Nat.eqb x y
  | NIdx x i, NIdx y j => Nat.eqb x y && nexpr_eqb i j
  | NNode o a1 c a2, NNode p b1 d b2 => binop_eqb o p && Bool.eqb c d && nexpr_eqb a1 b1 && nexpr_eqb a2 b2
  | _, _ => false
  end.

Definition token_eqb (a b : token) : bool :=
  match a, b with
  | TLP, TLP | TRP, TRP | TLB, TLB | TRB, TRB | TNot, TNot | TLast, TLast => true
  | TOp x, TOp y => binop_eqb x y
  | TNum x, TNum y | TConst x, TConst y => x =? y
  | TVar x, TVar y | TLen x, TLen y | TBuf x, TBuf y => Nat.eqb x y
  | _, _ => false
  end.
Fixpoint tokens_eqb (a b : list token) : bool :=
  match a, b with
  | [], [] => true
  | x :: a', y :: b' => token_eqb x y && tokens_eqb a' b'
  | _, _ => false
  end.

Fixpoint cexpr_eqb (a b : cexpr) : bool :=
  match a, b with
  | CLit x, CLit y | CConst x, CConst y => x =? y
  | CVar x, CVar y | CLen x, CLen y => Nat.eqb x y
  | CLast, CLast => true
  | CIdx x i, CIdx y j => Nat.eqb x y && cexpr_eqb i j
  | CNot x, CNot y | CNeg x, CNeg y => cexpr_eqb x y
  | CBin o a1 a2, CBin p b1 b2 => binop_eqb o p && cexpr_eqb a1 b1 && cexpr_eqb a2 b2
  | _, _ => false
  end.
