(** Proofs for C14: C arithmetic keeps values in the range of their types; the desugaring of
    [ExprModel.to_nexpr] and the rendering [ExprModel.render] preserve the C value of the source
    text; the layering regenerated from nmfu's grammar string (Gen/GGrammar.v) is C's; the
    bounds-check template; conditions; stores (CSkel/Store.v). *)
From Coq Require Import ZArith NArith List Bool Lia.
Import ListNotations.
From NV Require Import Expr.CArith Expr.CParse Expr.ExprModel.
Local Open Scope Z_scope.

(** * Conversions *)
Lemma wrap_id t z : in_range t z = true -> wrap t z = z.
Proof.
  unfold in_range, wrap, tmin, tmax. intros H. apply andb_prop in H as [H1 H2]. apply Z.leb_le in H1, H2.
  destruct t; cbn [is_signed width] in *;
    try (rewrite Z.mod_small by lia; lia).
  destruct (Z.eqb_spec z 0); lia.
Qed.

Lemma wrap_0 t : wrap t 0 = 0.
Proof. apply wrap_id. destruct t; reflexivity. Qed.

Lemma uac_comm a b : uac a b = uac b a.
Proof. destruct a, b; reflexivity. Qed.
Lemma uac_int_l t : uac TI32 t = promote t.
Proof. destruct t; reflexivity. Qed.
Lemma uac_int_r t : uac t TI32 = promote t.
Proof. destruct t; reflexivity. Qed.
Lemma uac_promoted a b : uac a b = TI32 \/ uac a b = TU32 \/ uac a b = TI64 \/ uac a b = TU64.
Proof. destruct a, b; cbn; auto. Qed.
Lemma promote_promoted a : promote a = TI32 \/ promote a = TU32 \/ promote a = TI64 \/ promote a = TU64.
Proof. destruct a; cbn; auto. Qed.

Lemma promote_range t z : in_range t z = true -> in_range (promote t) z = true.
Proof.
  unfold in_range, tmin, tmax. intros H. apply andb_prop in H as [H1 H2]. apply Z.leb_le in H1, H2.
  destruct t; cbn [promote is_signed width] in *; apply andb_true_intro; split; apply Z.leb_le; lia.
Qed.

(** a value of type [t] keeps its value when converted for an operation with an int operand *)
Lemma wrap_promote t z : in_range t z = true -> wrap (promote t) z = z.
Proof. intros H. apply wrap_id, promote_range, H. Qed.

Lemma in_range_bool b : in_range TI32 (snd (of_bool b)) = true.
Proof. destruct b; reflexivity. Qed.

(** * C arithmetic is type-sound: a defined result lies in the range of its type *)
Lemma quot_nonneg_bounds a b : 0 <= a -> 0 < b -> 0 <= Z.quot a b <= a.
Proof.
  intros Ha Hb. split.
  - apply Z.quot_pos; lia.
  - apply Z.quot_le_upper_bound; nia.
Qed.

Lemma quot_abs_le a b : b <> 0 -> Z.abs (Z.quot a b) <= Z.abs a.
Proof.
  intros Hb. rewrite <- Z.quot_abs by exact Hb. apply quot_nonneg_bounds; lia.
Qed.

Lemma quot_signed_range h a b : 2 <= h -> - h <= a <= h - 1 -> b <> 0 -> ~ (a = - h /\ b = -1) ->
  - h <= Z.quot a b <= h - 1.
Proof.
  intros Hh Ha Hb Hn.
  destruct (Z.eq_dec a (- h)) as [E|E].
  - destruct (Z.eq_dec b 1) as [E1|E1].
    + subst b. rewrite Z.quot_1_r. lia.
    + assert (Hb2 : 2 <= Z.abs b) by lia.
      pose proof (Z.quot_abs a b Hb) as Hq.
      assert (Hle : Z.quot (Z.abs a) (Z.abs b) <= Z.quot (Z.abs a) 2) by (apply Z.quot_le_compat_l; lia).
      assert (H2 : Z.quot (Z.abs a) 2 <= h - 1) by (apply Z.quot_le_upper_bound; lia).
      lia.
  - pose proof (quot_abs_le a b Hb). lia.
Qed.

Lemma arith_in_range t z r : arith t z = Some r -> in_range (fst r) (snd r) = true.
Proof.
  unfold arith. destruct (is_signed t).
  - destruct (in_range t z) eqn:E; intros H; inversion H; subst; exact E.
  - intros H; inversion H; subst. apply wrap_in_range.
Qed.

Lemma in_range_iff t z : in_range t z = true <-> tmin t <= z <= tmax t.
Proof. unfold in_range. rewrite andb_true_iff, !Z.leb_le. tauto. Qed.

Lemma shiftr_range t l r : in_range t l = true -> 0 <= r -> in_range t (Z.shiftr l r) = true.
Proof.
  intros Hl Hr. apply in_range_iff in Hl. apply in_range_iff.
  rewrite Z.shiftr_div_pow2 by exact Hr.
  assert (Hp : 0 < 2 ^ r) by (apply Z.pow_pos_nonneg; lia).
  assert (Hlo : tmin t <= 0) by (unfold tmin; destruct t; cbn; lia).
  assert (Hhi : 0 <= tmax t) by (unfold tmax; destruct t; cbn; lia).
  destruct (Z_lt_le_dec l 0) as [Hn|Hn].
  - split.
    + transitivity l; [lia|]. apply Z.div_le_lower_bound; nia.
    + assert (l / 2 ^ r < 0) by (apply Z.div_lt_upper_bound; lia). lia.
  - split.
    + assert (0 <= l / 2 ^ r) by (apply Z.div_pos; lia). lia.
    + transitivity l; [|lia]. apply Z.div_le_upper_bound; nia.
Qed.

Lemma eval_bin_in_range op x y r : eval_bin op x y = Some r -> in_range (fst r) (snd r) = true.
Proof.
  unfold eval_bin.
  set (t := uac (fst x) (fst y)). set (a := wrap t (snd x)). set (b := wrap t (snd y)).
  assert (Ha : in_range t a = true) by apply wrap_in_range.
  assert (Hb : in_range t b = true) by apply wrap_in_range.
  assert (Hdiv : (if b =? 0 then None else if is_signed t && (a =? tmin t) && (b =? -1) then None else Some (t, Z.quot a b)) = Some r ->
                 in_range (fst r) (snd r) = true).
  { destruct (Z.eqb_spec b 0) as [|Hb0]; try discriminate.
    destruct (is_signed t && (a =? tmin t) && (b =? -1)) eqn:Eg; try discriminate.
    intros H; inversion H; subst; cbn [fst snd]. apply in_range_iff in Ha, Hb. apply in_range_iff.
    destruct (uac_promoted (fst x) (fst y)) as [E|[E|[E|E]]]; fold t in E; rewrite E in *;
      unfold tmin, tmax in *; cbn [is_signed width] in *.
    - apply quot_signed_range; lia.
    - pose proof (quot_nonneg_bounds a b). lia.
    - apply quot_signed_range; lia.
    - pose proof (quot_nonneg_bounds a b). lia. }
  assert (Hrem : (if b =? 0 then None else if is_signed t && (a =? tmin t) && (b =? -1) then None else Some (t, Z.rem a b)) = Some r ->
                 in_range (fst r) (snd r) = true).
  { destruct (Z.eqb_spec b 0) as [|Hb0]; try discriminate.
    destruct (is_signed t && (a =? tmin t) && (b =? -1)) eqn:Eg; try discriminate.
    intros H; inversion H; subst; cbn [fst snd]. apply in_range_iff in Ha, Hb. apply in_range_iff.
    pose proof (Z.rem_bound_abs a b Hb0) as Hab.
    destruct (uac_promoted (fst x) (fst y)) as [E|[E|[E|E]]]; fold t in E; rewrite E in *;
      unfold tmin, tmax in *; cbn [is_signed width] in *.
    - lia.
    - pose proof (Z.rem_bound_pos a b). lia.
    - lia.
    - pose proof (Z.rem_bound_pos a b). lia. }
  destruct op; try (intros H; inversion H; subst; cbn [fst snd]; first [apply wrap_in_range | apply in_range_bool]);
    try (apply arith_in_range); auto.
  - (* shl *)
    destruct ((snd y <? 0) || (width (promote (fst x)) <=? snd y)); try discriminate.
    destruct (is_signed (promote (fst x))).
    + destruct (wrap (promote (fst x)) (snd x) <? 0); try discriminate.
      destruct (in_range (promote (fst x)) (wrap (promote (fst x)) (snd x) * 2 ^ snd y)) eqn:E; try discriminate.
      intros H; inversion H; subst. exact E.
    + intros H; inversion H; subst. apply wrap_in_range.
  - (* shr *)
    destruct ((snd y <? 0) || (width (promote (fst x)) <=? snd y)) eqn:E; try discriminate.
    apply orb_false_elim in E as [E _]. apply Z.ltb_ge in E.
    intros H; inversion H; subst; cbn [fst snd]. apply shiftr_range; auto. apply wrap_in_range.
Qed.

Lemma lit_type_range z t : lit_type z = Some t -> in_range t z = true /\ in_range t (Z.abs z) = true /\ (t = TI32 \/ t = TI64).
Proof.
  unfold lit_type. destruct (Z.abs z <=? tmax TI32) eqn:E1.
  - intros H; inversion H; subst. apply Z.leb_le in E1. unfold tmax in E1; cbn in E1.
    repeat split; auto; apply in_range_iff; unfold tmin, tmax; cbn; lia.
  - destruct (Z.abs z <=? tmax TI64) eqn:E2; try discriminate.
    intros H; inversion H; subst. apply Z.leb_le in E2. unfold tmax in E2; cbn in E2.
    repeat split; auto; apply in_range_iff; unfold tmin, tmax; cbn; lia.
Qed.

(** the constants of a model expression are ints *)
Fixpoint iconsts_ok (e : iexpr) : bool :=
  match e with
  | EConstInt z => in_range TI32 z
  | EIdx _ i => iconsts_ok i
  | EBin _ a b => iconsts_ok a && iconsts_ok b
  | _ => true
  end.

Theorem ceval_in_range E : env_ok E -> forall e c, iconsts_ok e = true -> ceval E e = Some c -> in_range (fst c) (snd c) = true.
Proof.
  intros (Hv & Hl & Hi & Hlast). induction e; cbn [ceval iconsts_ok]; intros c Hc H.
  - destruct (lit_type z) eqn:E1; try discriminate. inversion H; subst. apply (lit_type_range _ _ E1).
  - inversion H; subst. exact Hc.
  - eapply Hv; eauto.
  - eapply Hl; eauto.
  - destruct (ceval E e) as [iv|]; try discriminate.
    destruct (idx_val E v (snd iv)) as [[cell|]|] eqn:Ec; try discriminate.
    + inversion H; subst. pose proof (Hi _ _ _ Ec) as Hr. destruct (safe_idx E); cbn [fst snd]; auto. apply promote_range, Hr.
    + destruct (safe_idx E); try discriminate. inversion H; subst. reflexivity.
  - inversion H; subst. exact Hlast.
  - apply andb_prop in Hc as [Hc1 Hc2].
    destruct op; try (destruct (ceval E e1) as [x|]; try discriminate; destruct (ceval E e2) as [y|]; try discriminate;
                      eapply eval_bin_in_range; eauto; fail).
    + destruct (ceval E e1) as [x|]; try discriminate. destruct (truth x).
      * destruct (ceval E e2) as [y|]; try discriminate. inversion H; subst. apply in_range_bool.
      * inversion H; subst. reflexivity.
    + destruct (ceval E e1) as [x|]; try discriminate. destruct (truth x).
      * inversion H; subst. reflexivity.
      * destruct (ceval E e2) as [y|]; try discriminate. inversion H; subst. apply in_range_bool.
Qed.

(** * The binary model expression means what its C tree means *)
Lemma lit_type_opp z : lit_type (- z) = lit_type z.
Proof. unfold lit_type. rewrite Z.abs_opp. reflexivity. Qed.

Lemma neg_lit z t : z < 0 -> lit_type z = Some t -> cneg (t, - z) = Some (t, z).
Proof.
  intros Hz Hl. destruct (lit_type_range _ _ Hl) as (H1 & H2 & Ht).
  assert (Ea : Z.abs z = - z) by lia. rewrite Ea in H2.
  unfold cneg. cbn [fst snd].
  assert (Ep : promote t = t) by (destruct Ht; subst; reflexivity). rewrite Ep.
  rewrite (wrap_id _ _ H2), Z.opp_involutive. unfold arith.
  assert (Es : is_signed t = true) by (destruct Ht; subst; reflexivity). rewrite Es, H1. reflexivity.
Qed.

Lemma lit_eval E z : cceval E (if z <? 0 then CNeg (CLit (- z)) else CLit z)
                     = match lit_type z with Some t => Some (t, z) | None => None end.
Proof.
  destruct (Z.ltb_spec z 0); cbn [cceval]; auto.
  rewrite lit_type_opp. destruct (lit_type z) eqn:E1; auto. apply neg_lit; auto.
Qed.

Theorem cembed_eval E : forall e, cceval E (cembed e) = ceval E e.
Proof.
  induction e; cbn [cembed ceval].
  - apply lit_eval.
  - reflexivity.
  - reflexivity.
  - reflexivity.
  - cbn [cceval]. rewrite IHe. reflexivity.
  - reflexivity.
  - destruct op; cbn [cceval]; rewrite IHe1, IHe2; reflexivity.
Qed.

(** * Desugaring preserves the C value of the source text, for every expression and environment *)
Fixpoint consts_ok (s : sexpr) : bool :=
  match s with
  | SChr b => (0 <=? b) && (b <=? 255)
  | SEnum k => in_range TI32 k
  | SIdx _ i => consts_ok i
  | SParen e | SNot e | SNeg e => consts_ok e
  | SBin _ a b => consts_ok a && consts_ok b
  | _ => true
  end.

Lemma eval_bin_eq_sym x y : eval_bin OEq x y = eval_bin OEq y x.
Proof. unfold eval_bin. rewrite (uac_comm (fst x) (fst y)), Z.eqb_sym. reflexivity. Qed.

Lemma neg_is_zero_minus x : eval_bin OSub (TI32, 0) x = cneg x.
Proof.
  unfold eval_bin, cneg. cbn [fst snd]. rewrite uac_int_l, wrap_0, Z.sub_0_l. reflexivity.
Qed.

Lemma lit_type_byte b : 0 <= b <= 255 -> lit_type b = Some TI32.
Proof.
  intros H. unfold lit_type. replace (Z.abs b <=? tmax TI32) with true; auto.
  symmetry. apply Z.leb_le. unfold tmax; cbn. lia.
Qed.

Theorem desugar_preserves G tenv E : forall s io, consts_ok s = true ->
  cceval E (emb s) = ceval E (fold (to_nexpr G tenv io s)).
Proof.
  induction s; intros io Hc; cbn [emb to_nexpr fold consts_ok] in *.
  - cbn [ceval]. apply lit_eval.
  - apply andb_prop in Hc as [H1 H2]. apply Z.leb_le in H1, H2. cbn [cceval ceval]. rewrite lit_type_byte by lia. reflexivity.
  - destruct io, b; reflexivity.
  - reflexivity.
  - reflexivity.
  - reflexivity.
  - cbn [cceval ceval]. rewrite (IHs IntoNone Hc). reflexivity.
  - reflexivity.
  - apply IHs, Hc.
  - cbn [cceval ceval]. rewrite (IHs io Hc). destruct (ceval E (fold (to_nexpr G tenv io s))); auto.
    unfold cnot. apply eval_bin_eq_sym.
  - cbn [cceval]. rewrite (IHs io Hc).
    change (ceval E (EBin OSub (ELit 0) (fold (to_nexpr G tenv io s))))
      with (match ceval E (ELit 0), ceval E (fold (to_nexpr G tenv io s)) with Some x, Some y => eval_bin OSub x y | _, _ => None end).
    change (ceval E (ELit 0)) with (Some (TI32, 0)).
    destruct (ceval E (fold (to_nexpr G tenv io s))); auto. symmetry. apply neg_is_zero_minus.
  - apply andb_prop in Hc as [H1 H2]. destruct (is_cmp op) eqn:Ec; cbn [fold].
    + destruct op; try discriminate; cbn [cceval ceval]; erewrite <- IHs1, <- IHs2 by assumption; reflexivity.
    + destruct op; try discriminate; cbn [cceval ceval]; erewrite <- IHs1, <- IHs2 by assumption; reflexivity.
Qed.

(** * Rendering: what is printed is a C-well-formed surface expression denoting the folded tree *)
Definition render_tree (n : nexpr) : cexpr := emb (surf n).

Lemma render_tree_eval E : forall n, cceval E (render_tree n) = ceval E (fold n).
Proof.
  unfold render_tree. induction n; cbn [surf emb fold].
  - cbn [ceval]. apply lit_eval.
  - destruct b; reflexivity.
  - reflexivity.
  - reflexivity.
  - reflexivity.
  - reflexivity.
  - cbn [cceval ceval]. rewrite IHn. reflexivity.
  - reflexivity.
  - assert (H1 : cceval E (emb (if lchain then surf n1 else SParen (surf n1))) = ceval E (fold n1))
      by (destruct lchain; exact IHn1).
    destruct op; cbn [cceval ceval emb]; rewrite H1, IHn2; reflexivity.
Qed.

Lemma same_class_prec x y : same_class x y = true -> c_prec x = c_prec y.
Proof. destruct x, y; cbn; intros H; try discriminate; reflexivity. Qed.

Definition ntop (n : nexpr) : nat := match n with NNode op _ _ _ => c_prec op | _ => c_unary_level end.

Lemma surf_wf : forall n, nvalid n = true -> forall m, (m <= ntop n)%nat -> wf c_tab m (surf n) = true.
Proof.
  induction n; cbn [nvalid surf wf ntop]; intros Hv m Hm; auto.
  - apply IHn; auto. lia.
  - apply andb_prop in Hv as [Hv Hc]. apply andb_prop in Hv as [Hl Hr].
    cbn [c_tab g_lvl g_chain g_unary_lvl]. pose proof (c_prec_bound op) as Hb.
    rewrite (IHn2 Hr 0%nat ltac:(lia)), andb_true_r.
    assert (Ha : wf c_tab (c_prec op) (if lchain then surf n1 else SParen (surf n1)) = true).
    { destruct lchain.
      - cbn in Hc. destruct n1; try discriminate. apply IHn1; auto. cbn [ntop].
        rewrite (same_class_prec _ _ Hc). lia.
      - cbn [wf]. apply IHn1; auto. lia. }
    rewrite Ha, andb_true_r. apply andb_true_intro. split.
    + apply Nat.leb_le. exact Hm.
    + apply Nat.ltb_lt. unfold c_unary_level. lia.
Qed.

Theorem render_parses n : nvalid n = true -> cparse (render n) = Some (render_tree n).
Proof.
  intros Hv. unfold render, render_tree. apply cparse_complete. apply surf_wf; auto. lia.
Qed.

(** the trees [to_nexpr] builds are valid whenever the grammar table only chains operators of one class *)
Definition chains_one_class (G : gtab) : bool :=
  forallb (fun x => forallb (fun y => negb (g_chain G x && (g_lvl G x =? g_lvl G y)%nat) || same_class x y) all_ops) all_ops.

Lemma chains_one_class_spec G : chains_one_class G = true ->
  forall x y, g_chain G x = true -> g_lvl G x = g_lvl G y -> same_class x y = true.
Proof.
  unfold chains_one_class. intros H x y Hc Hl. rewrite forallb_forall in H.
  specialize (H x (all_ops_complete x)). rewrite forallb_forall in H. specialize (H y (all_ops_complete y)).
  rewrite Hc, Hl, Nat.eqb_refl in H. exact H.
Qed.

Lemma to_nexpr_top G tenv io s op a b : s = SBin op a b -> exists l c r, to_nexpr G tenv io s = NNode op l c r.
Proof. intros ->. cbn [to_nexpr]. destruct (is_cmp op); eexists _, _, _; reflexivity. Qed.

Theorem to_nexpr_valid G tenv : chains_one_class G = true -> forall s io, nvalid (to_nexpr G tenv io s) = true.
Proof.
  intros HG. induction s; intros io; cbn [to_nexpr nvalid]; auto.
  - destruct io, b; reflexivity.
  - rewrite IHs. reflexivity.
  - rewrite IHs. reflexivity.
  - destruct (is_cmp op); cbn [nvalid]; rewrite IHs1, IHs2; cbn [andb negb orb]; auto.
    unfold chains_with. destruct s1; cbn [top_op negb orb]; auto.
    destruct (g_chain G op && (g_lvl G op =? g_lvl G op0)%nat) eqn:Ec; cbn [negb orb]; auto.
    apply andb_prop in Ec as [E1 E2]. apply Nat.eqb_eq in E2.
    destruct (to_nexpr_top G tenv io (SBin op0 s1_1 s1_2) op0 s1_1 s1_2 eq_refl) as (l & c & r & ->).
    apply (chains_one_class_spec G HG); auto.
Qed.

Lemma as_cond_valid tenv n : nvalid n = true -> nvalid (as_cond tenv n) = true.
Proof. intros H. unfold as_cond. destruct (ntype tenv n); auto. cbn [nvalid]. rewrite H. reflexivity. Qed.

(** * End to end for one expression: the C compiler reads the emitted text as a tree whose value, in
    every environment, is the value of the source text read as C reads it *)
Theorem source_and_emitted_agree G tenv : compat G c_tab = true -> chains_one_class G = true ->
  forall s io, wf G 0 s = true -> consts_ok s = true ->
  exists ts te, cparse (tok s) = Some ts /\ cparse (render (to_nexpr G tenv io s)) = Some te
                /\ forall E, cceval E ts = cceval E te.
Proof.
  intros HC HK s io Hwf Hc. exists (emb s), (render_tree (to_nexpr G tenv io s)). repeat split.
  - apply (same_tree_for G HC s Hwf).
  - apply render_parses. apply to_nexpr_valid, HK.
  - intros E. rewrite render_tree_eval. apply desugar_preserves, Hc.
Qed.

(** * Conditions: an integer used as a condition is true iff it is non-zero *)
Lemma truth_of_bool b : truth (of_bool b) = b.
Proof. destruct b; reflexivity. Qed.

Theorem cond_truthy E e x : ceval E e = Some x -> in_range (fst x) (snd x) = true ->
  ceval E (EBin ONe e (ELit 0)) = Some (of_bool (truth x)).
Proof.
  intros He Hr.
  change (ceval E (EBin ONe e (ELit 0)))
    with (match ceval E e, ceval E (ELit 0) with Some x, Some y => eval_bin ONe x y | _, _ => None end).
  rewrite He. change (ceval E (ELit 0)) with (Some (TI32, 0)).
  unfold eval_bin. cbn [fst snd]. rewrite uac_int_r, wrap_0, (wrap_promote _ _ Hr). reflexivity.
Qed.

Corollary cond_truthy_env E e x : env_ok E -> iconsts_ok e = true -> ceval E e = Some x ->
  exists r, ceval E (EBin ONe e (ELit 0)) = Some r /\ truth r = negb (snd x =? 0).
Proof.
  intros HE Hc He. eexists. split.
  - apply cond_truthy; eauto. eapply ceval_in_range; eauto.
  - rewrite truth_of_bool. reflexivity.
Qed.

(** the condition nmfu builds from a source expression denotes the truth of the source expression *)
Theorem as_cond_truth E tenv n x : ceval E (fold n) = Some x -> in_range (fst x) (snd x) = true ->
  exists r, ceval E (fold (as_cond tenv n)) = Some r /\ truth r = truth x.
Proof.
  intros He Hr. unfold as_cond. destruct (ntype tenv n).
  - cbn [fold]. rewrite (cond_truthy E _ _ He Hr). eexists; split; eauto. apply truth_of_bool.
  - eexists; split; eauto.
  - eexists; split; eauto.
Qed.

(** * Indexing *)
Theorem index_safe E v i iv : safe_idx E = true -> ceval E i = Some iv -> idx_val E v (snd iv) = None ->
  ceval E (EIdx v i) = Some (TI32, 0).
Proof. intros Hs Hi Hn. cbn [ceval]. rewrite Hi, Hn, Hs. reflexivity. Qed.

Theorem index_unsafe_undefined E v i iv : safe_idx E = false -> ceval E i = Some iv -> idx_val E v (snd iv) = None ->
  ceval E (EIdx v i) = None.
Proof. intros Hs Hi Hn. cbn [ceval]. rewrite Hi, Hn, Hs. reflexivity. Qed.

Lemma size_in_promoted t size : 0 < size <= tmax TI32 -> wrap (promote t) size = size.
Proof.
  intros H. apply wrap_id, in_range_iff. unfold tmax in H; cbn in H.
  destruct (promote_promoted t) as [E|[E|[E|E]]]; rewrite E; unfold tmin, tmax; cbn; lia.
Qed.

(** the emitted bounds-check template computes exactly the checked read of the model *)
Theorem guard_is_checked_read E v size iv : env_sized E v size -> in_range (fst iv) (snd iv) = true ->
  guard_eval E v size iv =
  match idx_val E v (snd iv) with
  | None => Some (TI32, 0)
  | Some None => None
  | Some (Some c) => Some (promote (fst c), snd c)
  end.
Proof.
  intros (Hsz & Hout & Hcell) Hr. unfold guard_eval, eval_bin. cbn [fst snd].
  rewrite uac_int_r, wrap_0, (wrap_promote _ _ Hr), (size_in_promoted _ _ Hsz), !truth_of_bool.
  change (uac TU8 TI32) with TI32.
  destruct (Z.geb_spec (snd iv) 0) as [Hge|Hlt].
  - destruct (Z.ltb_spec (snd iv) size) as [Hlt|Hge2].
    + destruct (idx_val E v (snd iv)) as [[c|]|] eqn:Ec; auto.
      * destruct (Hcell _ _ Ec) as [Ht Hc]. rewrite Ht, (wrap_id _ _ Hc). reflexivity.
      * exfalso. apply (proj1 (Hout _)) in Ec. lia.
    + assert (Ec : idx_val E v (snd iv) = None) by (apply Hout; lia). rewrite Ec. reflexivity.
  - assert (Ec : idx_val E v (snd iv) = None) by (apply Hout; lia). rewrite Ec. reflexivity.
Qed.

(** * Stores and conditions of the concrete model (CSkel/Store.v) all go through [ceval] on one
    environment: assignment, character append, and the test used both for the condition points of
    `if` statements and for conditional actions (harness/export.py turns both into [TCond]) *)
From NV Require Import Machine.Dfa Machine.Sem CSkel.Store.

Theorem assign_converts cfg v e inval x x' : exec_cprim cfg (PSetInt v e) inval x = Some x' ->
  exists t cv, nth_error (c_decls cfg) v = Some (DInt t) /\ ceval (cenv cfg (vals x) inval) e = Some cv
    /\ vals x' = set_nth (vals x) v (VInt (wrap t (snd cv))) /\ in_range t (wrap t (snd cv)) = true.
Proof.
  cbn [exec_cprim]. destruct (nth_error (c_decls cfg) v) as [[t|? ? ?]|]; try discriminate.
  destruct (ceval (cenv cfg (vals x) inval) e) as [cv|]; try discriminate.
  intros H; inversion H; subst. exists t, cv. repeat split; auto. apply wrap_in_range.
Qed.

Theorem append_converts cfg v e inval x x' : exec_cprim cfg (PAppendExpr v e) inval x = Some x' ->
  exists size null u8 cells n cv, nth_error (c_decls cfg) v = Some (DBuf size null u8) /\ nth_error (vals x) v = Some (VBuf cells n)
    /\ ceval (cenv cfg (vals x) inval) e = Some cv /\ (n < eff_size size null)%nat
    /\ vals x' = set_nth (vals x) v (VBuf (let cells' := set_nth cells n (Some (Z.to_N (wrap TU8 (snd cv)))) in
                                            if null then set_nth cells' (S n) (Some 0%N) else cells') (S n)).
Proof.
  cbn [exec_cprim]. destruct (nth_error (c_decls cfg) v) as [[?|size null u8]|]; try discriminate.
  destruct (nth_error (vals x) v) as [[?|cells n]|]; try discriminate.
  destruct (ceval (cenv cfg (vals x) inval) e) as [cv|]; try discriminate.
  destruct (Nat.ltb n (eff_size size null)) eqn:El; try discriminate.
  intros H; inversion H; subst. exists size, null, u8, cells, n, cv. repeat split; auto. apply Nat.ltb_lt, El.
Qed.

Theorem condition_truth cfg e inval x b : eval_ctest cfg (TCond e) inval x = Some b ->
  exists cv, ceval (cenv cfg (vals x) inval) e = Some cv /\ b = negb (snd cv =? 0).
Proof.
  cbn [eval_ctest]. destruct (ceval (cenv cfg (vals x) inval) e) as [cv|]; try discriminate.
  intros H; inversion H; subst. exists cv. split; reflexivity.
Qed.

Theorem contexts_agree cfg e inval x :
  let E := cenv cfg (vals x) inval in
  (forall v x', exec_cprim cfg (PSetInt v e) inval x = Some x' ->
     exists t cv, nth_error (c_decls cfg) v = Some (DInt t) /\ ceval E e = Some cv /\ vals x' = set_nth (vals x) v (VInt (store_conv t cv)))
  /\ (forall v x', exec_cprim cfg (PAppendExpr v e) inval x = Some x' ->
     exists cells n cv (null : bool), nth_error (vals x) v = Some (VBuf cells n) /\ ceval E e = Some cv
       /\ vals x' = set_nth (vals x) v (VBuf (let cells' := set_nth cells n (Some (Z.to_N (store_conv TU8 cv))) in
                                               if null then set_nth cells' (S n) (Some 0%N) else cells') (S n)))
  /\ (forall b, eval_ctest cfg (TCond e) inval x = Some b -> exists cv, ceval E e = Some cv /\ b = truth cv).
Proof.
  cbv zeta. repeat split.
  - intros v x' H. destruct (assign_converts _ _ _ _ _ _ H) as (t & cv & H1 & H2 & H3 & _). exists t, cv. auto.
  - intros v x' H. destruct (append_converts _ _ _ _ _ _ H) as (size & null & u8 & cells & n & cv & H1 & H2 & H3 & H4 & H5).
    exists cells, n, cv, null. auto.
  - intros b H. destruct (condition_truth _ _ _ _ _ H) as (cv & H1 & H2). exists cv. auto.
Qed.

(** the environment the concrete store presents to expressions has every value in the range of its type *)
Theorem cenv_ok cfg vs inval : vals_ok (c_decls cfg) vs = true -> (inval < 256)%N ->
  (forall v size null u8, nth_error (c_decls cfg) v = Some (DBuf size null u8) -> Z.of_nat size < 2 ^ 32) ->
  (forall v cells n i b, nth_error vs v = Some (VBuf cells n) -> nth_error cells i = Some (Some b) -> (b < 256)%N) ->
  env_ok (cenv cfg vs inval).
Proof.
  intros Hok Hin Hsz Hcells. unfold env_ok, cenv; cbn [var_val len_val idx_val last]. repeat split.
  - intros v c H. destruct (nth_error (c_decls cfg) v) as [[t|? ? ?]|] eqn:Ed; try discriminate.
    destruct (nth_error vs v) as [[z|? ?]|] eqn:Ev; try discriminate. inversion H; subst.
    apply (vals_ok_nth _ _ _ _ _ Hok Ed Ev).
  - intros v c H. destruct (nth_error (c_decls cfg) v) as [[t|size null u8]|] eqn:Ed; try discriminate.
    destruct (nth_error vs v) as [[z|cells n]|] eqn:Ev; try discriminate. inversion H; subst. cbn [fst snd].
    pose proof (vals_ok_nth _ _ _ _ _ Hok Ed Ev) as Hv. cbn [val_ok] in Hv. apply andb_prop in Hv as [_ Hn].
    apply Nat.leb_le in Hn. assert (Hle : (n <= size)%nat) by (unfold eff_size in Hn; destruct null; lia).
    pose proof (Hsz _ _ _ _ Ed) as Hs.
    unfold counter_type. apply in_range_iff.
    destruct (Z.ltb_spec (Z.of_nat size) 256); [|destruct (Z.ltb_spec (Z.of_nat size) 65536)]; unfold tmin, tmax; cbn [is_signed width]; lia.
  - intros v i c H. destruct (nth_error (c_decls cfg) v) as [[t|size null u8]|] eqn:Ed; try discriminate.
    destruct (nth_error vs v) as [[z|cells n]|] eqn:Ev; try discriminate.
    destruct ((0 <=? i) && (i <? Z.of_nat size)); try discriminate.
    destruct (nth_error cells (Z.to_nat i)) as [[b|]|] eqn:Ec; try discriminate. inversion H; subst. cbn [fst snd].
    pose proof (Hcells _ _ _ _ _ Ev Ec). apply in_range_iff. unfold tmin, tmax; cbn [is_signed width]. lia.
  - apply in_range_iff. unfold tmin, tmax; cbn [is_signed width]. lia.
Qed.

(** * The layering regenerated from nmfu's grammar string (Gen/GGrammar.v) is C's *)
From NV Require Import Gen.GGrammar.
Local Open Scope nat_scope.

Definition n_tab : gtab := tab_of_layers g_layers g_unary_arg_is_atom.

Definition is_shift (op : binop) : bool := match op with OShl | OShr => true | _ => false end.

(** every derivation of nmfu's grammar is a derivation of C's with the same tree *)
Theorem layers_compat : compat n_tab c_tab = true.
Proof. vm_compute. reflexivity. Qed.

Theorem layers_chain_classes : chains_one_class n_tab = true.
Proof. vm_compute. reflexivity. Qed.

(** the table itself: nmfu never orders two operators against C; the only C distinction it drops is the
    one between equality and relational operators, and there (as for shifts) it does not chain at all *)
Definition order_check (x y : binop) : bool :=
  (negb (g_lvl n_tab x <? g_lvl n_tab y) || (c_prec x <? c_prec y))
  && (negb (c_prec x <? c_prec y) || (g_lvl n_tab x <? g_lvl n_tab y) || (is_cmp x && is_cmp y))
  && (negb (c_prec x =? c_prec y) || (g_lvl n_tab x =? g_lvl n_tab y)).
Definition kind_check (x : binop) : bool :=
  Bool.eqb (g_chain n_tab x) (negb (is_cmp x || is_shift x)) && (1 <=? g_lvl n_tab x) && (g_lvl n_tab x <? g_unary_lvl n_tab)
  && (length (filter (fun l => mem_op x (fst l)) g_layers) =? 1).

Lemma layers_checks : forallb (fun x => kind_check x && forallb (order_check x) all_ops) all_ops = true.
Proof. vm_compute. reflexivity. Qed.

Theorem layers_agree : forall x y,
  (g_lvl n_tab x < g_lvl n_tab y -> c_prec x < c_prec y)
  /\ (c_prec x < c_prec y -> g_lvl n_tab x < g_lvl n_tab y \/ (is_cmp x = true /\ is_cmp y = true))
  /\ (c_prec x = c_prec y -> g_lvl n_tab x = g_lvl n_tab y)
  /\ (g_chain n_tab x = false <-> is_cmp x = true \/ is_shift x = true)
  /\ (1 <= g_lvl n_tab x < g_unary_lvl n_tab)
  /\ length (filter (fun l => mem_op x (fst l)) g_layers) = 1.
Proof.
  intros x y. pose proof layers_checks as H. rewrite forallb_forall in H.
  specialize (H x (all_ops_complete x)). apply andb_prop in H as [Hk Ho].
  rewrite forallb_forall in Ho. specialize (Ho y (all_ops_complete y)).
  unfold order_check in Ho. apply andb_prop in Ho as [Ho O3]. apply andb_prop in Ho as [O1 O2].
  unfold kind_check in Hk. apply andb_prop in Hk as [Hk K4]. apply andb_prop in Hk as [Hk K3]. apply andb_prop in Hk as [K1 K2].
  repeat split.
  - intros Hl. apply Nat.ltb_lt in Hl. rewrite Hl in O1. cbn in O1. apply Nat.ltb_lt, O1.
  - intros Hl. apply Nat.ltb_lt in Hl. rewrite Hl in O2. cbn in O2. apply orb_prop in O2 as [O2|O2].
    + left. apply Nat.ltb_lt, O2.
    + right. apply andb_prop in O2. exact O2.
  - intros He. apply Nat.eqb_eq in He. rewrite He in O3. cbn in O3. apply Nat.eqb_eq, O3.
  - intros Hc. rewrite Hc in K1. destruct (is_cmp x), (is_shift x); cbn in K1; try discriminate; auto.
  - intros Hc. destruct (g_chain n_tab x); auto. destruct Hc as [Hc|Hc]; rewrite Hc in K1; cbn in K1; try discriminate.
    destruct (is_cmp x); discriminate.
  - apply Nat.leb_le, K2.
  - apply Nat.ltb_lt, K3.
  - apply Nat.eqb_eq, K4.
Qed.

(** prefix operators: exactly ! and -, on an atom only (so they bind tighter than every binary operator,
    as in C, and nmfu derives fewer prefix forms than C) *)
Theorem layers_unary : g_unary_ops = [UNot; UNeg] /\ g_unary_arg_is_atom = true /\ g_atom_has_paren = true /\ g_atom_has_index = true.
Proof. vm_compute. repeat split; reflexivity. Qed.

(** same tree as C, for everything nmfu's grammar derives *)
Theorem same_tree : forall s, wf n_tab 0 s = true -> cparse (tok s) = Some (emb s).
Proof. exact (same_tree_for n_tab layers_compat). Qed.

(** a chain [a x b y c] is read ((a x b) y c) by C and collected from the left by nmfu *)
Corollary chain_left_assoc x y a b c : wf n_tab 0 (SBin y (SBin x a b) c) = true ->
  cparse (tok a ++ TOp x :: tok b ++ TOp y :: tok c) = Some (CBin y (CBin x (emb a) (emb b)) (emb c))
  /\ forall tenv io, is_cmp y = false ->
       fold (to_nexpr n_tab tenv io (SBin y (SBin x a b) c))
       = EBin y (fold (to_nexpr n_tab tenv io (SBin x a b))) (fold (to_nexpr n_tab tenv io c)).
Proof.
  intros H. split.
  - pose proof (same_tree _ H) as Hp. cbn [tok emb] in Hp. rewrite <- app_assoc in Hp. exact Hp.
  - intros tenv io Hy. cbn [to_nexpr]. rewrite Hy. reflexivity.
Qed.

(** the comparison and shift layers do not chain: nmfu rejects [a < b < c] and [a << b << c]
    (it accepts fewer expressions than C there, it never reads one differently) *)
Theorem nonassoc_rejected x y a b c m : g_chain n_tab y = false -> g_lvl n_tab x = g_lvl n_tab y ->
  wf n_tab m (SBin y (SBin x a b) c) = false.
Proof.
  intros Hc Hl. cbn [wf]. rewrite Hc. cbn [wf]. rewrite Hl.
  replace (S (g_lvl n_tab y) <=? g_lvl n_tab y) with false by (symmetry; apply Nat.leb_gt; lia).
  cbn [andb]. rewrite !andb_false_r. reflexivity.
Qed.

Theorem source_and_emitted_agree_nmfu tenv : forall s io, wf n_tab 0 s = true -> consts_ok s = true ->
  exists ts te, cparse (tok s) = Some ts /\ cparse (render (to_nexpr n_tab tenv io s)) = Some te
                /\ forall E, cceval E ts = cceval E te.
Proof. exact (source_and_emitted_agree n_tab tenv layers_compat layers_chain_classes). Qed.

(** the C type of a sized int output is the exact-width type the model stores into *)
Theorem int_type_exact : forall w sg, In w [1; 2; 4; 8]%Z ->
  exists t, int_type w sg = Some t /\ In (w, sg, t) g_int_types /\ width t = (8 * w)%Z /\ is_signed t = sg.
Proof.
  intros w sg [<-|[<-|[<-|[<-|[]]]]]; destruct sg; eexists; (split; [reflexivity|]); (split; [|split; reflexivity]);
    vm_compute; repeat (first [left; reflexivity | right]).
Qed.

Theorem int_type_default : In (0%Z, true, TI32) g_int_types /\ In (0%Z, false, TU32) g_int_types.
Proof. split; vm_compute; repeat (first [left; reflexivity | right]). Qed.
