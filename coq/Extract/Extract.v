(** Extraction of the executable checkers and models (volume tier and C correspondence).
    Only ExtrOcamlBasic is used: bool/option/list/prod/sumbool/unit map to OCaml's types, every
    number type (nat, N, Z, positive) stays the extracted inductive; no Extract Constant of ours. *)
Require Extraction.
Require Import ExtrOcamlBasic.
From NV Require Import Machine.Dfa Machine.Sem Machine.NoSpin Machine.Bisim Machine.BBisim Machine.BSearch Machine.Search Machine.Chunk Machine.FailPos Machine.FailSticky Machine.Eof Expr.CArith CSkel.Store CSkel.Run CSkel.Safety.
Extraction Language OCaml.
Extraction "machine.ml" norm_ok yield_ok spin_witness dfa_bisim_run dfa_bisim_check dfa_bsearch dfa_equiv_cert nospin_cert step_tree leaves
  cstart cfeed cend ceval_tree ceval vals_ok dfa_wf no_stuck_ok stuck_witness appends_guarded end_safe end_witness dfa_slack_run dfa_slack_cert fail_entry_ok fail_entry_witness fail_sticky_ok fail_sticky_witness dfa_bisim_run_on dfa_slack_run_on dfa_equiv_cert_on dfa_slack_cert_on.
