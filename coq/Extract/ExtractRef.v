(** Extraction of the procedural-reading interpreter and its certificate checker (C01, C08, C09, C16).
    Only ExtrOcamlBasic; numbers stay the extracted inductives; no Extract Constant of ours. *)
Require Extraction.
Require Import ExtrOcamlBasic.
From NV Require Import Machine.Dfa Machine.Sem Machine.BBisim Regex.Re Ref.Lang Ref.RefSem Ref.Sim Ref.RefCert Ref.Unambig.
Extraction Language OCaml.
Extraction "refmachine.ml" sim_run sim_cert ref_table ref_spec start_tree start_tree_of to_stree options step_tree unambig_run unambig_check amb_of_cfg succs_of cfg_eqb ref_fuel.
