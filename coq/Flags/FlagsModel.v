(** C19 - hand-written executable model of ProgramData.load_commandline_flags (nmfu.py).

    Two layers, both total Gallina functions:

    - [resolve m lv ovs]   mirrors the second half of load_commandline_flags (the lines after
      "if input_filename is None"): level table applied cumulatively, explicit overrides applied
      in dict order, the "Set implies" fixpoint loop, and the "Fix exclusives" pass ([aux], with its
      in-place clearing, gated on the *current* value of each explicitly given flag, in the
      insertion order of the override dict).
    - [run_cmdline T args] mirrors the tokenising loop in front of it and then calls [resolve].

    The flag metadata [meta] is NOT written here: it is regenerated from the imported nmfu module
    into Gen/GFlags.v on every run (translator/tables2coq.py) and turned into a [meta] by [mk_meta].

    Outcomes ([result]):
      [Ok x]      the function returns
      [Error e]   a RuntimeError is raised: main() reports it and exits 1 (a diagnosed error)
      [Crash c]   any other exception escapes (e.g. a KeyError): main() does not catch it, i.e. the
                  problem is NOT "reported as an error" (FlagsThms.never_crashes: this never happens)
      [Fuel]      the model ran out of fuel (excluded in every theorem; Python would loop or hit
                  the recursion limit)

    What is deliberately outside the model: the program output name (basename / splitext /
    sanitising), --dump-prefix, the text of messages, non-ASCII characters in arguments (str.upper
    is modelled for ASCII only), printing of the help screen ([FExit] stands for exit(0)). *)
From Coq Require Import NArith ZArith List Bool String Ascii FMapPositive.
From NV Require Base.PyLite.
Import ListNotations.

Definition pystr := PyLite.pystr.          (* list N of code points *)
Definition str_eqb := PyLite.str_eqb.

Inductive errkind :=
  | EConflict (a b : N)        (* "Conflict between A and B" *)
  | EUnknownFlag | EUnknownOption | EInvalidArgument | EMissingValue
  | EMultipleFilenames | ENoInput | EOutputExtension | EInvalidOptionValue
  | EInvalidLevel | EInvalidFlagValue | EUnknownDump.
Inductive crashkind := KeyError | ValueError.

Inductive result (A : Type) := Ok (a : A) | Error (e : errkind) | Crash (c : crashkind) | Fuel.
Arguments Ok {A}. Arguments Error {A}. Arguments Crash {A}. Arguments Fuel {A}.

(** * Metadata *)
Record flagmeta := { fid : N; fdefault : bool; fimplies : list N; fexclusive : list N }.
Record meta := { mflags : list flagmeta; mlevels : list (N * list N) }.

Definition mk_meta (ft : list (N * bool * list N * list N)) (lt : list (N * list N)) : meta :=
  {| mflags := map (fun r => match r with (i, d, im, ex) => {| fid := i; fdefault := d; fimplies := im; fexclusive := ex |} end) ft;
     mlevels := lt |}.

Definition ids (m : meta) : list N := map fid (mflags m).
Definition known (m : meta) (k : N) : bool := existsb (N.eqb k) (ids m).

Fixpoint find_meta (l : list flagmeta) (k : N) : option flagmeta :=
  match l with
  | [] => None
  | fm :: r => if (k =? fid fm)%N then Some fm else find_meta r k
  end.
(** [ProgramFlag(k).implies] / [.exclusive_with] (frozensets; emitted in their iteration order) *)
Definition lookup := N -> option flagmeta.          (* ProgramFlag(k): member by value *)
Definition table_lookup (m : meta) : lookup := find_meta (mflags m).
Definition is_member (lk : lookup) (k : N) : bool := match lk k with Some _ => true | None => false end.
Definition implies_of (lk : lookup) (k : N) : list N :=
  match lk k with Some fm => fimplies fm | None => [] end.
Definition exclusive_of (lk : lookup) (k : N) : list N :=
  match lk k with Some fm => fexclusive fm | None => [] end.

(** * Python dicts with flag keys.

    [flag_overrides] is an insertion-ordered association list ([odict]): [d[k] = v] overwrites in place
    when the key exists (keeping its position) and appends otherwise; its iteration order matters.

    [cls._flags] (the configuration) always has exactly the ProgramFlag members as keys, in table
    order; the only place its iteration order is used (the "Set implies" sweep) is modelled by
    iterating over the metadata table itself.  Its contents are therefore kept in a binary trie
    keyed by flag id ([config]), which is what makes the exhaustive checks affordable. *)
Definition odict := list (N * bool).
Fixpoint oset (c : odict) (k : N) (v : bool) : odict :=
  match c with
  | [] => [(k, v)]
  | (k', v') :: r => if (k =? k')%N then (k', v) :: r else (k', v') :: oset r k v
  end.
Fixpoint ofind (c : odict) (k : N) : option bool :=
  match c with
  | [] => None
  | (k', v) :: r => if (k =? k')%N then Some v else ofind r k
  end.
Definition ov_dict (l : list (N * bool)) : odict := fold_left (fun d kv => oset d (fst kv) (snd kv)) l [].
(** [conflict in flag_overrides and flag_overrides[conflict]] *)
Definition ov_on (d : odict) (k : N) : bool := match ofind d k with Some true => true | _ => false end.

Definition config := PositiveMap.t bool.
Definition pk (k : N) : positive := N.succ_pos k.
Definition dset (c : config) (k : N) (v : bool) : config := PositiveMap.add (pk k) v c.
(** [cls._flags[k]]: every lookup the code performs is on a member of ProgramFlag, which is a key by
    construction ([meta_ok] in FlagsProps states this for the metadata); a missing key reads as [false] *)
Definition get (c : config) (k : N) : bool := match PositiveMap.find (pk k) c with Some v => v | None => false end.
Definition has_key (c : config) (k : N) : bool := PositiveMap.mem (pk k) c.
(** the configuration as the list of (id, value) in table order - what ProgramData.do(flag) shows *)
Definition view (m : meta) (c : config) : list (N * bool) := map (fun fm => (fid fm, get c (fid fm))) (mflags m).

(** * resolve *)
(** [cls._flags = {x: x.default for x in ProgramFlag}] *)
Definition init (m : meta) : config := fold_left (fun c fm => dset c (fid fm) (fdefault fm)) (mflags m) (PositiveMap.empty bool).

Fixpoint set_all (l : list N) (c : config) : config :=
  match l with [] => c | k :: r => set_all r (dset c k true) end.

(** [for j in range(optimize_level + 1): for i in cls._OPTIMIZE_LEVELS[j]: cls._flags[i] = True]
    [count] = number of iterations left, [j] = current level; a level missing from the table is a KeyError *)
Fixpoint apply_levels (m : meta) (count : nat) (j : N) (c : config) : result config :=
  match count with
  | O => Ok c
  | S n => match find (fun e => (fst e =? j)%N) (mlevels m) with
           | Some e => apply_levels m n (j + 1)%N (set_all (snd e) c)
           | None => Crash KeyError
           end
  end.

(** [for k, v in flag_overrides.items(): cls._flags[k] = v] *)
Definition apply_overrides (d : odict) (c : config) : config :=
  fold_left (fun c kv => dset c (fst kv) (snd kv)) d c.

(** one sweep of the "Set implies" loop.  [for x in k.implies: if not flags[x]: did = True; flags[x] = True] *)
Fixpoint imp_inner (xs : list N) (c : config) (did : bool) : config * bool :=
  match xs with
  | [] => (c, did)
  | x :: r => imp_inner r (dset c x true) (did || negb (get c x))
  end.
(** [for k, v in cls._flags.items(): if v: ...] - the dict is iterated in key order (= table order) and
    the value seen for k is the current one *)
Fixpoint imp_pass (fl : list flagmeta) (c : config) (did : bool) : config * bool :=
  match fl with
  | [] => (c, did)
  | fm :: r => match fimplies fm with
               | [] => imp_pass r c did          (* the inner loop has nothing to do *)
               | xs => if get c (fid fm)
                       then let '(c', d') := imp_inner xs c did in imp_pass r c' d'
                       else imp_pass r c did
               end
  end.
Fixpoint imp_fix (fuel : nat) (m : meta) (c : config) : result config :=
  match fuel with
  | O => Fuel
  | S n => let '(c', did) := imp_pass (mflags m) c false in
           if did then imp_fix n m c' else Ok c'
  end.

(** [aux(flag)], first loop: for conflict in flag.exclusive_with *)
Fixpoint excl_step (ex : N -> bool) (f : N) (xs : list N) (c : config) : result config :=
  match xs with
  | [] => Ok c
  | x :: r => if ex x then Error (EConflict x f)
              else excl_step ex f r (if get c x then dset c x false else c)
  end.
(** [aux(flag)]: then [for implies in flag.implies: aux(implies)] - NOT gated on the implied flag's value *)
Fixpoint aux (fuel : nat) (lk : lookup) (ex : N -> bool) (f : N) (c : config) {struct fuel} : result config :=
  match fuel with
  | O => Fuel
  | S n =>
    match excl_step ex f (exclusive_of lk f) c with
    | Ok c1 =>
      (fix go (l : list N) (c : config) {struct l} : result config :=
         match l with
         | [] => Ok c
         | g :: r => match aux n lk ex g c with Ok c' => go r c' | e => e end
         end) (implies_of lk f) c1
    | e => e
    end
  end.
(** [for flag in flag_overrides.keys(): if cls._flags[flag]: aux(flag)] *)
Fixpoint excl_loop (fuel : nat) (lk : lookup) (ex : N -> bool) (keys : list N) (c : config) : result config :=
  match keys with
  | [] => Ok c
  | f :: r => if get c f
              then match aux fuel lk ex f c with Ok c' => excl_loop fuel lk ex r c' | e => e end
              else excl_loop fuel lk ex r c
  end.

Definition fuel_of (m : meta) : nat := S (List.length (mflags m)).

(** [lv] is the value of [optimize_level]; [ovs] the (flag, value) pairs in the order the command line gives
    them (duplicates allowed: the dict keeps the first position and the last value).
    Keys that are not flags cannot be produced by the tokeniser ([ProgramFlag[name]]); the model answers
    [Crash KeyError] for them so that the function is total. *)
Definition resolve_from (m : meta) (c0 : config) (lk : lookup) (lv : Z) (ovs : list (N * bool)) : result config :=
  match apply_levels m (Z.to_nat (lv + 1)) 0%N c0 with
  | Ok c1 =>
    let d := ov_dict ovs in
    if forallb (fun kv => is_member lk (fst kv)) d then
      match imp_fix (fuel_of m) m (apply_overrides d c1) with
      | Ok c3 => excl_loop (fuel_of m) lk (ov_on d) (map fst d) c3
      | e => e
      end
    else Crash KeyError
  | e => e
  end.
(** [c0] and [lk] are parameters only so that the exhaustive check can share them between its
    evaluations; the model is [resolve]: defaults from the table, lookup in the table *)
Definition resolve (m : meta) (lv : Z) (ovs : list (N * bool)) : result config :=
  resolve_from m (init m) (table_lookup m) lv ovs.

(** * The tokenising loop *)
Definition s2l (s : string) : pystr := map (fun a => N_of_ascii a) (list_ascii_of_string s).

Record tables := {
  t_meta : meta;
  t_names : list (pystr * N);               (* ProgramFlag.__members__ *)
  t_options : list (pystr * bool);          (* ProgramOption members: name, default is an int *)
  t_option_defaults : list pystr;           (* str(default), same order *)
  t_dumps : list pystr                      (* DebugDumpable values *)
}.
Definition mk_tables (ft : list (N * bool * list N * list N)) (lt : list (N * list N))
           (names : list (string * N)) (opts : list (string * bool * string)) (dumps : list string) : tables :=
  {| t_meta := mk_meta ft lt;
     t_names := map (fun p => (s2l (fst p), snd p)) names;
     t_options := map (fun p => (s2l (fst (fst p)), snd (fst p))) opts;
     t_option_defaults := map (fun p => s2l (snd p)) opts;
     t_dumps := map s2l dumps |}.

Inductive optval := OInt (z : Z) | OStr (s : pystr).

Record pstate := {
  p_level : Z;                       (* optimize_level *)
  p_overrides : list (N * bool);     (* assignments to flag_overrides, in order *)
  p_options : list (nat * optval);   (* assignments to cls._options: index into t_options, in order *)
  p_dumps : list nat;                (* cls._dump: indices into t_dumps *)
  p_dry : bool;
  p_have_input : bool
}.
Definition p0 : pstate := {| p_level := 1; p_overrides := []; p_options := []; p_dumps := []; p_dry := false; p_have_input := false |}.

(** ASCII [str.upper()] followed by [.replace("-", "_")] *)
Definition upper_c (c : N) : N := if ((97 <=? c) && (c <=? 122))%N then (c - 32)%N else c.
Definition flagify (s : pystr) : pystr := map (fun c => let u := upper_c c in if (u =? 45)%N then 95%N else u) s.

Definition mem_str (s : pystr) (l : list pystr) : bool := existsb (str_eqb s) l.
Fixpoint starts_with (p s : pystr) : bool :=
  match p, s with
  | [], _ => true
  | a :: p', b :: s' => (a =? b)%N && starts_with p' s'
  | _ :: _, [] => false
  end.
Fixpoint assoc_str {V} (l : list (pystr * V)) (k : pystr) : option V :=
  match l with [] => None | (k', v) :: r => if str_eqb k k' then Some v else assoc_str r k end.
Fixpoint index_str (l : list pystr) (k : pystr) (i : nat) : option nat :=
  match l with [] => None | k' :: r => if str_eqb k k' then Some i else index_str r k (S i) end.

(** [s.split(sep)] for a one-character separator *)
Fixpoint split_on (sep : N) (s : pystr) (cur : pystr) : list pystr :=
  match s with
  | [] => [rev cur]
  | c :: r => if (c =? sep)%N then rev cur :: split_on sep r [] else split_on sep r (c :: cur)
  end.

(** [s.split(sep, 1)] when [sep] occurs: (text before the first sep, text after it) *)
Fixpoint split_first (sep : N) (s : pystr) (cur : pystr) : option (pystr * pystr) :=
  match s with
  | [] => None
  | c :: r => if (c =? sep)%N then Some (rev cur, r) else split_first sep r (c :: cur)
  end.

(** [optimize_level = int(option_value)] (ValueError -> RuntimeError) and [optimize_level in cls._OPTIMIZE_LEVELS] *)
Definition level_member (m : meta) (z : Z) : bool :=
  (0 <=? z)%Z && existsb (fun e => (fst e =? Z.to_N z)%N) (mlevels m).
Definition parse_level (m : meta) (value : pystr) : option Z :=
  match PyLite.py_int_lit value 10 with
  | PyLite.Ok z => if level_member m z then Some z else None
  | _ => None
  end.
(** the value part of [--flag name=value]: yes / on / no / off, anything else is a RuntimeError *)
Definition flag_value (v : pystr) : option bool :=
  if mem_str v [s2l "yes"; s2l "on"] then Some true
  else if mem_str v [s2l "no"; s2l "off"] then Some false else None.
(** -f<value> ([short]) or --flag <value>: the (flag name as written, set_to) it denotes *)
Definition parse_flag_arg (short : bool) (value : pystr) : result (pystr * bool) :=
  if short then
    if starts_with (s2l "no-") value then Ok (skipn 3 value, false)        (* option_value[3:] *)
    else Ok (value, true)
  else
    match split_first 61 value [] with
    | None => Ok (value, true)                                              (* "=" not in option_value *)
    | Some (n, v) => match flag_value v with Some b => Ok (n, b) | None => Error EInvalidFlagValue end
    end.
(** [for i in option_value.split(","): cls._dump.append(DebugDumpable(i))]; unknown target -> RuntimeError *)
Fixpoint parse_dumps (kinds : list pystr) (l : list pystr) : option (list nat) :=
  match l with
  | [] => Some []
  | i :: r => match index_str kinds i 0 with
              | Some k => match parse_dumps kinds r with Some t => Some (k :: t) | None => None end
              | None => None
              end
  end.

Definition set_level (st : pstate) (z : Z) : pstate :=
  {| p_level := z; p_overrides := p_overrides st; p_options := p_options st; p_dumps := p_dumps st; p_dry := p_dry st; p_have_input := p_have_input st |}.
Definition add_override (st : pstate) (k : N) (b : bool) : pstate :=
  {| p_level := p_level st; p_overrides := p_overrides st ++ [(k, b)]; p_options := p_options st; p_dumps := p_dumps st; p_dry := p_dry st; p_have_input := p_have_input st |}.
Definition add_option (st : pstate) (i : nat) (v : optval) : pstate :=
  {| p_level := p_level st; p_overrides := p_overrides st; p_options := p_options st ++ [(i, v)]; p_dumps := p_dumps st; p_dry := p_dry st; p_have_input := p_have_input st |}.
Definition add_dumps (st : pstate) (ds : list nat) : pstate :=
  {| p_level := p_level st; p_overrides := p_overrides st; p_options := p_options st; p_dumps := p_dumps st ++ ds; p_dry := p_dry st; p_have_input := p_have_input st |}.
Definition set_dry (st : pstate) : pstate :=
  {| p_level := p_level st; p_overrides := p_overrides st; p_options := p_options st; p_dumps := p_dumps st; p_dry := true; p_have_input := p_have_input st |}.
Definition set_input (st : pstate) : pstate :=
  {| p_level := p_level st; p_overrides := p_overrides st; p_options := p_options st; p_dumps := p_dumps st; p_dry := p_dry st; p_have_input := true |}.

(** what one option does; [None] = exit(0) (help / version) *)
Definition handle (T : tables) (name value : pystr) (st : pstate) : result (option pstate) :=
  if mem_str name [s2l "o"; s2l "output"] then
    if existsb (N.eqb 46) value then Error EOutputExtension else Ok (Some st)
  else if str_eqb name (s2l "O") then
    match parse_level (t_meta T) value with
    | Some z => Ok (Some (set_level st z))
    | None => Error EInvalidLevel
    end
  else if mem_str name [s2l "f"; s2l "flag"] then
    match parse_flag_arg (str_eqb name (s2l "f")) value with
    | Ok (n, set_to) =>
      match assoc_str (t_names T) (flagify n) with         (* flag_name.upper().replace("-", "_") in __members__ *)
      | Some k => Ok (Some (add_override st k set_to))
      | None => Error EUnknownFlag
      end
    | Error e => Error e | Crash c => Crash c | Fuel => Fuel
    end
  else if mem_str name [s2l "h"; s2l "help"] then Ok None
  else if str_eqb name (s2l "help-all") then Ok None
  else if str_eqb name (s2l "version") then Ok None
  else if mem_str name [s2l "d"; s2l "dump"] then
    match parse_dumps (t_dumps T) (split_on 44 value []) with
    | Some ds => Ok (Some (add_dumps st ds))
    | None => Error EUnknownDump
    end
  else if str_eqb name (s2l "dump-prefix") then Ok (Some st)
  else if mem_str name [s2l "t"; s2l "dry-run"] then Ok (Some (set_dry st))
  else
    match index_str (map fst (t_options T)) (flagify name) 0 with
    | None => Error EUnknownOption
    | Some i =>
      let isint := match nth_error (t_options T) i with Some (_, b) => b | None => false end in
      if isint then
        match PyLite.py_int_lit value 10 with                 (* type(default)(option_value) *)
        | PyLite.Ok z => Ok (Some (add_option st i (OInt z)))
        | _ => Error EInvalidOptionValue
        end
      else Ok (Some (add_option st i (OStr value)))
    end.

Definition no_value_names : list pystr := [s2l "help"; s2l "dry-run"; s2l "version"; s2l "help-all"].

(** the [for option in all_cmd_options_iter] loop; [Ok None] = exit(0) *)
Fixpoint tokenise (T : tables) (args : list pystr) (st : pstate) {struct args} : result (option pstate) :=
  match args with
  | [] => if p_have_input st then Ok (Some st) else Error ENoInput
  | a :: rest =>
    match a with
    | [] => tokenise T rest st                                    (* if not option: continue *)
    | c0 :: t0 =>
      if negb (c0 =? 45)%N then
        if p_have_input st then Error EMultipleFilenames
        else tokenise T rest (set_input st)
      else
        match t0 with
        | [] => Error EInvalidArgument                             (* option[1]: IndexError *)
        | c1 :: t1 =>
          if (c1 =? 45)%N then
            if mem_str t1 no_value_names then
              match handle T t1 [] st with
              | Ok (Some st') => tokenise T rest st'
              | r => r
              end
            else
              match rest with
              | [] => Error EMissingValue                          (* next(): StopIteration *)
              | v :: rest' =>
                match handle T t1 v st with
                | Ok (Some st') => tokenise T rest' st'
                | r => r
                end
              end
          else
            match handle T [c1] t1 st with
            | Ok (Some st') => tokenise T rest st'
            | r => r
            end
        end
    end
  end.

(** the observable configuration after a successful call *)
Record final := { f_flags : list (N * bool); f_options : list optval; f_dumps : list nat; f_dry : bool }.

Definition default_optval (T : tables) (i : nat) : optval :=
  let d := nth i (t_option_defaults T) [] in
  match nth_error (t_options T) i with
  | Some (_, true) => match PyLite.py_int_lit d 10 with PyLite.Ok z => OInt z | _ => OStr d end
  | _ => OStr d
  end.
Definition final_options (T : tables) (asg : list (nat * optval)) : list optval :=
  map (fun i => fold_left (fun cur a => if Nat.eqb (fst a) i then snd a else cur) asg (default_optval T i))
      (seq 0 (List.length (t_options T))).

Definition run_cmdline (T : tables) (args : list pystr) : result (option final) :=
  match tokenise T args p0 with
  | Ok None => Ok None
  | Ok (Some st) =>
    match resolve (t_meta T) (p_level st) (p_overrides st) with
    | Ok c => Ok (Some {| f_flags := view (t_meta T) c; f_options := final_options T (p_options st); f_dumps := p_dumps st; f_dry := p_dry st |})
    | Error e => Error e | Crash k => Crash k | Fuel => Fuel
    end
  | Error e => Error e | Crash k => Crash k | Fuel => Fuel
  end.

(** classification used by the correspondence check: 0 ok, 1 diagnosed error, 2 crash, 3 fuel, 4 exit(0) *)
Definition classify {A} (r : result (option A)) : N :=
  match r with Ok (Some _) => 0 | Error _ => 1 | Crash _ => 2 | Fuel => 3 | Ok None => 4 end%N.
