(** C19 - order independence of [FlagsModel.resolve], for every metadata table satisfying the
    boolean side condition [meta_ok]: a proof by induction over the model, not an enumeration.

    Why it holds.  With distinct keys the override dict, hence the configuration after the level
    table, the overrides and the "Set implies" closure ([flags2]) does not depend on the order.
    In the "Fix exclusives" pass, [aux f] processes a fixed list [Xs f] of conflicts (those of [f] and
    of everything [f] transitively implies): it raises if one of them is explicitly on and clears
    them otherwise.  An explicitly-on flag can therefore never be cleared without an error, so
    every explicitly-on flag passes the gate [cls._flags[flag]] in every order.  The only other
    keys that can pass the gate are explicitly-OFF flags that the closure switched back on; such a
    flag is implied (transitively) by an explicitly-on flag [g] - because, by [meta_ok], no flag that is on
    by default or through the level table implies anything - and then [Xs f] is included in [Xs g],
    so running or skipping [aux f] changes neither the error status nor the set of cleared flags. *)
From Coq Require Import NArith ZArith List Bool Lia Permutation FMapPositive.
From NV Require Import Flags.FlagsModel Flags.FlagsProps.
Import ListNotations.

Definition cfg_equiv (c1 c2 : config) : Prop := forall k, get c1 k = get c2 k.
(** equal configurations (as observed by [ProgramData.do]) or the same kind of failure *)
Definition res_equiv (r1 r2 : result config) : Prop :=
  match r1, r2 with
  | Ok c1, Ok c2 => cfg_equiv c1 c2
  | Error _, Error _ => True
  | Crash a, Crash b => a = b
  | Fuel, Fuel => True
  | _, _ => False
  end.
Lemma res_equiv_refl r : res_equiv r r.
Proof. destruct r; simpl; auto. intros k; reflexivity. Qed.

(* ------------------------------------------------------------------------- *)
(** * The override dict under permutation *)

Lemma oset_fresh d k v : ~ In k (map fst d) -> oset d k v = d ++ [(k, v)].
Proof.
  induction d as [|[a b] d IH]; simpl; intros H; [reflexivity|].
  destruct (k =? a)%N eqn:E.
  - apply N.eqb_eq in E. subst. tauto.
  - f_equal. apply IH. tauto.
Qed.
Lemma ov_dict_gen l : forall acc, NoDup (map fst (acc ++ l)) ->
  fold_left (fun d kv => oset d (fst kv) (snd kv)) l acc = acc ++ l.
Proof.
  induction l as [|[k v] l IH]; intros acc H; simpl.
  - rewrite app_nil_r. reflexivity.
  - rewrite oset_fresh.
    + rewrite IH; rewrite <- app_assoc; simpl; [reflexivity|exact H].
    + rewrite map_app in H. simpl in H. apply NoDup_remove_2 in H. intros Hin. apply H. apply in_or_app. left. exact Hin.
Qed.
Lemma ov_dict_nodup l : NoDup (map fst l) -> ov_dict l = l.
Proof. intros H. unfold ov_dict. rewrite ov_dict_gen; [reflexivity|exact H]. Qed.

Lemma perm_keys_nodup (l1 l2 : list (N * bool)) : Permutation l1 l2 -> NoDup (map fst l1) -> NoDup (map fst l2).
Proof. intros P H. eapply Permutation_NoDup; [|exact H]. apply Permutation_map. exact P. Qed.

Lemma ofind_perm (l1 l2 : odict) : Permutation l1 l2 -> NoDup (map fst l1) -> forall k, ofind l1 k = ofind l2 k.
Proof.
  induction 1 as [|[a b] l1 l2 P IH|[a b] [a' b'] l|l1 l2 l3 P1 IH1 P2 IH2]; intros ND k; simpl.
  - reflexivity.
  - simpl in ND. inversion ND; subst. rewrite IH by assumption. reflexivity.
  - simpl in ND. inversion ND as [|x xs Hnin ND']; subst. destruct (k =? a')%N eqn:E1; destruct (k =? a)%N eqn:E2; try reflexivity.
    apply N.eqb_eq in E1, E2. subst. exfalso. apply Hnin. left. reflexivity.
  - rewrite IH1 by assumption. apply IH2. eapply perm_keys_nodup; eassumption.
Qed.

Lemma apply_overrides_perm (l1 l2 : odict) : Permutation l1 l2 -> NoDup (map fst l1) ->
  forall c, apply_overrides l1 c = apply_overrides l2 c.
Proof.
  unfold apply_overrides.
  induction 1 as [|[a b] l1 l2 P IH|[a b] [a' b'] l|l1 l2 l3 P1 IH1 P2 IH2]; intros ND c; simpl.
  - reflexivity.
  - simpl in ND. inversion ND; subst. apply IH. assumption.
  - simpl in ND. inversion ND as [|x xs Hnin ND']; subst. rewrite dset_comm; [reflexivity|].
    intros E. subst. apply Hnin. left. reflexivity.
  - rewrite IH1 by assumption. apply IH2. eapply perm_keys_nodup; eassumption.
Qed.

Lemma forallb_perm {A} (P : A -> bool) (l1 l2 : list A) : Permutation l1 l2 -> forallb P l1 = forallb P l2.
Proof.
  induction 1; simpl; try congruence.
  destruct (P x), (P y); reflexivity.
Qed.

Lemma get_apply_overrides (d : odict) : NoDup (map fst d) -> forall c k,
  get (apply_overrides d c) k = match ofind d k with Some v => v | None => get c k end.
Proof.
  unfold apply_overrides. induction d as [|[a b] d IH]; intros ND c k; simpl; [reflexivity|].
  simpl in ND. inversion ND as [|x xs Hnin ND']; subst. rewrite IH by assumption.
  destruct (k =? a)%N eqn:E.
  - apply N.eqb_eq in E. subst.
    assert (ofind d a = None) as ->.
    { clear -Hnin. induction d as [|[x y] d IH]; simpl; [reflexivity|]. simpl in Hnin.
      destruct (a =? x)%N eqn:E; [apply N.eqb_eq in E; subst; tauto|]. apply IH. tauto. }
    rewrite get_dset, N.eqb_refl. reflexivity.
  - destruct (ofind d k); [reflexivity|]. rewrite get_dset, E. reflexivity.
Qed.

(* ------------------------------------------------------------------------- *)
(** * [aux] as "process a fixed list of conflicts" *)
Section Aux.
  Variable lk : lookup.
  Variable ex : N -> bool.

  Definition clr (c : config) (x : N) : config := if get c x then dset c x false else c.
  Lemma get_clr c x k : get (clr c x) k = get c k && negb (k =? x)%N.
  Proof.
    unfold clr. destruct (get c x) eqn:E.
    - rewrite get_dset. destruct (k =? x)%N; [rewrite andb_false_r|rewrite andb_true_r]; reflexivity.
    - destruct (k =? x)%N eqn:E2; [|rewrite andb_true_r; reflexivity].
      apply N.eqb_eq in E2. subst. rewrite E. reflexivity.
  Qed.

  Fixpoint proc (X : list N) (c : config) : option config :=
    match X with
    | [] => Some c
    | x :: r => if ex x then None else proc r (clr c x)
    end.
  Definition sim (r : result config) (o : option config) : Prop :=
    match o with Some c' => r = Ok c' | None => exists e, r = Error e end.

  Lemma excl_step_sim f xs : forall c, sim (excl_step ex f xs c) (proc xs c).
  Proof.
    induction xs as [|x r IH]; intros c; simpl; [reflexivity|].
    destruct (ex x); [simpl; eauto|]. apply IH.
  Qed.
  Lemma proc_app a b c : proc (a ++ b) c = match proc a c with Some c' => proc b c' | None => None end.
  Proof. revert c. induction a as [|x a IH]; intros c; simpl; [reflexivity|]. destruct (ex x); [reflexivity|apply IH]. Qed.

  Lemma proc_some X : forall c c', proc X c = Some c' ->
    existsb ex X = false /\ forall k, get c' k = get c k && negb (memN k X).
  Proof.
    induction X as [|x r IH]; intros c c' H; simpl in *.
    - inversion H; subst. split; [reflexivity|]. intros k. rewrite andb_true_r. reflexivity.
    - destruct (ex x); [discriminate|]. destruct (IH _ _ H) as [H1 H2]. split; [exact H1|].
      intros k. rewrite H2, get_clr. unfold memN. simpl. rewrite negb_orb, andb_assoc. reflexivity.
  Qed.
  Lemma proc_none X : forall c, proc X c = None -> existsb ex X = true.
  Proof.
    induction X as [|x r IH]; intros c H; simpl in *; [discriminate|].
    destruct (ex x); [reflexivity|]. simpl. eapply IH. exact H.
  Qed.

  (** the conflicts [aux f] goes through, in order *)
  Fixpoint xcat (rec : N -> option (list N)) (l : list N) : option (list N) :=
    match l with
    | [] => Some []
    | g :: r => match rec g with
                | Some a => match xcat rec r with Some b => Some (a ++ b) | None => None end
                | None => None
                end
    end.
  Fixpoint xlist (fuel : nat) (f : N) : option (list N) :=
    match fuel with
    | O => None
    | S n => match xcat (xlist n) (implies_of lk f) with
             | Some rest => Some (exclusive_of lk f ++ rest)
             | None => None
             end
    end.

  Lemma aux_sim : forall fuel f X c, xlist fuel f = Some X -> sim (aux fuel lk ex f c) (proc X c).
  Proof.
    induction fuel as [|n IH]; intros f X c HX; [discriminate|].
    simpl in HX. simpl.
    destruct (xcat (xlist n) (implies_of lk f)) as [rest|] eqn:Hc; [|discriminate].
    inversion HX; subst X; clear HX. rewrite proc_app.
    pose proof (excl_step_sim f (exclusive_of lk f) c) as Hs.
    destruct (proc (exclusive_of lk f) c) as [c1|]; simpl in Hs.
    - rewrite Hs. clear Hs. revert rest Hc c1.
      induction (implies_of lk f) as [|g r IHr]; intros rest Hc c1; simpl in Hc.
      + inversion Hc; subst. simpl. reflexivity.
      + destruct (xlist n g) as [a|] eqn:Ha; [|discriminate].
        destruct (xcat (xlist n) r) as [b|] eqn:Hb; [|discriminate].
        inversion Hc; subst rest. rewrite proc_app.
        pose proof (IH g a c1 Ha) as Hg. destruct (proc a c1) as [c2|]; simpl in Hg.
        * rewrite Hg. apply IHr. reflexivity.
        * destruct Hg as [e He]. rewrite He. simpl. eauto.
    - destruct Hs as [e He]. rewrite He. simpl. eauto.
  Qed.

  Lemma xcat_mono (r1 r2 : N -> option (list N)) : (forall g X, r1 g = Some X -> r2 g = Some X) ->
    forall l R, xcat r1 l = Some R -> xcat r2 l = Some R.
  Proof.
    intros H. induction l as [|g l IH]; intros R HR; simpl in *; [exact HR|].
    destruct (r1 g) as [a|] eqn:Ea; [|discriminate]. rewrite (H _ _ Ea).
    destruct (xcat r1 l) as [b|] eqn:Eb; [|discriminate]. rewrite (IH _ eq_refl). exact HR.
  Qed.
  Lemma xlist_mono : forall n f X, xlist n f = Some X -> xlist (S n) f = Some X.
  Proof.
    induction n as [|n IH]; intros f X H; [discriminate|].
    simpl in H. change (xlist (S (S n)) f) with
      (match xcat (xlist (S n)) (implies_of lk f) with Some rest => Some (exclusive_of lk f ++ rest) | None => None end).
    destruct (xcat (xlist n) (implies_of lk f)) as [rest|] eqn:E; [|discriminate].
    rewrite (xcat_mono _ _ IH _ _ E). exact H.
  Qed.
  Lemma xlist_mono_le n n' f X : (n <= n')%nat -> xlist n f = Some X -> xlist n' f = Some X.
  Proof. induction 1 as [|k Hle IH]; intros Hx; [exact Hx|]. apply xlist_mono. auto. Qed.

  Lemma xcat_in rec l R g : xcat rec l = Some R -> In g l -> exists X, rec g = Some X /\ incl X R.
  Proof.
    revert R. induction l as [|h l IH]; intros R HR Hg; [destruct Hg|]. simpl in HR.
    destruct (rec h) as [a|] eqn:Ea; [|discriminate]. destruct (xcat rec l) as [b|] eqn:Eb; [|discriminate].
    inversion HR; subst R. destruct Hg as [Hg|Hg].
    - subst h. exists a. split; [exact Ea|]. apply incl_appl, incl_refl.
    - destruct (IH _ eq_refl Hg) as [X [HX Hi]]. exists X. split; [exact HX|]. apply incl_appr. exact Hi.
  Qed.

  (** a direct implication: the conflicts of the implied flag are among those of the implying flag *)
  Lemma xlist_child fuel f g Xf Xg : xlist fuel f = Some Xf -> In g (implies_of lk f) -> xlist fuel g = Some Xg -> incl Xg Xf.
  Proof.
    destruct fuel as [|n]; [discriminate|]. intros Hf Hg HXg. simpl in Hf.
    destruct (xcat (xlist n) (implies_of lk f)) as [rest|] eqn:E; [|discriminate]. inversion Hf; subst Xf.
    destruct (xcat_in _ _ _ _ E Hg) as [X [HX Hi]]. apply xlist_mono in HX. rewrite HX in HXg. inversion HXg; subst.
    apply incl_appr. exact Hi.
  Qed.
End Aux.

Lemma aux_ext_ex lk ex1 ex2 : (forall k, ex1 k = ex2 k) -> forall fuel f c, aux fuel lk ex1 f c = aux fuel lk ex2 f c.
Proof.
  intros H. induction fuel as [|n IH]; intros f c; simpl; [reflexivity|].
  assert (HS : forall xs c, excl_step ex1 f xs c = excl_step ex2 f xs c).
  { induction xs as [|x r IHr]; intros c0; simpl; [reflexivity|]. rewrite H. destruct (ex2 x); [reflexivity|apply IHr]. }
  rewrite HS. destruct (excl_step ex2 f (exclusive_of lk f) c) as [c1| | |]; try reflexivity.
  generalize c1. induction (implies_of lk f) as [|g r IHr]; intros c2; [reflexivity|].
  rewrite IH. destruct (aux n lk ex2 g c2); try reflexivity. apply IHr.
Qed.
Lemma excl_loop_ext_ex lk ex1 ex2 : (forall k, ex1 k = ex2 k) -> forall fuel keys c, excl_loop fuel lk ex1 keys c = excl_loop fuel lk ex2 keys c.
Proof.
  intros H fuel. induction keys as [|f r IH]; intros c; simpl; [reflexivity|].
  destruct (get c f); [|apply IH]. rewrite (aux_ext_ex _ _ _ H). destruct (aux fuel lk ex2 f c); try reflexivity. apply IH.
Qed.

(* ------------------------------------------------------------------------- *)
(** * The gated loop *)
Section Loop.
  Variable lk : lookup.
  Variable ex : N -> bool.
  Variable fuel : nat.
  Variable c2 : config.                      (* the configuration after the implication closure *)
  Variable keys : list N.                    (* all keys of the override dict *)

  Definition Xs (f : N) : list N := match xlist lk fuel f with Some X => X | None => [] end.
  Definition cleared (k : N) : Prop := exists g, ex g = true /\ In k (Xs g).

  Hypothesis Htotal : forall f, In f keys -> xlist lk fuel f <> None.
  Hypothesis HEkeys : forall g, ex g = true -> In g keys.
  Hypothesis Hcover : forall f, In f keys -> get c2 f = true -> ex f = false ->
                      forall x, In x (Xs f) -> exists g, ex g = true /\ In x (Xs g).

  Lemma aux_on f c : In f keys -> sim (aux fuel lk ex f c) (proc ex (Xs f) c).
  Proof.
    intros Hf. unfold Xs. destruct (xlist lk fuel f) as [X|] eqn:E; [|destruct (Htotal f Hf E)].
    apply aux_sim. exact E.
  Qed.

  Definition Inv (c : config) : Prop :=
    (forall g, ex g = true -> get c g = true) /\
    (forall k, get c k = true -> get c2 k = true) /\
    (forall k, get c2 k = true -> get c k = false -> cleared k).

  Lemma not_in_memN k X : existsb ex X = false -> ex k = true -> memN k X = false.
  Proof.
    intros H Hk. destruct (memN k X) eqn:E; [|reflexivity]. apply memN_In in E.
    assert (existsb ex X = true) by (apply existsb_exists; eauto). congruence.
  Qed.

  (** no explicitly-on flag has an explicitly-on conflict: the loop succeeds and clears exactly [cleared] *)
  Lemma loop_ok : (forall g, ex g = true -> existsb ex (Xs g) = false) ->
    forall ks c, incl ks keys -> Inv c ->
    exists c', excl_loop fuel lk ex ks c = Ok c' /\ Inv c' /\ (forall k, get c' k = true -> get c k = true)
               /\ (forall f, In f ks -> ex f = true -> forall x, In x (Xs f) -> get c' x = false).
  Proof.
    intros noBad. induction ks as [|f r IH]; intros c Hks HI.
    - exists c. simpl. repeat split; try apply HI; auto. intros f [].
    - assert (Hf : In f keys) by (apply Hks; left; reflexivity).
      assert (Hr : incl r keys) by (intros x Hx; apply Hks; right; exact Hx).
      destruct HI as [I1 [I2 I3]]. simpl. destruct (get c f) eqn:G.
      + (* gate open *)
        assert (Hnb : existsb ex (Xs f) = false).
        { destruct (ex f) eqn:Ef; [apply noBad; exact Ef|].
          destruct (existsb ex (Xs f)) eqn:B; [|reflexivity]. apply existsb_exists in B. destruct B as [x [Hx Hex]].
          destruct (Hcover f Hf (I2 _ G) Ef x Hx) as [g [Hg Hin]].
          assert (existsb ex (Xs g) = true) by (apply existsb_exists; eauto). rewrite noBad in H by exact Hg. discriminate. }
        pose proof (aux_on f c Hf) as Hs. destruct (proc ex (Xs f) c) as [c1|] eqn:P.
        2:{ apply proc_none in P. congruence. }
        simpl in Hs. rewrite Hs. destruct (proc_some _ _ _ _ P) as [_ Hget].
        assert (HI1 : Inv c1).
        { repeat split.
          - intros g Hg. rewrite Hget, (I1 g Hg), (not_in_memN g _ Hnb Hg). reflexivity.
          - intros k Hk. rewrite Hget in Hk. apply andb_prop in Hk as [Hk _]. apply I2. exact Hk.
          - intros k Hk2 Hk1. rewrite Hget in Hk1. destruct (get c k) eqn:Gk; [|apply I3; assumption].
            simpl in Hk1. apply negb_false_iff in Hk1. apply memN_In in Hk1.
            destruct (ex f) eqn:Ef; [exists f; auto|]. exact (Hcover f Hf (I2 _ G) Ef k Hk1). }
        destruct (IH c1 Hr HI1) as [c' [E [HI' [Hmono Hclr]]]]. exists c'. split; [exact E|]. split; [exact HI'|]. split.
        * intros k Hk. specialize (Hmono k Hk). rewrite Hget in Hmono. apply andb_prop in Hmono as [Hm _]. exact Hm.
        * intros f' [Hf'|Hf'] Hex x Hx.
          -- subst f'. destruct (get c' x) eqn:Gx; [|reflexivity]. specialize (Hmono x Gx). rewrite Hget in Hmono.
             apply andb_prop in Hmono as [_ Hm]. apply negb_true_iff in Hm.
             assert (memN x (Xs f) = true) by (apply memN_In; exact Hx). congruence.
          -- exact (Hclr f' Hf' Hex x Hx).
      + (* gate closed: f is not explicitly on *)
        destruct (IH c Hr (conj I1 (conj I2 I3))) as [c' [E [HI' [Hmono Hclr]]]]. exists c'. split; [exact E|]. split; [exact HI'|].
        split; [exact Hmono|]. intros f' [Hf'|Hf'] Hex x Hx.
        * subst f'. rewrite (I1 f Hex) in G. discriminate.
        * exact (Hclr f' Hf' Hex x Hx).
  Qed.

  (** some explicitly-on flag has an explicitly-on conflict: the loop raises, whatever the order *)
  Lemma loop_err : forall ks c, incl ks keys -> (forall g, ex g = true -> get c g = true) ->
    (exists g, In g ks /\ ex g = true /\ existsb ex (Xs g) = true) -> exists e, excl_loop fuel lk ex ks c = Error e.
  Proof.
    induction ks as [|f r IH]; intros c Hks I1 [g [Hg [Hex Hbad]]]; [destruct Hg|].
    assert (Hf : In f keys) by (apply Hks; left; reflexivity).
    assert (Hr : incl r keys) by (intros x Hx; apply Hks; right; exact Hx).
    simpl. destruct (get c f) eqn:G.
    - pose proof (aux_on f c Hf) as Hs. destruct (proc ex (Xs f) c) as [c1|] eqn:P; simpl in Hs.
      + rewrite Hs. destruct (proc_some _ _ _ _ P) as [Hnb Hget].
        destruct Hg as [Hg|Hg]; [subst g; congruence|].
        apply IH; [exact Hr| |eauto].
        intros g' Hg'. rewrite Hget, (I1 g' Hg'), (not_in_memN g' _ Hnb Hg'). reflexivity.
      + destruct Hs as [e He]. rewrite He. eauto.
    - destruct Hg as [Hg|Hg]; [subst g; rewrite (I1 f Hex) in G; discriminate|].
      apply IH; [exact Hr|exact I1|eauto].
  Qed.

  Hypothesis HEon : forall g, ex g = true -> get c2 g = true.

  Lemma Inv_start : Inv c2.
  Proof. repeat split; auto. intros k H1 H2. congruence. Qed.

  (** what the loop computes from [c2], for ANY ordering [ks] of the keys *)
  Lemma loop_char ks : incl ks keys -> incl keys ks ->
    if existsb (fun g => ex g && existsb ex (Xs g)) keys
    then exists e, excl_loop fuel lk ex ks c2 = Error e
    else exists c', excl_loop fuel lk ex ks c2 = Ok c' /\
                    forall k, get c' k = true <-> (get c2 k = true /\ ~ cleared k).
  Proof.
    intros H1 H2. destruct (existsb _ keys) eqn:B.
    - apply existsb_exists in B. destruct B as [g [Hg Hb]]. apply andb_prop in Hb as [Hex Hbad].
      apply loop_err; [exact H1|exact HEon|]. exists g. repeat split; auto.
    - assert (noBad : forall g, ex g = true -> existsb ex (Xs g) = false).
      { intros g Hg. destruct (existsb ex (Xs g)) eqn:E; [|reflexivity].
        assert (existsb (fun g => ex g && existsb ex (Xs g)) keys = true).
        { apply existsb_exists. exists g. split; [apply HEkeys; exact Hg|]. rewrite Hg, E. reflexivity. }
        congruence. }
      destruct (loop_ok noBad ks c2 H1 Inv_start) as [c' [E [[I1 [I2 I3]] [Hmono Hclr]]]].
      exists c'. split; [exact E|]. intros k. split.
      + intros Hk. split; [apply I2; exact Hk|]. intros [g [Hg Hin]].
        rewrite (Hclr g (H2 _ (HEkeys g Hg)) Hg k Hin) in Hk. discriminate.
      + intros [Hk Hn]. destruct (get c' k) eqn:G; [reflexivity|]. exfalso. apply Hn. apply I3; assumption.
  Qed.
End Loop.

(* ------------------------------------------------------------------------- *)
(** * The implication closure only switches on flags reachable from flags that were on *)
Section Closure.
  Variable m : meta.

  Definition edge (a b : N) : Prop := exists fm, In fm (mflags m) /\ fid fm = a /\ In b (fimplies fm).
  Inductive reach : N -> N -> Prop :=
    | reach_refl a : reach a a
    | reach_step a b c : reach a b -> edge b c -> reach a c.

  Lemma imp_inner_get xs : forall c did c' did', imp_inner xs c did = (c', did') ->
    forall k, get c' k = get c k || memN k xs.
  Proof.
    induction xs as [|x r IH]; intros c did c' did' H k; simpl in H.
    - inversion H; subst. rewrite orb_false_r. reflexivity.
    - rewrite (IH _ _ _ _ H), get_dset. unfold memN. simpl. destruct (k =? x)%N; simpl.
      + rewrite orb_true_r. reflexivity.
      + reflexivity.
  Qed.

  Definition from (c0 c : config) : Prop := forall k, get c k = true -> exists g, get c0 g = true /\ reach g k.

  Lemma imp_pass_inv c0 fl : incl fl (mflags m) -> forall c did c' did', imp_pass fl c did = (c', did') ->
    (forall k, get c k = true -> get c' k = true) /\ (from c0 c -> from c0 c').
  Proof.
    induction fl as [|fm r IH]; intros Hfl c did c' did' H; simpl in H.
    - inversion H; subst. auto.
    - assert (Hr : incl r (mflags m)) by (intros x Hx; apply Hfl; right; exact Hx).
      destruct (fimplies fm) as [|x xs] eqn:Ei; [exact (IH Hr _ _ _ _ H)|].
      destruct (get c (fid fm)) eqn:G; [|exact (IH Hr _ _ _ _ H)].
      destruct (imp_inner (x :: xs) c did) as [c1 d1] eqn:E1.
      pose proof (imp_inner_get _ _ _ _ _ E1) as Hg. simpl in E1. rewrite E1 in H. destruct (IH Hr _ _ _ _ H) as [M F]. split.
      + intros k Hk. apply M. rewrite Hg, Hk. reflexivity.
      + intros Hfrom. apply F. intros k Hk. rewrite Hg in Hk. apply orb_prop in Hk as [Hk|Hk]; [exact (Hfrom k Hk)|].
        apply memN_In in Hk. destruct (Hfrom _ G) as [g [Hg0 Hreach]]. exists g. split; [exact Hg0|].
        eapply reach_step; [exact Hreach|]. exists fm. repeat split; [apply Hfl; left; reflexivity|rewrite Ei; exact Hk].
  Qed.

  Lemma imp_fix_inv c0 : forall fuel c c', imp_fix fuel m c = Ok c' ->
    (forall k, get c k = true -> get c' k = true) /\ (from c0 c -> from c0 c').
  Proof.
    induction fuel as [|n IH]; intros c c' H; [discriminate|]. simpl in H.
    destruct (imp_pass (mflags m) c false) as [c1 did] eqn:E.
    destruct (imp_pass_inv c0 (mflags m) (incl_refl _) _ _ _ _ E) as [M F].
    destruct did.
    - destruct (IH _ _ H) as [M' F']. split; auto.
    - inversion H; subst. auto.
  Qed.

  Lemma reach_neq g f : reach g f -> g <> f -> exists fm b, In fm (mflags m) /\ fid fm = g /\ In b (fimplies fm).
  Proof.
    induction 1 as [a|a b c R IH E]; intros Hne; [congruence|].
    destruct (N.eq_dec a b) as [->|Hab]; [|exact (IH Hab)].
    destruct E as [fm [H1 [H2 H3]]]. eauto.
  Qed.
End Closure.

(* ------------------------------------------------------------------------- *)
(** * The side condition on the metadata, and the theorem *)

Fixpoint nodupb (l : list N) : bool := match l with [] => true | x :: r => negb (memN x r) && nodupb r end.
Lemma nodupb_spec l : nodupb l = true -> NoDup l.
Proof.
  induction l as [|x r IH]; simpl; intros H; [constructor|]. apply andb_prop in H as [H1 H2].
  constructor; [|apply IH; exact H2]. intros Hin. apply memN_In in Hin. rewrite Hin in H1. discriminate.
Qed.

(** flags that are on without being asked for (by default, or through the -O table) imply nothing *)
Definition base_plain (m : meta) : bool :=
  forallb (fun fm => if fdefault fm || memN (fid fm) (level_flags m) then is_nil (fimplies fm) else true) (mflags m).
(** [aux] terminates within the fuel [resolve] gives it, for every flag of the table (the implies graph is acyclic) *)
Definition aux_total (m : meta) : bool :=
  forallb (fun fm => match xlist (table_lookup m) (fuel_of m) (fid fm) with Some _ => true | None => false end) (mflags m).
Definition meta_ok (m : meta) : bool := nodupb (ids m) && base_plain m && aux_total m.

Section Main.
  Variable m : meta.
  Hypothesis Hok : meta_ok m = true.
  Let lk := table_lookup m.

  Lemma ok_nodup : NoDup (ids m).
  Proof. unfold meta_ok in Hok. apply andb_prop in Hok as [H _]. apply andb_prop in H as [H _]. apply nodupb_spec. exact H. Qed.
  Lemma ok_base fm : In fm (mflags m) -> fdefault fm = true \/ In (fid fm) (level_flags m) -> fimplies fm = [].
  Proof.
    intros Hfm Hb. unfold meta_ok in Hok. apply andb_prop in Hok as [H _]. apply andb_prop in H as [_ H].
    unfold base_plain in H. rewrite forallb_forall in H. specialize (H fm Hfm).
    assert (fdefault fm || memN (fid fm) (level_flags m) = true) as E.
    { destruct Hb as [Hb|Hb]; [rewrite Hb; reflexivity|]. apply memN_In in Hb. rewrite Hb. apply orb_true_r. }
    rewrite E in H. destruct (fimplies fm); [reflexivity|discriminate].
  Qed.
  Lemma ok_total fm : In fm (mflags m) -> xlist lk (fuel_of m) (fid fm) <> None.
  Proof.
    intros Hfm. unfold meta_ok in Hok. apply andb_prop in Hok as [_ H]. unfold aux_total in H.
    rewrite forallb_forall in H. specialize (H fm Hfm). unfold lk. destruct (xlist _ _ _); [discriminate|discriminate].
  Qed.

  Lemma lookup_row_unique fm : In fm (mflags m) -> lk (fid fm) = Some fm.
  Proof.
    unfold lk, table_lookup. pose proof ok_nodup as ND. unfold ids in ND.
    induction (mflags m) as [|a l IH]; intros Hin; [destruct Hin|]. simpl in ND. inversion ND as [|x xs Hnin ND']; subst.
    simpl. destruct Hin as [Hin|Hin].
    - subst a. rewrite N.eqb_refl. reflexivity.
    - destruct (fid fm =? fid a)%N eqn:E; [|apply IH; assumption].
      apply N.eqb_eq in E. exfalso. apply Hnin. rewrite <- E. apply in_map. exact Hin.
  Qed.
  Lemma member_row k : is_member lk k = true -> exists fm, In fm (mflags m) /\ fid fm = k.
  Proof.
    unfold is_member, lk, table_lookup. destruct (find_meta (mflags m) k) as [fm|] eqn:E; [|discriminate].
    intros _. apply find_meta_some in E. destruct E. eauto.
  Qed.

  (** reachability through implications shrinks the conflict list *)
  Lemma reach_incl g f : reach m g f -> forall Xg Xf, xlist lk (fuel_of m) g = Some Xg -> xlist lk (fuel_of m) f = Some Xf -> incl Xf Xg.
  Proof.
    induction 1 as [a|a b c R IH E]; intros Xg Xf Hg Hf.
    - rewrite Hg in Hf. inversion Hf. apply incl_refl.
    - destruct E as [fm [Hfm [Hid Hin]]]. subst b.
      destruct (xlist lk (fuel_of m) (fid fm)) as [Xb|] eqn:Eb; [|destruct (ok_total fm Hfm Eb)].
      apply incl_tran with Xb; [|exact (IH _ _ Hg eq_refl)].
      eapply xlist_child; [exact Eb| |exact Hf]. unfold implies_of. rewrite (lookup_row_unique fm Hfm). exact Hin.
  Qed.

  (** configuration after defaults and level table: only defaults and level flags are on *)
  Lemma init_on : forall k, get (init m) k = true -> exists fm, In fm (mflags m) /\ fid fm = k /\ fdefault fm = true.
  Proof.
    unfold init.
    assert (G : forall l c, (forall k, get c k = true -> exists fm, In fm (mflags m) /\ fid fm = k /\ fdefault fm = true) ->
              incl l (mflags m) ->
              forall k, get (fold_left (fun c fm => dset c (fid fm) (fdefault fm)) l c) k = true ->
              exists fm, In fm (mflags m) /\ fid fm = k /\ fdefault fm = true).
    { induction l as [|a l IH]; intros c Hc Hl k; simpl; [apply Hc|].
      apply IH.
      - intros k'. rewrite get_dset. destruct (k' =? fid a)%N eqn:E; [|apply Hc].
        apply N.eqb_eq in E. intros Hd. exists a. repeat split; auto. apply Hl. left. reflexivity.
      - intros x Hx. apply Hl. right. exact Hx. }
    apply G; [|apply incl_refl]. intros k. unfold get. rewrite PositiveMap.gempty. discriminate.
  Qed.
  Lemma set_all_get l : forall c k, get (set_all l c) k = get c k || memN k l.
  Proof.
    induction l as [|x r IH]; intros c k; simpl; [rewrite orb_false_r; reflexivity|].
    rewrite IH, get_dset. unfold memN. simpl. destruct (k =? x)%N; simpl; [rewrite orb_true_r|]; reflexivity.
  Qed.
  Lemma apply_levels_on : forall count j c c1, apply_levels m count j c = Ok c1 ->
    forall k, get c1 k = true -> get c k = true \/ In k (level_flags m).
  Proof.
    induction count as [|n IH]; intros j c c1 H k Hk; simpl in H.
    - inversion H; subst. auto.
    - destruct (find (fun e => (fst e =? j)%N) (mlevels m)) as [e|] eqn:E; [|discriminate].
      destruct (IH _ _ _ H k Hk) as [H1|H1]; [|auto]. rewrite set_all_get in H1. apply orb_prop in H1 as [H1|H1]; [auto|].
      right. apply memN_In in H1. unfold level_flags. apply in_flat_map. exists e. split; [|exact H1].
      apply find_some in E. tauto.
  Qed.

  Theorem order_independent : forall lv l1 l2, NoDup (map fst l1) -> Permutation l1 l2 ->
    res_equiv (resolve m lv l1) (resolve m lv l2).
  Proof.
    intros lv l1 l2 ND1 P. pose proof (perm_keys_nodup _ _ P ND1) as ND2.
    unfold resolve, resolve_from.
    destruct (apply_levels m (Z.to_nat (lv + 1)) 0%N (init m)) as [c1| | |] eqn:EL; try apply res_equiv_refl.
    rewrite (ov_dict_nodup l1 ND1), (ov_dict_nodup l2 ND2).
    rewrite <- (forallb_perm _ _ _ P).
    destruct (forallb (fun kv => is_member (table_lookup m) (fst kv)) l1) eqn:EK; [|apply res_equiv_refl].
    rewrite <- (apply_overrides_perm _ _ P ND1).
    destruct (imp_fix (fuel_of m) m (apply_overrides l1 c1)) as [c3| | |] eqn:EI; try apply res_equiv_refl.
    (* same explicit-on predicate on both sides *)
    rewrite (excl_loop_ext_ex (table_lookup m) (ov_on l2) (ov_on l1)).
    2:{ intros k. unfold ov_on. rewrite (ofind_perm _ _ P ND1). reflexivity. }
    set (ex := ov_on l1). set (keys := map fst l1). fold lk.
    (* hypotheses of the loop characterisation *)
    rewrite forallb_forall in EK.
    assert (Hrow : forall f, In f keys -> exists fm, In fm (mflags m) /\ fid fm = f).
    { intros f Hf. unfold keys in Hf. apply in_map_iff in Hf. destruct Hf as [kv [E Hkv]]. subst f. apply member_row. apply EK. exact Hkv. }
    assert (Htotal : forall f, In f keys -> xlist lk (fuel_of m) f <> None).
    { intros f Hf. destruct (Hrow f Hf) as [fm [Hfm E]]. subst f. apply ok_total. exact Hfm. }
    assert (Hexin : forall g, ex g = true -> In (g, true) l1).
    { intros g Hg. unfold ex, ov_on in Hg. destruct (ofind l1 g) as [[|]|] eqn:E; try discriminate.
      clear -E. induction l1 as [|[a b] l IH]; simpl in E; [discriminate|].
      destruct (g =? a)%N eqn:E2; [apply N.eqb_eq in E2; inversion E; subst; left; reflexivity|right; apply IH; exact E]. }
    assert (HEkeys : forall g, ex g = true -> In g keys).
    { intros g Hg. unfold keys. apply in_map_iff. exists (g, true). split; [reflexivity|apply Hexin; exact Hg]. }
    pose proof (imp_fix_inv m (apply_overrides l1 c1) _ _ _ EI) as [Mono From].
    assert (Hstart : forall k, get (apply_overrides l1 c1) k = match ofind l1 k with Some v => v | None => get c1 k end)
      by (intros k; apply get_apply_overrides; exact ND1).
    assert (HEon : forall g, ex g = true -> get c3 g = true).
    { intros g Hg. apply Mono. rewrite Hstart. unfold ex, ov_on in Hg. destruct (ofind l1 g) as [[|]|]; try discriminate. reflexivity. }
    assert (Hcover : forall f, In f keys -> get c3 f = true -> ex f = false ->
                     forall x, In x (Xs lk (fuel_of m) f) -> exists g, ex g = true /\ In x (Xs lk (fuel_of m) g)).
    { intros f Hf Hon Hex x Hx.
      (* f is a key, not explicitly on: it is explicitly off, so it was off before the closure *)
      assert (Hoff : get (apply_overrides l1 c1) f = false).
      { rewrite Hstart. unfold keys in Hf. apply in_map_iff in Hf. destruct Hf as [[k v] [E Hkv]]. simpl in E. subst k.
        assert (ofind l1 f = Some v) as Ef.
        { clear -Hkv ND1. induction l1 as [|[a b] l IH]; [destruct Hkv|]. simpl in ND1. inversion ND1 as [|y ys Hnin ND']; subst.
          simpl. destruct Hkv as [Hkv|Hkv].
          - inversion Hkv; subst. rewrite N.eqb_refl. reflexivity.
          - destruct (f =? a)%N eqn:E; [|apply IH; assumption]. apply N.eqb_eq in E. subst a. exfalso. apply Hnin.
            apply in_map_iff. exists (f, v). auto. }
        rewrite Ef. unfold ex, ov_on in Hex. rewrite Ef in Hex. destruct v; [discriminate|reflexivity]. }
      destruct (From ltac:(intros k Hk; exists k; split; [exact Hk|apply reach_refl]) f Hon) as [g [Hg Hreach]].
      assert (Hne : g <> f) by (intros ->; congruence).
      destruct (reach_neq m g f Hreach Hne) as [fm [b [Hfm [Hid Hb]]]]. subst g.
      (* g was on before the closure and implies something: it must be explicitly on *)
      assert (Hexg : ex (fid fm) = true).
      { rewrite Hstart in Hg. unfold ex, ov_on. destruct (ofind l1 (fid fm)) as [v|]; [subst v; reflexivity|]. exfalso.
        destruct (apply_levels_on _ _ _ _ EL _ Hg) as [H0|H0].
        - destruct (init_on _ H0) as [fm' [Hfm' [Hid' Hd]]].
          assert (fm' = fm).
          { pose proof (lookup_row_unique fm' Hfm') as L1. pose proof (lookup_row_unique fm Hfm) as L2. rewrite Hid' in L1. congruence. }
          subst fm'. rewrite (ok_base fm Hfm (or_introl Hd)) in Hb. destruct Hb.
        - rewrite (ok_base fm Hfm (or_intror H0)) in Hb. destruct Hb. }
      exists (fid fm). split; [exact Hexg|].
      destruct (Hrow f Hf) as [fmf [Hfmf Ef]]. subst f.
      unfold Xs in *. destruct (xlist lk (fuel_of m) (fid fmf)) as [Xf|] eqn:E1; [|destruct Hx].
      destruct (xlist lk (fuel_of m) (fid fm)) as [Xg|] eqn:E2; [|destruct (ok_total fm Hfm E2)].
      exact (reach_incl _ _ Hreach _ _ E2 E1 x Hx). }
    (* both orders are orderings of the same key set *)
    assert (K12 : incl (map fst l2) keys /\ incl keys (map fst l2)).
    { split; intros x Hx; [apply (Permutation_in x (Permutation_map fst (Permutation_sym P)))|apply (Permutation_in x (Permutation_map fst P))]; exact Hx. }
    pose proof (loop_char lk ex (fuel_of m) c3 keys Htotal HEkeys Hcover HEon keys (incl_refl _) (incl_refl _)) as C1.
    pose proof (loop_char lk ex (fuel_of m) c3 keys Htotal HEkeys Hcover HEon (map fst l2) (proj1 K12) (proj2 K12)) as C2.
    destruct (existsb _ keys).
    - destruct C1 as [e1 E1], C2 as [e2 E2]. rewrite E1, E2. exact I.
    - destruct C1 as [c' [E1 H1]], C2 as [c'' [E2 H2]]. rewrite E1, E2. simpl. intros k.
      apply eq_true_iff_eq. rewrite H1, H2. tauto.
  Qed.
End Main.

(* ------------------------------------------------------------------------- *)
(** * From the canonical order to every order *)

(** [l] mentions only flags of [fs], each at most once (any order) *)
Definition over (fs : list N) (l : list (N * bool)) : Prop :=
  NoDup (map fst l) /\ forall kv, In kv l -> In (fst kv) fs.

Lemma over_canonical fs : NoDup fs -> forall l, over fs l -> exists l0, sub_assign fs l0 /\ Permutation l0 l.
Proof.
  induction fs as [|f fs IH]; intros NDf l [ND Hin].
  - destruct l as [|kv l]; [exists []; split; constructor|]. destruct (Hin kv (or_introl eq_refl)).
  - inversion NDf as [|x xs Hnf NDfs]; subst.
    destruct (in_dec N.eq_dec f (map fst l)) as [Hf|Hf].
    + apply in_map_iff in Hf. destruct Hf as [[k b] [E Hkb]]. simpl in E. subst k.
      destruct (in_split _ _ Hkb) as [l1 [l2 El]]. subst l.
      assert (ND' : NoDup (map fst (l1 ++ l2))).
      { rewrite map_app in *. simpl in ND. apply NoDup_remove_1 in ND. exact ND. }
      assert (Hnot : ~ In f (map fst (l1 ++ l2))).
      { rewrite map_app in *. simpl in ND. apply NoDup_remove_2 in ND. exact ND. }
      destruct (IH NDfs (l1 ++ l2)) as [l0 [S0 P0]].
      { split; [exact ND'|]. intros kv Hkv.
        assert (In kv (l1 ++ (f, b) :: l2)) as H1 by (apply in_app_or in Hkv; apply in_or_app; simpl; tauto).
        destruct (Hin kv H1) as [E|E]; [|exact E]. exfalso. apply Hnot. rewrite E. apply in_map. exact Hkv. }
      exists ((f, b) :: l0). split; [constructor; exact S0|]. apply Permutation_cons_app. exact P0.
    + destruct (IH NDfs l) as [l0 [S0 P0]].
      { split; [exact ND|]. intros kv Hkv. destruct (Hin kv Hkv) as [E|E]; [|exact E].
        exfalso. apply Hf. rewrite E. apply in_map. exact Hkv. }
      exists l0. split; [constructor; exact S0|exact P0].
Qed.

Lemma ov_on_perm l0 l : Permutation l0 l -> NoDup (map fst l0) -> forall k, ov_on (ov_dict l0) k = ov_on (ov_dict l) k.
Proof.
  intros P ND k. rewrite (ov_dict_nodup _ ND), (ov_dict_nodup _ (perm_keys_nodup _ _ P ND)).
  unfold ov_on. rewrite (ofind_perm _ _ P ND). reflexivity.
Qed.
Lemma ov_dict_in_perm l0 l : Permutation l0 l -> NoDup (map fst l0) -> forall kv, In kv (ov_dict l) -> In kv (ov_dict l0).
Proof.
  intros P ND kv. rewrite (ov_dict_nodup _ ND), (ov_dict_nodup _ (perm_keys_nodup _ _ P ND)).
  apply Permutation_in. apply Permutation_sym. exact P.
Qed.

Lemma filter_map_nodup {A} (f : A -> N) (p : A -> bool) l : NoDup (map f l) -> NoDup (map f (filter p l)).
Proof.
  induction l as [|a l IH]; simpl; intros H; [constructor|]. inversion H as [|x xs Hn ND]; subst.
  destruct (p a); simpl; [|apply IH; exact ND]. constructor; [|apply IH; exact ND].
  intros Hin. apply Hn. apply in_map_iff in Hin. destruct Hin as [y [E Hy]]. apply filter_In in Hy. destruct Hy.
  rewrite <- E. apply in_map. assumption.
Qed.
Lemma relevant_nodup m : NoDup (ids m) -> NoDup (relevant m).
Proof. unfold relevant, ids. apply filter_map_nodup. Qed.

(** the property's clauses for every order: from a checked canonical representative, by [order_independent] *)
Section AnyOrder.
  Variable m : meta.
  Hypothesis Hok : meta_ok m = true.
  Variable fs : list N.
  Hypothesis NDfs : NoDup fs.
  Hypothesis Hchk : forall l0, sub_assign fs l0 -> chk_assign m (resolve m) l0 = true.
  Let lk := table_lookup m.

  Lemma canon l : over fs l -> exists l0, Permutation l0 l /\ NoDup (map fst l0) /\ chk_assign m (resolve m) l0 = true
                                          /\ forall lv, res_equiv (resolve m lv l0) (resolve m lv l).
  Proof.
    intros Ho. destruct (over_canonical fs NDfs l Ho) as [l0 [S0 P0]]. exists l0.
    assert (ND0 : NoDup (map fst l0)) by (eapply perm_keys_nodup; [apply Permutation_sym; exact P0|apply Ho]).
    repeat split; auto. intros lv. apply order_independent; assumption.
  Qed.

  Theorem any_total lv l : In lv (levels m) -> over fs l ->
    (exists c, resolve m lv l = Ok c) \/ (exists a b, resolve m lv l = Error (EConflict a b) /\ ov_on (ov_dict l) a = true /\ In a (exclusive_of lk b)).
  Proof.
    intros Hlv Ho. destruct (canon l Ho) as [l0 [P [ND [HC HE]]]]. specialize (HE lv).
    destruct (lift_total m l0 HC lv Hlv) as [[c0 E0]|[a0 [b0 E0]]]; rewrite E0 in HE.
    - destruct (resolve m lv l) as [c| | |]; simpl in HE; try contradiction. left. eauto.
    - destruct (resolve m lv l) as [c|e| |] eqn:E; simpl in HE; try contradiction. right.
      destruct (resolve_error _ _ _ _ E) as [a [b [-> H]]]. eauto.
  Qed.

  Theorem any_implied lv l c : In lv (levels m) -> over fs l -> resolve m lv l = Ok c ->
    forall f g, In g (implies_of lk f) -> get c f = true -> get c g = true.
  Proof.
    intros Hlv Ho E f g Hg Hon. destruct (canon l Ho) as [l0 [P [ND [HC HE]]]]. specialize (HE lv). rewrite E in HE.
    destruct (resolve m lv l0) as [c0| | |] eqn:E0; simpl in HE; try contradiction.
    rewrite <- HE in *. exact (lift_implied m l0 HC lv c0 Hlv E0 f g Hg Hon).
  Qed.

  Theorem any_exclusive lv l c : In lv (levels m) -> over fs l -> resolve m lv l = Ok c ->
    forall f g, In g (exclusive_of lk f) -> get c f = true -> get c g = false.
  Proof.
    intros Hlv Ho E f g Hg Hon. destruct (canon l Ho) as [l0 [P [ND [HC HE]]]]. specialize (HE lv). rewrite E in HE.
    destruct (resolve m lv l0) as [c0| | |] eqn:E0; simpl in HE; try contradiction.
    rewrite <- HE in *. exact (lift_exclusive m l0 HC lv c0 Hlv E0 f g Hg Hon).
  Qed.

  Theorem any_explicit_both lv l : In lv (levels m) -> over fs l ->
    forall f g, In g (exclusive_of lk f) -> ov_on (ov_dict l) f = true -> ov_on (ov_dict l) g = true ->
    exists e, resolve m lv l = Error e.
  Proof.
    intros Hlv Ho f g Hg H1 H2. destruct (canon l Ho) as [l0 [P [ND [HC HE]]]]. specialize (HE lv).
    rewrite <- (ov_on_perm _ _ P ND) in H1, H2.
    destruct (lift_explicit_both m l0 HC lv Hlv f g Hg H1 H2) as [a [b E0]]. rewrite E0 in HE.
    destruct (resolve m lv l) as [c|e| |]; simpl in HE; try contradiction. eauto.
  Qed.

  Theorem any_overrides lv l c : In lv (levels m) -> over fs l -> resolve m lv l = Ok c -> forall k b, In (k, b) (ov_dict l) ->
    if b then get c k = true
    else get c k = true -> exists fm, In fm (mflags m) /\ In k (fimplies fm) /\ get c (fid fm) = true.
  Proof.
    intros Hlv Ho E k b Hin. destruct (canon l Ho) as [l0 [P [ND [HC HE]]]]. specialize (HE lv). rewrite E in HE.
    destruct (resolve m lv l0) as [c0| | |] eqn:E0; simpl in HE; try contradiction.
    pose proof (lift_overrides m l0 HC lv c0 Hlv E0 k b (ov_dict_in_perm _ _ P ND _ Hin)) as H.
    destruct b; [rewrite <- HE; exact H|]. intros Hon. rewrite <- HE in Hon. destruct (H Hon) as [fm [H1 [H2 H3]]].
    exists fm. rewrite <- HE. auto.
  Qed.

  Theorem any_cumulative i l : (S i < length (mlevels m))%nat -> over fs l ->
    (forall c1, resolve m (Z.of_nat i) l = Ok c1 ->
       exists c2, resolve m (Z.of_nat (S i)) l = Ok c2 /\ forall f, In f (ids m) -> get c1 f = true -> get c2 f = true)
    /\ (forall e, resolve m (Z.of_nat i) l = Error e -> exists e', resolve m (Z.of_nat (S i)) l = Error e').
  Proof.
    intros Hi Ho. destruct (canon l Ho) as [l0 [P [ND [HC HE]]]].
    pose proof (HE (Z.of_nat i)) as HE1. pose proof (HE (Z.of_nat (S i))) as HE2.
    destruct (lift_cumulative m l0 HC i Hi) as [LO LE]. split.
    - intros c1 E. rewrite E in HE1. destruct (resolve m (Z.of_nat i) l0) as [d1| | |] eqn:E0; simpl in HE1; try contradiction.
      destruct (LO d1 eq_refl) as [d2 [E2 Hs]]. rewrite E2 in HE2.
      destruct (resolve m (Z.of_nat (S i)) l) as [c2| | |]; simpl in HE2; try contradiction.
      exists c2. split; [reflexivity|]. intros f Hf Hon. rewrite <- HE2. apply Hs; [exact Hf|]. rewrite HE1. exact Hon.
    - intros e E. rewrite E in HE1. destruct (resolve m (Z.of_nat i) l0) as [|e0| |] eqn:E0; simpl in HE1; try contradiction.
      destruct (LE e0 eq_refl) as [e2 E2]. rewrite E2 in HE2.
      destruct (resolve m (Z.of_nat (S i)) l) as [|e'| |]; simpl in HE2; try contradiction. eauto.
  Qed.
End AnyOrder.
