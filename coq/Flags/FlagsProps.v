(** C19 - the finite part: boolean checks of the property's clauses on [FlagsModel.resolve], their
    evaluation domain, and the lemmas that lift a successful check to the stated properties.

    Everything here is generic in the metadata [m]; Flags/FlagsTable.v instantiates it with the table
    regenerated from nmfu.py, Flags/FlagsShard*.v evaluate the check by [vm_compute] (the domain is
    split into shards only so that they can be compiled in parallel), Flags/FlagsThms.v assembles
    the theorems.  Order independence (a proof by induction, not an enumeration) is Flags/FlagsOrder.v. *)
From Coq Require Import NArith ZArith List Bool Lia FMapPositive.
From NV Require Import Flags.FlagsModel.
Import ListNotations.

(* ------------------------------------------------------------------------- *)
(** * Basic facts about the dict operations *)

Lemma pk_inj k k' : pk k = pk k' -> k = k'.
Proof. unfold pk. intros H. apply (f_equal Pos.pred_N) in H. rewrite !N.pos_pred_succ in H. exact H. Qed.

Lemma get_dset c k v k' : get (dset c k v) k' = if (k' =? k)%N then v else get c k'.
Proof.
  unfold get, dset. destruct (k' =? k)%N eqn:E.
  - apply N.eqb_eq in E. subst. rewrite PositiveMap.gss. reflexivity.
  - rewrite PositiveMap.gso; [reflexivity|]. intros H. apply pk_inj in H. subst. rewrite N.eqb_refl in E. discriminate.
Qed.

Lemma padd_comm {A} (i j : positive) (v w : A) (m : PositiveMap.t A) : i <> j ->
  PositiveMap.add i v (PositiveMap.add j w m) = PositiveMap.add j w (PositiveMap.add i v m).
Proof.
  revert j m. induction i as [i IH|i IH|]; intros [j|j|] m H; destruct m as [|l o r]; simpl;
    try reflexivity; try congruence; f_equal; apply IH; congruence.
Qed.

Lemma dset_comm c k v k' v' : k <> k' -> dset (dset c k v) k' v' = dset (dset c k' v') k v.
Proof. intros H. unfold dset. apply padd_comm. intros E. apply pk_inj in E. congruence. Qed.

Lemma ofind_oset c k v k' : ofind (oset c k v) k' = if (k' =? k)%N then Some v else ofind c k'.
Proof.
  induction c as [|[a b] c IH]; simpl.
  - destruct (k' =? k)%N; reflexivity.
  - destruct (k =? a)%N eqn:E; simpl.
    + apply N.eqb_eq in E; subst a. destruct (k' =? k)%N; reflexivity.
    + destruct (k' =? a)%N eqn:E2.
      * apply N.eqb_eq in E2; subst a. rewrite N.eqb_sym in E. rewrite E. reflexivity.
      * apply IH.
Qed.

Lemma find_meta_some l k fm : find_meta l k = Some fm -> In fm l /\ fid fm = k.
Proof.
  induction l as [|a l IH]; simpl; [discriminate|].
  destruct (k =? fid a)%N eqn:E.
  - intros H; inversion H; subst. apply N.eqb_eq in E. auto.
  - intros H. destruct (IH H). auto.
Qed.

(* ------------------------------------------------------------------------- *)
(** * The only error [resolve] raises is a conflict with an explicitly-on flag (by the shape of the code) *)
Lemma excl_step_error ex f xs : forall c e, excl_step ex f xs c = Error e -> exists x, e = EConflict x f /\ ex x = true /\ In x xs.
Proof.
  induction xs as [|x r IH]; intros c e H; simpl in H; [discriminate|].
  destruct (ex x) eqn:E.
  - inversion H. exists x. repeat split; auto. left. reflexivity.
  - destruct (IH _ _ H) as [y [H1 [H2 H3]]]. exists y. repeat split; auto. right. exact H3.
Qed.
Lemma aux_error lk ex : forall fuel f c e, aux fuel lk ex f c = Error e ->
  exists a b, e = EConflict a b /\ ex a = true /\ In a (exclusive_of lk b).
Proof.
  induction fuel as [|n IHn]; intros f c e H; [discriminate|]. simpl in H.
  destruct (excl_step ex f (exclusive_of lk f) c) as [c1|e1| |] eqn:ES; try discriminate.
  - clear ES. revert c1 H. induction (implies_of lk f) as [|g r IHr]; intros c1 H; [discriminate|].
    destruct (aux n lk ex g c1) as [c2|e2| |] eqn:EA; try discriminate.
    + exact (IHr _ H).
    + inversion H; subst. exact (IHn _ _ _ EA).
  - inversion H; subst. destruct (excl_step_error _ _ _ _ _ ES) as [x [H1 [H2 H3]]]. eauto.
Qed.
Lemma excl_loop_error lk ex fuel : forall keys c e, excl_loop fuel lk ex keys c = Error e ->
  exists a b, e = EConflict a b /\ ex a = true /\ In a (exclusive_of lk b).
Proof.
  induction keys as [|f r IH]; intros c e H; simpl in H; [discriminate|].
  destruct (get c f); [|exact (IH _ _ H)].
  destruct (aux fuel lk ex f c) as [c1|e1| |] eqn:EA; try discriminate.
  - exact (IH _ _ H).
  - inversion H; subst. exact (aux_error _ _ _ _ _ _ EA).
Qed.
Lemma apply_levels_no_error m : forall count j c e, apply_levels m count j c <> Error e.
Proof.
  induction count as [|n IH]; intros j c e; simpl; [discriminate|].
  destruct (find _ _); [apply IH|discriminate].
Qed.
Lemma imp_fix_no_error m : forall fuel c e, imp_fix fuel m c <> Error e.
Proof.
  induction fuel as [|n IH]; intros c e; simpl; [discriminate|].
  destruct (imp_pass (mflags m) c false) as [c' did]. destruct did; [apply IH|discriminate].
Qed.
Theorem resolve_error m lv l e : resolve m lv l = Error e ->
  exists a b, e = EConflict a b /\ ov_on (ov_dict l) a = true /\ In a (exclusive_of (table_lookup m) b).
Proof.
  unfold resolve, resolve_from.
  destruct (apply_levels m (Z.to_nat (lv + 1)) 0%N (init m)) as [c1|e1| |] eqn:EL; try discriminate.
  2:{ destruct (apply_levels_no_error _ _ _ _ _ EL). }
  destruct (forallb _ _); [|discriminate].
  destruct (imp_fix (fuel_of m) m (apply_overrides (ov_dict l) c1)) as [c3|e3| |] eqn:EI; try discriminate.
  2:{ destruct (imp_fix_no_error _ _ _ _ EI). }
  apply excl_loop_error.
Qed.

(* ------------------------------------------------------------------------- *)
(** * Part 1: the finite check *)

Definition memN (k : N) (l : list N) : bool := existsb (N.eqb k) l.
Lemma memN_In k l : memN k l = true <-> In k l.
Proof.
  unfold memN. rewrite existsb_exists. split.
  - intros [x [H E]]. apply N.eqb_eq in E. subst. exact H.
  - intros H. exists k. split; [exact H|apply N.eqb_refl].
Qed.

Definition is_nil {A} (l : list A) : bool := match l with [] => true | _ => false end.
Definition has_meta (fm : flagmeta) : bool := negb (is_nil (fimplies fm)) || negb (is_nil (fexclusive fm)).
Definition mentioned (m : meta) (k : N) : bool := existsb (fun fm => memN k (fimplies fm) || memN k (fexclusive fm)) (mflags m).
(** the flags related by implies/exclusive metadata, in table order *)
Definition relevant (m : meta) : list N :=
  map fid (filter (fun fm => has_meta fm || mentioned m (fid fm)) (mflags m)).
(** the flags of the -O level table *)
Definition level_flags (m : meta) : list N := flat_map snd (mlevels m).
(** the levels of the table: 0 .. n-1 *)
Definition levels (m : meta) : list Z := map Z.of_nat (seq 0 (List.length (mlevels m))).

(** every on/off/absent assignment of [fs], keys in the order of [fs] (3^|fs| of them) *)
Inductive sub_assign : list N -> list (N * bool) -> Prop :=
  | SA_nil : sub_assign [] []
  | SA_skip f fs l : sub_assign fs l -> sub_assign (f :: fs) l
  | SA_take f b fs l : sub_assign fs l -> sub_assign (f :: fs) ((f, b) :: l).
(** [P] on all of them, without materialising the list *)
Fixpoint forall_assigns (fs : list N) (P : list (N * bool) -> bool) : bool :=
  match fs with
  | [] => P []
  | f :: r => forall_assigns r (fun l => P l && P ((f, true) :: l) && P ((f, false) :: l))
  end.
Lemma forall_assigns_spec fs : forall P, forall_assigns fs P = true -> forall l, sub_assign fs l -> P l = true.
Proof.
  induction fs as [|f r IH]; intros P H l Hl; simpl in H.
  - inversion Hl; subst. exact H.
  - inversion Hl as [|f' fs' l' Hs|f' b fs' l' Hs]; subst.
    + specialize (IH _ H _ Hs). simpl in IH. apply andb_prop in IH as [IH _]. apply andb_prop in IH as [IH _]. exact IH.
    + specialize (IH _ H _ Hs). simpl in IH. apply andb_prop in IH as [IH1 IH2]. apply andb_prop in IH1 as [_ IH1].
      destruct b; assumption.
Qed.
Fixpoint count_assigns (fs : list N) : N := match fs with [] => 1 | _ :: r => 3 * count_assigns r end%N.

(** boolean forms of the property's clauses on one configuration
    ([if a then true else b] instead of [a || b]: the VM evaluates both arguments of [orb]) *)
Definition implied_okb (m : meta) (c : config) : bool :=
  forallb (fun fm => match fimplies fm with [] => true | xs => if get c (fid fm) then forallb (get c) xs else true end) (mflags m).
Definition exclusive_okb (m : meta) (c : config) : bool :=
  forallb (fun fm => match fexclusive fm with [] => true
                     | xs => if get c (fid fm) then forallb (fun g => negb (get c g)) xs else true end) (mflags m).
(** some flag and one of its exclusive partners are both explicitly switched on ([d] = the override dict) *)
Definition explicit_both (m : meta) (d : odict) : bool :=
  existsb (fun fm => match fexclusive fm with [] => false
                     | xs => if ov_on d (fid fm) then existsb (ov_on d) xs else false end) (mflags m).
(** an explicit "on" is on; an explicit "off" is off unless some flag that is on implies it *)
Definition implied_by_on (m : meta) (c : config) (k : N) : bool :=
  existsb (fun fm => if memN k (fimplies fm) then get c (fid fm) else false) (mflags m).
Definition override_okb (m : meta) (d : odict) (c : config) : bool :=
  forallb (fun kv : N * bool => if snd kv then get c (fst kv)
                                else if get c (fst kv) then implied_by_on m c (fst kv) else true) d.
(** [bview]: the values in table order; subset of on-flags compared position by position *)
Definition bview (m : meta) (c : config) : list bool := map (fun fm => get c (fid fm)) (mflags m).
Fixpoint sub_bools (a b : list bool) : bool :=
  match a, b with
  | x :: a', y :: b' => if x then (if y then sub_bools a' b' else false) else sub_bools a' b'
  | [], [] => true
  | _, _ => false
  end.

Definition chk_cfg (m : meta) (l : list (N * bool)) (r : result config) : bool :=
  match r with
  | Ok c => let d := ov_dict l in
            if implied_okb m c then if exclusive_okb m c then if override_okb m d c then negb (explicit_both m d)
            else false else false else false
  | Error (EConflict a b) => if ov_on (ov_dict l) a then memN a (exclusive_of (table_lookup m) b) else false
                                                              (* the only error resolve gives *)
  | _ => false                                                (* never a crash, never out of fuel *)
  end.
Inductive rview := VOk (v : list bool) | VError | VBad.
Definition rview_of (m : meta) (r : result config) : rview :=
  match r with Ok c => VOk (bview m c) | Error _ => VError | _ => VBad end.
Definition chk_cum (v1 v2 : rview) : bool :=
  match v1, v2 with
  | VOk a, VOk b => sub_bools a b
  | VError, VError => true
  | _, _ => false
  end.
Fixpoint chk_chain (vs : list rview) : bool :=
  match vs with
  | v1 :: ((v2 :: _) as t) => if chk_cum v1 v2 then chk_chain t else false
  | _ => true
  end.
(** [rf] is [resolve m] (or an extensionally equal, faster evaluator of it) *)
Definition chk_assign (m : meta) (rf : Z -> list (N * bool) -> result config) (l : list (N * bool)) : bool :=
  let rs := map (fun lv => rf lv l) (levels m) in
  if forallb (chk_cfg m l) rs then chk_chain (map (rview_of m) rs) else false.

(** ** a faster evaluator of [resolve]: defaults computed once, metadata lookup through a trie *)
Fixpoint build_trie (l : list flagmeta) : PositiveMap.t flagmeta :=
  match l with [] => PositiveMap.empty _ | fm :: r => PositiveMap.add (pk (fid fm)) fm (build_trie r) end.
Lemma build_trie_find l k : PositiveMap.find (pk k) (build_trie l) = find_meta l k.
Proof.
  induction l as [|fm l IH]; simpl.
  - apply PositiveMap.gempty.
  - destruct (k =? fid fm)%N eqn:E.
    + apply N.eqb_eq in E. subst. apply PositiveMap.gss.
    + rewrite PositiveMap.gso; [exact IH|]. intros H. apply pk_inj in H. subst. rewrite N.eqb_refl in E. discriminate.
Qed.
Definition fast_lookup (m : meta) : lookup := let t := build_trie (mflags m) in fun k => PositiveMap.find (pk k) t.

Lemma aux_ext lk1 lk2 ex : (forall k, lk1 k = lk2 k) -> forall fuel f c, aux fuel lk1 ex f c = aux fuel lk2 ex f c.
Proof.
  intros H. induction fuel as [|n IH]; intros f c; simpl; [reflexivity|].
  unfold exclusive_of, implies_of. rewrite H.
  destruct (excl_step ex f match lk2 f with Some fm => fexclusive fm | None => [] end c) as [c1| | |]; try reflexivity.
  generalize c1. induction (match lk2 f with Some fm => fimplies fm | None => [] end) as [|g r IHr]; intros c2; [reflexivity|].
  rewrite IH. destruct (aux n lk2 ex g c2); try reflexivity. apply IHr.
Qed.
Lemma excl_loop_ext lk1 lk2 ex : (forall k, lk1 k = lk2 k) -> forall fuel keys c, excl_loop fuel lk1 ex keys c = excl_loop fuel lk2 ex keys c.
Proof.
  intros H fuel. induction keys as [|f r IH]; intros c; simpl; [reflexivity|].
  destruct (get c f); [|apply IH]. rewrite (aux_ext _ _ _ H). destruct (aux fuel lk2 ex f c); try reflexivity. apply IH.
Qed.
Lemma forallb_ext {A} (f g : A -> bool) l : (forall x, f x = g x) -> forallb f l = forallb g l.
Proof. intros H. induction l; simpl; [reflexivity|]. rewrite H, IHl. reflexivity. Qed.
Lemma resolve_fast m lv l : resolve_from m (init m) (fast_lookup m) lv l = resolve m lv l.
Proof.
  assert (HL : forall k, fast_lookup m k = table_lookup m k) by (intros k; unfold fast_lookup, table_lookup; apply build_trie_find).
  unfold resolve, resolve_from. destruct (apply_levels m (Z.to_nat (lv + 1)) 0%N (init m)); try reflexivity.
  rewrite (forallb_ext _ (fun kv => is_member (table_lookup m) (fst kv)) (ov_dict l)) by (intros kv; unfold is_member; rewrite HL; reflexivity).
  destruct (forallb _ _); [|reflexivity]. destruct (imp_fix _ _ _); try reflexivity.
  apply excl_loop_ext. exact HL.
Qed.

(* ------------------------------------------------------------------------- *)
(** * The explored domain and its shards *)

(** all assignments of a (short) list of flags, materialised *)
Fixpoint assigns (fs : list N) : list (list (N * bool)) :=
  match fs with
  | [] => [[]]
  | f :: r => let A := assigns r in A ++ map (cons (f, true)) A ++ map (cons (f, false)) A
  end.
Lemma assigns_complete fs l : sub_assign fs l -> In l (assigns fs).
Proof.
  induction 1; simpl.
  - auto.
  - apply in_or_app; left; assumption.
  - apply in_or_app; right. apply in_or_app. destruct b; [left|right]; apply in_map; assumption.
Qed.
Lemma sub_assign_split n : forall fs l, sub_assign fs l ->
  exists pre l', sub_assign (firstn n fs) pre /\ sub_assign (skipn n fs) l' /\ l = pre ++ l'.
Proof.
  induction n as [|n IH]; intros fs l H.
  - exists [], l. simpl. repeat split; [constructor|exact H].
  - inversion H as [|f fs' l0 Hs|f b fs' l0 Hs]; subst.
    + exists [], []. simpl. repeat split; constructor.
    + destruct (IH _ _ Hs) as [pre [l' [H1 [H2 H3]]]]. exists pre, l'. simpl. repeat split; [constructor; exact H1|exact H2|exact H3].
    + destruct (IH _ _ Hs) as [pre [l' [H1 [H2 H3]]]]. exists ((f, b) :: pre), l'. simpl. subst l0.
      repeat split; [constructor; exact H1|exact H2].
Qed.

Definition split_at : nat := 2.
Definition prefixes (m : meta) : list (list (N * bool)) := assigns (firstn split_at (relevant m)).
Lemma assigns_length fs : length (assigns fs) = (3 ^ length fs)%nat.
Proof. induction fs as [|f r IH]; simpl; [reflexivity|]. rewrite !app_length, !map_length, IH. lia. Qed.
Lemma prefixes_le m : (length (prefixes m) <= 9)%nat.
Proof.
  unfold prefixes. rewrite assigns_length. change 9%nat with (3 ^ 2)%nat.
  apply Nat.pow_le_mono_r; [lia|]. rewrite firstn_length. unfold split_at. lia.
Qed.
Definition fast_resolve (m : meta) : Z -> list (N * bool) -> result config :=
  let c0 := init m in let lk := fast_lookup m in resolve_from m c0 lk.
(** shard [i]: the assignments of the related flags that extend the i-th assignment of the first two *)
Definition shard (m : meta) (i : nat) : bool :=
  match nth_error (prefixes m) i with
  | Some pre => let rf := fast_resolve m in
                forall_assigns (skipn split_at (relevant m)) (fun l => chk_assign m rf (pre ++ l))
  | None => true
  end.
(** the assignments of the flags of the level table ("every optimisation flag x level") *)
Definition level_shard (m : meta) : bool :=
  let rf := fast_resolve m in forall_assigns (level_flags m) (chk_assign m rf).

Lemma chk_assign_ext m rf1 rf2 l : (forall lv, rf1 lv l = rf2 lv l) -> chk_assign m rf1 l = chk_assign m rf2 l.
Proof. intros H. unfold chk_assign. rewrite (map_ext _ _ (fun lv => H lv)). reflexivity. Qed.
Lemma fast_resolve_eq m lv l : fast_resolve m lv l = resolve m lv l.
Proof. apply resolve_fast. Qed.

Lemma nth_forall {A} (P : A -> bool) (L : list A) n :
  (length L <= n)%nat -> (forall i, (i < n)%nat -> match nth_error L i with Some x => P x | None => true end = true) ->
  forall x, In x L -> P x = true.
Proof.
  intros Hlen H x Hx. destruct (In_nth_error _ _ Hx) as [i Hi].
  assert (Hlt : (i < length L)%nat) by (apply nth_error_Some; rewrite Hi; discriminate).
  specialize (H i ltac:(lia)). rewrite Hi in H. exact H.
Qed.

(** all shards checked => the check holds on the whole domain, for the model [resolve] itself *)
Theorem shards_cover m n : (length (prefixes m) <= n)%nat -> (forall i, (i < n)%nat -> shard m i = true) ->
  forall l, sub_assign (relevant m) l -> chk_assign m (resolve m) l = true.
Proof.
  intros Hlen Hs l Hl. destruct (sub_assign_split split_at _ _ Hl) as [pre [l' [H1 [H2 H3]]]]. subst l.
  apply assigns_complete in H1.
  pose proof (nth_forall (fun pre => forall_assigns (skipn split_at (relevant m)) (fun l => chk_assign m (fast_resolve m) (pre ++ l)))
                (prefixes m) n Hlen) as HN.
  assert (HP : forall_assigns (skipn split_at (relevant m)) (fun l => chk_assign m (fast_resolve m) (pre ++ l)) = true).
  { apply HN; [|exact H1]. intros i Hi. specialize (Hs i Hi). unfold shard in Hs. destruct (nth_error (prefixes m) i); [exact Hs|reflexivity]. }
  pose proof (forall_assigns_spec _ _ HP _ H2) as HC. simpl in HC.
  rewrite <- HC. apply chk_assign_ext. intros lv. symmetry. apply fast_resolve_eq.
Qed.
Theorem level_shard_covers m : level_shard m = true ->
  forall l, sub_assign (level_flags m) l -> chk_assign m (resolve m) l = true.
Proof.
  intros H l Hl. unfold level_shard in H. pose proof (forall_assigns_spec _ _ H _ Hl) as HC.
  rewrite <- HC. apply chk_assign_ext. intros lv. symmetry. apply fast_resolve_eq.
Qed.

(* ------------------------------------------------------------------------- *)
(** * Lifting: what [chk_assign m (resolve m) l = true] says *)

Lemma levels_nth m i : (i < length (mlevels m))%nat -> nth_error (levels m) i = Some (Z.of_nat i).
Proof.
  intros H. unfold levels. rewrite nth_error_map. 
  rewrite (nth_error_nth' (seq 0 (length (mlevels m))) 0%nat) by (rewrite seq_length; exact H).
  rewrite seq_nth by exact H. reflexivity.
Qed.
Lemma levels_in m lv : In lv (levels m) <-> exists i, (i < length (mlevels m))%nat /\ lv = Z.of_nat i.
Proof.
  unfold levels. rewrite in_map_iff. split.
  - intros [i [E Hi]]. apply in_seq in Hi. exists i. split; [lia|auto].
  - intros [i [Hi E]]. exists i. split; [auto|]. apply in_seq. lia.
Qed.

Lemma chk_level m l lv : chk_assign m (resolve m) l = true -> In lv (levels m) -> chk_cfg m l (resolve m lv l) = true.
Proof.
  unfold chk_assign. intros H Hlv. destruct (forallb _ _) eqn:E; [|discriminate].
  rewrite forallb_forall in E. apply E. apply in_map_iff. exists lv. auto.
Qed.

Lemma chain_nth vs : chk_chain vs = true -> forall i v1 v2, nth_error vs i = Some v1 -> nth_error vs (S i) = Some v2 -> chk_cum v1 v2 = true.
Proof.
  induction vs as [|a vs IH]; intros H i v1 v2 H1 H2; [destruct i; discriminate|].
  destruct vs as [|b vs]; [destruct i; simpl in H2; [discriminate|destruct i; discriminate]|].
  simpl in H. destruct (chk_cum a b) eqn:E; [|discriminate].
  destruct i; simpl in H1, H2.
  - inversion H1; inversion H2; subst. exact E.
  - apply (IH H i); assumption.
Qed.

Lemma sub_bools_spec m c1 c2 : sub_bools (bview m c1) (bview m c2) = true ->
  forall f, In f (ids m) -> get c1 f = true -> get c2 f = true.
Proof.
  unfold bview, ids. induction (mflags m) as [|fm r IH]; simpl; intros H f Hf Hg; [tauto|].
  destruct Hf as [Hf|Hf].
  - subst f. rewrite Hg in H. destruct (get c2 (fid fm)); [reflexivity|discriminate].
  - apply IH; try assumption. destruct (get c1 (fid fm)); [destruct (get c2 (fid fm)); [exact H|discriminate]|exact H].
Qed.

Lemma chk_levels_adjacent m l i : chk_assign m (resolve m) l = true -> (S i < length (mlevels m))%nat ->
  chk_cum (rview_of m (resolve m (Z.of_nat i) l)) (rview_of m (resolve m (Z.of_nat (S i)) l)) = true.
Proof.
  unfold chk_assign. intros H Hi. destruct (forallb _ _); [|discriminate].
  apply (chain_nth _ H i); rewrite !nth_error_map, levels_nth by lia; reflexivity.
Qed.

(** reflection of the clause checks *)
Lemma implied_okb_spec m c : implied_okb m c = true ->
  forall fm, In fm (mflags m) -> get c (fid fm) = true -> forall g, In g (fimplies fm) -> get c g = true.
Proof.
  unfold implied_okb. rewrite forallb_forall. intros H fm Hfm Hon g Hg. specialize (H fm Hfm).
  destruct (fimplies fm) as [|x xs] eqn:E; [destruct Hg|]. rewrite Hon in H. rewrite forallb_forall in H. apply H. exact Hg.
Qed.
Lemma exclusive_okb_spec m c : exclusive_okb m c = true ->
  forall fm, In fm (mflags m) -> get c (fid fm) = true -> forall g, In g (fexclusive fm) -> get c g = false.
Proof.
  unfold exclusive_okb. rewrite forallb_forall. intros H fm Hfm Hon g Hg. specialize (H fm Hfm).
  destruct (fexclusive fm) as [|x xs] eqn:E; [destruct Hg|]. rewrite Hon in H. rewrite forallb_forall in H.
  apply negb_true_iff. apply H. exact Hg.
Qed.
Lemma explicit_both_intro m d fm g : In fm (mflags m) -> ov_on d (fid fm) = true -> In g (fexclusive fm) -> ov_on d g = true ->
  explicit_both m d = true.
Proof.
  intros Hfm H1 Hg H2. unfold explicit_both. apply existsb_exists. exists fm. split; [exact Hfm|].
  destruct (fexclusive fm) as [|x xs] eqn:E; [destruct Hg|]. rewrite H1. apply existsb_exists. exists g. auto.
Qed.
Lemma override_okb_spec m d c : override_okb m d c = true -> forall k b, In (k, b) d ->
  if b then get c k = true
  else get c k = true -> exists fm, In fm (mflags m) /\ In k (fimplies fm) /\ get c (fid fm) = true.
Proof.
  unfold override_okb. rewrite forallb_forall. intros H k b Hin. specialize (H _ Hin). simpl in H.
  destruct b; [exact H|]. intros Hon. rewrite Hon in H. unfold implied_by_on in H. apply existsb_exists in H.
  destruct H as [fm [Hfm Hc]]. exists fm. destruct (memN k (fimplies fm)) eqn:E; [|discriminate].
  apply memN_In in E. auto.
Qed.

Lemma chk_cfg_ok m l c : chk_cfg m l (Ok c) = true ->
  implied_okb m c = true /\ exclusive_okb m c = true /\ override_okb m (ov_dict l) c = true /\ explicit_both m (ov_dict l) = false.
Proof.
  simpl. destruct (implied_okb m c); [|discriminate]. destruct (exclusive_okb m c); [|discriminate].
  destruct (override_okb m (ov_dict l) c); [|discriminate]. intros H. apply negb_true_iff in H. auto.
Qed.
Lemma chk_cfg_shape m l r : chk_cfg m l r = true ->
  (exists c, r = Ok c) \/ (exists a b, r = Error (EConflict a b) /\ ov_on (ov_dict l) a = true /\ In a (exclusive_of (table_lookup m) b)).
Proof.
  destruct r as [c|e|k|]; simpl; try discriminate.
  - intros _. left. eauto.
  - destruct e; try discriminate. destruct (ov_on (ov_dict l) a) eqn:E; [|discriminate]. intros H. apply memN_In in H. right. eauto.
Qed.

(* ------------------------------------------------------------------------- *)
(** * The property's clauses, for any metadata and any assignment on which the check succeeded *)
Section Lift.
  Variable m : meta.
  Variable l : list (N * bool).
  Hypothesis HC : chk_assign m (resolve m) l = true.
  Let lk := table_lookup m.

  Lemma lookup_row f g (sel : flagmeta -> list N) :
    In g (match lk f with Some fm => sel fm | None => [] end) -> exists fm, In fm (mflags m) /\ fid fm = f /\ In g (sel fm).
  Proof.
    unfold lk, table_lookup. destruct (find_meta (mflags m) f) as [fm|] eqn:E; [|intros []].
    intros H. apply find_meta_some in E. destruct E. eauto.
  Qed.

  Lemma lift_total lv : In lv (levels m) -> (exists c, resolve m lv l = Ok c) \/ (exists a b, resolve m lv l = Error (EConflict a b)).
  Proof.
    intros Hlv. destruct (chk_cfg_shape _ _ _ (chk_level _ _ _ HC Hlv)) as [[c E]|[a [b [E _]]]]; eauto.
  Qed.

  Lemma lift_implied lv c : In lv (levels m) -> resolve m lv l = Ok c ->
    forall f g, In g (implies_of lk f) -> get c f = true -> get c g = true.
  Proof.
    intros Hlv E f g Hg Hon. pose proof (chk_level _ _ _ HC Hlv) as H. rewrite E in H.
    apply chk_cfg_ok in H. destruct H as [H _]. destruct (lookup_row f g fimplies Hg) as [fm [Hfm [Hid Hin]]]. subst f.
    exact (implied_okb_spec _ _ H fm Hfm Hon g Hin).
  Qed.

  Lemma lift_exclusive lv c : In lv (levels m) -> resolve m lv l = Ok c ->
    forall f g, In g (exclusive_of lk f) -> get c f = true -> get c g = false.
  Proof.
    intros Hlv E f g Hg Hon. pose proof (chk_level _ _ _ HC Hlv) as H. rewrite E in H.
    apply chk_cfg_ok in H. destruct H as [_ [H _]]. destruct (lookup_row f g fexclusive Hg) as [fm [Hfm [Hid Hin]]]. subst f.
    exact (exclusive_okb_spec _ _ H fm Hfm Hon g Hin).
  Qed.

  Lemma lift_explicit_both lv : In lv (levels m) ->
    forall f g, In g (exclusive_of lk f) -> ov_on (ov_dict l) f = true -> ov_on (ov_dict l) g = true ->
    exists a b, resolve m lv l = Error (EConflict a b).
  Proof.
    intros Hlv f g Hg H1 H2. destruct (lift_total lv Hlv) as [[c E]|H]; [|exact H]. exfalso.
    pose proof (chk_level _ _ _ HC Hlv) as H. rewrite E in H. apply chk_cfg_ok in H. destruct H as [_ [_ [_ H]]].
    destruct (lookup_row f g fexclusive Hg) as [fm [Hfm [Hid Hin]]]. subst f.
    rewrite (explicit_both_intro m _ fm g Hfm H1 Hin H2) in H. discriminate.
  Qed.

  Lemma lift_errors lv e : In lv (levels m) -> resolve m lv l = Error e ->
    exists a b, e = EConflict a b /\ ov_on (ov_dict l) a = true /\ In a (exclusive_of lk b).
  Proof.
    intros Hlv E. destruct (chk_cfg_shape _ _ _ (chk_level _ _ _ HC Hlv)) as [[c E']|[a [b [E' H]]]]; rewrite E in E'; [discriminate|].
    inversion E'; subst. eauto.
  Qed.

  Lemma lift_overrides lv c : In lv (levels m) -> resolve m lv l = Ok c -> forall k b, In (k, b) (ov_dict l) ->
    if b then get c k = true
    else get c k = true -> exists fm, In fm (mflags m) /\ In k (fimplies fm) /\ get c (fid fm) = true.
  Proof.
    intros Hlv E k b Hin. pose proof (chk_level _ _ _ HC Hlv) as H. rewrite E in H.
    apply chk_cfg_ok in H. destruct H as [_ [_ [H _]]]. exact (override_okb_spec _ _ _ H k b Hin).
  Qed.

  Lemma lift_cumulative i : (S i < length (mlevels m))%nat ->
    (forall c1, resolve m (Z.of_nat i) l = Ok c1 ->
       exists c2, resolve m (Z.of_nat (S i)) l = Ok c2 /\ forall f, In f (ids m) -> get c1 f = true -> get c2 f = true)
    /\ (forall e, resolve m (Z.of_nat i) l = Error e -> exists e', resolve m (Z.of_nat (S i)) l = Error e').
  Proof.
    intros Hi. pose proof (chk_levels_adjacent _ _ _ HC Hi) as H.
    remember (resolve m (Z.of_nat (S i)) l) as r2 eqn:E2. clear E2. split.
    - intros c1 E. rewrite E in H. destruct r2 as [c2| | |]; cbn [rview_of chk_cum] in H; try discriminate.
      exists c2. split; [reflexivity|]. apply sub_bools_spec. exact H.
    - intros e E. rewrite E in H. destruct r2 as [c2|e'| |]; cbn [rview_of chk_cum] in H; try discriminate. eauto.
  Qed.
End Lift.

(** no flag of the level table is implied by any flag (so an explicit setting of it is final) *)
Definition level_flags_free (m : meta) : bool :=
  forallb (fun k => forallb (fun fm => negb (memN k (fimplies fm))) (mflags m)) (level_flags m).
Lemma level_flags_free_spec m : level_flags_free m = true ->
  forall k fm, In k (level_flags m) -> In fm (mflags m) -> ~ In k (fimplies fm).
Proof.
  unfold level_flags_free. rewrite forallb_forall. intros H k fm Hk Hfm Hin. specialize (H k Hk).
  rewrite forallb_forall in H. specialize (H fm Hfm). apply negb_true_iff in H.
  apply memN_In in Hin. congruence.
Qed.
