(** C19 - shard 2 of the exhaustive check (see Flags/FlagsProps.v [shard]); evaluated by the kernel's VM. *)
From NV Require Import Flags.FlagsModel Flags.FlagsProps Flags.FlagsTable.
Lemma shard_2_ok : shard gm 2 = true.
Proof. vm_compute. reflexivity. Qed.
