(** C19 - shard 5 of the exhaustive check (see Flags/FlagsProps.v [shard]); evaluated by the kernel's VM. *)
From NV Require Import Flags.FlagsModel Flags.FlagsProps Flags.FlagsTable.
Lemma shard_5_ok : shard gm 5 = true.
Proof. vm_compute. reflexivity. Qed.
