(** C19 - shard 8 of the exhaustive check (see Flags/FlagsProps.v [shard]); evaluated by the kernel's VM. *)
From NV Require Import Flags.FlagsModel Flags.FlagsProps Flags.FlagsTable.
Lemma shard_8_ok : shard gm 8 = true.
Proof. vm_compute. reflexivity. Qed.
