(** C19 - the level-table shard of the exhaustive check: every assignment of the optimisation flags x every level. *)
From NV Require Import Flags.FlagsModel Flags.FlagsProps Flags.FlagsTable.
Lemma level_shard_ok : level_shard gm = true.
Proof. vm_compute. reflexivity. Qed.
