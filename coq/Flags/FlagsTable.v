(** C19 - the metadata of the CURRENT nmfu.py (Gen/GFlags.v, regenerated on every run) as model inputs. *)
From Coq Require Import NArith ZArith List Bool.
From NV Require Import Flags.FlagsModel Flags.FlagsProps.
From NV Require Gen.GFlags.
Import ListNotations.

Definition gT : tables :=
  mk_tables GFlags.flag_table GFlags.level_table GFlags.flag_names GFlags.option_table GFlags.dump_kinds.
Definition gm : meta := mk_meta GFlags.flag_table GFlags.level_table.
Lemma gT_meta : t_meta gT = gm.
Proof. reflexivity. Qed.
