(** C19 - the theorems about [resolve] applied to the table regenerated from the current nmfu.py ([gm]).

    Bound of the finite part (stated in every theorem through [over]): override lists that mention only the
    flags related by implies/exclusive metadata ([relevant gm]: flags carrying or mentioned by such metadata -
    3^k on/off/absent assignments, evaluated exhaustively in canonical order by the shards and extended to EVERY
    order by [order_independent]), or only the flags of the -O level table ([level_flags gm]); each at most once;
    at every level of the table ([levels gm]). *)
From Coq Require Import NArith ZArith List Bool Lia Permutation.
From Coq Require String.
Import String.StringSyntax.
Local Open Scope string_scope.
From NV Require Import Flags.FlagsModel Flags.FlagsProps Flags.FlagsOrder Flags.FlagsTable.
From NV Require Flags.FlagsShard0 Flags.FlagsShard1 Flags.FlagsShard2 Flags.FlagsShard3 Flags.FlagsShard4
                Flags.FlagsShard5 Flags.FlagsShard6 Flags.FlagsShard7 Flags.FlagsShard8 Flags.FlagsShardL.
Import ListNotations.

(** the side condition of the order-independence proof, computed on the generated table *)
Lemma gm_meta_ok : meta_ok gm = true.
Proof. vm_compute. reflexivity. Qed.
Lemma gm_level_flags_free : level_flags_free gm = true.
Proof. vm_compute. reflexivity. Qed.
Lemma gm_level_flags_nodup : nodupb (level_flags gm) = true.
Proof. vm_compute. reflexivity. Qed.

Lemma gm_ids_nodup : NoDup (ids gm).
Proof. exact (ok_nodup gm gm_meta_ok). Qed.

Lemma all_shards i : (i < 9)%nat -> shard gm i = true.
Proof.
  intros H.
  destruct i as [|i]; [exact FlagsShard0.shard_0_ok|]. destruct i as [|i]; [exact FlagsShard1.shard_1_ok|].
  destruct i as [|i]; [exact FlagsShard2.shard_2_ok|]. destruct i as [|i]; [exact FlagsShard3.shard_3_ok|].
  destruct i as [|i]; [exact FlagsShard4.shard_4_ok|]. destruct i as [|i]; [exact FlagsShard5.shard_5_ok|].
  destruct i as [|i]; [exact FlagsShard6.shard_6_ok|]. destruct i as [|i]; [exact FlagsShard7.shard_7_ok|].
  destruct i as [|i]; [exact FlagsShard8.shard_8_ok|]. lia.
Qed.

(** the exhaustive check, on the model [resolve gm] itself *)
Theorem related_checked : forall l, sub_assign (relevant gm) l -> chk_assign gm (resolve gm) l = true.
Proof. exact (shards_cover gm 9 (prefixes_le gm) all_shards). Qed.
Theorem level_flags_checked : forall l, sub_assign (level_flags gm) l -> chk_assign gm (resolve gm) l = true.
Proof. exact (level_shard_covers gm FlagsShardL.level_shard_ok). Qed.

(** the domain of the finite theorems: [l] mentions only related flags, or only level-table flags, each at most
    once, in any order *)
Definition in_domain (l : list (N * bool)) : Prop := over (relevant gm) l \/ over (level_flags gm) l.
Definition gimplies (f : N) : list N := implies_of (table_lookup gm) f.
Definition gexclusive (f : N) : list N := exclusive_of (table_lookup gm) f.

Lemma rel_nodup : NoDup (relevant gm).
Proof. apply relevant_nodup. exact gm_ids_nodup. Qed.
Lemma lvf_nodup : NoDup (level_flags gm).
Proof. apply nodupb_spec. exact gm_level_flags_nodup. Qed.

Theorem order_independent_gm : forall lv l1 l2, NoDup (map fst l1) -> Permutation l1 l2 ->
  res_equiv (resolve gm lv l1) (resolve gm lv l2).
Proof. exact (order_independent gm gm_meta_ok). Qed.

Theorem resolve_total : forall lv l, In lv (levels gm) -> in_domain l ->
  (exists c, resolve gm lv l = Ok c)
  \/ (exists a b, resolve gm lv l = Error (EConflict a b) /\ ov_on (ov_dict l) a = true /\ In a (gexclusive b)).
Proof.
  intros lv l Hlv [H|H].
  - exact (any_total gm gm_meta_ok _ rel_nodup related_checked lv l Hlv H).
  - exact (any_total gm gm_meta_ok _ lvf_nodup level_flags_checked lv l Hlv H).
Qed.

Theorem implied_on : forall lv l c, In lv (levels gm) -> in_domain l -> resolve gm lv l = Ok c ->
  forall f g, In g (gimplies f) -> get c f = true -> get c g = true.
Proof.
  intros lv l c Hlv [H|H].
  - exact (any_implied gm gm_meta_ok _ rel_nodup related_checked lv l c Hlv H).
  - exact (any_implied gm gm_meta_ok _ lvf_nodup level_flags_checked lv l c Hlv H).
Qed.

Theorem exclusive_never_both : forall lv l c, In lv (levels gm) -> in_domain l -> resolve gm lv l = Ok c ->
  forall f g, In g (gexclusive f) -> get c f = true -> get c g = false.
Proof.
  intros lv l c Hlv [H|H].
  - exact (any_exclusive gm gm_meta_ok _ rel_nodup related_checked lv l c Hlv H).
  - exact (any_exclusive gm gm_meta_ok _ lvf_nodup level_flags_checked lv l c Hlv H).
Qed.

Theorem explicit_both_is_error : forall lv l, In lv (levels gm) -> in_domain l ->
  forall f g, In g (gexclusive f) -> ov_on (ov_dict l) f = true -> ov_on (ov_dict l) g = true ->
  exists e, resolve gm lv l = Error e.
Proof.
  intros lv l Hlv [H|H].
  - exact (any_explicit_both gm gm_meta_ok _ rel_nodup related_checked lv l Hlv H).
  - exact (any_explicit_both gm gm_meta_ok _ lvf_nodup level_flags_checked lv l Hlv H).
Qed.

Theorem levels_cumulative : forall i l, (S i < length (mlevels gm))%nat -> in_domain l ->
  (forall c1, resolve gm (Z.of_nat i) l = Ok c1 ->
     exists c2, resolve gm (Z.of_nat (S i)) l = Ok c2 /\ forall f, In f (ids gm) -> get c1 f = true -> get c2 f = true)
  /\ (forall e, resolve gm (Z.of_nat i) l = Error e -> exists e', resolve gm (Z.of_nat (S i)) l = Error e').
Proof.
  intros i l Hi [H|H].
  - exact (any_cumulative gm gm_meta_ok _ rel_nodup related_checked i l Hi H).
  - exact (any_cumulative gm gm_meta_ok _ lvf_nodup level_flags_checked i l Hi H).
Qed.

(** an explicit "on" is on; an explicit "off" is off unless a flag that is on implies it *)
Theorem overrides_beat_level : forall lv l c, In lv (levels gm) -> in_domain l -> resolve gm lv l = Ok c ->
  forall k b, In (k, b) (ov_dict l) ->
  if b then get c k = true
  else get c k = true -> exists fm, In fm (mflags gm) /\ In k (fimplies fm) /\ get c (fid fm) = true.
Proof.
  intros lv l c Hlv [H|H].
  - exact (any_overrides gm gm_meta_ok _ rel_nodup related_checked lv l c Hlv H).
  - exact (any_overrides gm gm_meta_ok _ lvf_nodup level_flags_checked lv l c Hlv H).
Qed.
(** ... and for the optimisation flags the explicit setting is simply final, at every level *)
Theorem overrides_beat_level_opt : forall lv l c, In lv (levels gm) -> in_domain l -> resolve gm lv l = Ok c ->
  forall k b, In (k, b) (ov_dict l) -> In k (level_flags gm) -> get c k = b.
Proof.
  intros lv l c Hlv Hd E k b Hin Hk. pose proof (overrides_beat_level lv l c Hlv Hd E k b Hin) as H.
  destruct b; [exact H|]. destruct (get c k) eqn:G; [|reflexivity].
  destruct (H eq_refl) as [fm [Hfm [Himp _]]].
  destruct (level_flags_free_spec gm gm_level_flags_free k fm Hk Hfm Himp).
Qed.

(** the level table itself is cumulative: level i+1 switches on everything level i does (no overrides) *)
Theorem levels_cumulative_plain : forall i, (S i < length (mlevels gm))%nat ->
  exists c1 c2, resolve gm (Z.of_nat i) [] = Ok c1 /\ resolve gm (Z.of_nat (S i)) [] = Ok c2
                /\ forall f, In f (ids gm) -> get c1 f = true -> get c2 f = true.
Proof.
  intros i Hi. assert (D : in_domain []) by (left; split; [constructor|intros kv []]).
  assert (Hlv : In (Z.of_nat i) (levels gm)) by (apply levels_in; exists i; split; [lia|reflexivity]).
  destruct (resolve_total _ _ Hlv D) as [[c1 E1]|[a [b [_ [H _]]]]]; [|discriminate].
  destruct (levels_cumulative i [] Hi D) as [LO _]. destruct (LO c1 E1) as [c2 [E2 Hs]]. eauto.
Qed.

(* ------------------------------------------------------------------------- *)
(** * The tokeniser: unknown or malformed options are errors (RuntimeError) - for every table [T], every
      argument tail and every parser state *)

Ltac known_false t := let E := fresh in assert (E : t = false) by (vm_compute; reflexivity); rewrite E; clear E.
Ltac known_true t := let E := fresh in assert (E : t = true) by (vm_compute; reflexivity); rewrite E; clear E.

(** -f<name> / -fno-<name> with a name that is not a flag: RuntimeError "Unknown flag" *)
Theorem unknown_flag_is_error : forall T v rest st,
  assoc_str (t_names T) (flagify (if starts_with (s2l "no-") v then skipn 3 v else v)) = None ->
  tokenise T ((45 :: 102 :: v)%N :: rest) st = Error EUnknownFlag.
Proof.
  intros T v rest st Hn. cbn [tokenise]. known_false (negb (45 =? 45)%N). known_false (102 =? 45)%N.
  unfold handle.
  known_false (mem_str [102%N] [s2l "o"; s2l "output"]). known_false (str_eqb [102%N] (s2l "O")).
  known_true (mem_str [102%N] [s2l "f"; s2l "flag"]). known_true (str_eqb [102%N] (s2l "f")).
  unfold parse_flag_arg. destruct (starts_with (s2l "no-") v); rewrite Hn; reflexivity.
Qed.

Lemma long_flag_step T v rest st :
  tokenise T (s2l "--flag" :: v :: rest) st =
  match (match parse_flag_arg false v with
         | Ok (n, set_to) => match assoc_str (t_names T) (flagify n) with
                             | Some k => Ok (Some (add_override st k set_to)) | None => Error EUnknownFlag end
         | Error e => Error e | Crash c => Crash c | Fuel => Fuel end) with
  | Ok (Some st') => tokenise T rest st'
  | r => r
  end.
Proof.
  change (s2l "--flag") with (45 :: 45 :: s2l "flag")%N. cbn [tokenise].
  known_false (negb (45 =? 45)%N). known_true (45 =? 45)%N. known_false (mem_str (s2l "flag") no_value_names).
  unfold handle.
  known_false (mem_str (s2l "flag") [s2l "o"; s2l "output"]). known_false (str_eqb (s2l "flag") (s2l "O")).
  known_true (mem_str (s2l "flag") [s2l "f"; s2l "flag"]). known_false (str_eqb (s2l "flag") (s2l "f")).
  reflexivity.
Qed.
(** --flag <name>[=<value>] with a name that is not a flag *)
Theorem unknown_long_flag_is_error : forall T v n b rest st,
  parse_flag_arg false v = Ok (n, b) -> assoc_str (t_names T) (flagify n) = None ->
  tokenise T (s2l "--flag" :: v :: rest) st = Error EUnknownFlag.
Proof. intros T v n b rest st H1 H2. rewrite long_flag_step, H1, H2. reflexivity. Qed.
(** --flag <name>=<value> with a value other than yes / on / no / off (this includes name=a=b): RuntimeError *)
Theorem malformed_flag_value_is_error : forall T v n w rest st,
  split_first 61 v [] = Some (n, w) -> flag_value w = None ->
  tokenise T (s2l "--flag" :: v :: rest) st = Error EInvalidFlagValue.
Proof. intros T v n w rest st H1 H2. rewrite long_flag_step. unfold parse_flag_arg. rewrite H1, H2. reflexivity. Qed.

(** -O<value> where the value is not an integer or not a level of the table: RuntimeError "Invalid optimization level" *)
Theorem malformed_level_is_error : forall T v rest st,
  parse_level (t_meta T) v = None -> tokenise T ((45 :: 79 :: v)%N :: rest) st = Error EInvalidLevel.
Proof.
  intros T v rest st H. cbn [tokenise]. known_false (negb (45 =? 45)%N). known_false (79 =? 45)%N.
  unfold handle. known_false (mem_str [79%N] [s2l "o"; s2l "output"]). known_true (str_eqb [79%N] (s2l "O")).
  rewrite H. reflexivity.
Qed.

(** -d<a>,<b>,... with a target that is not a dump kind: RuntimeError "Unknown dump target" *)
Theorem unknown_dump_is_error : forall T v rest st,
  parse_dumps (t_dumps T) (split_on 44 v []) = None -> tokenise T ((45 :: 100 :: v)%N :: rest) st = Error EUnknownDump.
Proof.
  intros T v rest st H. cbn [tokenise]. known_false (negb (45 =? 45)%N). known_false (100 =? 45)%N.
  unfold handle. known_false (mem_str [100%N] [s2l "o"; s2l "output"]). known_false (str_eqb [100%N] (s2l "O")).
  known_false (mem_str [100%N] [s2l "f"; s2l "flag"]). known_false (mem_str [100%N] [s2l "h"; s2l "help"]).
  known_false (str_eqb [100%N] (s2l "help-all")). known_false (str_eqb [100%N] (s2l "version")).
  known_true (mem_str [100%N] [s2l "d"; s2l "dump"]). rewrite H. reflexivity.
Qed.

(** an option letter that is not an option: RuntimeError "Unknown option" *)
Theorem unknown_short_option_is_error : forall T c t rest st,
  existsb (N.eqb c) [45; 111; 79; 102; 104; 100; 116]%N = false ->          (* not one of - o O f h d t *)
  index_str (map fst (t_options T)) (flagify [c]) 0 = None ->
  tokenise T ((45 :: c :: t)%N :: rest) st = Error EUnknownOption.
Proof.
  intros T c t rest st Hc Ho. cbn [tokenise]. known_false (negb (45 =? 45)%N).
  cbn [existsb] in Hc. repeat (apply orb_false_elim in Hc; destruct Hc as [? Hc]).
  rewrite H. unfold handle. unfold mem_str, existsb, str_eqb, PyLite.str_eqb.
  repeat match goal with |- context[s2l ?s] => let v := eval vm_compute in (s2l s) in change (s2l s) with v end.
  cbn [PyLite.str_eqb]. rewrite ?andb_false_r, ?andb_true_r, ?orb_false_r.
  rewrite H0, H1, H2, H3, H4, H5. cbn [orb andb]. rewrite Ho. reflexivity.
Qed.
(** a long option name that is neither a built-in option nor a ProgramOption *)
Definition builtin_long : list pystr :=
  [s2l "o"; s2l "output"; s2l "O"; s2l "f"; s2l "flag"; s2l "h"; s2l "help"; s2l "help-all"; s2l "version";
   s2l "d"; s2l "dump"; s2l "dump-prefix"; s2l "t"; s2l "dry-run"].
Theorem unknown_long_option_is_error : forall T name v rest st,
  mem_str name builtin_long = false -> index_str (map fst (t_options T)) (flagify name) 0 = None ->
  tokenise T ((45 :: 45 :: name)%N :: v :: rest) st = Error EUnknownOption.
Proof.
  intros T name v rest st Hb Ho. cbn [tokenise]. known_false (negb (45 =? 45)%N). known_true (45 =? 45)%N.
  unfold builtin_long, mem_str in Hb. cbn [existsb] in Hb. repeat (apply orb_false_elim in Hb; destruct Hb as [? Hb]).
  assert (Hnv : mem_str name no_value_names = false).
  { unfold mem_str, no_value_names. cbn [existsb]. rewrite H5, H12, H7, H6. reflexivity. }
  rewrite Hnv. unfold handle, mem_str. cbn [existsb].
  rewrite H, H0, H1, H2, H3, H4, H5, H6, H7, H8, H9, H10, H11, H12. cbn [orb]. rewrite Ho. reflexivity.
Qed.

(** a lone "-" : RuntimeError "Invalid argument"; a long option at the end without its value: "Missing value" *)
Theorem lone_dash_is_error : forall T rest st, tokenise T ([45%N] :: rest) st = Error EInvalidArgument.
Proof. reflexivity. Qed.
Theorem missing_value_is_error : forall T name st, mem_str name no_value_names = false ->
  tokenise T [(45 :: 45 :: name)%N] st = Error EMissingValue.
Proof. intros T name st H. cbn [tokenise]. known_false (negb (45 =? 45)%N). known_true (45 =? 45)%N. rewrite H. reflexivity. Qed.
Theorem second_filename_is_error : forall T c t rest st, (c =? 45)%N = false -> p_have_input st = true ->
  tokenise T ((c :: t) :: rest) st = Error EMultipleFilenames.
Proof. intros T c t rest st H1 H2. cbn [tokenise]. rewrite H1, H2. reflexivity. Qed.
Theorem no_input_is_error : forall T st, p_have_input st = false -> tokenise T [] st = Error ENoInput.
Proof. intros T st H. cbn [tokenise]. rewrite H. reflexivity. Qed.

(* ------------------------------------------------------------------------- *)
(** * No command line makes load_commandline_flags raise anything but RuntimeError ([Crash] never happens) *)

(** side conditions on the tables, computed on the generated ones below *)
Definition has_level (m : meta) (k : N) : bool := existsb (fun e => (fst e =? k)%N) (mlevels m).
Definition levels_closed (m : meta) : bool :=
  forallb (fun e => forallb (fun j => has_level m (N.of_nat j)) (seq 0 (S (N.to_nat (fst e))))) (mlevels m).
Definition names_ok (T : tables) : bool :=
  forallb (fun p => is_member (table_lookup (t_meta T)) (snd p)) (t_names T).
Definition tables_ok (T : tables) : bool := levels_closed (t_meta T) && names_ok T && level_member (t_meta T) 1.

Lemma handle_no_crash T name value st k : handle T name value st <> Crash k.
Proof.
  unfold handle.
  destruct (mem_str name [s2l "o"; s2l "output"]); [destruct (existsb _ value); discriminate|].
  destruct (str_eqb name (s2l "O")); [destruct (parse_level _ value); discriminate|].
  destruct (mem_str name [s2l "f"; s2l "flag"]).
  { unfold parse_flag_arg. destruct (str_eqb name (s2l "f")).
    - destruct (starts_with _ value); destruct (assoc_str _ _); discriminate.
    - destruct (split_first 61 value []) as [[n v]|]; [destruct (flag_value v)|]; try discriminate;
        destruct (assoc_str _ _); discriminate. }
  destruct (mem_str name [s2l "h"; s2l "help"]); [discriminate|].
  destruct (str_eqb name (s2l "help-all")); [discriminate|].
  destruct (str_eqb name (s2l "version")); [discriminate|].
  destruct (mem_str name [s2l "d"; s2l "dump"]); [destruct (parse_dumps _ _); discriminate|].
  destruct (str_eqb name (s2l "dump-prefix")); [discriminate|].
  destruct (mem_str name [s2l "t"; s2l "dry-run"]); [discriminate|].
  destruct (index_str _ _ 0) as [i|]; [|discriminate].
  destruct (match nth_error (t_options T) i with Some (_, b) => b | None => false end); [|discriminate].
  destruct (PyLite.py_int_lit value 10); discriminate.
Qed.

Definition good (T : tables) (st : pstate) : Prop :=
  level_member (t_meta T) (p_level st) = true
  /\ Forall (fun kv => is_member (table_lookup (t_meta T)) (fst kv) = true) (p_overrides st).

Lemma assoc_str_in {V} (l : list (pystr * V)) k v : assoc_str l k = Some v -> exists k', In (k', v) l.
Proof.
  induction l as [|[a b] l IH]; simpl; [discriminate|]. destruct (str_eqb k a).
  - intros H; inversion H; subst. eauto.
  - intros H. destruct (IH H) as [k' Hk]. eauto.
Qed.

Lemma handle_good T name value st st' : names_ok T = true -> good T st -> handle T name value st = Ok (Some st') -> good T st'.
Proof.
  intros HN [G1 G2]. unfold handle.
  destruct (mem_str name [s2l "o"; s2l "output"]).
  { destruct (existsb _ value); [discriminate|]. intros H; inversion H; subst. split; assumption. }
  destruct (str_eqb name (s2l "O")).
  { unfold parse_level. destruct (PyLite.py_int_lit value 10) as [z| |]; try discriminate.
    destruct (level_member (t_meta T) z) eqn:E; [|discriminate]. intros H; inversion H; subst. split; [exact E|exact G2]. }
  destruct (mem_str name [s2l "f"; s2l "flag"]).
  { destruct (parse_flag_arg _ value) as [[n b]| | |]; try discriminate.
    destruct (assoc_str (t_names T) (flagify n)) as [k|] eqn:E; [|discriminate]. intros H; inversion H; subst.
    split; [exact G1|]. simpl. apply Forall_app. split; [exact G2|]. constructor; [|constructor]. simpl.
    destruct (assoc_str_in _ _ _ E) as [k' Hk]. unfold names_ok in HN. rewrite forallb_forall in HN. exact (HN _ Hk). }
  destruct (mem_str name [s2l "h"; s2l "help"]); [discriminate|].
  destruct (str_eqb name (s2l "help-all")); [discriminate|].
  destruct (str_eqb name (s2l "version")); [discriminate|].
  destruct (mem_str name [s2l "d"; s2l "dump"]).
  { destruct (parse_dumps _ _); [|discriminate]. intros H; inversion H; subst. split; assumption. }
  destruct (str_eqb name (s2l "dump-prefix")); [intros H; inversion H; subst; split; assumption|].
  destruct (mem_str name [s2l "t"; s2l "dry-run"]); [intros H; inversion H; subst; split; assumption|].
  destruct (index_str _ _ 0) as [i|]; [|discriminate].
  destruct (match nth_error (t_options T) i with Some (_, b) => b | None => false end).
  - destruct (PyLite.py_int_lit value 10); try discriminate. intros H; inversion H; subst. split; assumption.
  - intros H; inversion H; subst. split; assumption.
Qed.

Lemma tokenise_good T : names_ok T = true -> forall n args st, (length args <= n)%nat -> good T st ->
  match tokenise T args st with
  | Crash _ => False
  | Ok (Some st') => good T st'
  | _ => True
  end.
Proof.
  intros HN. induction n as [|n IH]; intros args st Hlen G.
  - destruct args; [|simpl in Hlen; lia]. simpl. destruct (p_have_input st); [exact G|exact I].
  - destruct args as [|a rest]; [simpl; destruct (p_have_input st); [exact G|exact I]|].
    simpl in Hlen. cbn [tokenise]. destruct a as [|c0 t0]; [apply IH; [lia|exact G]|].
    destruct (negb (c0 =? 45)%N).
    { destruct (p_have_input st); [exact I|]. apply IH; [lia|]. destruct G. split; assumption. }
    destruct t0 as [|c1 t1]; [exact I|].
    destruct (c1 =? 45)%N.
    + destruct (mem_str t1 no_value_names).
      * destruct (handle T t1 [] st) as [[st'|]|e|k|] eqn:EH; try exact I.
        -- apply IH; [lia|]. exact (handle_good _ _ _ _ _ HN G EH).
        -- exact (handle_no_crash _ _ _ _ _ EH).
      * destruct rest as [|v rest']; [exact I|].
        destruct (handle T t1 v st) as [[st'|]|e|k|] eqn:EH; try exact I.
        -- apply IH; [simpl in Hlen; lia|]. exact (handle_good _ _ _ _ _ HN G EH).
        -- exact (handle_no_crash _ _ _ _ _ EH).
    + destruct (handle T [c1] t1 st) as [[st'|]|e|k|] eqn:EH; try exact I.
      * apply IH; [lia|]. exact (handle_good _ _ _ _ _ HN G EH).
      * exact (handle_no_crash _ _ _ _ _ EH).
Qed.

Lemma has_level_find m k : has_level m k = true -> exists e, find (fun e => (fst e =? k)%N) (mlevels m) = Some e.
Proof.
  unfold has_level. induction (mlevels m) as [|a l IH]; simpl; [discriminate|].
  destruct (fst a =? k)%N; [eauto|exact IH].
Qed.
Lemma apply_levels_ok m : forall count j c, (forall i, (i < count)%nat -> has_level m (j + N.of_nat i) = true) ->
  exists c', apply_levels m count j c = Ok c'.
Proof.
  induction count as [|n IH]; intros j c H; simpl; [eauto|].
  destruct (has_level_find m j) as [e E]. { specialize (H 0%nat ltac:(lia)). rewrite N.add_0_r in H. exact H. }
  rewrite E. apply IH. intros i Hi. specialize (H (S i) ltac:(lia)).
  replace (j + 1 + N.of_nat i)%N with (j + N.of_nat (S i))%N by lia. exact H.
Qed.
Lemma level_member_all m lv : levels_closed m = true -> level_member m lv = true ->
  forall i, (i < Z.to_nat (lv + 1))%nat -> has_level m (0 + N.of_nat i) = true.
Proof.
  unfold levels_closed, level_member. intros HC HM i Hi. apply andb_prop in HM as [H0 HM]. apply Z.leb_le in H0.
  apply existsb_exists in HM. destruct HM as [e [He Ek]]. apply N.eqb_eq in Ek.
  rewrite forallb_forall in HC. specialize (HC e He). rewrite forallb_forall in HC. rewrite N.add_0_l.
  apply HC. apply in_seq. rewrite Ek. lia.
Qed.

Lemma imp_fix_no_crash m : forall fuel c k, imp_fix fuel m c <> Crash k.
Proof.
  induction fuel as [|n IH]; intros c k; simpl; [discriminate|].
  destruct (imp_pass (mflags m) c false) as [c' did]. destruct did; [apply IH|discriminate].
Qed.
Lemma excl_step_no_crash ex f xs : forall c k, excl_step ex f xs c <> Crash k.
Proof. induction xs as [|x r IH]; intros c k; simpl; [discriminate|]. destruct (ex x); [discriminate|apply IH]. Qed.
Lemma aux_no_crash lk ex : forall fuel f c k, aux fuel lk ex f c <> Crash k.
Proof.
  induction fuel as [|n IHn]; intros f c k; [discriminate|]. simpl.
  destruct (excl_step ex f (exclusive_of lk f) c) as [c1|e1|k1|] eqn:ES; try discriminate.
  - clear ES. revert c1. induction (implies_of lk f) as [|g r IHr]; intros c1; [discriminate|].
    destruct (aux n lk ex g c1) as [c2|e2|k2|] eqn:EA; try discriminate; [apply IHr|].
    destruct (IHn _ _ _ EA).
  - destruct (excl_step_no_crash _ _ _ _ _ ES).
Qed.
Lemma excl_loop_no_crash lk ex fuel : forall keys c k, excl_loop fuel lk ex keys c <> Crash k.
Proof.
  induction keys as [|f r IH]; intros c k; simpl; [discriminate|].
  destruct (get c f); [|apply IH]. destruct (aux fuel lk ex f c) as [c1|e1|k1|] eqn:EA; try discriminate; [apply IH|].
  destruct (aux_no_crash _ _ _ _ _ _ EA).
Qed.

Lemma oset_keys d k v : forall x, In x (map fst (oset d k v)) -> x = k \/ In x (map fst d).
Proof.
  induction d as [|[a b] d IH]; simpl; intros x H; [intuition|].
  destruct (k =? a)%N eqn:E; simpl in H |- *; [tauto|]. destruct H as [H|H]; [tauto|]. destruct (IH _ H); tauto.
Qed.
Lemma ov_dict_keys l : forall x, In x (map fst (ov_dict l)) -> In x (map fst l).
Proof.
  unfold ov_dict. assert (G : forall l acc x, In x (map fst (fold_left (fun d kv => oset d (fst kv) (snd kv)) l acc)) ->
                                       In x (map fst acc) \/ In x (map fst l)).
  { induction l0 as [|[k v] l0 IH]; intros acc x H; simpl in *; [tauto|].
    destruct (IH _ _ H) as [H1|H1]; [|tauto]. destruct (oset_keys _ _ _ _ H1); [subst; tauto|tauto]. }
  intros x H. destruct (G l [] x H) as [[]|H1]. exact H1.
Qed.

Lemma resolve_no_crash m lv l k : levels_closed m = true -> level_member m lv = true ->
  Forall (fun kv => is_member (table_lookup m) (fst kv) = true) l -> resolve m lv l <> Crash k.
Proof.
  intros HC HM HK. unfold resolve, resolve_from.
  destruct (apply_levels_ok m (Z.to_nat (lv + 1)) 0%N (init m) (level_member_all m lv HC HM)) as [c1 E]. rewrite E.
  assert (forallb (fun kv => is_member (table_lookup m) (fst kv)) (ov_dict l) = true) as ->.
  { apply forallb_forall. intros [a b] Hin. simpl. rewrite Forall_forall in HK.
    assert (In a (map fst l)) as Ha by (apply ov_dict_keys; apply in_map_iff; exists (a, b); auto).
    apply in_map_iff in Ha. destruct Ha as [kv [E1 Hkv]]. rewrite <- E1. exact (HK _ Hkv). }
  destruct (imp_fix (fuel_of m) m (apply_overrides (ov_dict l) c1)) as [c3|e|k3|] eqn:EI; try discriminate.
  - apply excl_loop_no_crash.
  - destruct (imp_fix_no_crash _ _ _ _ EI).
Qed.

(** for every table satisfying the computed side condition and EVERY argument list: no exception other than
    RuntimeError (and SystemExit for help/version) leaves load_commandline_flags *)
Theorem never_crashes_gen : forall T, tables_ok T = true -> forall args k, run_cmdline T args <> Crash k.
Proof.
  intros T HT args k. unfold tables_ok in HT. apply andb_prop in HT as [HT H1]. apply andb_prop in HT as [HC HN].
  assert (G0 : good T p0) by (split; [exact H1|constructor]).
  pose proof (tokenise_good T HN (length args) args p0 (le_n _) G0) as HG. unfold run_cmdline.
  destruct (tokenise T args p0) as [[st|]|e|k0|]; try discriminate; try contradiction.
  destruct HG as [G1 G2].
  destruct (resolve (t_meta T) (p_level st) (p_overrides st)) as [c|e|k1|] eqn:ER; try discriminate.
  destruct (resolve_no_crash _ _ _ _ HC G1 G2 ER).
Qed.

Lemma gT_tables_ok : tables_ok gT = true.
Proof. vm_compute. reflexivity. Qed.
Theorem never_crashes : forall args k, run_cmdline gT args <> Crash k.
Proof. exact (never_crashes_gen gT gT_tables_ok). Qed.
