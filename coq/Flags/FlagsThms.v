(** C19 - the theorems about [resolve] applied to the table regenerated from the current nmfu.py ([gm]).

    Bound of the finite part (stated in every theorem through [over]): override lists that mention only the
    flags related by implies/exclusive metadata ([relevant gm]: flags carrying or mentioned by such metadata -
    3^k on/off/absent assignments, evaluated exhaustively in canonical order by the shards and extended to EVERY
    order by [order_independent]), or only the flags of the -O level table ([level_flags gm]); each at most once;
    at every level of the table ([levels gm]). *)
From Coq Require Import NArith ZArith List Bool Lia Permutation.
From Coq Require String.
Import String.StringSyntax.
Local Open Scope string_scope.
From NV Require Import Flags.FlagsModel Flags.FlagsProps Flags.FlagsOrder Flags.FlagsTable.
From NV Require Flags.FlagsShard0 Flags.FlagsShard1 Flags.FlagsShard2 Flags.FlagsShard3 Flags.FlagsShard4
                Flags.FlagsShard5 Flags.FlagsShard6 Flags.FlagsShard7 Flags.FlagsShard8 Flags.FlagsShardL.
Import ListNotations.

(** the side condition of the order-independence proof, computed on the generated table *)
Lemma gm_meta_ok : meta_ok gm = true.
Proof. vm_compute. reflexivity. Qed.
Lemma gm_level_flags_free : level_flags_free gm = true.
Proof. vm_compute. reflexivity. Qed.
Lemma gm_level_flags_nodup : nodupb (level_flags gm) = true.
Proof. vm_compute. reflexivity. Qed.

Lemma gm_ids_nodup : NoDup (ids gm).
Proof. exact (ok_nodup gm gm_meta_ok). Qed.

Lemma all_shards i : (i < 9)%nat -> shard gm i = true.
Proof.
  intros H.
  destruct i as [|i]; [exact FlagsShard0.shard_0_ok|]. destruct i as [|i]; [exact FlagsShard1.shard_1_ok|].
  destruct i as [|i]; [exact FlagsShard2.shard_2_ok|]. destruct i as [|i]; [exact FlagsShard3.shard_3_ok|].
  destruct i as [|i]; [exact FlagsShard4.shard_4_ok|]. destruct i as [|i]; [exact FlagsShard5.shard_5_ok|].
  destruct i as [|i]; [exact FlagsShard6.shard_6_ok|]. destruct i as [|i]; [exact FlagsShard7.shard_7_ok|].
  destruct i as [|i]; [exact FlagsShard8.shard_8_ok|]. lia.
Qed.

(** the exhaustive check, on the model [resolve gm] itself *)
Theorem related_checked : forall l, sub_assign (relevant gm) l -> chk_assign gm (resolve gm) l = true.
Proof. exact (shards_cover gm 9 (prefixes_le gm) all_shards). Qed.
Theorem level_flags_checked : forall l, sub_assign (level_flags gm) l -> chk_assign gm (resolve gm) l = true.
Proof. exact (level_shard_covers gm FlagsShardL.level_shard_ok). Qed.

(** the domain of the finite theorems: [l] mentions only related flags, or only level-table flags, each at most
    once, in any order *)
Definition in_domain (l : list (N * bool)) : Prop := over (relevant gm) l \/ over (level_flags gm) l.
Definition gimplies (f : N) : list N := implies_of (table_lookup gm) f.
Definition gexclusive (f : N) : list N := exclusive_of (table_lookup gm) f.

Lemma rel_nodup : NoDup (relevant gm).
Proof. apply relevant_nodup. exact gm_ids_nodup. Qed.
Lemma lvf_nodup : NoDup (level_flags gm).
Proof. apply nodupb_spec. exact gm_level_flags_nodup. Qed.

Theorem order_independent_gm : forall lv l1 l2, NoDup (map fst l1) -> Permutation l1 l2 ->
  res_equiv (resolve gm lv l1) (resolve gm lv l2).
Proof. exact (order_independent gm gm_meta_ok). Qed.

Theorem resolve_total : forall lv l, In lv (levels gm) -> in_domain l ->
  (exists c, resolve gm lv l = Ok c)
  \/ (exists a b, resolve gm lv l = Error (EConflict a b) /\ ov_on (ov_dict l) a = true /\ In a (gexclusive b)).
Proof.
  intros lv l Hlv [H|H].
  - exact (any_total gm gm_meta_ok _ rel_nodup related_checked lv l Hlv H).
  - exact (any_total gm gm_meta_ok _ lvf_nodup level_flags_checked lv l Hlv H).
Qed.

Theorem implied_on : forall lv l c, In lv (levels gm) -> in_domain l -> resolve gm lv l = Ok c ->
  forall f g, In g (gimplies f) -> get c f = true -> get c g = true.
Proof.
  intros lv l c Hlv [H|H].
  - exact (any_implied gm gm_meta_ok _ rel_nodup related_checked lv l c Hlv H).
  - exact (any_implied gm gm_meta_ok _ lvf_nodup level_flags_checked lv l c Hlv H).
Qed.

Theorem exclusive_never_both : forall lv l c, In lv (levels gm) -> in_domain l -> resolve gm lv l = Ok c ->
  forall f g, In g (gexclusive f) -> get c f = true -> get c g = false.
Proof.
  intros lv l c Hlv [H|H].
  - exact (any_exclusive gm gm_meta_ok _ rel_nodup related_checked lv l c Hlv H).
  - exact (any_exclusive gm gm_meta_ok _ lvf_nodup level_flags_checked lv l c Hlv H).
Qed.

Theorem explicit_both_is_error : forall lv l, In lv (levels gm) -> in_domain l ->
  forall f g, In g (gexclusive f) -> ov_on (ov_dict l) f = true -> ov_on (ov_dict l) g = true ->
  exists e, resolve gm lv l = Error e.
Proof.
  intros lv l Hlv [H|H].
  - exact (any_explicit_both gm gm_meta_ok _ rel_nodup related_checked lv l Hlv H).
  - exact (any_explicit_both gm gm_meta_ok _ lvf_nodup level_flags_checked lv l Hlv H).
Qed.

Theorem levels_cumulative : forall i l, (S i < length (mlevels gm))%nat -> in_domain l ->
  (forall c1, resolve gm (Z.of_nat i) l = Ok c1 ->
     exists c2, resolve gm (Z.of_nat (S i)) l = Ok c2 /\ forall f, In f (ids gm) -> get c1 f = true -> get c2 f = true)
  /\ (forall e, resolve gm (Z.of_nat i) l = Error e -> exists e', resolve gm (Z.of_nat (S i)) l = Error e').
Proof.
  intros i l Hi [H|H].
  - exact (any_cumulative gm gm_meta_ok _ rel_nodup related_checked i l Hi H).
  - exact (any_cumulative gm gm_meta_ok _ lvf_nodup level_flags_checked i l Hi H).
Qed.

(** an explicit "on" is on; an explicit "off" is off unless a flag that is on implies it *)
Theorem overrides_beat_level : forall lv l c, In lv (levels gm) -> in_domain l -> resolve gm lv l = Ok c ->
  forall k b, In (k, b) (ov_dict l) ->
  if b then get c k = true
  else get c k = true -> exists fm, In fm (mflags gm) /\ In k (fimplies fm) /\ get c (fid fm) = true.
Proof.
  intros lv l c Hlv [H|H].
  - exact (any_overrides gm gm_meta_ok _ rel_nodup related_checked lv l c Hlv H).
  - exact (any_overrides gm gm_meta_ok _ lvf_nodup level_flags_checked lv l c Hlv H).
Qed.
(** ... and for the optimisation flags the explicit setting is simply final, at every level *)
Theorem overrides_beat_level_opt : forall lv l c, In lv (levels gm) -> in_domain l -> resolve gm lv l = Ok c ->
  forall k b, In (k, b) (ov_dict l) -> In k (level_flags gm) -> get c k = b.
Proof.
  intros lv l c Hlv Hd E k b Hin Hk. pose proof (overrides_beat_level lv l c Hlv Hd E k b Hin) as H.
  destruct b; [exact H|]. destruct (get c k) eqn:G; [|reflexivity].
  destruct (H eq_refl) as [fm [Hfm [Himp _]]].
  destruct (level_flags_free_spec gm gm_level_flags_free k fm Hk Hfm Himp).
Qed.

(** the level table itself is cumulative: level i+1 switches on everything level i does (no overrides) *)
Theorem levels_cumulative_plain : forall i, (S i < length (mlevels gm))%nat ->
  exists c1 c2, resolve gm (Z.of_nat i) [] = Ok c1 /\ resolve gm (Z.of_nat (S i)) [] = Ok c2
                /\ forall f, In f (ids gm) -> get c1 f = true -> get c2 f = true.
Proof.
  intros i Hi. assert (D : in_domain []) by (left; split; [constructor|intros kv []]).
  assert (Hlv : In (Z.of_nat i) (levels gm)) by (apply levels_in; exists i; split; [lia|reflexivity]).
  destruct (resolve_total _ _ Hlv D) as [[c1 E1]|[a [b [_ [H _]]]]]; [|discriminate].
  destruct (levels_cumulative i [] Hi D) as [LO _]. destruct (LO c1 E1) as [c2 [E2 Hs]]. eauto.
Qed.

(* ------------------------------------------------------------------------- *)
(** * The tokeniser: what is diagnosed, for every table [T], every argument tail and every parser state *)

Ltac known_false t := let E := fresh in assert (E : t = false) by (vm_compute; reflexivity); rewrite E; clear E.
Ltac known_true t := let E := fresh in assert (E : t = true) by (vm_compute; reflexivity); rewrite E; clear E.

(** -f<name> / -fno-<name> with a name that is not a flag: RuntimeError "Unknown flag" *)
Theorem unknown_flag_is_error : forall T v rest st,
  assoc_str (t_names T) (flagify (if starts_with (s2l "no-") v then skipn 3 v else v)) = None ->
  tokenise T ((45 :: 102 :: v)%N :: rest) st = Error EUnknownFlag.
Proof.
  intros T v rest st Hn. cbn [tokenise]. known_false (negb (45 =? 45)%N). known_false (102 =? 45)%N.
  unfold handle.
  known_false (mem_str [102%N] [s2l "o"; s2l "output"]). known_false (str_eqb [102%N] (s2l "O")).
  known_true (mem_str [102%N] [s2l "f"; s2l "flag"]). known_true (str_eqb [102%N] (s2l "f")).
  destruct (starts_with (s2l "no-") v); rewrite Hn; reflexivity.
Qed.

(** --flag <name>[=<value>] with a name that is not a flag (and at most one "=") *)
Theorem unknown_long_flag_is_error : forall T v rest st,
  match split_on 61 v [] with
  | [_] => assoc_str (t_names T) (flagify v) = None
  | [n; _] => assoc_str (t_names T) (flagify n) = None
  | _ => False
  end ->
  tokenise T (s2l "--flag" :: v :: rest) st = Error EUnknownFlag.
Proof.
  intros T v rest st Hv. change (s2l "--flag") with (45 :: 45 :: s2l "flag")%N. cbn [tokenise].
  known_false (negb (45 =? 45)%N). known_true (45 =? 45)%N. known_false (mem_str (s2l "flag") no_value_names).
  unfold handle.
  known_false (mem_str (s2l "flag") [s2l "o"; s2l "output"]). known_false (str_eqb (s2l "flag") (s2l "O")).
  known_true (mem_str (s2l "flag") [s2l "f"; s2l "flag"]). known_false (str_eqb (s2l "flag") (s2l "f")).
  destruct (split_on 61 v []) as [|a [|b [|c r]]]; try contradiction; rewrite Hv; reflexivity.
Qed.

(** an option letter / long name that is not an option: RuntimeError "Unknown option" *)
Theorem unknown_short_option_is_error : forall T c t rest st,
  existsb (N.eqb c) [45; 111; 79; 102; 104; 100; 116]%N = false ->          (* not one of - o O f h d t *)
  index_str (map fst (t_options T)) (flagify [c]) 0 = None ->
  tokenise T ((45 :: c :: t)%N :: rest) st = Error EUnknownOption.
Proof.
  intros T c t rest st Hc Ho. cbn [tokenise]. known_false (negb (45 =? 45)%N).
  cbn [existsb] in Hc. repeat (apply orb_false_elim in Hc; destruct Hc as [? Hc]).
  rewrite H. unfold handle. unfold mem_str, existsb, str_eqb, PyLite.str_eqb.
  repeat match goal with |- context[s2l ?s] => let v := eval vm_compute in (s2l s) in change (s2l s) with v end.
  cbn [PyLite.str_eqb]. rewrite ?andb_false_r, ?andb_true_r, ?orb_false_r.
  rewrite H0, H1, H2, H3, H4, H5. cbn [orb andb]. rewrite Ho. reflexivity.
Qed.

(** a lone "-" : RuntimeError "Invalid argument"; a long option at the end without its value: "Missing value" *)
Theorem lone_dash_is_error : forall T rest st, tokenise T ([45%N] :: rest) st = Error EInvalidArgument.
Proof. reflexivity. Qed.
Theorem missing_value_is_error : forall T name st, mem_str name no_value_names = false ->
  tokenise T [(45 :: 45 :: name)%N] st = Error EMissingValue.
Proof. intros T name st H. cbn [tokenise]. known_false (negb (45 =? 45)%N). known_true (45 =? 45)%N. rewrite H. reflexivity. Qed.
Theorem second_filename_is_error : forall T c t rest st, (c =? 45)%N = false -> p_have_input st = true ->
  tokenise T ((c :: t) :: rest) st = Error EMultipleFilenames.
Proof. intros T c t rest st H1 H2. cbn [tokenise]. rewrite H1, H2. reflexivity. Qed.
Theorem no_input_is_error : forall T st, p_have_input st = false -> tokenise T [] st = Error ENoInput.
Proof. intros T st H. cbn [tokenise]. rewrite H. reflexivity. Qed.

(** what the model says about the malformed arguments that are NOT diagnosed (replayed on the implementation
    by the harness; these are findings about nmfu, not proof obligations of the property) *)
Definition cmd (l : list String.string) : list pystr := map s2l l.
Example malformed_level_not_int_crashes : run_cmdline gT (cmd ["-Ofoo"; "x.nmfu"]) = Crash ValueError.
Proof. vm_compute. reflexivity. Qed.
Example malformed_level_out_of_table_crashes : run_cmdline gT (cmd ["-O9"; "x.nmfu"]) = Crash KeyError.
Proof. vm_compute. reflexivity. Qed.
Example malformed_flag_two_equals_crashes : run_cmdline gT (cmd ["--flag"; "eof-support=yes=no"; "x.nmfu"]) = Crash ValueError.
Proof. vm_compute. reflexivity. Qed.
Example malformed_dump_kind_crashes : run_cmdline gT (cmd ["-dfoo"; "x.nmfu"]) = Crash ValueError.
Proof. vm_compute. reflexivity. Qed.
Example negative_level_is_accepted : classify (run_cmdline gT (cmd ["-O-1"; "x.nmfu"])) = 0%N.
Proof. vm_compute. reflexivity. Qed.
