(** Proofs about the functions regenerated from /repo/nmfu.py (Gen/GLit.v) against Lit/LitSpec.v. *)
From Coq Require Import ZArith NArith List Bool Lia.
Import ListNotations.
From NV Require Import Base.PyLite Base.PyLiteLemmas Gen.GLit Lit.LitSpec.

Lemma str_eqb_single a b : str_eqb [a] [b] = N.eqb a b.
Proof. simpl. apply andb_true_r. Qed.

Definition bytes256 : list N := map N.of_nat (seq 0 256).
Lemma in_bytes256 c : (c < 256)%N -> In c bytes256.
Proof.
  intros H. unfold bytes256. apply in_map_iff. exists (N.to_nat c). split; [apply N2Nat.id|].
  apply in_seq. lia.
Qed.

Lemma hexval_lt c v : hexval c = Some v -> (c < 256 /\ v < 16)%N.
Proof.
  unfold hexval. intros H.
  destruct ((48 <=? c) && (c <=? 57))%N eqn:E1.
  { apply andb_prop in E1 as [A B]. apply N.leb_le in A, B. inversion H; subst. lia. }
  destruct ((97 <=? c) && (c <=? 102))%N eqn:E2.
  { apply andb_prop in E2 as [A B]. apply N.leb_le in A, B. inversion H; subst. lia. }
  destruct ((65 <=? c) && (c <=? 70))%N eqn:E3; [|discriminate].
  apply andb_prop in E3 as [A B]. apply N.leb_le in A, B. inversion H; subst. lia.
Qed.

(** the two-hex-digit path of the generated decoder: int(code, 16) then chr *)
Definition pyres_str_eqb (a b : pyres pystr) : bool :=
  match a, b with Ok x, Ok y => str_eqb x y | _, _ => false end.
Lemma pyres_str_eqb_ok a b : pyres_str_eqb a b = true -> a = b /\ exists x, a = Ok x.
Proof. destruct a, b; simpl; try discriminate. intros H. apply str_eqb_eq in H. subst. eauto. Qed.

Definition hex2_check : bool :=
  forallb (fun h => forallb (fun l =>
    match hexval h, hexval l with
    | Some vh, Some vl => pyres_str_eqb (t <- py_int_lit [h; l] 16%Z ;; py_chr t) (Ok [16 * vh + vl]%N)
    | _, _ => true end) bytes256) bytes256.
Lemma hex2_check_ok : hex2_check = true. Proof. vm_compute. reflexivity. Qed.

Lemma hex2 h l vh vl : hexval h = Some vh -> hexval l = Some vl ->
  (t <- py_int_lit [h; l] 16%Z ;; py_chr t) = Ok [16 * vh + vl]%N.
Proof.
  intros Hh Hl. pose proof hex2_check_ok as C. unfold hex2_check in C.
  rewrite forallb_forall in C. specialize (C h (in_bytes256 h (proj1 (hexval_lt _ _ Hh)))).
  rewrite forallb_forall in C. specialize (C l (in_bytes256 l (proj1 (hexval_lt _ _ Hl)))).
  rewrite Hh, Hl in C. apply pyres_str_eqb_ok in C. tauto.
Qed.

Definition hexdigits_str : pystr := [48; 49; 50; 51; 52; 53; 54; 55; 56; 57; 97; 98; 99; 100; 101; 102; 65; 66; 67; 68; 69; 70]%N.
Definition hexdigits_check : bool :=
  forallb (fun c => match hexval c with Some _ => py_in_chars [c] hexdigits_str | None => negb (py_in_chars [c] hexdigits_str) end) bytes256.
Lemma hexdigits_check_ok : hexdigits_check = true. Proof. vm_compute. reflexivity. Qed.
Lemma hexval_in_hexdigits c v : hexval c = Some v -> py_in_chars [c] hexdigits_str = true.
Proof.
  intros H. pose proof hexdigits_check_ok as C. unfold hexdigits_check in C. rewrite forallb_forall in C.
  specialize (C c (in_bytes256 c (proj1 (hexval_lt _ _ H)))). rewrite H in C. exact C.
Qed.

(** ** _convert_string *)
Ltac idx :=
  repeat (progress (repeat first [ rewrite ltb_len_in | rewrite py_index_at | rewrite str_eqb_single ];
                    cbn [bind])).

Lemma loop_sound : forall rest bs, Denotes rest bs ->
  forall fuel pre acc es, (length rest < fuel)%nat ->
  convert_string_loop1 fuel (pre ++ rest) es (py_len pre) acc = Ok (acc ++ bs).
Proof.
  induction 1 as [|c s bs Hc Hb HD IH|c v s bs He HD IH|h l vh vl s bs Hh Hl HD IH];
    intros fuel pre acc es Hf; destruct fuel as [|f]; try (simpl in Hf; lia);
    cbn [convert_string_loop1]; cbv zeta.
  - rewrite ltb_len_end, !app_nil_r. reflexivity.
  - idx. apply N.eqb_neq in Hc. rewrite Hc. cbn [negb]. idx.
    cbn [py_ord bind].
    replace (Z.of_N c >? 255)%Z with false by (symmetry; rewrite Z.gtb_ltb; apply Z.ltb_ge; lia).
    idx. rewrite (py_len_snoc pre c).
    replace (pre ++ c :: s) with ((pre ++ [c]) ++ s) by (rewrite <- app_assoc; reflexivity).
    rewrite IH by (simpl in Hf; lia). rewrite <- app_assoc. reflexivity.
  - idx. cbn [N.eqb Pos.eqb negb].
    rewrite (py_len_snoc pre 92%N).
    replace (pre ++ 92%N :: c :: s) with ((pre ++ [92%N]) ++ c :: s) by (rewrite <- app_assoc; reflexivity).
    idx.
    assert (Hx : N.eqb c 120 = false /\ N.eqb c 117 = false /\
       py_in_chars [c] [110; 114; 116; 98; 48; 34; 92]%N = true /\
       dict_get [([110]%N, [10]%N); ([114]%N, [13]%N); ([116]%N, [9]%N); ([98]%N, [8]%N); ([48]%N, [0]%N); ([34]%N, [34]%N); ([92]%N, [92]%N)] [c] = Ok [v]).
    { unfold simple_escapes in He. simpl in He.
      repeat (destruct He as [He|He]; [inversion He; subst; repeat split; reflexivity|]). contradiction. }
    destruct Hx as [Hx1 [Hx2 [Hin Hd]]]. rewrite Hx1. idx. rewrite Hx2. idx. rewrite Hin. cbn [negb]. idx. rewrite Hd. cbn [bind].
    rewrite (py_len_snoc (pre ++ [92%N]) c).
    replace ((pre ++ [92%N]) ++ c :: s) with (((pre ++ [92%N]) ++ [c]) ++ s) by (rewrite <- !app_assoc; reflexivity).
    rewrite IH by (simpl in Hf; lia). rewrite <- app_assoc. reflexivity.
  - idx. cbn [N.eqb Pos.eqb negb].
    rewrite (py_len_snoc pre 92%N).
    replace (pre ++ 92%N :: 120%N :: h :: l :: s) with ((pre ++ [92%N]) ++ 120%N :: h :: l :: s) by (rewrite <- app_assoc; reflexivity).
    idx. cbn [N.eqb Pos.eqb]. idx. cbn [N.eqb Pos.eqb].
    rewrite (py_len_snoc (pre ++ [92%N]) 120%N).
    replace (py_len (pre ++ [92%N]) + 3)%Z with (py_len ((pre ++ [92%N]) ++ [120%N]) + py_len [h; l])%Z
      by (rewrite !py_len_app; unfold py_len; simpl length; lia).
    replace ((pre ++ [92%N]) ++ 120%N :: h :: l :: s) with (((pre ++ [92%N]) ++ [120%N]) ++ [h; l] ++ s)
      by (rewrite <- !app_assoc; reflexivity).
    rewrite py_slice_mid.
    replace (py_len [h; l] =? 2)%Z with true by reflexivity. cbn [negb].
    replace (py_index [h; l] 0) with (Ok [h] : pyres pystr) by reflexivity.
    replace (py_index [h; l] 1) with (Ok [l] : pyres pystr) by reflexivity. cbn [bind].
    fold hexdigits_str. rewrite (hexval_in_hexdigits h vh Hh), (hexval_in_hexdigits l vl Hl). cbn [negb].
    pose proof (hex2 h l vh vl Hh Hl) as H2.
    destruct (py_int_lit [h; l] 16) as [t| |]; cbn [bind] in H2 |- *; try discriminate.
    rewrite H2. cbn [bind].
    replace (py_len ((pre ++ [92%N]) ++ [120%N]) + py_len [h; l])%Z with (py_len ((((pre ++ [92%N]) ++ [120%N]) ++ [h; l])))
      by (rewrite !py_len_app; reflexivity).
    replace (((pre ++ [92%N]) ++ [120%N]) ++ [h; l] ++ s) with ((((pre ++ [92%N]) ++ [120%N]) ++ [h; l]) ++ s)
      by (rewrite <- !app_assoc; reflexivity).
    rewrite IH by (simpl in Hf; lia). rewrite <- app_assoc. reflexivity.
Qed.

Theorem convert_string_sound : forall s bs, Denotes s bs ->
  forall fuel, (length s < fuel)%nat -> convert_string fuel (34%N :: s ++ [34%N]) = Ok bs.
Proof.
  intros s bs H fuel Hf. unfold convert_string. cbv zeta. rewrite py_slice_quotes.
  apply (loop_sound s bs H fuel [] [] _ Hf).
Qed.

(** the decoder is complete for lexically well-formed bodies *)
Lemma decode_denotes : forall fuel s bs, decode fuel s = Some bs -> Denotes s bs.
Proof.
  induction fuel as [|f IH]; intros s bs H; cbn [decode] in H; try discriminate.
  destruct s as [|c r]. { inversion H. constructor. }
  destruct (N.eqb c 92) eqn:Ec.
  - apply N.eqb_eq in Ec. subst c.
    destruct r as [|c2 r2]; try discriminate.
    destruct (N.eqb c2 120) eqn:Ex.
    + apply N.eqb_eq in Ex. subst c2.
      destruct r2 as [|h [|l r3]]; try discriminate.
      destruct (hexval h) as [vh|] eqn:Eh; try discriminate.
      destruct (hexval l) as [vl|] eqn:El; try discriminate.
      destruct (decode f r3) as [bs'|] eqn:Ed; try discriminate.
      inversion H; subst. apply DHex; auto.
    + destruct (find (fun p => N.eqb (fst p) c2) simple_escapes) as [[k v]|] eqn:Ef; try discriminate.
      destruct (decode f r2) as [bs'|] eqn:Ed; try discriminate. inversion H; subst.
      apply find_some in Ef as [Hin Hk]. cbn [fst] in Hk. apply N.eqb_eq in Hk. subst k.
      apply DEsc; auto.
  - apply N.eqb_neq in Ec. destruct (c <? 256)%N eqn:El; try discriminate. apply N.ltb_lt in El.
    destruct (decode f r) as [bs'|] eqn:Ed; try discriminate. inversion H; subst.
    apply DPlain; auto.
Qed.

(** every lexically well-formed body (one the executable decoder accepts) is decoded by the
    generated function to exactly the bytes the spelling prescribes *)
Theorem convert_string_correct : forall s bs fuel dfuel,
  decode dfuel s = Some bs -> (length s < fuel)%nat ->
  convert_string fuel (34%N :: s ++ [34%N]) = Ok bs.
Proof. intros. eapply convert_string_sound; eauto using decode_denotes. Qed.

(** ** character constants *)
Theorem char_const_plain : forall c, convert_char_const [39; c; 39]%N = Ok [c].
Proof. intros c. reflexivity. Qed.

Definition char_escape_check : bool :=
  forallb (fun cv => pyres_str_eqb (convert_char_const [39; 92; fst cv; 39]%N) (Ok [snd cv])) char_escapes.
Theorem char_const_escape : forall c v, In (c, v) char_escapes -> convert_char_const [39; 92; c; 39]%N = Ok [v].
Proof.
  assert (C : char_escape_check = true) by (vm_compute; reflexivity).
  intros c v H. unfold char_escape_check in C. rewrite forallb_forall in C.
  specialize (C _ H). apply pyres_str_eqb_ok in C. tauto.
Qed.

(** ** integer literals *)
Lemma parse_digits_all base : forall ds acc pd, all_digits base ds = true -> (ds <> [] \/ pd = true) ->
  parse_digits base ds acc pd = Some (digits_val base ds acc).
Proof.
  induction ds as [|d r IH]; intros acc pd Ha Hn.
  - destruct Hn as [Hn|Hn]; [congruence|]. subst. reflexivity.
  - cbn [all_digits forallb] in Ha. apply andb_prop in Ha as [Hd Hr].
    cbn [parse_digits digits_val].
    destruct (digit_val d) as [v|] eqn:Ed; try discriminate.
    assert (Hu : (d =? 95)%N = false).
    { destruct (N.eqb_spec d 95); auto. subst. vm_compute in Ed. discriminate. }
    rewrite Hu, Hd. apply IH; auto.
Qed.

Lemma digit_not_space d v : digit_val d = Some v -> is_py_space d = false.
Proof.
  unfold digit_val, is_py_space. intros H.
  destruct ((48 <=? d) && (d <=? 57))%N eqn:E1.
  { apply andb_prop in E1 as [A B]. apply N.leb_le in A, B.
    repeat (match goal with |- context [(?a <=? ?b)%N] => destruct (N.leb_spec a b) | |- context [(?a =? ?b)%N] => destruct (N.eqb_spec a b) end; try lia); reflexivity. }
  destruct ((97 <=? d) && (d <=? 122))%N eqn:E2.
  { apply andb_prop in E2 as [A B]. apply N.leb_le in A, B.
    repeat (match goal with |- context [(?a <=? ?b)%N] => destruct (N.leb_spec a b) | |- context [(?a =? ?b)%N] => destruct (N.eqb_spec a b) end; try lia); reflexivity. }
  destruct ((65 <=? d) && (d <=? 90))%N eqn:E3; [|discriminate].
  apply andb_prop in E3 as [A B]. apply N.leb_le in A, B.
  repeat (match goal with |- context [(?a <=? ?b)%N] => destruct (N.leb_spec a b) | |- context [(?a =? ?b)%N] => destruct (N.eqb_spec a b) end; try lia); reflexivity.
Qed.

Lemma all_digits_in base ds d : all_digits base ds = true -> In d ds -> exists v, digit_val d = Some v /\ (v < base)%Z.
Proof.
  unfold all_digits. rewrite forallb_forall. intros H Hi. specialize (H d Hi).
  destruct (digit_val d) as [v|]; try discriminate. exists v. split; auto. apply Z.ltb_lt; auto.
Qed.

(** a plain digit string (no sign, no prefix, no underscore) is read by int(s, base) as its value;
    the side condition excludes digit strings that int() would read as carrying a base prefix *)
Definition no_prefix (base : Z) (ds : list N) : bool := negb (snd (strip_prefix base ds)).

Lemma py_int_lit_digits base ds : all_digits base ds = true -> ds <> [] -> no_prefix base ds = true ->
  py_int_lit ds base = Ok (digits_val base ds 0).
Proof.
  intros Ha Hn Hp. unfold py_int_lit.
  rewrite strip_id by (intros c Hc; destruct (all_digits_in _ _ _ Ha Hc) as [v [Hv _]]; eapply digit_not_space; eauto).
  destruct ds as [|d r]; [congruence|].
  destruct (all_digits_in _ _ d Ha (or_introl eq_refl)) as [v [Hv Hlt]].
  assert (Hs : split_sign (d :: r) = (1%Z, d :: r)).
  { unfold split_sign.
    destruct (N.eqb_spec d 43) as [->|]; [vm_compute in Hv; discriminate|].
    destruct (N.eqb_spec d 45) as [->|]; [vm_compute in Hv; discriminate|]. reflexivity. }
  rewrite Hs. unfold no_prefix in Hp.
  destruct (strip_prefix base (d :: r)) as [body hp] eqn:Esp. cbn [snd] in Hp.
  destruct hp; try discriminate.
  assert (body = d :: r).
  { unfold strip_prefix in Esp. destruct r as [|p2 r2]; [inversion Esp; reflexivity|].
    destruct (_ && _); inversion Esp; reflexivity. }
  subst body. rewrite parse_digits_all; auto; try (left; congruence).
  f_equal. lia.
Qed.

Definition dec_ok (ds : list N) := all_digits 10 ds = true /\ ds <> [].

Theorem convert_int_decimal : forall ds, all_digits 10 ds = true -> ds <> [] ->
  convert_int ds = Ok (digits_val 10 ds 0)
  /\ convert_int (43%N :: ds) = Ok (digits_val 10 ds 0)
  /\ convert_int (45%N :: ds) = Ok (- digits_val 10 ds 0)%Z.
Proof.
  intros ds Ha Hn.
  assert (Hp : no_prefix 10 ds = true).
  { unfold no_prefix, strip_prefix. destruct ds as [|z [|p2 r]]; auto.
    cbn [Z.eqb andb orb]. rewrite andb_false_r. reflexivity. }
  pose proof (py_int_lit_digits 10 ds Ha Hn Hp) as Hi.
  destruct ds as [|d r]; [congruence|].
  destruct (all_digits_in _ _ d Ha (or_introl eq_refl)) as [v [Hv Hlt]].
  assert (Hd : (48 <= d <= 57)%N).
  { unfold digit_val in Hv.
    destruct ((48 <=? d) && (d <=? 57))%N eqn:E1. { apply andb_prop in E1 as [A B]. apply N.leb_le in A, B. lia. }
    destruct ((97 <=? d) && (d <=? 122))%N eqn:E2. { apply andb_prop in E2 as [A B]. apply N.leb_le in A, B. inversion Hv. lia. }
    destruct ((65 <=? d) && (d <=? 90))%N eqn:E3; [|discriminate]. apply andb_prop in E3 as [A B]. apply N.leb_le in A, B. inversion Hv. lia. }
  assert (H43 : (d =? 43)%N = false) by (apply N.eqb_neq; lia).
  assert (H45 : (d =? 45)%N = false) by (apply N.eqb_neq; lia).
  (* the second character can be x or b only if it is not a decimal digit *)
  assert (Hx : forall tl, str_eqb (py_slice (d :: r) (Some 0%Z) (Some 2%Z)) (48%N :: tl :: nil) = true -> (tl <> 120 /\ tl <> 98)%N).
  { intros tl Heq. apply str_eqb_eq in Heq.
    destruct r as [|d2 r2]; [vm_compute in Heq; destruct d; discriminate|].
    assert (Hs : py_slice (d :: d2 :: r2) (Some 0%Z) (Some 2%Z) = [d; d2]).
    { change (d :: d2 :: r2) with ([] ++ [d; d2] ++ r2). apply (py_slice_mid [] [d; d2] r2). }
    rewrite Hs in Heq. inversion Heq; subst.
    destruct (all_digits_in _ _ tl Ha (or_intror (or_introl eq_refl))) as [v2 [Hv2 Hlt2]].
    split; intros ->; vm_compute in Hv2; inversion Hv2; subst; lia. }
  assert (Hnx : str_eqb (py_slice (d :: r) (Some 0%Z) (Some 2%Z)) [48; 120]%N = false).
  { destruct (str_eqb _ [48; 120]%N) eqn:E; auto. apply Hx in E. destruct E; congruence. }
  assert (Hnb : str_eqb (py_slice (d :: r) (Some 0%Z) (Some 2%Z)) [48; 98]%N = false).
  { destruct (str_eqb _ [48; 98]%N) eqn:E; auto. apply Hx in E. destruct E; congruence. }
  assert (Hsl : forall c, py_slice (c :: d :: r) (Some 1%Z) None = d :: r).
  { intros c. change (c :: d :: r) with ([c] ++ (d :: r)).
    unfold py_slice, clamp_bound. cbn [Z.ltb Z.compare]. 
    replace (Z.min 1 (py_len ([c] ++ d :: r))) with 1%Z by (unfold py_len; simpl length; lia).
    change (Z.to_nat 1) with 1%nat. cbn [skipn app].
    replace (Z.to_nat (py_len (c :: d :: r)) - 1)%nat with (length (d :: r)) by (unfold py_len; simpl length; lia).
    apply firstn_all. }
  repeat split.
  - unfold convert_int. cbv zeta.
    change (py_index (d :: r) 0%Z) with (Ok [d] : pyres pystr). cbn [bind].
    rewrite !str_eqb_single, H43, H45. rewrite Hnx, Hnb, Hi. cbn [bind]. try (f_equal; lia); try reflexivity.
  - unfold convert_int. cbv zeta.
    change (py_index (43%N :: d :: r) 0%Z) with (Ok [43%N] : pyres pystr). cbn [bind].
    rewrite str_eqb_single. cbn [N.eqb Pos.eqb]. rewrite Hsl, Hnx, Hnb, Hi. cbn [bind]. try (f_equal; lia); try reflexivity.
  - unfold convert_int. cbv zeta.
    change (py_index (45%N :: d :: r) 0%Z) with (Ok [45%N] : pyres pystr). cbn [bind].
    rewrite !str_eqb_single. cbn [N.eqb Pos.eqb]. rewrite Hsl, Hnx, Hnb, Hi. cbn [bind]. try (f_equal; lia); try reflexivity.
Qed.

Lemma no_prefix_digits base ds : (base = 16 \/ base = 2)%Z -> all_digits base ds = true -> no_prefix base ds = true.
Proof.
  intros Hb Ha. unfold no_prefix, strip_prefix. destruct ds as [|z [|p r]]; auto.
  destruct (all_digits_in _ _ p Ha (or_intror (or_introl eq_refl))) as [v [Hv Hlt]].
  destruct ((z =? 48)%N && _) eqn:E; auto. exfalso.
  apply andb_prop in E as [_ E].
  destruct Hb; subst base; cbn [Z.eqb Pos.eqb andb orb] in E;
    rewrite ?orb_false_r in E; apply orb_prop in E as [E|E]; apply N.eqb_eq in E; subst p;
    vm_compute in Hv; inversion Hv; subst; lia.
Qed.

Lemma slice_tail2 (a b : N) (ds : pystr) : py_slice (a :: b :: ds) (Some 2%Z) None = ds.
Proof.
  unfold py_slice, clamp_bound. cbn [Z.ltb Z.compare].
  replace (Z.min 2 (py_len (a :: b :: ds))) with 2%Z by (unfold py_len; simpl length; lia).
  change (Z.to_nat 2) with 2%nat. cbn [skipn].
  replace (Z.to_nat (py_len (a :: b :: ds)) - 2)%nat with (length ds) by (unfold py_len; simpl length; lia).
  apply firstn_all.
Qed.
Lemma slice_tail1 (a : N) (ds : pystr) : py_slice (a :: ds) (Some 1%Z) None = ds.
Proof.
  unfold py_slice, clamp_bound. cbn [Z.ltb Z.compare].
  replace (Z.min 1 (py_len (a :: ds))) with 1%Z by (unfold py_len; simpl length; lia).
  change (Z.to_nat 1) with 1%nat. cbn [skipn].
  replace (Z.to_nat (py_len (a :: ds)) - 1)%nat with (length ds) by (unfold py_len; simpl length; lia).
  apply firstn_all.
Qed.
Lemma slice_head2 (a b : N) (ds : pystr) : py_slice (a :: b :: ds) (Some 0%Z) (Some 2%Z) = [a; b].
Proof. change (a :: b :: ds) with ([] ++ [a; b] ++ ds). apply (py_slice_mid [] [a; b] ds). Qed.

Theorem convert_int_hex : forall ds, all_digits 16 ds = true -> ds <> [] ->
  convert_int (48 :: 120 :: ds)%N = Ok (digits_val 16 ds 0)
  /\ convert_int (43 :: 48 :: 120 :: ds)%N = Ok (digits_val 16 ds 0)
  /\ convert_int (45 :: 48 :: 120 :: ds)%N = Ok (- digits_val 16 ds 0)%Z.
Proof.
  intros ds Ha Hn.
  pose proof (py_int_lit_digits 16 ds Ha Hn (no_prefix_digits 16 ds (or_introl eq_refl) Ha)) as Hi.
  repeat split; unfold convert_int; cbv zeta.
  - change (py_index (48 :: 120 :: ds)%N 0%Z) with (Ok [48%N] : pyres pystr). cbn [bind].
    rewrite !str_eqb_single. cbn [N.eqb Pos.eqb]. rewrite slice_head2, str_eqb_refl, slice_tail2, Hi.
    cbn [bind]. f_equal; lia.
  - change (py_index (43 :: 48 :: 120 :: ds)%N 0%Z) with (Ok [43%N] : pyres pystr). cbn [bind].
    rewrite !str_eqb_single. cbn [N.eqb Pos.eqb]. rewrite slice_tail1, slice_head2, str_eqb_refl, slice_tail2, Hi.
    cbn [bind]. f_equal; lia.
  - change (py_index (45 :: 48 :: 120 :: ds)%N 0%Z) with (Ok [45%N] : pyres pystr). cbn [bind].
    rewrite !str_eqb_single. cbn [N.eqb Pos.eqb]. rewrite slice_tail1, slice_head2, str_eqb_refl, slice_tail2, Hi.
    cbn [bind]. f_equal; lia.
Qed.

Theorem convert_int_bin : forall ds, all_digits 2 ds = true -> ds <> [] ->
  convert_int (48 :: 98 :: ds)%N = Ok (digits_val 2 ds 0).
Proof.
  intros ds Ha Hn.
  pose proof (py_int_lit_digits 2 ds Ha Hn (no_prefix_digits 2 ds (or_intror eq_refl) Ha)) as Hi.
  unfold convert_int; cbv zeta.
  change (py_index (48 :: 98 :: ds)%N 0%Z) with (Ok [48%N] : pyres pystr). cbn [bind].
  rewrite !str_eqb_single. cbn [N.eqb Pos.eqb]. rewrite slice_head2.
  change (str_eqb [48; 98]%N [48; 120]%N) with false. cbv iota.
  rewrite str_eqb_refl, slice_tail2, Hi. cbn [bind]. f_equal; lia.
Qed.

(** ** C string emission: what _escape_string emits lexes back, as a C string literal, to the bytes *)
Ltac split_all :=
  repeat (cbn [bind]; match goal with
  | |- context [if ?b then _ else _] => lazymatch b with
        | context [escape_string_bytes_loop1] => fail
        | _ => destruct b end
  | |- context [bind (py_chr ?i) _] => destruct (py_chr i)
  end); cbn [bind].

Lemma esc_loop_acc : forall l bv acc v,
  escape_string_bytes_loop1 l bv acc v = (t <- escape_string_bytes_loop1 l bv [] v ;; Ok (acc ++ t)).
Proof.
  induction l as [|b l IH]; intros bv acc v; cbn [escape_string_bytes_loop1]; cbv zeta.
  - cbn [bind]. rewrite app_nil_r. reflexivity.
  - split_all; cbn [bind]; try reflexivity;
      rewrite (IH bv (acc ++ _) v), (IH bv ([] ++ _) v);
      destruct (escape_string_bytes_loop1 l bv [] v); cbn [bind]; rewrite ?app_nil_l, <- ?app_assoc; reflexivity.
Qed.

Lemma esc_loop_cons : forall b l bv v,
  escape_string_bytes_loop1 (b :: l) bv [] v =
  (c <- escape_string_bytes_loop1 [b] bv [] v ;; t <- escape_string_bytes_loop1 l bv [] v ;; Ok (c ++ t)).
Proof.
  intros b l bv v. cbn [escape_string_bytes_loop1]; cbv zeta.
  split_all; cbn [bind]; try reflexivity; rewrite (esc_loop_acc l bv ([] ++ _) v); reflexivity.
Qed.

Definition lex_pair_eqb (a : lst * list N) (b : N) : bool :=
  match a with (LNormal, [x]) => N.eqb x b | _ => false end.
Definition esc_byte_check : bool :=
  forallb (fun b => match escape_string_bytes [Z.of_N b] with
                    | Ok chunk => lex_pair_eqb (lex_run chunk LNormal) b
                    | _ => false end) bytes256.

Theorem emit_roundtrip_bytes : esc_byte_check = true ->
  forall bs, Forall (fun b => (b < 256)%N) bs ->
  exists t, escape_string_bytes (map Z.of_N bs) = Ok t /\ c_lex t = Some bs.
Proof.
  intros C bs Hb. unfold esc_byte_check in C. rewrite forallb_forall in C.
  assert (G : forall bs, Forall (fun b => (b < 256)%N) bs -> forall bv v,
     exists t, escape_string_bytes_loop1 (map Z.of_N bs) bv [] v = Ok t /\ lex_run t LNormal = (LNormal, bs)).
  { clear bs Hb. induction bs as [|b bs IH]; intros Hb bv v.
    - exists []. split; reflexivity.
    - inversion Hb as [|? ? Hlt Hrest]; subst. cbn [map]. rewrite esc_loop_cons.
      specialize (C b (in_bytes256 b Hlt)). unfold escape_string_bytes in C. cbv zeta in C.
      destruct (IH Hrest bv v) as [t [Ht Hl]].
      (* the one-byte chunk does not depend on the bytes_value / value arguments *)
      assert (Hind : escape_string_bytes_loop1 [Z.of_N b] bv [] v = escape_string_bytes_loop1 [Z.of_N b] [Z.of_N b] [] [Z.of_N b]).
      { cbn [escape_string_bytes_loop1]. reflexivity. }
      rewrite Hind. destruct (escape_string_bytes_loop1 [Z.of_N b] [Z.of_N b] [] [Z.of_N b]) as [chunk| |]; try discriminate.
      cbn [bind]. rewrite Ht. cbn [bind]. exists (chunk ++ t). split; auto.
      rewrite lex_run_app. destruct (lex_run chunk LNormal) as [st o]. unfold lex_pair_eqb in C.
      destruct st; try discriminate. destruct o as [|x [|? ?]]; try discriminate. apply N.eqb_eq in C. subst x.
      rewrite Hl. reflexivity. }
  destruct (G bs Hb (map Z.of_N bs) (map Z.of_N bs)) as [t [Ht Hl]].
  exists t. split; [exact Ht|]. unfold c_lex. rewrite Hl. cbn [lex_finish]. rewrite app_nil_r. reflexivity.
Qed.

(** the str path: encode as latin-1, then the same loop *)
Lemma esc_str_bytes_loop : forall l bv acc v v',
  escape_string_str_loop1 l bv acc v = escape_string_bytes_loop1 l bv acc v'.
Proof.
  induction l as [|b l IH]; intros bv acc v v'; cbn [escape_string_str_loop1 escape_string_bytes_loop1]; cbv zeta.
  - reflexivity.
  - repeat (cbn [bind]; match goal with
      | |- context [if ?b then _ else _] => lazymatch b with
            | context [escape_string_bytes_loop1] => fail | context [escape_string_str_loop1] => fail
            | _ => destruct b end
      | |- context [bind (py_chr ?i) _] => destruct (py_chr i)
      end); cbn [bind]; try reflexivity; apply IH.
Qed.

Lemma latin1_bytes bs : Forall (fun b => (b < 256)%N) bs -> latin1_encode bs = Ok (map Z.of_N bs).
Proof.
  induction 1 as [|b bs Hb _ IH]; cbn [latin1_encode map]; auto.
  apply N.ltb_lt in Hb. rewrite Hb, IH. reflexivity.
Qed.

Theorem emit_roundtrip_str : esc_byte_check = true ->
  forall bs, Forall (fun b => (b < 256)%N) bs ->
  exists t, escape_string_str bs = Ok t /\ c_lex t = Some bs.
Proof.
  intros C bs Hb. destruct (emit_roundtrip_bytes C bs Hb) as [t [Ht Hl]].
  exists t. split; auto. unfold escape_string_str. cbv zeta. rewrite (latin1_bytes bs Hb). cbn [bind].
  rewrite (esc_str_bytes_loop _ _ _ bs (map Z.of_N bs)). exact Ht.
Qed.
