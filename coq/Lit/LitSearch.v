(** Failing-input search for C15: evaluates the specification against the regenerated functions
    on enumerated inputs (depends on Gen + Spec only, not on any proof).  One line per family. *)
From Coq Require Import ZArith NArith List Bool.
Import ListNotations.
From NV Require Import Base.PyLite Gen.GLit Lit.LitSpec.

Definition bytes256 : list N := map N.of_nat (seq 0 256).
Definition pyres_str_eqb (a b : pyres pystr) : bool :=
  match a, b with Ok x, Ok y => str_eqb x y | _, _ => false end.

(* alphabet for short string bodies: a, 0, f, x, n, backslash, quote, 0xff, 9 *)
Definition alpha : list N := [97; 48; 102; 120; 110; 92; 34; 255; 57; 113]%N.
Fixpoint strings (n : nat) : list pystr :=
  match n with O => [[]] | S k => [] :: flat_map (fun s => map (fun c => c :: s) alpha) (strings k) end.

Definition cex_string : list pystr :=
  filter (fun s => match decode 10 s with
                   | Some bs => negb (pyres_str_eqb (convert_string 10 (34%N :: s ++ [34%N])) (Ok bs))
                   | None => false end) (strings 4).
Definition cex_char_escape : list (N * N) :=
  filter (fun cv => negb (pyres_str_eqb (convert_char_const [39; 92; fst cv; 39]%N) (Ok [snd cv]))) char_escapes.
Definition cex_char_plain : list N :=
  filter (fun c => negb (pyres_str_eqb (convert_char_const [39; c; 39]%N) (Ok [c]))) bytes256.
Definition cex_escape : list (list N) :=
  filter (fun bs => match escape_string_bytes (map Z.of_N bs) with
                    | Ok t => match c_lex t with Some bs' => negb (str_eqb bs bs') | None => true end
                    | _ => true end)
         (flat_map (fun a => map (fun b => [a; b]) [0; 1; 48; 97; 102; 103; 34; 92; 63; 255; 127; 32]%N) bytes256).
Definition casei_spec (c : N) : list pystr :=
  if ((97 <=? c) && (c <=? 122))%N then [[c]; [c - 32]%N]
  else if ((65 <=? c) && (c <=? 90))%N then [[c]; [c + 32]%N] else [[c]].
Definition strlist_eqb (a b : list pystr) : bool :=
  (Nat.eqb (length a) (length b)) && forallb (fun p => str_eqb (fst p) (snd p)) (combine a b).
Definition cex_casei : list N :=
  filter (fun c => match create_casei_from [c] with Ok l => negb (strlist_eqb l (casei_spec c)) | _ => true end) bytes256.
Definition digit_strings : list pystr :=
  flat_map (fun a => [[a]; [a; 48]; [48; a]; [a; a; 55]]%N) [48; 49; 50; 55; 57; 97; 102; 65; 70]%N.
Definition zres_eqb (a : pyres Z) (b : Z) : bool := match a with Ok x => Z.eqb x b | _ => false end.
Definition cex_int : list pystr :=
  filter (fun ds => (all_digits 10 ds && negb (zres_eqb (convert_int ds) (digits_val 10 ds 0) && zres_eqb (convert_int (45%N :: ds)) (- digits_val 10 ds 0)%Z))
                    || (all_digits 16 ds && negb (zres_eqb (convert_int (48 :: 120 :: ds)%N) (digits_val 16 ds 0)))
                    || (all_digits 2 ds && negb (zres_eqb (convert_int (48 :: 98 :: ds)%N) (digits_val 2 ds 0))))
         digit_strings.

Definition first_n {A} (n : nat) (l : list A) := firstn n l.
Eval vm_compute in (first_n 3 cex_string).
Eval vm_compute in (first_n 3 cex_char_escape).
Eval vm_compute in (first_n 3 cex_char_plain).
Eval vm_compute in (first_n 3 cex_escape).
Eval vm_compute in (first_n 3 cex_casei).
Eval vm_compute in (first_n 3 cex_int).
