(** The spelling relation of nmfu string literals (independent specification, C15).
    A string literal's body denotes a byte sequence:  plain characters (byte values only) denote their code
    point, backslash-n r t b 0 quote backslash the usual control bytes, [\xHH] the byte with that hex value. *)
From Coq Require Import ZArith NArith List Bool Lia.
Import ListNotations.
From NV Require Import Base.PyLite.
Open Scope N_scope.

Definition hexval (c : N) : option N :=
  if (48 <=? c) && (c <=? 57) then Some (c - 48)
  else if (97 <=? c) && (c <=? 102) then Some (c - 87)
  else if (65 <=? c) && (c <=? 70) then Some (c - 55) else None.

Definition simple_escapes : list (N * N) :=
  [(110, 10); (114, 13); (116, 9); (98, 8); (48, 0); (34, 34); (92, 92)].

Inductive Denotes : pystr -> list N -> Prop :=
| DNil : Denotes [] []
| DPlain c s bs : c <> 92 -> c < 256 -> Denotes s bs -> Denotes (c :: s) (c :: bs)
| DEsc c v s bs : In (c, v) simple_escapes -> Denotes s bs -> Denotes (92 :: c :: s) (v :: bs)
| DHex h l vh vl s bs : hexval h = Some vh -> hexval l = Some vl -> Denotes s bs ->
    Denotes (92 :: 120 :: h :: l :: s) (16 * vh + vl :: bs).

(** the spelling is a function: executable decoder used by examples and by the failing-input search *)
Fixpoint decode (fuel : nat) (s : pystr) : option (list N) :=
  match fuel with O => None | S f =>
  match s with
  | [] => Some []
  | c :: r =>
    if N.eqb c 92 then
      match r with
      | [] => None
      | c2 :: r2 =>
        if N.eqb c2 120 then
          match r2 with
          | h :: l :: r3 =>
              match hexval h, hexval l, decode f r3 with
              | Some vh, Some vl, Some bs => Some (16 * vh + vl :: bs) | _, _, _ => None end
          | _ => None
          end
        else
          match find (fun p => N.eqb (fst p) c2) simple_escapes, decode f r2 with
          | Some (_, v), Some bs => Some (v :: bs) | _, _ => None end
      end
    else if c <? 256 then match decode f r with Some bs => Some (c :: bs) | None => None end else None
  end end.

(** character constants *)
Definition char_escapes : list (N * N) := [(110, 10); (114, 13); (116, 9); (98, 8); (48, 0); (39, 39); (92, 92); (34, 34)].

(** integer literals: value of a digit string *)
Fixpoint digits_val (base : Z) (ds : list N) (acc : Z) : Z :=
  match ds with [] => acc | d :: r =>
    match digit_val d with Some v => digits_val base r (acc * base + v)%Z | None => acc end end.
Definition all_digits (base : Z) (ds : list N) : bool :=
  forallb (fun d => match digit_val d with Some v => (v <? base)%Z | None => false end) ds.

(** C string-literal lexing of what _escape_string emits (C11 6.4.4.4 / 6.4.5), as an automaton:
    simple escapes, octal escapes of one to three digits, and hexadecimal escapes that take ALL
    following hex digits (maximal munch).  [lex_step] returns the new state and the bytes emitted. *)
Inductive lst := LNormal | LBack | LHex0 | LHex (acc : N) | LOct (acc : N) (n : nat) | LErr.

Definition octval (c : N) : option N := if (48 <=? c) && (c <=? 55) then Some (c - 48) else None.
Definition c_simple_escapes : list (N * N) :=
  [(110, 10); (116, 9); (114, 13); (98, 8); (97, 7); (102, 12); (118, 11); (92, 92); (39, 39); (34, 34); (63, 63)].

Definition lex_normal (c : N) : lst * list N :=
  if c =? 92 then (LBack, [])
  else if (c =? 34) || (c =? 10) then (LErr, [])   (* unescaped quote / raw newline end the literal *)
  else (LNormal, [c]).

Definition lex_step (st : lst) (c : N) : lst * list N :=
  match st with
  | LNormal => lex_normal c
  | LBack =>
      if c =? 120 then (LHex0, [])
      else match octval c with
           | Some v => (LOct v 1, [])
           | None => match find (fun p => N.eqb (fst p) c) c_simple_escapes with
                     | Some (_, v) => (LNormal, [v])
                     | None => (LErr, [])
                     end
           end
  | LHex0 => match hexval c with Some v => (LHex v, []) | None => (LErr, []) end
  | LHex acc =>
      match hexval c with
      | Some v => if 16 * acc + v <? 256 then (LHex (16 * acc + v), []) else (LErr, [])
      | None => let '(st', o) := lex_normal c in (st', acc :: o)
      end
  | LOct acc n =>
      match octval c, Nat.ltb n 3 with
      | Some v, true =>
          if 8 * acc + v <? 256
          then (if Nat.eqb n 2 then (LNormal, [8 * acc + v]) else (LOct (8 * acc + v) (S n), []))
          else (LErr, [])
      | _, _ => let '(st', o) := lex_normal c in (st', acc :: o)
      end
  | LErr => (LErr, [])
  end.

Fixpoint lex_run (s : pystr) (st : lst) : lst * list N :=
  match s with
  | [] => (st, [])
  | c :: r => let '(st', o) := lex_step st c in let '(st'', o') := lex_run r st' in (st'', o ++ o')
  end.

Definition lex_finish (st : lst) : option (list N) :=
  match st with
  | LNormal => Some [] | LHex acc => Some [acc] | LOct acc _ => Some [acc]
  | _ => None end.

Definition c_lex (s : pystr) : option (list N) :=
  let '(st, o) := lex_run s LNormal in
  match lex_finish st with Some t => Some (o ++ t) | None => None end.

Lemma lex_run_app a : forall b st,
  lex_run (a ++ b) st = let '(st', o) := lex_run a st in let '(st'', o') := lex_run b st' in (st'', o ++ o').
Proof.
  induction a as [|c a IH]; intros b st; cbn [lex_run app].
  - destruct (lex_run b st); reflexivity.
  - destruct (lex_step st c) as [st1 o1]. rewrite IH.
    destruct (lex_run a st1) as [st2 o2]. destruct (lex_run b st2) as [st3 o3].
    rewrite app_assoc. reflexivity.
Qed.

(** binary strings: the hex digits of the body, taken in pairs (other characters are ignored) *)
Definition is_hex (c : N) : bool := match hexval c with Some _ => true | None => false end.
Fixpoint bin_pairs (fuel : nat) (ds : list N) : option (list N) :=
  match fuel with O => None | S f =>
  match ds with
  | [] => Some []
  | h :: l :: r => match hexval h, hexval l, bin_pairs f r with
                   | Some vh, Some vl, Some bs => Some (16 * vh + vl :: bs) | _, _, _ => None end
  | [_] => None
  end end.
Definition bin_decode (s : pystr) : option (list N) := bin_pairs (S (length s)) (filter is_hex s).
