(** One-step-buffered ("slack") bisimulation certificates (DESIGN.md section 4), for comparing a machine
    compiled with fall-through short-circuiting (the EAGER side: actions sitting between two consumed
    bytes run right after the previous byte, possibly including a yield / finish) with the machine
    compiled without it (the LAZY side: they run when the next byte arrives).

    A relation element (mode, q1, q2, pend) says: the eager machine is in state q1, the lazy one in q2,
    and the eager side has already performed the byte-independent items [pend] (and, in mode [ERet r],
    has already returned r with its cursor past the byte) which the lazy side still has to perform at
    the beginning of its next step.  [closed m1 m2 R = true] implies, for all inputs and every data
    semantics in which the items flagged byte-independent really are, that the un-timed traces of
    primitives, test outcomes and returns of the two machines agree up to what is still pending. *)
From Coq Require Import NArith Arith List Bool Lia.
Import ListNotations.
From NV Require Import Machine.Dfa Machine.Sem Machine.NoSpin Machine.Bisim.

Inductive item := IPrim (p : pid) | ITest (t : tid) (b : bool) | IRet (r : res).

Definition item_eqb (a b : item) : bool :=
  match a, b with
  | IPrim p, IPrim q => N.eqb p q
  | ITest t x, ITest u y => N.eqb t u && Bool.eqb x y
  | IRet r, IRet s => res_eqb r s
  | _, _ => false end.
Lemma item_eqb_ok a b : item_eqb a b = true -> a = b.
Proof.
  destruct a, b; simpl; try discriminate; intros H.
  - apply N.eqb_eq in H; subst; auto.
  - apply andb_prop in H as [H1 H2]. apply N.eqb_eq in H1. apply Bool.eqb_prop in H2. subst; auto.
  - apply res_eqb_ok in H; subst; auto.
Qed.
Fixpoint items_eqb (a b : list item) : bool :=
  match a, b with [], [] => true | x :: a', y :: b' => item_eqb x y && items_eqb a' b' | _, _ => false end.
Lemma items_eqb_ok a : forall b, items_eqb a b = true -> a = b.
Proof.
  induction a as [|x a IH]; destruct b as [|y b]; simpl; try discriminate; auto.
  intros H. apply andb_prop in H as [H1 H2]. apply item_eqb_ok in H1. apply IH in H2. subst; auto.
Qed.

Inductive emode := EBoth | ERet (r : res).
Definition emode_eqb (a b : emode) : bool :=
  match a, b with EBoth, EBoth => true | ERet r, ERet s => res_eqb r s | _, _ => false end.
Lemma emode_eqb_ok a b : emode_eqb a b = true -> a = b.
Proof. destruct a, b; simpl; try discriminate; auto. intros H. apply res_eqb_ok in H; subst; auto. Qed.

Record rel := { r_mode : emode; r_q1 : nat; r_q2 : nat; r_pend : list item }.
Definition rel_eqb (a b : rel) : bool :=
  emode_eqb (r_mode a) (r_mode b) && Nat.eqb (r_q1 a) (r_q1 b) && Nat.eqb (r_q2 a) (r_q2 b) && items_eqb (r_pend a) (r_pend b).
Lemma rel_eqb_ok a b : rel_eqb a b = true -> a = b.
Proof.
  unfold rel_eqb. intros H. apply andb_prop in H as [H H4]. apply andb_prop in H as [H H3]. apply andb_prop in H as [H1 H2].
  apply emode_eqb_ok in H1. apply Nat.eqb_eq in H2, H3. apply items_eqb_ok in H4. destruct a, b; simpl in *; subst; auto.
Qed.
Definition memr (x : rel) (R : list rel) : bool := existsb (rel_eqb x) R.
Lemma memr_in x R : memr x R = true -> In x R.
Proof. unfold memr. rewrite existsb_exists. intros [y [Hy He]]. apply rel_eqb_ok in He. subst; auto. Qed.

Definition is_yield (r : res) : bool := match r with RYield _ => true | _ => false end.

Section Check.
Variable pfree : pid -> bool.     (* primitives that do not look at the current byte *)
Variable tfree : tid -> bool.

Fixpoint items_free (l : list item) : bool :=
  match l with
  | [] => true
  | IPrim p :: r => pfree p && items_free r
  | ITest c _ :: r => tfree c && items_free r
  | IRet _ :: r => false
  end.

(** the lazy side first performs the pending items *)
Fixpoint consume_pend (pend : list item) (t : tree) : option tree :=
  match pend, t with
  | [], _ => Some t
  | IPrim p :: r, Act p' k => if N.eqb p p' then consume_pend r k else None
  | ITest c b :: r, Test c' kt kf => if N.eqb c c' then consume_pend r (if b then kt else kf) else None
  | _, _ => None
  end.

(** what the eager side may still do once the lazy side has consumed its byte: byte-independent items,
    then consume (successor in mode EBoth) or a hoisted return (successor in mode ERet) *)
Definition ret_may_lead (r : res) (adv : bool) : bool :=
  match r with ROk => false | RYield _ => adv | _ => true end.

Fixpoint tails (t : tree) (q2 : nat) : option (list rel) :=
  match t with
  | Leaf (LConsume q1) => Some [{| r_mode := EBoth; r_q1 := q1; r_q2 := q2; r_pend := [] |}]
  | Leaf (LRet r q1 adv) => if ret_may_lead r adv then Some [{| r_mode := ERet r; r_q1 := q1; r_q2 := q2; r_pend := [] |}] else None
  | Act p k => if pfree p then option_map (map (fun x => {| r_mode := r_mode x; r_q1 := r_q1 x; r_q2 := r_q2 x; r_pend := IPrim p :: r_pend x |})) (tails k q2) else None
  | Test c a b =>
      if tfree c then
        match tails a q2, tails b q2 with
        | Some la, Some lb => Some (map (fun x => {| r_mode := r_mode x; r_q1 := r_q1 x; r_q2 := r_q2 x; r_pend := ITest c true :: r_pend x |}) la ++
                                    map (fun x => {| r_mode := r_mode x; r_q1 := r_q1 x; r_q2 := r_q2 x; r_pend := ITest c false :: r_pend x |}) lb)
        | _, _ => None end
      else None
  | OutOfFuel => None
  end.

(** lock step of the eager tree t1 against (the rest of) the lazy tree t2 *)
Fixpoint lock (t1 t2 : tree) {struct t2} : option (list rel) :=
  match t2 with
  | Leaf (LConsume q2) => tails t1 q2
  | Leaf (LRet r2 q2 adv2) =>
      match t1 with
      | Leaf (LRet r1 q1 adv1) =>
          if res_eqb r1 r2 && Bool.eqb adv1 adv2
          then Some (if is_yield r1 then [{| r_mode := EBoth; r_q1 := q1; r_q2 := q2; r_pend := [] |}] else [])
          else None
      | _ => None end
  | Act p' k' => match t1 with Act p k => if N.eqb p p' then lock k k' else None | _ => None end
  | Test c' a' b' =>
      match t1 with
      | Test c a b => if N.eqb c c' then match lock a a', lock b b' with Some x, Some y => Some (x ++ y) | _, _ => None end else None
      | _ => None end
  | OutOfFuel => None
  end.

Definition step_ok (m1 m2 : nfm) (R : list rel) (x : rel) (s : sym) : bool :=
  match consume_pend (r_pend x) (m2 (r_q2 x) s) with
  | None => false
  | Some t2' =>
    match r_mode x with
    | EBoth => match lock (m1 (r_q1 x) s) t2' with
               | Some succs => forallb (fun y => memr y R) succs
               | None => false end
    | ERet r =>
        (* the eager side has returned r already: the lazy side must now do exactly that, without consuming *)
        match t2' with
        | Leaf (LRet r2 q2' false) =>
            res_eqb r r2 && (if is_yield r then memr {| r_mode := EBoth; r_q1 := r_q1 x; r_q2 := q2'; r_pend := [] |} R else true)
        | _ => false end
    end
  end.

(** [ss]: the symbols the parsers are ever given (all 257, or the 256 bytes when there is no end() function) *)
Definition closed (ss : list sym) (m1 m2 : nfm) (R : list rel) : bool :=
  forallb (fun x => items_free (r_pend x) && forallb (step_ok m1 m2 R x) ss) R.

(** ** soundness *)
Variable D : Type.
Variable exec : pid -> sym -> D -> D.
Variable evalt : tid -> sym -> D -> bool.
Hypothesis pfree_ok : forall p s s' x, pfree p = true -> exec p s x = exec p s' x.
Hypothesis tfree_ok : forall t s s' x, tfree t = true -> evalt t s x = evalt t s' x.

Fixpoint evali (t : tree) (s : sym) (x : D) : option (list item * leaf * D) :=
  match t with
  | Leaf l => Some ([], l, x)
  | Act p k => match evali k s (exec p s x) with Some (es, l, x') => Some (IPrim p :: es, l, x') | None => None end
  | Test c kt kf =>
      let b := evalt c s x in
      match evali (if b then kt else kf) s x with Some (es, l, x') => Some (ITest c b :: es, l, x') | None => None end
  | OutOfFuel => None
  end.

(** replaying pending items on the lazy side's data gives the eager side's data *)
Fixpoint replay (pend : list item) (s : sym) (x : D) : option D :=
  match pend with
  | [] => Some x
  | IPrim p :: r => replay r s (exec p s x)
  | ITest c b :: r => if Bool.eqb (evalt c s x) b then replay r s x else None
  | IRet _ :: r => None
  end.

Lemma replay_free pend : items_free pend = true -> forall s s' x, replay pend s x = replay pend s' x.
Proof.
  induction pend as [|[p|c b|r0] r IH]; simpl; intros H s s' x; auto; try discriminate.
  - apply andb_prop in H as [A B]. rewrite (pfree_ok p s s' x A). apply IH; auto.
  - apply andb_prop in H as [A B]. rewrite (tfree_ok c s s' x A). destruct (Bool.eqb _ _); auto.
Qed.

Lemma consume_pend_sem : forall pend t2 t2' s x2 x1,
  consume_pend pend t2 = Some t2' -> replay pend s x2 = Some x1 ->
  match evali t2' s x1 with
  | Some (es, l, x') => evali t2 s x2 = Some (pend ++ es, l, x')
  | None => evali t2 s x2 = None end.
Proof.
  induction pend as [|[p|c b|r0] r IH]; intros t2 t2' s x2 x1 HC HR; simpl in *; try discriminate.
  - inversion HC; inversion HR; subst. destruct (evali t2' s x1) as [[[? ?] ?]|]; auto.
  - destruct t2; try discriminate. destruct (N.eqb p p0) eqn:E; try discriminate. apply N.eqb_eq in E; subst.
    specialize (IH _ _ _ _ _ HC HR). simpl. destruct (evali t2' s x1) as [[[es l] x']|]; rewrite IH; auto.
  - destruct t2; try discriminate. destruct (N.eqb c t) eqn:E; try discriminate. apply N.eqb_eq in E; subst.
    destruct (Bool.eqb (evalt t s x2) b) eqn:Eb; try discriminate. apply Bool.eqb_prop in Eb. subst b.
    specialize (IH _ _ _ _ _ HC HR). simpl. destruct (evali t2' s x1) as [[[es l] x']|]; rewrite IH; auto.
Qed.

(** what [tails] promises about the eager side's evaluation *)
Lemma tails_sem : forall t1 q2 l s x, tails t1 q2 = Some l ->
  match evali t1 s x with
  | Some (es, lf, x') =>
      items_free es = true /\ replay es s x = Some x' /\
      match lf with
      | LConsume q1 => In {| r_mode := EBoth; r_q1 := q1; r_q2 := q2; r_pend := es |} l
      | LRet r q1 adv => ret_may_lead r adv = true /\ In {| r_mode := ERet r; r_q1 := q1; r_q2 := q2; r_pend := es |} l
      end
  | None => False end.
Proof.
  induction t1 as [lf|p k IH|c a IHa b IHb|]; intros q2 l s x H; simpl in H; try discriminate.
  - destruct lf as [q1|r q1 adv]; simpl.
    + inversion H; subst. repeat split; auto. left; auto.
    + destruct (ret_may_lead r adv) eqn:E; try discriminate. inversion H; subst. repeat split; auto. left; auto.
  - destruct (pfree p) eqn:Ep; try discriminate. destruct (tails k q2) as [lk|] eqn:Ek; try discriminate. simpl in H. inversion H; subst.
    simpl. specialize (IH q2 lk s (exec p s x) Ek).
    destruct (evali k s (exec p s x)) as [[[es lf] x']|]; try contradiction.
    destruct IH as [A [B C]]. simpl. rewrite Ep, A. repeat split; auto.
    destruct lf as [q1|r q1 adv].
    + apply in_map_iff. eexists; split; [|exact C]. reflexivity.
    + destruct C as [C1 C2]. split; auto. apply in_map_iff. eexists; split; [|exact C2]. reflexivity.
  - destruct (tfree c) eqn:Ec; try discriminate.
    destruct (tails a q2) as [la|] eqn:Ea; try discriminate. destruct (tails b q2) as [lb|] eqn:Eb; try discriminate.
    inversion H; subst. simpl. destruct (evalt c s x) eqn:Ev.
    + specialize (IHa q2 la s x Ea). destruct (evali a s x) as [[[es lf] x']|]; try contradiction.
      destruct IHa as [A [B C]]. simpl. rewrite Ec, A, Ev. simpl. repeat split; auto.
      destruct lf as [q1|r q1 adv].
      * apply in_or_app; left. apply in_map_iff. eexists; split; [|exact C]. reflexivity.
      * destruct C as [C1 C2]. split; auto. apply in_or_app; left. apply in_map_iff. eexists; split; [|exact C2]. reflexivity.
    + specialize (IHb q2 lb s x Eb). destruct (evali b s x) as [[[es lf] x']|]; try contradiction.
      destruct IHb as [A [B C]]. simpl. rewrite Ec, A, Ev. simpl. repeat split; auto.
      destruct lf as [q1|r q1 adv].
      * apply in_or_app; right. apply in_map_iff. eexists; split; [|exact C]. reflexivity.
      * destruct C as [C1 C2]. split; auto. apply in_or_app; right. apply in_map_iff. eexists; split; [|exact C2]. reflexivity.
Qed.

(** lock step from equal data *)
Lemma lock_sem : forall t2 t1 succs s x, lock t1 t2 = Some succs ->
  match evali t1 s x, evali t2 s x with
  | Some (e1, l1, x1), Some (e2, l2, x2) =>
      match l2 with
      | LConsume q2 => exists pend, e1 = e2 ++ pend /\ items_free pend = true /\ replay pend s x2 = Some x1 /\
           match l1 with
           | LConsume q1 => In {| r_mode := EBoth; r_q1 := q1; r_q2 := q2; r_pend := pend |} succs
           | LRet r q1 adv => ret_may_lead r adv = true /\ In {| r_mode := ERet r; r_q1 := q1; r_q2 := q2; r_pend := pend |} succs
           end
      | LRet r2 q2 adv2 => e1 = e2 /\ x1 = x2 /\
           match l1 with
           | LRet r1 q1 adv1 => r1 = r2 /\ adv1 = adv2 /\ (is_yield r1 = true -> In {| r_mode := EBoth; r_q1 := q1; r_q2 := q2; r_pend := [] |} succs)
           | LConsume _ => False end
      end
  | _, _ => False end.
Proof.
  induction t2 as [lf|p' k' IH|c' a' IHa b' IHb|]; intros t1 succs s x H; simpl in H; try discriminate.
  - destruct lf as [q2|r2 q2 adv2].
    + pose proof (tails_sem t1 q2 succs s x H) as T. simpl.
      destruct (evali t1 s x) as [[[es lf] x']|]; try contradiction.
      destruct T as [A [B C]]. exists es. repeat split; auto.
    + destruct t1 as [l1| | |]; try discriminate. destruct l1 as [q1|r1 q1 adv1]; try discriminate.
      destruct (res_eqb r1 r2 && Bool.eqb adv1 adv2) eqn:E; try discriminate.
      apply andb_prop in E as [E1 E2]. apply res_eqb_ok in E1. apply Bool.eqb_prop in E2. subst. inversion H; subst.
      simpl. repeat split; auto. intros Hy. rewrite Hy. left; auto.
  - destruct t1; try discriminate. destruct (N.eqb p p') eqn:E; try discriminate. apply N.eqb_eq in E; subst.
    simpl. specialize (IH t1 succs s (exec p' s x) H).
    destruct (evali t1 s (exec p' s x)) as [[[e1 l1] x1]|]; destruct (evali k' s (exec p' s x)) as [[[e2 l2] x2]|]; try contradiction.
    destruct l2 as [q2|r2 q2 adv2].
    + destruct IH as [pend [A B]]. exists pend. subst. split; auto.
    + destruct IH as [A B]; subst; auto.
  - destruct t1; try discriminate. destruct (N.eqb t c') eqn:E; try discriminate. apply N.eqb_eq in E; subst.
    destruct (lock t1_1 a') as [u|] eqn:Ea; try discriminate. destruct (lock t1_2 b') as [v|] eqn:Eb; try discriminate.
    inversion H; subst. simpl. destruct (evalt c' s x).
    + specialize (IHa _ _ s x Ea).
      destruct (evali t1_1 s x) as [[[e1 l1] x1]|]; destruct (evali a' s x) as [[[e2 l2] x2]|]; try contradiction.
      destruct l2 as [q2|r2 q2 adv2].
      * destruct IHa as [pend [A [B [C E]]]]. exists pend. subst. repeat split; auto.
        destruct l1; [apply in_or_app; auto | destruct E; split; auto; apply in_or_app; auto].
      * destruct IHa as [A [B C]]; subst. repeat split; auto. destruct l1; auto.
        destruct C as [C1 [C2 C3]]. repeat split; auto. intros Hy. apply in_or_app; auto.
    + specialize (IHb _ _ s x Eb).
      destruct (evali t1_2 s x) as [[[e1 l1] x1]|]; destruct (evali b' s x) as [[[e2 l2] x2]|]; try contradiction.
      destruct l2 as [q2|r2 q2 adv2].
      * destruct IHb as [pend [A [B [C E]]]]. exists pend. subst. repeat split; auto.
        destruct l1; [apply in_or_app; auto | destruct E; split; auto; apply in_or_app; auto].
      * destruct IHb as [A [B C]]; subst. repeat split; auto. destruct l1; auto.
        destruct C as [C1 [C2 C3]]. repeat split; auto. intros Hy. apply in_or_app; auto.
Qed.

(** the driver: symbols are fed one after the other; after a yield the caller re-invokes at the
    position the cursor was left at (a non-advancing yield re-dispatches the same symbol, at most K
    times in a row); any other return ends the run.  [None]: a normal form ran out of fuel or the
    retry budget was exceeded (both excluded by the no-spin certificate). *)
Section Run.
Variable m : nfm.
Variable K : nat.

Fixpoint go (s : sym) (cont : nat -> D -> option (list item)) (c : nat) (q : nat) (x : D) {struct c} : option (list item) :=
  match evali (m q s) s x with
  | None => None
  | Some (es, LConsume q', x') => option_map (app es) (cont q' x')
  | Some (es, LRet r q' adv, x') =>
      if is_yield r then
        if adv then option_map (fun t => es ++ IRet r :: t) (cont q' x')
        else match c with
             | O => None
             | S c' => option_map (fun t => es ++ IRet r :: t) (go s cont c' q' x')
             end
      else Some (es ++ [IRet r])
  end.

Fixpoint run (input : list sym) (q : nat) (x : D) {struct input} : option (list item) :=
  match input with
  | [] => Some []
  | s :: rest => go s (run rest) K q x
  end.
End Run.

(** the eager side's run from a relation element *)
Definition run_eager (m1 : nfm) (K : nat) (md : emode) (input : list sym) (q1 : nat) (x1 : D) : option (list item) :=
  match md with
  | EBoth => run m1 K input q1 x1
  | ERet r => if is_yield r then run m1 K input q1 x1 else Some []
  end.
Definition mode_items (md : emode) : list item := match md with EBoth => [] | ERet r => [IRet r] end.

Variable ss : list sym.
Variable m1 m2 : nfm.
Variable R : list rel.
Hypothesis HC : closed ss m1 m2 R = true.

Lemma closed_elem x : In x R -> items_free (r_pend x) = true /\ forall s, In s ss -> step_ok m1 m2 R x s = true.
Proof.
  intros Hin. unfold closed in HC. rewrite forallb_forall in HC. specialize (HC x Hin).
  apply andb_prop in HC as [A B]. split; auto. intros s Hs. rewrite forallb_forall in B. apply B. exact Hs.
Qed.

(** one step of a related pair in mode EBoth *)
Inductive step_case (x : rel) (s : sym) (x1 x2 : D) : Prop :=
| SC_consume e1 e2 q1' q2' x1' x2' pend' :
    evali (m1 (r_q1 x) s) s x1 = Some (e1, LConsume q1', x1') -> evali (m2 (r_q2 x) s) s x2 = Some (e2, LConsume q2', x2') ->
    r_pend x ++ e1 = e2 ++ pend' -> In {| r_mode := EBoth; r_q1 := q1'; r_q2 := q2'; r_pend := pend' |} R ->
    replay pend' s x2' = Some x1' -> step_case x s x1 x2
| SC_early e1 e2 r q1' adv q2' x1' x2' pend' :
    evali (m1 (r_q1 x) s) s x1 = Some (e1, LRet r q1' adv, x1') -> evali (m2 (r_q2 x) s) s x2 = Some (e2, LConsume q2', x2') ->
    ret_may_lead r adv = true ->
    r_pend x ++ e1 = e2 ++ pend' -> In {| r_mode := ERet r; r_q1 := q1'; r_q2 := q2'; r_pend := pend' |} R ->
    replay pend' s x2' = Some x1' -> step_case x s x1 x2
| SC_ret e1 e2 r q1' q2' adv x' :
    evali (m1 (r_q1 x) s) s x1 = Some (e1, LRet r q1' adv, x') -> evali (m2 (r_q2 x) s) s x2 = Some (e2, LRet r q2' adv, x') ->
    r_pend x ++ e1 = e2 ->
    (is_yield r = true -> In {| r_mode := EBoth; r_q1 := q1'; r_q2 := q2'; r_pend := [] |} R) -> step_case x s x1 x2.

Lemma step_both x s x1 x2 s0 : In x R -> r_mode x = EBoth -> In s ss -> replay (r_pend x) s0 x2 = Some x1 ->
  evali (m1 (r_q1 x) s) s x1 <> None -> evali (m2 (r_q2 x) s) s x2 <> None -> step_case x s x1 x2.
Proof.
  intros Hin Em Hs HP N1 N2. destruct (closed_elem x Hin) as [HF HSt]. specialize (HSt s Hs). unfold step_ok in HSt.
  destruct (consume_pend (r_pend x) (m2 (r_q2 x) s)) as [t2'|] eqn:EC; try discriminate.
  rewrite (replay_free _ HF s0 s x2) in HP.
  pose proof (consume_pend_sem _ _ _ s x2 x1 EC HP) as CS. rewrite Em in HSt.
  destruct (lock (m1 (r_q1 x) s) t2') as [succs|] eqn:EL; try discriminate.
  pose proof (lock_sem _ _ _ s x1 EL) as LS. rewrite forallb_forall in HSt.
  destruct (evali (m1 (r_q1 x) s) s x1) as [[[e1 l1] x1']|] eqn:E1v; try contradiction.
  destruct (evali t2' s x1) as [[[e2 l2] x2']|]; try contradiction.
  destruct l2 as [q2'|r2 q2' adv2].
  - destruct LS as [pend' [A [F [G1 LS]]]]. subst e1. destruct l1 as [q1'|r1 q1' adv1].
    + apply HSt in LS. apply memr_in in LS.
      apply (SC_consume x s x1 x2 (e2 ++ pend') (r_pend x ++ e2) q1' q2' x1' x2' pend'); auto.
      rewrite app_assoc. reflexivity.
    + destruct LS as [Hl LS]. apply HSt in LS. apply memr_in in LS.
      apply (SC_early x s x1 x2 (e2 ++ pend') (r_pend x ++ e2) r1 q1' adv1 q2' x1' x2' pend'); auto.
      rewrite app_assoc. reflexivity.
  - destruct LS as [A [B LS]]. subst e1 x1'. destruct l1 as [q1'|r1 q1' adv1]; try contradiction.
    destruct LS as [L1 [L2 L3]]. subst r1 adv1.
    apply (SC_ret x s x1 x2 e2 (r_pend x ++ e2) r2 q1' q2' adv2 x2'); auto.
    intros Hy. specialize (L3 Hy). apply HSt in L3. apply memr_in in L3. exact L3.
Qed.

Lemma step_ret x r s x1 x2 s0 : In x R -> r_mode x = ERet r -> In s ss -> replay (r_pend x) s0 x2 = Some x1 ->
  evali (m2 (r_q2 x) s) s x2 <> None ->
  exists q2', evali (m2 (r_q2 x) s) s x2 = Some (r_pend x, LRet r q2' false, x1) /\
              (is_yield r = true -> In {| r_mode := EBoth; r_q1 := r_q1 x; r_q2 := q2'; r_pend := [] |} R).
Proof.
  intros Hin Em Hs HP N2. destruct (closed_elem x Hin) as [HF HSt]. specialize (HSt s Hs). unfold step_ok in HSt.
  destruct (consume_pend (r_pend x) (m2 (r_q2 x) s)) as [t2'|] eqn:EC; try discriminate.
  rewrite (replay_free _ HF s0 s x2) in HP.
  pose proof (consume_pend_sem _ _ _ s x2 x1 EC HP) as CS. rewrite Em in HSt.
  destruct t2' as [l2| | |]; try discriminate. destruct l2 as [|r2 q2' adv2]; try discriminate. destruct adv2; try discriminate.
  apply andb_prop in HSt as [Hr Hy]. apply res_eqb_ok in Hr. subst r2.
  cbn [evali] in CS. exists q2'. rewrite app_nil_r in CS. split; auto.
  intros Y. rewrite Y in Hy. apply memr_in in Hy. exact Hy.
Qed.

(** the statement proved by induction: for a related pair whose data are linked by the pending items,
    whatever the two runs produce, the eager trace (prefixed by what it had already done) equals the
    lazy trace followed by a tail of items the eager side is still ahead by *)
Definition related_runs (K1 K2 : nat) (input : list sym) : Prop :=
  forall x, In x R -> forall x1 x2 s0, replay (r_pend x) s0 x2 = Some x1 ->
  forall tr1 tr2, run_eager m1 K1 (r_mode x) input (r_q1 x) x1 = Some tr1 -> run m2 K2 input (r_q2 x) x2 = Some tr2 ->
  exists tail, r_pend x ++ mode_items (r_mode x) ++ tr1 = tr2 ++ tail.

Definition go_eager (K1 : nat) (s : sym) (rest : list sym) (md : emode) (c1 : nat) (q1 : nat) (x1 : D) : option (list item) :=
  match md with
  | EBoth => go m1 s (run m1 K1 rest) c1 q1 x1
  | ERet r => if is_yield r then go m1 s (run m1 K1 rest) c1 q1 x1 else Some []
  end.

Lemma go_some_eval m s cont c q x tr : go m s cont c q x = Some tr -> evali (m q s) s x <> None.
Proof. destruct c; cbn [go]; destruct (evali (m q s) s x); congruence. Qed.

Lemma go_consume m s cont c q x es q' x' : evali (m q s) s x = Some (es, LConsume q', x') ->
  go m s cont c q x = option_map (app es) (cont q' x').
Proof. intros E. destruct c; cbn [go]; rewrite E; reflexivity. Qed.
Lemma go_ret_term m s cont c q x es r q' adv x' : evali (m q s) s x = Some (es, LRet r q' adv, x') -> is_yield r = false ->
  go m s cont c q x = Some (es ++ [IRet r]).
Proof. intros E Y. destruct c; cbn [go]; rewrite E, Y; reflexivity. Qed.
Lemma go_ret_yield_adv m s cont c q x es r q' x' : evali (m q s) s x = Some (es, LRet r q' true, x') -> is_yield r = true ->
  go m s cont c q x = option_map (fun t => es ++ IRet r :: t) (cont q' x').
Proof. intros E Y. destruct c; cbn [go]; rewrite E, Y; reflexivity. Qed.
Lemma go_ret_yield_stay m s cont c q x es r q' x' : evali (m q s) s x = Some (es, LRet r q' false, x') -> is_yield r = true ->
  go m s cont c q x = match c with O => None | S c' => option_map (fun t => es ++ IRet r :: t) (go m s cont c' q' x') end.
Proof. intros E Y. destruct c; cbn [go]; rewrite E, Y; reflexivity. Qed.

Theorem bbisim_sound : forall K1 K2 input, (forall s, In s input -> In s ss) -> related_runs K1 K2 input.
Proof.
  intros K1 K2. induction input as [|s rest IH]; intros Hs x Hin x1 x2 s0 HP tr1 tr2 H1 H2.
  - cbn [run] in H2. inversion H2; subst. cbn [app]. eexists; reflexivity.
  - assert (Hrest : forall s', In s' rest -> In s' ss) by (intros; apply Hs; right; auto).
    specialize (IH Hrest). assert (Hs0 : In s ss) by (apply Hs; left; auto).
    cbn [run] in H2.
    assert (G : forall c2 c1 x, In x R -> forall x1 x2 s0, replay (r_pend x) s0 x2 = Some x1 ->
       forall tr1 tr2, go_eager K1 s rest (r_mode x) c1 (r_q1 x) x1 = Some tr1 ->
       go m2 s (run m2 K2 rest) c2 (r_q2 x) x2 = Some tr2 ->
       exists tail, r_pend x ++ mode_items (r_mode x) ++ tr1 = tr2 ++ tail).
    { clear x Hin x1 x2 s0 HP tr1 tr2 H1 H2.
      induction c2 as [c2 IHc] using lt_wf_ind. intros c1 x Hin x1 x2 s0 HP tr1 tr2 H1 H2.
      destruct (r_mode x) as [|r] eqn:Em; cbn [go_eager mode_items] in *.
      - (* mode EBoth *)
        pose proof (step_both x s x1 x2 s0 Hin Em Hs0 HP (go_some_eval _ _ _ _ _ _ _ H1) (go_some_eval _ _ _ _ _ _ _ H2)) as SC.
        destruct SC as [e1 e2 q1' q2' x1' x2' pend' E1 E2 Heq HR HP' | e1 e2 r q1' adv q2' x1' x2' pend' E1 E2 Hl Heq HR HP' | e1 e2 r q1' q2' adv x' E1 E2 Heq HY].
        + (* both consume *)
          rewrite (go_consume _ _ _ _ _ _ _ _ _ E1) in H1. rewrite (go_consume _ _ _ _ _ _ _ _ _ E2) in H2.
          destruct (run m1 K1 rest q1' x1') as [t1|] eqn:R1; cbn [option_map] in H1; try discriminate.
          destruct (run m2 K2 rest q2' x2') as [t2|] eqn:R2; cbn [option_map] in H2; try discriminate.
          inversion H1; inversion H2; subst.
          destruct (IH _ HR x1' x2' s HP' t1 t2 R1 R2) as [tail Ht].
          cbn [r_pend r_mode mode_items app] in Ht. exists tail. cbn [app].
          rewrite app_assoc, Heq, <- !app_assoc, Ht. reflexivity.
        + (* the eager side returns early, the lazy side consumes *)
          rewrite (go_consume _ _ _ _ _ _ _ _ _ E2) in H2.
          destruct (run m2 K2 rest q2' x2') as [t2|] eqn:R2; cbn [option_map] in H2; try discriminate. inversion H2; subst.
          assert (Ht1 : exists t1, tr1 = e1 ++ IRet r :: t1 /\ run_eager m1 K1 (ERet r) rest q1' x1' = Some t1).
          { unfold run_eager. destruct (is_yield r) eqn:Ey.
            - destruct r; try discriminate. cbn in Hl. subst adv.
              rewrite (go_ret_yield_adv _ _ _ _ _ _ _ _ _ _ E1 Ey) in H1.
              destruct (run m1 K1 rest q1' x1') as [t1|]; cbn [option_map] in H1; try discriminate. inversion H1; subst. eexists; split; reflexivity.
            - rewrite (go_ret_term _ _ _ _ _ _ _ _ _ _ _ E1 Ey) in H1. inversion H1; subst. exists []. split; reflexivity. }
          destruct Ht1 as [t1 [-> R1]].
          destruct (IH _ HR x1' x2' s HP' t1 t2 R1 R2) as [tail Ht].
          cbn [r_pend r_mode mode_items app] in Ht. exists tail. cbn [app].
          rewrite app_assoc, Heq, <- !app_assoc. f_equal. exact Ht.
        + (* both return *)
          subst e2. destruct (is_yield r) eqn:Ey.
          * destruct adv.
            -- rewrite (go_ret_yield_adv _ _ _ _ _ _ _ _ _ _ E1 Ey) in H1. rewrite (go_ret_yield_adv _ _ _ _ _ _ _ _ _ _ E2 Ey) in H2.
               destruct (run m1 K1 rest q1' x') as [t1|] eqn:R1; cbn [option_map] in H1; try discriminate.
               destruct (run m2 K2 rest q2' x') as [t2|] eqn:R2; cbn [option_map] in H2; try discriminate.
               inversion H1; inversion H2; subst.
               destruct (IH _ (HY eq_refl) x' x' s eq_refl t1 t2 R1 R2) as [tail Ht].
               cbn [r_pend r_mode mode_items app] in Ht. exists tail. cbn [app].
               rewrite <- !app_assoc. f_equal. f_equal. cbn [app]. f_equal. exact Ht.
            -- (* both yield without advancing: both retry the same symbol *)
               rewrite (go_ret_yield_stay _ _ _ _ _ _ _ _ _ _ E1 Ey) in H1. rewrite (go_ret_yield_stay _ _ _ _ _ _ _ _ _ _ E2 Ey) in H2.
               destruct c1 as [|c1']; [discriminate|]. destruct c2 as [|c2']; [discriminate|].
               destruct (go m1 s (run m1 K1 rest) c1' q1' x') as [t1|] eqn:R1; cbn [option_map] in H1; try discriminate.
               destruct (go m2 s (run m2 K2 rest) c2' q2' x') as [t2|] eqn:R2; cbn [option_map] in H2; try discriminate.
               inversion H1; inversion H2; subst.
               destruct (IHc c2' ltac:(lia) c1' _ (HY eq_refl) x' x' s eq_refl t1 t2) as [tail Ht]; [cbn; exact R1 | exact R2 |].
               cbn [r_pend r_mode mode_items app] in Ht. exists tail. cbn [app].
               rewrite <- !app_assoc. f_equal. f_equal. cbn [app]. f_equal. exact Ht.
          * rewrite (go_ret_term _ _ _ _ _ _ _ _ _ _ _ E1 Ey) in H1. rewrite (go_ret_term _ _ _ _ _ _ _ _ _ _ _ E2 Ey) in H2.
            inversion H1; inversion H2; subst. exists []. cbn [app]. rewrite app_nil_r, app_assoc. reflexivity.
      - (* mode ERet: the lazy side catches up and, after a yield, retries the same symbol *)
        destruct (step_ret x r s x1 x2 s0 Hin Em Hs0 HP (go_some_eval _ _ _ _ _ _ _ H2)) as [q2' [E2 HY]].
        destruct (is_yield r) eqn:Ey.
        + rewrite (go_ret_yield_stay _ _ _ _ _ _ _ _ _ _ E2 Ey) in H2. destruct c2 as [|c2']; [discriminate|].
          destruct (go m2 s (run m2 K2 rest) c2' q2' x1) as [t2|] eqn:R2; cbn [option_map] in H2; try discriminate. inversion H2; subst.
          destruct (IHc c2' ltac:(lia) c1 _ (HY eq_refl) x1 x1 s eq_refl tr1 t2) as [tail Ht]; [cbn; exact H1 | exact R2 |].
          cbn [r_pend r_mode mode_items app] in Ht. exists tail. cbn [app].
          rewrite <- !app_assoc. f_equal. cbn [app]. f_equal. exact Ht.
        + rewrite (go_ret_term _ _ _ _ _ _ _ _ _ _ _ E2 Ey) in H2.
          inversion H1; inversion H2; subst. exists []. cbn [app]. rewrite !app_nil_r. reflexivity. }
    apply (G K2 K1 x Hin x1 x2 s0 HP tr1 tr2); auto.
Qed.
End Check.
