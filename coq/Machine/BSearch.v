(** Untrusted worklist search producing the relation certified by BBisim.closed, and the packaged
    certificate for two exported machines. *)
From Coq Require Import NArith Arith List Bool.
Import ListNotations.
From NV Require Import Machine.Dfa Machine.Sem Machine.NoSpin Machine.Bisim Machine.BBisim.

Definition in_ids (l : list N) (p : N) : bool := existsb (N.eqb p) l.

Record bfail := { bf_elem : rel; bf_sym : sym; bf_parents : list (rel * rel * sym) }.

Section S.
Variable fp ft : list N.       (* ids of byte-independent primitives / tests *)
Variable ss : list sym.        (* the symbols the parsers are ever given *)
Variable m1 m2 : nfm.

Definition step_succs (x : rel) (s : sym) : option (list rel) :=
  match consume_pend (r_pend x) (m2 (r_q2 x) s) with
  | None => None
  | Some t2' =>
    match r_mode x with
    | EBoth => lock (in_ids fp) (in_ids ft) (m1 (r_q1 x) s) t2'
    | ERet r =>
        match t2' with
        | Leaf (LRet r2 q2' false) =>
            if res_eqb r r2 then Some (if is_yield r then [{| r_mode := EBoth; r_q1 := r_q1 x; r_q2 := q2'; r_pend := [] |}] else [])
            else None
        | _ => None end
    end
  end.

Fixpoint elem_succs (x : rel) (syms : list sym) (acc : list (rel * sym)) : (list (rel * sym)) + sym :=
  match syms with
  | [] => inl acc
  | s :: r => match step_succs x s with
              | Some l => elem_succs x r (map (fun y => (y, s)) l ++ acc)
              | None => inr s end
  end.

Record sstate := { s_todo : list rel; s_R : list rel; s_par : list (rel * rel * sym) }.

Definition sstep (st : sstate) : sstate + ((list rel) + bfail) :=
  match s_todo st with
  | [] => inr (inl (s_R st))
  | x :: rest =>
    if memr x (s_R st) then inl {| s_todo := rest; s_R := s_R st; s_par := s_par st |}
    else if negb (items_free (in_ids fp) (in_ids ft) (r_pend x)) then inr (inr {| bf_elem := x; bf_sym := 998%N; bf_parents := s_par st |})
    else match elem_succs x ss [] with
         | inr s => inr (inr {| bf_elem := x; bf_sym := s; bf_parents := s_par st |})
         | inl l =>
             let new := filter (fun y => negb (memr (fst y) (x :: s_R st))) l in
             inl {| s_todo := map fst new ++ rest; s_R := x :: s_R st; s_par := map (fun y => (fst y, x, snd y)) new ++ s_par st |}
         end
  end.

Fixpoint sloop (fuel : positive) (st : sstate) : sstate + ((list rel) + bfail) :=
  match fuel with
  | xH => sstep st
  | xO f => match sloop f st with inl st' => sloop f st' | inr r => inr r end
  | xI f => match sstep st with
            | inl st1 => match sloop f st1 with inl st' => sloop f st' | inr r => inr r end
            | inr r => inr r end
  end.
End S.

Definition start_rel (d1 d2 : dfa) : rel := {| r_mode := EBoth; r_q1 := d_start d1; r_q2 := d_start d2; r_pend := [] |}.

Definition dfa_ssearch_on (fp ft : list N) (ss : list sym) (d1 d2 : dfa) : (list rel) + bfail :=
  match sloop fp ft ss (step_tree d1) (step_tree d2) (Pos.shiftl 1 40)
              {| s_todo := [start_rel d1 d2]; s_R := []; s_par := [] |} with
  | inr r => r
  | inl st => inr {| bf_elem := start_rel d1 d2; bf_sym := 999%N; bf_parents := s_par st |}
  end.

(** the certificate: d1 is the eager (short-circuited) machine, d2 the lazy one; [eof]: the parsers have an end()
    function, so the end-of-input symbol is one of the symbols they are given *)
Definition dfa_slack_check_on (fp ft : list N) (ss : list sym) (d1 d2 : dfa) (R : list rel) : bool :=
  memr (start_rel d1 d2) R && closed (in_ids fp) (in_ids ft) ss (step_tree d1) (step_tree d2) R.

Definition dfa_slack_cert_on (fp ft : list N) (eof : bool) (d1 d2 : dfa) : bool :=
  match dfa_ssearch_on fp ft (syms_for eof) d1 d2 with inl R => dfa_slack_check_on fp ft (syms_for eof) d1 d2 R | inr _ => false end.

Definition dfa_slack_run_on (fp ft : list N) (eof : bool) (d1 d2 : dfa) : bool + bfail :=
  match dfa_ssearch_on fp ft (syms_for eof) d1 d2 with inl R => inl (dfa_slack_check_on fp ft (syms_for eof) d1 d2 R) | inr f => inr f end.

Definition dfa_slack_cert (fp ft : list N) (d1 d2 : dfa) : bool := dfa_slack_cert_on fp ft true d1 d2.
Definition dfa_slack_run (fp ft : list N) (d1 d2 : dfa) : bool + bfail := dfa_slack_run_on fp ft true d1 d2.

(** soundness, instantiated: for every data semantics in which the flagged primitives and tests do not
    look at the current byte, on every input over the symbols the parsers are given, the un-timed traces agree up to
    a tail the eager machine is still ahead by (empty whenever both have caught up) *)
Lemma slack_check_generic fp ft ss d1 d2 (X : (list rel) + bfail) :
  (match X with inl R => dfa_slack_check_on fp ft ss d1 d2 R | inr _ => false end) = true ->
  forall D exec evalt,
  (forall p s s' x, in_ids fp p = true -> exec p s x = exec p s' x) ->
  (forall t s s' x, in_ids ft t = true -> evalt t s x = evalt t s' x) ->
  forall K1 K2 input, (forall s, In s input -> In s ss) -> forall x tr1 tr2,
  run D exec evalt (step_tree d1) K1 input (d_start d1) x = Some tr1 ->
  run D exec evalt (step_tree d2) K2 input (d_start d2) x = Some tr2 ->
  exists tail, tr1 = tr2 ++ tail.
Proof.
  destruct X as [R|f]; [|discriminate].
  unfold dfa_slack_check_on. intros H. apply andb_prop in H as [Hs Hc]. apply memr_in in Hs.
  intros D exec evalt Hp Ht K1 K2 input Hi x tr1 tr2 H1 H2.
  pose proof (bbisim_sound (in_ids fp) (in_ids ft) D exec evalt Hp Ht ss (step_tree d1) (step_tree d2) R Hc K1 K2 input Hi
                (start_rel d1 d2) Hs x x 0%N eq_refl tr1 tr2 H1 H2) as [tail Ht'].
  exists tail. exact Ht'.
Qed.

Theorem dfa_slack_cert_on_sound fp ft eof d1 d2 : dfa_slack_cert_on fp ft eof d1 d2 = true ->
  forall D exec evalt,
  (forall p s s' x, in_ids fp p = true -> exec p s x = exec p s' x) ->
  (forall t s s' x, in_ids ft t = true -> evalt t s x = evalt t s' x) ->
  forall K1 K2 input, (forall s, In s input -> In s (syms_for eof)) -> forall x tr1 tr2,
  run D exec evalt (step_tree d1) K1 input (d_start d1) x = Some tr1 ->
  run D exec evalt (step_tree d2) K2 input (d_start d2) x = Some tr2 ->
  exists tail, tr1 = tr2 ++ tail.
Proof. exact (slack_check_generic fp ft (syms_for eof) d1 d2 (dfa_ssearch_on fp ft (syms_for eof) d1 d2)). Qed.

(** soundness, instantiated: for every data semantics in which the flagged primitives and tests do not
    look at the current byte, on every input, the un-timed traces agree up to a tail the eager machine is
    still ahead by (empty whenever both have caught up) *)
Theorem dfa_slack_cert_sound fp ft d1 d2 : dfa_slack_cert fp ft d1 d2 = true ->
  forall D exec evalt,
  (forall p s s' x, in_ids fp p = true -> exec p s x = exec p s' x) ->
  (forall t s s' x, in_ids ft t = true -> evalt t s x = evalt t s' x) ->
  forall K1 K2 input, (forall s, In s input -> (s <= 256)%N) -> forall x tr1 tr2,
  run D exec evalt (step_tree d1) K1 input (d_start d1) x = Some tr1 ->
  run D exec evalt (step_tree d2) K2 input (d_start d2) x = Some tr2 ->
  exists tail, tr1 = tr2 ++ tail.
Proof.
  unfold dfa_slack_cert. intros H D exec evalt Hp Ht K1 K2 input Hi.
  assert (Hi' : forall s, In s input -> In s (syms_for true)) by (intros s Hin; apply in_all_syms; apply Hi; exact Hin).
  exact (dfa_slack_cert_on_sound fp ft true d1 d2 H D exec evalt Hp Ht K1 K2 input Hi').
Qed.
Print Assumptions dfa_slack_cert_sound.
