(** Strict bisimulation certificates (DESIGN.md section 4): [closed m1 m2 R = true] for a candidate
    relation R found by an untrusted search implies equal observations on every input, under every
    data semantics.  Used by C05 (levels without short-circuiting), C13, C20. *)
From Coq Require Import NArith Arith List Bool Lia.
Import ListNotations.
From NV Require Import Machine.Dfa Machine.Sem Machine.NoSpin.

Definition nfm := nat -> sym -> tree.

Definition continues (r : res) : bool := match r with ROk | RYield _ => true | _ => false end.

(** syntactic matching of two step trees, producing the successor pairs that must again be related *)
Fixpoint tmatch (t1 t2 : tree) : option (list (nat * nat)) :=
  match t1, t2 with
  | Leaf (LConsume a), Leaf (LConsume b) => Some [(a, b)]
  | Leaf (LRet r1 a x), Leaf (LRet r2 b y) =>
      if res_eqb r1 r2 && Bool.eqb x y then Some (if continues r1 then [(a, b)] else []) else None
  | Act p k, Act p' k' => if N.eqb p p' then tmatch k k' else None
  | Test c a b, Test c' a' b' =>
      if N.eqb c c' then
        match tmatch a a', tmatch b b' with Some x, Some y => Some (x ++ y) | _, _ => None end
      else None
  | _, _ => None
  end.

Definition pair_eqb (a b : nat * nat) := Nat.eqb (fst a) (fst b) && Nat.eqb (snd a) (snd b).
Definition memp (p : nat * nat) (R : list (nat * nat)) := existsb (pair_eqb p) R.
Lemma memp_in p R : memp p R = true -> In p R.
Proof.
  unfold memp. rewrite existsb_exists. intros [x [Hx He]]. unfold pair_eqb in He.
  apply andb_prop in He as [A B]. apply Nat.eqb_eq in A, B. destruct p, x; simpl in *; subst; auto.
Qed.

(** closed under the steps on the symbols of [ss] (all 257 symbols, or the 256 bytes for parsers without end()) *)
Definition closed_on (ss : list sym) (m1 m2 : nfm) (R : list (nat * nat)) : bool :=
  forallb (fun pq => forallb (fun s =>
     match tmatch (m1 (fst pq) s) (m2 (snd pq) s) with
     | Some succs => forallb (fun p => memp p R) succs
     | None => false end) ss) R.
Definition closed : nfm -> nfm -> list (nat * nat) -> bool := closed_on all_syms.

Section Sound.
Variable D : Type.
Variable exec : pid -> sym -> D -> D.
Variable evalt : tid -> sym -> D -> bool.

Inductive oev := OEv (e : ev) | OConsume (s : sym) | ORet (r : res) (adv : bool).

(** the documented driver: feed symbols one after the other; after a result that lets the parse
    continue (OK without consuming, or a yield) re-invoke at the position the cursor was left at.
    [n] bounds the number of steps (both machines are truncated at the same step). *)
Fixpoint run (m : nfm) (n : nat) (q : nat) (input : list sym) (x : D) : option (list oev) :=
  match n with
  | O => Some []
  | S n' =>
    match input with
    | [] => Some []
    | s :: rest =>
      match eval D exec evalt (m q s) s x with
      | None => None
      | Some (es, LConsume q', x') =>
          match run m n' q' rest x' with Some t => Some (map OEv es ++ OConsume s :: t) | None => None end
      | Some (es, LRet r q' adv, x') =>
          if continues r
          then match run m n' q' (if adv then rest else input) x' with
               | Some t => Some (map OEv es ++ ORet r adv :: t) | None => None end
          else Some (map OEv es ++ [ORet r adv])
      end
    end
  end.

Lemma tmatch_eval : forall t1 t2 succs s x,
  tmatch t1 t2 = Some succs ->
  match eval D exec evalt t1 s x, eval D exec evalt t2 s x with
  | Some (e1, l1, x1), Some (e2, l2, x2) => e1 = e2 /\ x1 = x2 /\
       match l1, l2 with
       | LConsume a, LConsume b => In (a, b) succs
       | LRet r1 a y1, LRet r2 b y2 => r1 = r2 /\ y1 = y2 /\ (continues r1 = true -> In (a, b) succs)
       | _, _ => False end
  | _, _ => False end.
Proof.
  induction t1 as [l1|p k IH|c a IHa b IHb|]; intros t2 succs s x H;
    destruct t2 as [l2|p' k'|c' a' b'|]; cbn [tmatch] in H; try discriminate; try (destruct l1; discriminate).
  - destruct l1 as [q1|r1 q1 y1], l2 as [q2|r2 q2 y2]; try discriminate; cbn [eval].
    + inversion H; subst. repeat split; auto. left; auto.
    + destruct (res_eqb r1 r2) eqn:E; cbn [andb] in H; try discriminate.
      destruct (Bool.eqb y1 y2) eqn:E2; try discriminate.
      apply res_eqb_ok in E. apply Bool.eqb_prop in E2. subst. inversion H; subst.
      repeat split; auto. intros Hc. rewrite Hc. left; auto.
  - destruct (N.eqb p p') eqn:E; try discriminate. apply N.eqb_eq in E; subst.
    cbn [eval]. specialize (IH k' succs s (exec p' s x) H).
    destruct (eval D exec evalt k s (exec p' s x)) as [[[e1 l1] x1]|];
      destruct (eval D exec evalt k' s (exec p' s x)) as [[[e2 l2] x2]|]; try contradiction.
    destruct IH as [? [? ?]]; subst; auto.
  - destruct (N.eqb c c') eqn:E; try discriminate. apply N.eqb_eq in E; subst.
    destruct (tmatch a a') as [u|] eqn:Ea; try discriminate. destruct (tmatch b b') as [v|] eqn:Eb; try discriminate.
    inversion H; subst. cbn [eval]. destruct (evalt c' s x).
    + specialize (IHa a' u s x Ea).
      destruct (eval D exec evalt a s x) as [[[e1 l1] x1]|]; destruct (eval D exec evalt a' s x) as [[[e2 l2] x2]|]; try contradiction.
      destruct IHa as [? [? HL]]; subst. repeat split; auto.
      destruct l1, l2; auto. { apply in_or_app; auto. } destruct HL as [? [? HL]]. repeat split; auto. intros Hc. apply in_or_app; auto.
    + specialize (IHb b' v s x Eb).
      destruct (eval D exec evalt b s x) as [[[e1 l1] x1]|]; destruct (eval D exec evalt b' s x) as [[[e2 l2] x2]|]; try contradiction.
      destruct IHb as [? [? HL]]; subst. repeat split; auto.
      destruct l1, l2; auto. { apply in_or_app; auto. } destruct HL as [? [? HL]]. repeat split; auto. intros Hc. apply in_or_app; auto.
Qed.

Theorem bisim_strict_sound_on : forall ss m1 m2 R, closed_on ss m1 m2 R = true ->
  forall n input, (forall s, In s input -> In s ss) ->
  forall q1 q2 x, In (q1, q2) R ->
  match run m1 n q1 input x, run m2 n q2 input x with
  | Some a, Some b => a = b
  | _, _ => False end.
Proof.
  intros ss m1 m2 R HC. induction n as [|n IH]; intros input Hs q1 q2 x HR; cbn [run]; auto.
  destruct input as [|s rest]; auto.
  unfold closed_on in HC. rewrite forallb_forall in HC. pose proof (HC _ HR) as HX. cbn [fst snd] in HX.
  rewrite forallb_forall in HX. specialize (HX s (Hs s (or_introl eq_refl))).
  destruct (tmatch (m1 q1 s) (m2 q2 s)) as [succs|] eqn:E; try discriminate.
  pose proof (tmatch_eval _ _ _ s x E) as H.
  destruct (eval D exec evalt (m1 q1 s) s x) as [[[e1 l1] x1]|]; destruct (eval D exec evalt (m2 q2 s) s x) as [[[e2 l2] x2]|]; try contradiction.
  destruct H as [? [? H]]; subst. rewrite forallb_forall in HX.
  destruct l1 as [a|r1 a y1], l2 as [b|r2 b y2]; try contradiction.
  - apply HX in H. apply memp_in in H.
    assert (Hs' : forall s0, In s0 rest -> In s0 ss) by (intros; apply Hs; right; auto).
    specialize (IH rest Hs' a b x2 H).
    destruct (run m1 n a rest x2), (run m2 n b rest x2); try contradiction. subst; auto.
  - destruct H as [? [? H]]; subst. destruct (continues r2) eqn:Ec; auto.
    specialize (H eq_refl). apply HX in H. apply memp_in in H.
    destruct y2.
    + assert (Hs' : forall s0, In s0 rest -> In s0 ss) by (intros; apply Hs; right; auto).
      specialize (IH rest Hs' a b x2 H).
      destruct (run m1 n a rest x2), (run m2 n b rest x2); try contradiction. subst; auto.
    + specialize (IH (s :: rest) Hs a b x2 H).
      destruct (run m1 n a (s :: rest) x2), (run m2 n b (s :: rest) x2); try contradiction. subst; auto.
Qed.

Theorem bisim_strict_sound : forall m1 m2 R, closed m1 m2 R = true ->
  forall n input, (forall s, In s input -> (s <= 256)%N) ->
  forall q1 q2 x, In (q1, q2) R ->
  match run m1 n q1 input x, run m2 n q2 input x with
  | Some a, Some b => a = b
  | _, _ => False end.
Proof.
  intros m1 m2 R HC n input Hs. apply (bisim_strict_sound_on all_syms m1 m2 R HC n input).
  intros s Hin. apply in_all_syms. apply Hs. exact Hin.
Qed.
End Sound.

(** the instance used by the checks: two exported machines, from their start states *)
Definition dfa_bisim_check_on (ss : list sym) (d1 d2 : dfa) (R : list (nat * nat)) : bool :=
  memp (d_start d1, d_start d2) R && closed_on ss (step_tree d1) (step_tree d2) R.
Definition dfa_bisim_check : dfa -> dfa -> list (nat * nat) -> bool := dfa_bisim_check_on all_syms.

Theorem dfa_bisim_sound_on ss d1 d2 R : dfa_bisim_check_on ss d1 d2 R = true ->
  forall D exec evalt n input, (forall s, In s input -> In s ss) -> forall x,
  match run D exec evalt (step_tree d1) n (d_start d1) input x, run D exec evalt (step_tree d2) n (d_start d2) input x with
  | Some a, Some b => a = b
  | _, _ => False end.
Proof.
  intros H D exec evalt n input Hs x. unfold dfa_bisim_check_on in H. apply andb_prop in H as [H1 H2].
  apply (bisim_strict_sound_on D exec evalt ss _ _ R H2 n input Hs). apply memp_in; auto.
Qed.

Theorem dfa_bisim_sound d1 d2 R : dfa_bisim_check d1 d2 R = true ->
  forall D exec evalt n input, (forall s, In s input -> (s <= 256)%N) -> forall x,
  match run D exec evalt (step_tree d1) n (d_start d1) input x, run D exec evalt (step_tree d2) n (d_start d2) input x with
  | Some a, Some b => a = b
  | _, _ => False end.
Proof.
  intros H D exec evalt n input Hs x. apply (dfa_bisim_sound_on all_syms d1 d2 R H D exec evalt n input).
  intros s Hin. apply in_all_syms. apply Hs. exact Hin.
Qed.
