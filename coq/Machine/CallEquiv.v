(** C05 / C12 / C13 / C20 at the level of the caller: an equivalence certificate between two compiled machines
    (two optimisation levels, two option sets, a macro program and its expansion, two compilations of the same
    source) speaks about the symbol-by-symbol runs; a caller has feed / end and cuts the input into chunks as it
    likes.  Here the two are joined: whatever chunking each caller chooses, the two callers observe the same trace
    (strict certificate), or the same trace up to the tail the eager machine is still ahead by (slack certificate). *)
From Coq Require Import NArith Arith List Bool Lia.
Import ListNotations.
From NV Require Import Machine.Dfa Machine.Sem Machine.NoSpin Machine.Bisim Machine.Search Machine.BBisim Machine.BSearch
                       Machine.Chunk Machine.Drive Machine.DriveChunks.

Lemma in_data_syms s : (s < 256)%N -> In s data_syms.
Proof.
  intros H. unfold data_syms. apply in_map_iff. exists (N.to_nat s). split; [apply N2Nat.id|].
  apply in_seq. lia.
Qed.

Lemma bytes_in_syms eof (bs : list N) : Forall (fun b => (b < 256)%N) bs -> forall s, In s bs -> In s (syms_for eof).
Proof.
  intros Hb s Hin. rewrite Forall_forall in Hb. specialize (Hb s Hin). cbn beta in Hb.
  destruct eof; cbn [syms_for]; [apply in_all_syms; lia|apply in_data_syms; exact Hb].
Qed.

Section CallEquiv.
Variable D : Type.
Variable exec : pid -> sym -> D -> D.
Variable evalt : tid -> sym -> D -> bool.

(** two compiled machines carrying a slack certificate, two callers, two chunkings of the same bytes *)
Theorem callers_agree_up_to_slack fp ft eof d1 d2 :
  dfa_slack_cert_on fp ft eof d1 d2 = true -> dfa_wf d1 = true -> dfa_wf d2 = true ->
  (forall p s s' x, in_ids fp p = true -> exec p s x = exec p s' x) ->
  (forall t s s' x, in_ids ft t = true -> evalt t s x = evalt t s' x) ->
  forall f1 f2 cs1 cs2, concat cs1 = concat cs2 -> Forall (fun b => (b < 256)%N) (concat cs1) ->
  forall x tr1 tr2,
  drive_chunks D exec evalt d1 f1 cs1 (d_start d1) x = Some tr1 ->
  drive_chunks D exec evalt d2 f2 cs2 (d_start d2) x = Some tr2 ->
  exists tail, tr1 = tr2 ++ tail.
Proof.
  intros Hc Hw1 Hw2 Hp Ht f1 f2 cs1 cs2 Hcat Hb x tr1 tr2 H1 H2.
  pose proof (drive_chunks_run D exec evalt d1 Hw1 f1 f1 (le_n _) cs1 _ _ _ H1) as R1.
  pose proof (drive_chunks_run D exec evalt d2 Hw2 f2 f2 (le_n _) cs2 _ _ _ H2) as R2.
  rewrite <- Hcat in R2.
  exact (dfa_slack_cert_on_sound fp ft eof d1 d2 Hc D exec evalt Hp Ht f1 f2 (concat cs1) (bytes_in_syms eof _ Hb) x tr1 tr2 R1 R2).
Qed.

(** the same with end(): both callers finish by calling end() (and again after every yield code it returns) *)
Theorem callers_with_end_agree_up_to_slack fp ft d1 d2 :
  dfa_slack_cert_on fp ft true d1 d2 = true -> dfa_wf d1 = true -> dfa_wf d2 = true ->
  (forall p s s' x, in_ids fp p = true -> exec p s x = exec p s' x) ->
  (forall t s s' x, in_ids ft t = true -> evalt t s x = evalt t s' x) ->
  (forall p x, exec p sym_end x = exec p 255%N x) -> (forall t x, evalt t sym_end x = evalt t 255%N x) ->
  forall f1 f2 bs, Forall (fun b => (b < 256)%N) bs ->
  forall x tr1 tr2,
  drive_end D exec evalt d1 f1 f1 bs (d_start d1) x = Some tr1 ->
  drive_end D exec evalt d2 f2 f2 bs (d_start d2) x = Some tr2 ->
  exists tail, tr1 = tr2 ++ tail.
Proof.
  intros Hc Hw1 Hw2 Hp Ht He1 He2 f1 f2 bs Hb x tr1 tr2 H1 H2.
  pose proof (drive_end_run D exec evalt d1 Hw1 He1 He2 f1 bs _ _ _ f1 (le_n _) H1) as R1.
  pose proof (drive_end_run D exec evalt d2 Hw2 He1 He2 f2 bs _ _ _ f2 (le_n _) H2) as R2.
  assert (Hi : forall s, In s (bs ++ [sym_end]) -> In s (syms_for true)).
  { intros s Hin. apply in_app_or in Hin as [Hin|[<-|[]]]; [exact (bytes_in_syms true _ Hb s Hin)|].
    cbn [syms_for]. apply in_all_syms. unfold sym_end. lia. }
  exact (dfa_slack_cert_on_sound fp ft true d1 d2 Hc D exec evalt Hp Ht f1 f2 (bs ++ [sym_end]) Hi x tr1 tr2 R1 R2).
Qed.
End CallEquiv.

(** ** strict certificates: call by call

    A strict certificate (C12 / C13 / C20, and the timing-preserving passes of C05) relates states of two machines.
    From related states every single feed call on the same chunk with the same data returns the same code, consumes
    the same number of bytes, performs the same actions and tests in the same order and leaves the same data - and,
    when the result lets the parse continue (OK or a yield code), related states again.  So a whole history of calls
    chosen by the caller - chunks of any sizes, end() at any point - is observed identically on both parsers up to
    and including the first terminal result. *)
Section Lockstep.
Variable D : Type.
Variable exec : pid -> sym -> D -> D.
Variable evalt : tid -> sym -> D -> bool.
Variable ss : list sym.
Variables d1 d2 : dfa.
Variable R : list (nat * nat).
Hypothesis HC : closed_on ss (step_tree d1) (step_tree d2) R = true.

Lemma related_step q1 q2 s (inval : sym) x : In (q1, q2) R -> In s ss ->
  match eval D exec evalt (step_tree d1 q1 s) inval x, eval D exec evalt (step_tree d2 q2 s) inval x with
  | Some (e1, l1, x1), Some (e2, l2, x2) => e1 = e2 /\ x1 = x2 /\
       match l1, l2 with
       | LConsume a, LConsume b => In (a, b) R
       | LRet r1 a y1, LRet r2 b y2 => r1 = r2 /\ y1 = y2 /\ (continues r1 = true -> In (a, b) R)
       | _, _ => False end
  | _, _ => False end.
Proof.
  intros HR Hs. pose proof HC as HC'. unfold closed_on in HC'. rewrite forallb_forall in HC'.
  pose proof (HC' _ HR) as HX. cbn [fst snd] in HX. rewrite forallb_forall in HX. specialize (HX s Hs).
  destruct (tmatch (step_tree d1 q1 s) (step_tree d2 q2 s)) as [succs|] eqn:E; try discriminate.
  rewrite forallb_forall in HX.
  pose proof (tmatch_eval D exec evalt _ _ _ inval x E) as H.
  destruct (eval D exec evalt (step_tree d1 q1 s) inval x) as [[[e1 l1] x1]|];
    destruct (eval D exec evalt (step_tree d2 q2 s) inval x) as [[[e2 l2] x2]|]; try contradiction.
  destruct H as [He [Hx H]]. split; [exact He|]. split; [exact Hx|].
  destruct l1 as [a|r1 a y1], l2 as [b|r2 b y2]; try contradiction.
  - apply memp_in. apply HX. exact H.
  - destruct H as [Hr [Hy H]]. split; [exact Hr|]. split; [exact Hy|]. intros Hc. apply memp_in. apply HX. apply H. exact Hc.
Qed.

Definition same_result (r1 r2 : fret D) : Prop :=
  f_res D r1 = f_res D r2 /\ f_x D r1 = f_x D r2 /\ f_consumed D r1 = f_consumed D r2 /\ f_evs D r1 = f_evs D r2 /\
  (continues (f_res D r1) = true -> In (f_q D r1, f_q D r2) R).

Theorem feed_go_lockstep : forall bs, (forall s, In s bs -> In s ss) ->
  forall q1 q2 x n acc, In (q1, q2) R ->
  match feed_go D exec evalt d1 bs q1 x n acc, feed_go D exec evalt d2 bs q2 x n acc with
  | Some r1, Some r2 => same_result r1 r2
  | _, _ => False end.
Proof.
  induction bs as [|b bs IH]; intros Hs q1 q2 x n acc HR; cbn [feed_go].
  - unfold same_result; cbn. repeat split; auto.
  - pose proof (related_step q1 q2 b b x HR (Hs b (or_introl eq_refl))) as H.
    destruct (eval D exec evalt (step_tree d1 q1 b) b x) as [[[e1 l1] x1]|];
      destruct (eval D exec evalt (step_tree d2 q2 b) b x) as [[[e2 l2] x2]|]; try contradiction.
    destruct H as [He [Hx H]]. subst e2 x2.
    destruct l1 as [a|r1 a y1], l2 as [c|r2 c y2]; try contradiction.
    + apply IH; [intros s Hin; apply Hs; right; exact Hin|exact H].
    + destruct H as [Hr [Hy H]]. subst r2 y2. unfold same_result; cbn. repeat split; auto.
Qed.

Theorem end_call_lockstep : In sym_end ss ->
  forall q1 q2 x, In (q1, q2) R ->
  match end_call D exec evalt d1 q1 x, end_call D exec evalt d2 q2 x with
  | Some r1, Some r2 => same_result r1 r2
  | None, None => True
  | _, _ => False end.
Proof.
  intros Hend q1 q2 x HR. unfold end_call.
  pose proof (related_step q1 q2 sym_end 255%N x HR Hend) as H.
  destruct (eval D exec evalt (step_tree d1 q1 sym_end) 255%N x) as [[[e1 l1] x1]|];
    destruct (eval D exec evalt (step_tree d2 q2 sym_end) 255%N x) as [[[e2 l2] x2]|]; try contradiction.
  destruct H as [He [Hx H]]. subst e2 x2.
  destruct l1 as [a|r1 a y1], l2 as [c|r2 c y2]; try contradiction; [exact I|].
  destruct H as [Hr [Hy H]]. subst r2 y2. unfold same_result; cbn. repeat split; auto.
Qed.

(** a history of calls chosen by the caller, observed up to and including the first terminal result *)
Inductive call := CFeed (bs : list N) | CEnd.
Definition do_call (d : dfa) (c : call) (q : nat) (x : D) : option (fret D) :=
  match c with CFeed bs => feed_go D exec evalt d bs q x 0 [] | CEnd => end_call D exec evalt d q x end.
Definition obs_of (r : fret D) : res * nat * list ev := (f_res D r, f_consumed D r, f_evs D r).
Fixpoint history (d : dfa) (cs : list call) (q : nat) (x : D) : option (list (res * nat * list ev) * D) :=
  match cs with
  | [] => Some ([], x)
  | c :: rest =>
    match do_call d c q x with
    | None => None
    | Some r =>
      if continues (f_res D r)
      then match history d rest (f_q D r) (f_x D r) with
           | Some (l, x') => Some (obs_of r :: l, x') | None => None end
      else Some ([obs_of r], f_x D r)
    end
  end.
Definition call_in (c : call) : Prop :=
  match c with CFeed bs => forall s, In s bs -> In s ss | CEnd => In sym_end ss end.

Theorem histories_agree : forall cs, Forall call_in cs -> forall q1 q2 x, In (q1, q2) R ->
  history d1 cs q1 x = history d2 cs q2 x.
Proof.
  induction cs as [|c cs IH]; intros Hc q1 q2 x HR; [reflexivity|]. cbn [history].
  inversion Hc as [|c' cs' Hc1 Hc2]; subst.
  assert (H : match do_call d1 c q1 x, do_call d2 c q2 x with
              | Some r1, Some r2 => same_result r1 r2 | None, None => True | _, _ => False end).
  { destruct c as [bs|]; cbn [do_call].
    - pose proof (feed_go_lockstep bs Hc1 q1 q2 x 0 [] HR) as H.
      destruct (feed_go D exec evalt d1 bs q1 x 0 []), (feed_go D exec evalt d2 bs q2 x 0 []); try contradiction. exact H.
    - exact (end_call_lockstep Hc1 q1 q2 x HR). }
  destruct (do_call d1 c q1 x) as [r1|], (do_call d2 c q2 x) as [r2|]; try contradiction; [|reflexivity].
  destruct H as [Hr [Hx [Hn [He Hq]]]]. unfold obs_of. rewrite <- Hr, <- Hx, <- Hn, <- He.
  destruct (continues (f_res D r1)) eqn:Ec; [|reflexivity].
  rewrite (IH Hc2 _ _ (f_x D r1) (Hq eq_refl)). reflexivity.
Qed.
End Lockstep.

(** the instance the checks use: two exported machines with a strict certificate, from their start states, every
    history of feed / end calls over the certificate's symbols (chunks of any sizes, cut anywhere) *)
Theorem strict_cert_histories_agree eof d1 d2 : dfa_equiv_cert_on eof d1 d2 = true ->
  forall D exec evalt cs, Forall (call_in (syms_for eof)) cs -> forall x,
  history D exec evalt d1 cs (d_start d1) x = history D exec evalt d2 cs (d_start d2) x.
Proof.
  unfold dfa_equiv_cert_on. destruct (dfa_bsearch_on (syms_for eof) d1 d2) as [R|f] eqn:E; [|discriminate].
  unfold dfa_bisim_check_on. intros H. apply andb_prop in H as [Hs Hc]. apply memp_in in Hs.
  intros D exec evalt cs Hcs x. exact (histories_agree D exec evalt (syms_for eof) d1 d2 R Hc cs Hcs _ _ x Hs).
Qed.
