(** C04 at the level of the caller: under the no-spin certificate every history of feed / end calls the caller chooses
    returns - call after call - whatever the chunks, the data and the data semantics, with a bound on the work of the whole
    history that is linear in the bytes offered. *)
From Coq Require Import NArith Arith List Bool Lia.
Import ListNotations.
From NV Require Import Machine.Dfa Machine.Sem Machine.NoSpin Machine.Work Machine.Bisim Machine.Chunk Machine.Drive Machine.CallEquiv.

Section CallTotal.
Variable D : Type.
Variable exec : pid -> sym -> D -> D.
Variable evalt : tid -> sym -> D -> bool.

Definition call_bytes (c : call) : Prop := match c with CFeed bs => Forall (fun b => (b < 256)%N) bs | CEnd => True end.

(** end() returns: its dispatch terminates (certificate) and never ends in a consumption (by construction of the normal form) *)
Theorem end_call_returns d : norm_ok d = true -> forall q x, end_call D exec evalt d q x <> None.
Proof.
  intros Hn q x. unfold end_call.
  pose proof (no_spin_step D exec evalt d Hn q sym_end 255%N x ltac:(unfold sym_end; lia)) as Ht.
  destruct (eval D exec evalt (step_tree d q sym_end) 255%N x) as [[[es l] x']|] eqn:E; [|congruence].
  pose proof (eval_leaf_all D exec evalt leaf_end_ok _ _ _ _ _ _ E (nf_end d (fuel_of d) q)) as Hl.
  destruct l as [q'|rc q' adv]; [discriminate|discriminate].
Qed.

Theorem do_call_returns d : norm_ok d = true -> forall c, call_bytes c -> forall q x, do_call D exec evalt d c q x <> None.
Proof.
  intros Hn c Hc q x. destruct c as [bs|]; cbn [do_call].
  - exact (feed_go_total D exec evalt d Hn bs Hc q x 0 []).
  - exact (end_call_returns d Hn q x).
Qed.

Theorem history_returns d : norm_ok d = true -> forall cs, Forall call_bytes cs -> forall q x, history D exec evalt d cs q x <> None.
Proof.
  intros Hn cs Hcs. induction Hcs as [|c cs Hc _ IH]; intros q x; cbn [history]; [discriminate|].
  pose proof (do_call_returns d Hn c Hc q x) as Hd.
  destruct (do_call D exec evalt d c q x) as [r|]; [|congruence].
  destruct (continues (f_res D r)); [|discriminate].
  specialize (IH (f_q D r) (f_x D r)). destruct (history D exec evalt d cs (f_q D r) (f_x D r)) as [[l x']|]; [discriminate|congruence].
Qed.

(** the work of a whole history: at most [work_bound d] actions and tests per byte offered and per end() call *)
Definition call_size (c : call) : nat := match c with CFeed bs => length bs | CEnd => 1 end.
Definition total_work (l : list (res * nat * list ev)) : nat := fold_right (fun o n => length (snd o) + n) 0 l.
Definition total_size (cs : list call) : nat := fold_right (fun c n => call_size c + n) 0 cs.

Lemma do_call_work d c : call_bytes c -> forall q x r, do_call D exec evalt d c q x = Some r ->
  length (f_evs D r) <= call_size c * work_bound d.
Proof.
  intros Hc q x r H. destruct c as [bs|]; cbn [do_call call_size] in *.
  - pose proof (feed_go_work D exec evalt d bs Hc q x 0 [] r H) as Hw. cbn [length] in Hw. lia.
  - pose proof (end_work_bounded D exec evalt d q x r H). lia.
Qed.

Theorem history_work_linear d : forall cs, Forall call_bytes cs -> forall q x l x',
  history D exec evalt d cs q x = Some (l, x') -> total_work l <= total_size cs * work_bound d.
Proof.
  intros cs Hcs. induction Hcs as [|c cs Hc _ IH]; intros q x l x' H; cbn [history] in H.
  - inversion H; subst. cbn. lia.
  - destruct (do_call D exec evalt d c q x) as [r|] eqn:E; [|discriminate].
    pose proof (do_call_work d c Hc q x r E) as Hw.
    cbn [total_size fold_right]. fold (total_size cs).
    destruct (continues (f_res D r)).
    + destruct (history D exec evalt d cs (f_q D r) (f_x D r)) as [[l0 x0]|] eqn:Eh; [|discriminate].
      inversion H; subst. specialize (IH _ _ _ _ Eh). cbn [total_work fold_right obs_of snd]. fold (total_work l0). nia.
    + inversion H; subst. cbn [total_work fold_right obs_of snd]. nia.
Qed.
End CallTotal.
