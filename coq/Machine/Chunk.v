(** C02 / C10 at the level of the abstract machine: how a feed call on a chunk relates to feed calls
    on the pieces of the chunk, and the result-code / cursor protocol.  All statements hold for every
    machine and every data semantics. *)
From Coq Require Import NArith Arith List Bool Lia.
Import ListNotations.
From NV Require Import Machine.Dfa Machine.Sem.

(** well-formedness used by the chunking law: no action tree returns OK (the exporter never produces one:
    finish gives DONE / a finish code, yield gives a yield code) *)
Fixpoint atree_wf (a : atree) : bool :=
  match a with
  | AEnd | AGoto _ | ABreak _ => true
  | APrim _ k => atree_wf k
  | ATest _ a1 a2 => atree_wf a1 && atree_wf a2
  | ARet r => match r with ROk => false | _ => true end
  end.
Definition dfa_wf (d : dfa) : bool :=
  forallb (fun st => forallb (fun t => atree_wf (t_acts t)) (state_trans st)) (d_states d).

Fixpoint tree_all (P : leaf -> bool) (t : tree) : bool :=
  match t with Leaf l => P l | Act _ k => tree_all P k | Test _ a b => tree_all P a && tree_all P b | OutOfFuel => true end.
Definition leaf_good (l : leaf) : bool := match l with LRet ROk _ true => false | _ => true end.

Section WF.
Variable d : dfa.
Hypothesis Hwf : dfa_wf d = true.

Lemma epilogue_good rec src s t qc adv brk : (forall q, tree_all leaf_good (rec q) = true) ->
  tree_all leaf_good (epilogue d rec src s t qc adv brk) = true.
Proof.
  intros Hr. unfold epilogue, source_return.
  destruct (brk || match t_tgt t with Some _ => true | None => false end).
  - destruct (t_fall t); [apply Hr|].
    destruct (immediate_done d t); [reflexivity|].
    destruct (is_end s); [cbn; destruct (_ || accepting d src); reflexivity | reflexivity].
  - destruct (t_fall t). { cbn. destruct (accepting d src); [reflexivity|]. destruct (is_end s); reflexivity. }
    destruct (immediate_done d t); [reflexivity|].
    destruct (is_end s); cbn; [destruct (_ || accepting d src); reflexivity | destruct (accepting d src); reflexivity].
Qed.

Lemma run_acts_good rec src s t : (forall q, tree_all leaf_good (rec q) = true) ->
  forall a qc adv, atree_wf a = true -> tree_all leaf_good (run_acts d rec src s t a qc adv) = true.
Proof.
  intros Hr. induction a as [|p k IH|c a1 IH1 a2 IH2|r|q2|q2]; intros qc adv Ha; cbn [run_acts tree_all atree_wf] in *.
  - apply epilogue_good; auto.
  - apply IH; auto.
  - apply andb_prop in Ha as [H1 H2]. rewrite IH1, IH2; auto.
  - destruct r; try discriminate; reflexivity.
  - apply Hr.
  - apply epilogue_good; auto.
Qed.

Lemma state_trans_wf q st t : nth_error (d_states d) q = Some st -> In t (state_trans st) -> atree_wf (t_acts t) = true.
Proof.
  intros Hn Hi. unfold dfa_wf in Hwf. rewrite forallb_forall in Hwf.
  specialize (Hwf st (nth_error_In _ _ Hn)). rewrite forallb_forall in Hwf. apply Hwf; auto.
Qed.

Lemma select_in ts s t : select ts s = Some t -> In t ts.
Proof.
  unfold select, select_end, select_feed. destruct (N.eqb s sym_end).
  - destruct (find (fun t0 => has (t_on t0) sym_end) ts) eqn:E.
    + intros H; inversion H; subst. apply find_some in E. tauto.
    + destruct (find (fun t0 => has (t_on t0) bit_else) ts) as [t0|] eqn:E2; [|discriminate].
      destruct (t_fall t0); [|discriminate]. intros H; inversion H; subst. apply find_some in E2. tauto.
  - assert (G : forall l i sk, select_byte_go l i sk s = Some t -> In t l).
    { induction l as [|x l IH]; cbn; intros i sk H; try discriminate.
      destruct (match sk with Some k => Nat.eqb i k | None => false end); [right; eapply IH; eauto|].
      destruct (has (t_on x) s); [inversion H; subst; left; auto | right; eapply IH; eauto]. }
    destruct (select_byte_go ts 0 (first_else ts) s) eqn:E.
    + intros H; inversion H; subst. eapply G; eauto.
    + destruct (first_else ts); [|discriminate]. intros H. eapply nth_error_In; eauto.
Qed.

Lemma nf_good : forall fuel q s, tree_all leaf_good (nf d fuel q s) = true.
Proof.
  induction fuel as [|f IH]; intros q s; cbn [nf]; [reflexivity|].
  destruct (nth_error (d_states d) q) as [st|] eqn:En; [|reflexivity].
  destruct st as [ts|brs|]; [| |reflexivity].
  - destruct (select ts s) as [t|] eqn:Es.
    + destruct (is_end s && accepting d q && (negb (has (t_on t) sym_end) || t_err t)).
      { cbn. unfold source_return. destruct (accepting d q); [reflexivity|]. destruct (is_end s); reflexivity. }
      unfold body. apply run_acts_good; [intros; apply IH|].
      eapply state_trans_wf; eauto. cbn. eapply select_in; eauto.
    + cbn. unfold source_return. destruct (accepting d q); [reflexivity|]. destruct (is_end s); reflexivity.
  - assert (G : forall l, (forall c t, In (c, t) l -> atree_wf (t_acts t) = true) ->
                tree_all leaf_good (conds d (fun q' => nf d f q' s) q s l) = true).
    { induction l as [|[c t] l IHl]; intros Hl; cbn [conds]; [reflexivity|].
      assert (Hb : tree_all leaf_good (body d (fun q' => nf d f q' s) q s t) = true).
      { unfold body. apply run_acts_good; [intros; apply IH|]. eapply Hl; left; eauto. }
      destruct c; [cbn [tree_all]; rewrite Hb, IHl; auto; intros; eapply Hl; right; eauto | exact Hb]. }
    apply G. intros c t Hi. eapply state_trans_wf; eauto. cbn. apply in_map_iff. exists (c, t); auto.
Qed.
End WF.

Section Chunk.
Variable D : Type.
Variable exec : pid -> sym -> D -> D.
Variable evalt : tid -> sym -> D -> bool.
Variable d : dfa.

Hypothesis Hwf : dfa_wf d = true.

Notation feed_go := (feed_go D exec evalt d).
Notation feed := (feed D exec evalt d).

Lemma eval_leaf_all P : forall t s x es l x', eval D exec evalt t s x = Some (es, l, x') -> tree_all P t = true -> P l = true.
Proof.
  induction t as [l0|p k IH|c a IHa b IHb|]; cbn [eval tree_all]; intros s x es l x' H HP; try discriminate.
  - inversion H; subst; auto.
  - destruct (eval D exec evalt k s (exec p s x)) as [[[? ?] ?]|] eqn:E; try discriminate. inversion H; subst. eapply IH; eauto.
  - apply andb_prop in HP as [Ha Hb]. destruct (evalt c s x).
    + destruct (eval D exec evalt a s x) as [[[? ?] ?]|] eqn:E; try discriminate. inversion H; subst. eapply IHa; eauto.
    + destruct (eval D exec evalt b s x) as [[[? ?] ?]|] eqn:E; try discriminate. inversion H; subst. eapply IHb; eauto.
Qed.

Definition shift (n : nat) (acc : list ev) (r : fret D) : fret D :=
  {| f_res := f_res D r; f_q := f_q D r; f_x := f_x D r; f_consumed := n + f_consumed D r; f_evs := acc ++ f_evs D r |}.

Lemma feed_go_shift : forall bs q x n acc,
  feed_go bs q x n acc = option_map (shift n acc) (feed_go bs q x 0 []).
Proof.
  induction bs as [|b bs IH]; intros q x n acc; cbn [Sem.feed_go].
  - cbn. unfold shift; cbn. rewrite Nat.add_0_r, app_nil_r. reflexivity.
  - destruct (eval D exec evalt (step_tree d q b) b x) as [[[es l] x']|]; [|reflexivity].
    destruct l as [q'|rc q' adv].
    + rewrite (IH q' x' (S n) (acc ++ es)), (IH q' x' 1 _).
      destruct (Sem.feed_go D exec evalt d bs q' x' 0 []) as [r|]; cbn; [|reflexivity].
      unfold shift; cbn. f_equal. f_equal; [lia | rewrite app_assoc; reflexivity].
    + cbn. unfold shift; cbn. f_equal. f_equal. destruct adv; lia.
Qed.

(** a call "ran off the end of its chunk": it returned OK having consumed every byte *)
Definition ran_off (r : fret D) (len : nat) : bool :=
  match f_res D r with ROk => Nat.eqb (f_consumed D r) len | _ => false end.

(** THE chunking law: feeding bs1 ++ bs2 in one call is feeding bs1 and, if that call ran off the end
    of bs1, feeding bs2 from the state it left; otherwise the first call's result is the result.
    Result code, machine state, data, consumed count and events all agree. *)
Theorem feed_go_app : forall bs1 bs2 q x,
  feed_go (bs1 ++ bs2) q x 0 [] =
  match feed_go bs1 q x 0 [] with
  | None => None
  | Some r => if ran_off r (length bs1)
              then option_map (shift (length bs1) (f_evs D r)) (feed_go bs2 (f_q D r) (f_x D r) 0 [])
              else Some r
  end.
Proof.
  induction bs1 as [|b bs1 IH]; intros bs2 q x; cbn [app length Sem.feed_go].
  - cbn. destruct (Sem.feed_go D exec evalt d bs2 q x 0 []) as [r|]; cbn; [|reflexivity].
    unfold shift; cbn. destruct r; reflexivity.
  - destruct (eval D exec evalt (step_tree d q b) b x) as [[[es l] x']|] eqn:Ev; [|reflexivity].
    pose proof (eval_leaf_all leaf_good _ _ _ _ _ _ Ev (nf_good d Hwf _ q b)) as Hg.
    destruct l as [q'|rc q' adv].
    + rewrite (feed_go_shift (bs1 ++ bs2) q' x' 1 _), (feed_go_shift bs1 q' x' 1 _).
      rewrite IH. destruct (Sem.feed_go D exec evalt d bs1 q' x' 0 []) as [r|]; cbn [option_map]; [|reflexivity].
      destruct r as [rr rq rx rc revs].
      unfold ran_off, shift; cbn [f_res f_consumed f_q f_x f_evs].
      change (1 + rc) with (S rc). cbn [Nat.eqb].
      destruct rr; cbn [option_map]; try reflexivity.
      destruct (Nat.eqb rc (length bs1)) eqn:E; cbn [option_map]; [|reflexivity].
      destruct (Sem.feed_go D exec evalt d bs2 rq rx 0 []) as [r2|]; cbn [option_map]; [|reflexivity].
      cbn. f_equal. f_equal. rewrite !app_assoc. reflexivity.
    + unfold ran_off; cbn [f_res f_consumed].
      destruct rc; try reflexivity.
      (* OK returned without consuming (no applicable transition): consumed = position < length *)
      destruct adv; [cbn in Hg; discriminate|]. cbn. reflexivity.
Qed.

(** the same law for the public [feed] (non-empty pieces: an empty chunk is only legal with the end check) *)
Theorem feed_app : forall bs1 bs2 q x, bs1 <> [] -> bs2 <> [] ->
  feed (bs1 ++ bs2) q x =
  match feed bs1 q x with
  | None => None
  | Some r => if ran_off r (length bs1)
              then option_map (shift (length bs1) (f_evs D r)) (feed bs2 (f_q D r) (f_x D r))
              else Some r
  end.
Proof.
  intros bs1 bs2 q x H1 H2. unfold Sem.feed.
  destruct bs1 as [|b1 r1]; [congruence|]. destruct bs2 as [|b2 r2]; [congruence|].
  cbn [app]. change (b1 :: r1 ++ b2 :: r2) with ((b1 :: r1) ++ (b2 :: r2)). apply feed_go_app.
Qed.

(** any composition of the input into non-empty chunks: feed the chunks one after the other, stopping at
    the first call that does not run off the end of its chunk (yield, finish, DONE, FAIL, or OK without
    progress); the outcome equals that of a single call on the concatenation.  After a yield the caller
    re-invokes feed on the bytes from the reported position on, to which the same law applies again. *)
Fixpoint feed_chunks (chunks : list (list N)) (q : nat) (x : D) : option (fret D) :=
  match chunks with
  | [] => Some {| f_res := ROk; f_q := q; f_x := x; f_consumed := 0; f_evs := [] |}
  | c :: rest =>
    match feed_go c q x 0 [] with
    | None => None
    | Some r => if ran_off r (length c)
                then option_map (shift (length c) (f_evs D r)) (feed_chunks rest (f_q D r) (f_x D r))
                else Some r
    end
  end.

Theorem feed_chunks_concat : forall chunks q x,
  feed_chunks chunks q x = feed_go (concat chunks) q x 0 [].
Proof.
  induction chunks as [|c rest IH]; intros q x; cbn [feed_chunks concat].
  - reflexivity.
  - rewrite feed_go_app. destruct (Sem.feed_go D exec evalt d c q x 0 []) as [r|]; [|reflexivity].
    destruct (ran_off r (length c)); [|reflexivity]. rewrite IH. reflexivity.
Qed.

Corollary any_two_compositions : forall cs1 cs2 q x, concat cs1 = concat cs2 ->
  feed_chunks cs1 q x = feed_chunks cs2 q x.
Proof. intros. rewrite !feed_chunks_concat. congruence. Qed.

(** ** protocol facts (C10) *)

(** certificate: no state can return OK without consuming (every reachable non-accepting state has an
    applicable transition for each byte) *)
Definition leaf_not_ok (l : leaf) : bool := match l with LRet ROk _ _ => false | _ => true end.
Definition no_stuck_ok : bool :=
  forallb (fun q => forallb (fun b => tree_all leaf_not_ok (step_tree d q b)) (map N.of_nat (seq 0 256)))
          (seq 0 (length (d_states d))).

Lemma no_stuck_tree : no_stuck_ok = true -> forall q b, (b < 256)%N -> tree_all leaf_not_ok (step_tree d q b) = true.
Proof.
  intros H q b Hb. destruct (Nat.lt_ge_cases q (length (d_states d))) as [Hq|Hq].
  - unfold no_stuck_ok in H. rewrite forallb_forall in H. specialize (H q ltac:(apply in_seq; lia)).
    rewrite forallb_forall in H. apply H. apply in_map_iff. exists (N.to_nat b). split; [apply N2Nat.id | apply in_seq; lia].
  - unfold step_tree, fuel_of. cbn [nf]. apply nth_error_None in Hq. rewrite Hq. reflexivity.
Qed.

(** OK is returned only after the whole chunk has been consumed *)
Theorem ok_consumes_all : no_stuck_ok = true -> forall bs, Forall (fun b => (b < 256)%N) bs ->
  forall q x r, feed_go bs q x 0 [] = Some r -> f_res D r = ROk -> f_consumed D r = length bs.
Proof.
  intros Hs bs Hb. induction Hb as [|b bs Hlt _ IH]; intros q x r H Hr; cbn [Sem.feed_go] in H.
  - inversion H; subst; reflexivity.
  - destruct (eval D exec evalt (step_tree d q b) b x) as [[[es l] x']|] eqn:Ev; [|discriminate].
    pose proof (eval_leaf_all leaf_not_ok _ _ _ _ _ _ Ev (no_stuck_tree Hs q b Hlt)) as Hg.
    destruct l as [q'|rc q' adv].
    + rewrite feed_go_shift in H. destruct (Sem.feed_go D exec evalt d bs q' x' 0 []) as [r'|] eqn:E; [|discriminate].
      cbn in H. inversion H; subst; cbn in *. rewrite (IH _ _ _ E Hr). reflexivity.
    + inversion H; subst; cbn in Hr. subst rc. cbn in Hg. discriminate.
Qed.


(** OK with every byte consumed, or a return at the position of the byte that caused it *)
Lemma feed_go_consumed_le : forall bs q x r, feed_go bs q x 0 [] = Some r -> f_consumed D r <= length bs.
Proof.
  induction bs as [|b bs IH]; intros q x r H; cbn [Sem.feed_go] in H.
  - inversion H; subst; cbn. lia.
  - destruct (eval D exec evalt (step_tree d q b) b x) as [[[es l] x']|]; [|discriminate].
    destruct l as [q'|rc q' adv].
    + rewrite feed_go_shift in H. destruct (Sem.feed_go D exec evalt d bs q' x' 0 []) as [r'|] eqn:E; [|discriminate].
      cbn in H. inversion H; subst; cbn. specialize (IH _ _ _ E). lia.
    + inversion H; subst; cbn. destruct adv; lia.
Qed.

(** the fail state is absorbing: every later feed and end call returns FAIL from it *)
Definition is_fail_state (q : nat) : Prop := nth_error (d_states d) q = Some SFail.

Lemma step_tree_fail q s : is_fail_state q -> step_tree d q s = Leaf (LRet RFail q false).
Proof. intros H. unfold step_tree, fuel_of. cbn [nf]. rewrite H. reflexivity. Qed.

Theorem fail_absorbing_feed : forall q bs x, is_fail_state q -> bs <> [] ->
  feed bs q x = Some {| f_res := RFail; f_q := q; f_x := x; f_consumed := 0; f_evs := [] |}.
Proof.
  intros q bs x H Hn. destruct bs as [|b r]; [congruence|]. unfold Sem.feed. cbn [Sem.feed_go].
  rewrite (step_tree_fail q b H). cbn. reflexivity.
Qed.

Theorem fail_absorbing_end : forall q x, is_fail_state q ->
  end_call D exec evalt d q x = Some {| f_res := RFail; f_q := q; f_x := x; f_consumed := 0; f_evs := [] |}.
Proof. intros q x H. unfold end_call. rewrite (step_tree_fail q sym_end H). cbn. reflexivity. Qed.
End Chunk.

(** diagnostics for the certificates (untrusted): first (state, byte) that can return OK without consuming *)
Definition stuck_witness (d : dfa) : option (nat * N) :=
  find (fun qb => negb (tree_all leaf_not_ok (step_tree d (fst qb) (snd qb))))
       (flat_map (fun q => map (fun b => (q, b)) (map N.of_nat (seq 0 256))) (seq 0 (length (d_states d)))).
