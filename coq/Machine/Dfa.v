(** Exported state machines (DESIGN.md section 3): what harness/export.py produces from the DFA
    objects the real compiler builds, and the abstract machine that the emitted C is compared with.

    Actions are exported as decision trees over opaque primitive / test identifiers; the data
    semantics is a parameter of every theorem (Section DataSem), so control-flow results hold for
    every interpretation of assignments, appends, hooks and conditions. *)
From Coq Require Import NArith Arith List Bool Lia.
Import ListNotations.

Definition pid := N.       (* primitive data action: set / append / delete / hook call *)
Definition tid := N.       (* test: if-condition or "buffer v is full" *)
Definition sym := N.       (* 0..255 = byte, 256 = end-of-input *)
Definition sym_end : sym := 256%N.
Definition bit_else : N := 257%N.

Inductive res := ROk | RFail | RDone | RFinish (c : N) | RYield (c : N).

Definition res_eqb (a b : res) : bool :=
  match a, b with
  | ROk, ROk | RFail, RFail | RDone, RDone => true
  | RFinish x, RFinish y | RYield x, RYield y => N.eqb x y
  | _, _ => false end.
Lemma res_eqb_ok a b : res_eqb a b = true -> a = b.
Proof. destruct a, b; simpl; try discriminate; auto; intros H; apply N.eqb_eq in H; subst; auto. Qed.
Lemma res_eqb_refl a : res_eqb a a = true.
Proof. destruct a; simpl; auto using N.eqb_refl. Qed.

(** the action list of one transition, as exported: a decision tree *)
Inductive atree :=
| AEnd                                   (* all actions done: run the transition epilogue *)
| APrim (p : pid) (k : atree)
| ATest (t : tid) (kt kf : atree)
| ARet (r : res)                         (* finish / yield: return from feed *)
| AGoto (q : nat)                        (* append overflow: state := q; re-dispatch the same byte *)
| ABreak (q : nat).                      (* break: state := q; skip the remaining actions; epilogue *)

Record trans := {
  t_on : N;                (* bit b: byte b; bit 256: End; bit 257: Else *)
  t_tgt : option nat;      (* index in the state list; None = target not part of the machine *)
  t_fall : bool;
  t_err : bool;            (* error_handling flag *)
  t_early : bool;          (* some action may return early (yield) *)
  t_acts : atree }.

Inductive state :=
| SNormal (ts : list trans)
| SCond (brs : list (option tid * trans))    (* None = else branch *)
| SFail.

Record dfa := {
  d_states : list state;
  d_start : nat;
  d_acc : list nat;
  d_start_acts : atree;
  d_strict_done : bool;        (* -fstrict-done-token-generation *)
  d_end_check : bool }.        (* feed prologue returns OK on an empty chunk (_needs_end_check) *)

Definition has (on : N) (s : N) : bool := N.testbit on s.
Definition accepting (d : dfa) (q : nat) : bool := existsb (Nat.eqb q) (d_acc d).

Definition state_trans (st : state) : list trans :=
  match st with SNormal ts => ts | SCond brs => map snd brs | SFail => [] end.

(** _generate_switch_body: the first transition carrying Else is "the" else branch; the others
    are tested in list order on the byte only *)
Fixpoint first_else (ts : list trans) : option nat :=
  match ts with
  | [] => None
  | t :: r => if has (t_on t) bit_else then Some 0 else option_map S (first_else r)
  end.

Fixpoint select_byte_go (ts : list trans) (i : nat) (skip : option nat) (b : N) : option trans :=
  match ts with
  | [] => None
  | t :: r =>
    if (match skip with Some k => Nat.eqb i k | None => false end) then select_byte_go r (S i) skip b
    else if has (t_on t) b then Some t else select_byte_go r (S i) skip b
  end.

Definition select_feed (ts : list trans) (b : N) : option trans :=
  let e := first_else ts in
  match select_byte_go ts 0 e b with
  | Some t => Some t
  | None => match e with Some k => nth_error ts k | None => None end
  end.

(** _generate_end_switch_body: DFState.__getitem__(End) - the first transition carrying End, otherwise the first
    carrying Else - but a transition found only through Else is used only if it falls through (a consuming one is
    for bytes; end of input is not a byte) *)
Definition select_end (ts : list trans) : option trans :=
  match find (fun t => has (t_on t) sym_end) ts with
  | Some t => Some t
  | None => match find (fun t => has (t_on t) bit_else) ts with
            | Some t => if t_fall t then Some t else None
            | None => None end
  end.

Definition select (ts : list trans) (s : sym) : option trans :=
  if N.eqb s sym_end then select_end ts else select_feed ts s.

(** "immediately return DONE": target accepting, not strict-done, every transition of the target
    error-handling *)
Definition immediate_done (d : dfa) (t : trans) : bool :=
  match t_tgt t with
  | Some q => accepting d q && negb (d_strict_done d) &&
              forallb t_err (match nth_error (d_states d) q with Some st => state_trans st | None => [] end)
  | None => false
  end.
