(** The caller's loop and the symbol-by-symbol run (C10 / C02 / C17 meet C01 / C05).

    The theorems about what a compiled parser does on an input (C01, C05, C08, C16, ...) speak about [BBisim.run]:
    symbols are taken one after the other, and after a yield the run goes on with the symbol the cursor was left
    on.  A caller does not have that run; it has feed: it passes the rest of its input, and when feed returns a
    yield code it calls feed again with what the reported cursor position has not passed.  [drive] is that loop,
    written with [Sem.feed_go] (the call-level model of C02 / C10); [drive_end] goes on to call end() once every
    byte has been consumed ([Sem.end_call], the model of C17).  [drive_run], [run_drive]: the loop produces exactly
    what the run produces - so no byte is lost, handled twice or reported twice by re-invoking at the reported
    position, and every statement proved about runs is a statement about what a caller observes.
    [drive_end_run]: with end(), it is the run on the input followed by the end-of-input symbol. *)
From Coq Require Import NArith Arith List Bool Lia.
Import ListNotations.
From NV Require Import Machine.Dfa Machine.Sem Machine.Bisim Machine.BBisim Machine.Chunk.

Section Drive.
Variable D : Type.
Variable exec : pid -> sym -> D -> D.
Variable evalt : tid -> sym -> D -> bool.
Variable d : dfa.
Hypothesis Hwf : dfa_wf d = true.

Definition item_of (e : ev) : item := match e with EvPrim p _ => IPrim p | EvTest t b => ITest t b end.

Lemma evali_eval : forall t s x,
  evali D exec evalt t s x =
  match eval D exec evalt t s x with Some (es, l, x') => Some (map item_of es, l, x') | None => None end.
Proof.
  induction t as [l|p k IH|c a IHa b IHb|]; intros s x; cbn [evali eval]; try reflexivity.
  - rewrite IH. destruct (eval D exec evalt k s (exec p s x)) as [[[es l] x']|]; reflexivity.
  - destruct (evalt c s x).
    + rewrite IHa. destruct (eval D exec evalt a s x) as [[[es l] x']|]; reflexivity.
    + rewrite IHb. destruct (eval D exec evalt b s x) as [[[es l] x']|]; reflexivity.
Qed.

Notation m := (step_tree d).

(** the run with a final continuation: what happens once every symbol has been taken *)
Section K.
Variable k : nat -> D -> option (list item).

Fixpoint runk (K : nat) (input : list sym) (q : nat) (x : D) {struct input} : option (list item) :=
  match input with
  | [] => k q x
  | s :: rest => go D exec evalt m s (runk K rest) K q x
  end.

(** the caller's loop; [fuel] bounds the number of feed calls; [k] is what the caller does once all its input has
    been consumed (nothing: [drive]; call end(): [drive_end]) *)
Fixpoint drivek (fuel : nat) (bs : list N) (q : nat) (x : D) : option (list item) :=
  match fuel with
  | O => None
  | S f =>
    match bs with
    | [] => k q x
    | _ =>
      match feed_go D exec evalt d bs q x 0 [] with
      | None => None
      | Some r =>
          let its := map item_of (f_evs D r) in
          match f_res D r with
          | ROk => if Nat.eqb (f_consumed D r) (length bs) then option_map (app its) (k (f_q D r) (f_x D r))
                   else Some (its ++ [IRet ROk])
          | RYield c => option_map (fun t => its ++ IRet (RYield c) :: t)
                                   (drivek f (skipn (f_consumed D r) bs) (f_q D r) (f_x D r))
          | rc => Some (its ++ [IRet rc])
          end
      end
    end
  end.

(** a consumed byte in front: the same loop on the rest *)
Lemma drive_consume f (s : N) (rest : list N) q x es q' x' :
  eval D exec evalt (step_tree d q s) s x = Some (es, LConsume q', x') ->
  drivek (S f) (s :: rest) q x = option_map (app (map item_of es)) (drivek (S f) rest q' x').
Proof.
  intros Ev. cbn [drivek]. cbn [Sem.feed_go]. rewrite Ev.
  rewrite (feed_go_shift D exec evalt d).
  destruct rest as [|s2 rest2].
  - cbn. rewrite !app_nil_r. reflexivity.
  - cbn [drivek].
    destruct (Sem.feed_go D exec evalt d (s2 :: rest2) q' x' 0 []) as [r|] eqn:E; [|reflexivity].
    cbn [option_map shift f_res f_q f_x f_consumed f_evs app]. rewrite map_app.
    destruct (f_res D r) eqn:Rr; cbn [option_map length Nat.eqb plus skipn].
    + destruct (Nat.eqb _ _); cbn [option_map]; [|rewrite <- app_assoc; reflexivity].
      destruct (k (f_q D r) (f_x D r)); cbn [option_map]; [|reflexivity]. rewrite <- app_assoc. reflexivity.
    + rewrite <- app_assoc. reflexivity.
    + rewrite <- app_assoc. reflexivity.
    + rewrite <- app_assoc. reflexivity.
    + match goal with |- context [drivek f ?l ?a ?b] => destruct (drivek f l a b) end; cbn [option_map]; [|reflexivity].
      rewrite <- app_assoc. reflexivity.
Qed.

(** a yield in front: the loop re-invokes on what the cursor has not passed *)
Lemma drive_yield f (s : N) (rest : list N) q x es yc q' adv x' :
  eval D exec evalt (step_tree d q s) s x = Some (es, LRet (RYield yc) q' adv, x') ->
  drivek (S f) (s :: rest) q x =
  option_map (fun t => map item_of es ++ IRet (RYield yc) :: t) (drivek f (if adv then rest else s :: rest) q' x').
Proof.
  intros Ev. cbn [drivek Sem.feed_go]. rewrite Ev. cbn [f_res f_q f_x f_consumed f_evs app].
  destruct adv; reflexivity.
Qed.

Definition drive_go_stmt (f : nat) (bs : list N) : Prop :=
  forall q x tr K c, f <= c -> f <= K -> drivek f bs q x = Some tr ->
  match bs with
  | [] => k q x = Some tr
  | s :: rest => go D exec evalt m s (runk K rest) c q x = Some tr
  end.

Lemma run_of_stmt f rest : drive_go_stmt f rest -> forall q x t K, f <= K -> drivek f rest q x = Some t ->
  runk K rest q x = Some t.
Proof.
  intros HS q x t K HK Hd. specialize (HS q x t K K HK HK Hd).
  destruct rest as [|s2 rest2]; exact HS.
Qed.

Theorem drive_go : forall f bs, drive_go_stmt f bs.
Proof.
  induction f as [|f IHf]; intros bs; [intros q x tr K c _ _ H; discriminate|].
  induction bs as [|s rest IHbs]; intros q x tr K c Hc HK H.
  - cbn in H. exact H.
  - destruct (eval D exec evalt (step_tree d q s) s x) as [[[es l] x']|] eqn:Ev.
    2:{ cbn [drivek Sem.feed_go] in H. rewrite Ev in H. discriminate. }
    pose proof (eval_leaf_all D exec evalt leaf_good _ _ _ _ _ _ Ev (nf_good d Hwf _ q s)) as Hg.
    destruct c as [|c']; [lia|].
    cbn [go]. rewrite evali_eval, Ev.
    destruct l as [q'|rc q' adv].
    + rewrite (drive_consume f s rest q x es q' x' Ev) in H.
      destruct (drivek (S f) rest q' x') as [t|] eqn:Ed; [|discriminate]. cbn [option_map] in H. inversion H; subst tr.
      rewrite (run_of_stmt (S f) rest IHbs q' x' t K HK Ed). reflexivity.
    + cbn [drivek Sem.feed_go] in H. rewrite Ev in H. cbn [f_res f_q f_x f_consumed f_evs app] in H.
      destruct rc as [| | |fc|yc]; cbn [is_yield].
      * (* OK without consuming: adv = false by well-formedness *)
        destruct adv; [cbn in Hg; discriminate|]. cbn [length Nat.eqb] in H. inversion H. reflexivity.
      * inversion H. reflexivity.
      * inversion H. reflexivity.
      * inversion H. reflexivity.
      * destruct adv.
        -- cbn [skipn] in H.
           destruct (drivek f rest q' x') as [t|] eqn:Ed; [|discriminate]. cbn [option_map] in H. inversion H; subst tr.
           rewrite (run_of_stmt f rest (IHf rest) q' x' t K ltac:(lia) Ed). reflexivity.
        -- cbn [skipn] in H.
           destruct (drivek f (s :: rest) q' x') as [t|] eqn:Ed; [|discriminate]. cbn [option_map] in H. inversion H; subst tr.
           pose proof (IHf (s :: rest) q' x' t K c' ltac:(lia) ltac:(lia) Ed) as Hgo. cbn beta iota in Hgo.
           rewrite Hgo. reflexivity.
Qed.

(** whatever the caller's loop produces, the symbol-by-symbol run produces (for every retry budget not below the
    number of feed calls the loop was allowed) *)
Theorem drivek_runk : forall f bs q x tr K, f <= K -> drivek f bs q x = Some tr -> runk K bs q x = Some tr.
Proof. intros f bs q x tr K HK H. exact (run_of_stmt f bs (drive_go f bs) q x tr K HK H). Qed.

(** and conversely: what the run produces, the caller's loop produces when it is allowed enough feed calls *)
Lemma drive_pos f bs q x tr : drivek f bs q x = Some tr -> exists f', f = S f'.
Proof. destruct f; [discriminate|eauto]. Qed.

Theorem runk_drivek : forall K (bs : list N) q x tr, runk K bs q x = Some tr -> exists f, drivek f bs q x = Some tr.
Proof.
  intros K. induction bs as [|s rest IHbs]; intros q x tr H.
  - cbn in H. exists 1. exact H.
  - cbn [runk] in H. revert H. generalize K at 2. intros c. revert q x tr.
    induction c as [|c' IHc]; intros q x tr H; cbn [go] in H; rewrite evali_eval in H;
      (destruct (eval D exec evalt (step_tree d q s) s x) as [[[es l] x']|] eqn:Ev; [|discriminate]);
      pose proof (eval_leaf_all D exec evalt leaf_good _ _ _ _ _ _ Ev (nf_good d Hwf _ q s)) as Hg;
      destruct l as [q'|rc q' adv].
    + destruct (runk K rest q' x') as [t|] eqn:Er; [|discriminate]. cbn [option_map] in H. inversion H; subst tr.
      destruct (IHbs q' x' t Er) as [f Hf]. destruct (drive_pos _ _ _ _ _ Hf) as [f' ->].
      exists (S f'). rewrite (drive_consume f' s rest q x es q' x' Ev), Hf. reflexivity.
    + destruct rc as [| | |fc|yc]; cbn [is_yield] in H.
      * destruct adv; [cbn in Hg; discriminate|]. inversion H. exists 1. cbn [drivek Sem.feed_go]. rewrite Ev. reflexivity.
      * inversion H. exists 1. cbn [drivek Sem.feed_go]. rewrite Ev. reflexivity.
      * inversion H. exists 1. cbn [drivek Sem.feed_go]. rewrite Ev. reflexivity.
      * inversion H. exists 1. cbn [drivek Sem.feed_go]. rewrite Ev. reflexivity.
      * destruct adv; [|discriminate].
        destruct (runk K rest q' x') as [t|] eqn:Er; [|discriminate]. cbn [option_map] in H. inversion H; subst tr.
        destruct (IHbs q' x' t Er) as [f Hf]. exists (S f).
        cbn [drivek Sem.feed_go]. rewrite Ev. cbn [f_res f_q f_x f_consumed f_evs app skipn]. rewrite Hf. reflexivity.
    + destruct (runk K rest q' x') as [t|] eqn:Er; [|discriminate]. cbn [option_map] in H. inversion H; subst tr.
      destruct (IHbs q' x' t Er) as [f Hf]. destruct (drive_pos _ _ _ _ _ Hf) as [f' ->].
      exists (S f'). rewrite (drive_consume f' s rest q x es q' x' Ev), Hf. reflexivity.
    + destruct rc as [| | |fc|yc]; cbn [is_yield] in H.
      * destruct adv; [cbn in Hg; discriminate|]. inversion H. exists 1. cbn [drivek Sem.feed_go]. rewrite Ev. reflexivity.
      * inversion H. exists 1. cbn [drivek Sem.feed_go]. rewrite Ev. reflexivity.
      * inversion H. exists 1. cbn [drivek Sem.feed_go]. rewrite Ev. reflexivity.
      * inversion H. exists 1. cbn [drivek Sem.feed_go]. rewrite Ev. reflexivity.
      * destruct adv.
        -- destruct (runk K rest q' x') as [t|] eqn:Er; [|discriminate]. cbn [option_map] in H. inversion H; subst tr.
           destruct (IHbs q' x' t Er) as [f Hf]. exists (S f).
           cbn [drivek Sem.feed_go]. rewrite Ev. cbn [f_res f_q f_x f_consumed f_evs app skipn]. rewrite Hf. reflexivity.
        -- destruct (go D exec evalt m s (runk K rest) c' q' x') as [t|] eqn:Eg; [|discriminate].
           cbn [option_map] in H. inversion H; subst tr.
           destruct (IHc q' x' t Eg) as [f Hf]. exists (S f).
           cbn [drivek Sem.feed_go]. rewrite Ev. cbn [f_res f_q f_x f_consumed f_evs app skipn]. rewrite Hf. reflexivity.
Qed.
End K.

(** ** the plain loop: nothing after the last byte *)
Definition stop : nat -> D -> option (list item) := fun _ _ => Some [].
Definition drive : nat -> list N -> nat -> D -> option (list item) := drivek stop.

Lemma go_ext s (k1 k2 : nat -> D -> option (list item)) : (forall q x, k1 q x = k2 q x) ->
  forall c q x, go D exec evalt m s k1 c q x = go D exec evalt m s k2 c q x.
Proof.
  intros Hk. induction c as [|c' IH]; intros q x; cbn [go];
    destruct (evali D exec evalt (m q s) s x) as [[[es l] x']|]; try reflexivity;
    destruct l as [q'|r q' adv]; rewrite ?Hk; try reflexivity.
  destruct (is_yield r); [|reflexivity]. destruct adv; [reflexivity|]. rewrite IH. reflexivity.
Qed.

Lemma run_runk K : forall input q x, run D exec evalt m K input q x = runk stop K input q x.
Proof.
  induction input as [|s rest IH]; intros q x; [reflexivity|]. cbn [run runk]. apply go_ext. exact IH.
Qed.

(** the run on input ++ tail is the run on input, continued by the run on tail *)
Lemma run_app K tl : forall input q x,
  run D exec evalt m K (input ++ tl) q x = runk (run D exec evalt m K tl) K input q x.
Proof.
  induction input as [|s rest IH]; intros q x; [reflexivity|]. cbn [app run runk]. apply go_ext. exact IH.
Qed.

Theorem drive_run : forall f bs q x tr K, f <= K -> drive f bs q x = Some tr ->
  run D exec evalt m K bs q x = Some tr.
Proof. intros f bs q x tr K HK H. rewrite run_runk. exact (drivek_runk stop f bs q x tr K HK H). Qed.

Theorem run_drive : forall K (bs : list N) q x tr, run D exec evalt m K bs q x = Some tr ->
  exists f, drive f bs q x = Some tr.
Proof. intros K bs q x tr H. rewrite run_runk in H. exact (runk_drivek stop K bs q x tr H). Qed.

(** ** with end(): once every byte has been consumed the caller calls end(), and again after a yield code *)
Hypothesis exec_end : forall p x, exec p sym_end x = exec p 255%N x.
Hypothesis evalt_end : forall t x, evalt t sym_end x = evalt t 255%N x.

Fixpoint end_loop (c : nat) (q : nat) (x : D) : option (list item) :=
  match end_call D exec evalt d q x with
  | None => None
  | Some r =>
      let its := map item_of (f_evs D r) in
      if is_yield (f_res D r) then
        match c with
        | O => None
        | S c' => option_map (fun t => its ++ IRet (f_res D r) :: t) (end_loop c' (f_q D r) (f_x D r))
        end
      else Some (its ++ [IRet (f_res D r)])
  end.

Definition drive_end (K : nat) (f : nat) : list N -> nat -> D -> option (list item) := drivek (end_loop K) f.

(** at the end of input actions see 255 as the last byte (end() passes it); the run sees the symbol End *)
Lemma evali_end : forall t x,
  evali D exec evalt t sym_end x =
  match eval D exec evalt t 255%N x with Some (es, l, x') => Some (map item_of es, l, x') | None => None end.
Proof.
  induction t as [l|p k IH|c a IHa b IHb|]; intros x; cbn [evali eval]; try reflexivity.
  - rewrite exec_end, IH. destruct (eval D exec evalt k 255%N (exec p 255%N x)) as [[[es l] x']|]; reflexivity.
  - rewrite evalt_end. destruct (evalt c 255%N x).
    + rewrite IHa. destruct (eval D exec evalt a 255%N x) as [[[es l] x']|]; reflexivity.
    + rewrite IHb. destruct (eval D exec evalt b 255%N x) as [[[es l] x']|]; reflexivity.
Qed.

(** at the end of input nothing is consumed and no cursor is advanced *)
Definition leaf_end_ok (l : leaf) : bool := match l with LConsume _ => false | LRet _ _ adv => negb adv end.

Lemma source_return_end_ok src : tree_all leaf_end_ok (Leaf (source_return d src sym_end)) = true.
Proof. unfold source_return. cbn [tree_all]. destruct (accepting d src); [reflexivity|]. destruct (is_end sym_end); reflexivity. Qed.

Lemma epilogue_end rec src t qc brk : (forall q, tree_all leaf_end_ok (rec q) = true) ->
  tree_all leaf_end_ok (epilogue d rec src sym_end t qc false brk) = true.
Proof.
  intros Hr. unfold epilogue. destruct (t_fall t).
  - destruct (brk || match t_tgt t with Some _ => true | None => false end); [apply Hr | apply source_return_end_ok].
  - destruct (immediate_done d t); [reflexivity|]. unfold is_end. rewrite N.eqb_refl.
    destruct ((match t_tgt t with Some q => accepting d q | None => false end) || accepting d src); reflexivity.
Qed.

Lemma run_acts_end rec src t : (forall q, tree_all leaf_end_ok (rec q) = true) ->
  forall a qc, tree_all leaf_end_ok (run_acts d rec src sym_end t a qc false) = true.
Proof.
  intros Hr. induction a as [|p k IH|c a1 IH1 a2 IH2|r|q2|q2]; intros qc; cbn [run_acts tree_all].
  - apply epilogue_end; auto.
  - apply IH.
  - rewrite IH1, IH2. reflexivity.
  - reflexivity.
  - apply Hr.
  - apply epilogue_end; auto.
Qed.

Lemma early_adv_end t : early_adv d sym_end t = false.
Proof. unfold early_adv. cbn. rewrite andb_false_r. reflexivity. Qed.

Lemma nf_end : forall fuel q, tree_all leaf_end_ok (nf d fuel q sym_end) = true.
Proof.
  induction fuel as [|f IH]; intros q; cbn [nf]; [reflexivity|].
  destruct (nth_error (d_states d) q) as [[ts|brs|]|]; try reflexivity.
  - destruct (select ts sym_end) as [t|]; [|apply source_return_end_ok].
    destruct (is_end sym_end && accepting d q && (negb (has (t_on t) sym_end) || t_err t)); [apply source_return_end_ok|].
    unfold body. rewrite early_adv_end. apply run_acts_end. exact IH.
  - induction brs as [|[[c|] t] r IHr]; cbn [conds tree_all]; [reflexivity| |].
    + unfold body. rewrite early_adv_end. rewrite (run_acts_end _ q t IH). exact IHr.
    + unfold body. rewrite early_adv_end. apply run_acts_end. exact IH.
Qed.

Lemma end_loop_go : forall c q x, end_loop c q x = go D exec evalt m sym_end stop c q x.
Proof.
  induction c as [|c' IH]; intros q x; cbn [end_loop go]; unfold end_call; rewrite evali_end;
    (destruct (eval D exec evalt (step_tree d q sym_end) 255%N x) as [[[es l] x']|] eqn:Ev; [|reflexivity]);
    pose proof (eval_leaf_all D exec evalt leaf_end_ok _ _ _ _ _ _ Ev (nf_end _ q)) as Hg;
    (destruct l as [q'|rc q' adv]; [discriminate|]); cbn in Hg; apply negb_true_iff in Hg; subst adv;
    cbn [f_res f_q f_x f_evs]; destruct (is_yield rc); try reflexivity.
  rewrite IH. reflexivity.
Qed.

(** the loop with end() produces the run on the input followed by the end-of-input symbol *)
Theorem drive_end_run : forall f bs q x tr K, f <= K -> drive_end K f bs q x = Some tr ->
  run D exec evalt m K (bs ++ [sym_end]) q x = Some tr.
Proof.
  intros f bs q x tr K HK H. rewrite run_app.
  pose proof (drivek_runk (end_loop K) f bs q x tr K HK H) as Hr.
  assert (E : forall input q0 x0, runk (end_loop K) K input q0 x0 = runk (run D exec evalt m K [sym_end]) K input q0 x0).
  { induction input as [|s rest IH]; intros q0 x0; cbn [runk].
    - cbn [run]. rewrite end_loop_go. apply go_ext. intros; reflexivity.
    - apply go_ext. exact IH. }
  rewrite <- E. exact Hr.
Qed.
End Drive.
