(** C02 with yields: a caller who passes its input in chunks - any chunks - and re-invokes feed after every yield
    code on what the reported cursor position has not passed of the current chunk observes the symbol-by-symbol
    run on the concatenation; so two ways of cutting the same input give the same observations. *)
From Coq Require Import NArith Arith List Bool Lia.
Import ListNotations.
From NV Require Import Machine.Dfa Machine.Sem Machine.Bisim Machine.BBisim Machine.Chunk Machine.Drive.

Section DriveChunks.
Variable D : Type.
Variable exec : pid -> sym -> D -> D.
Variable evalt : tid -> sym -> D -> bool.
Variable d : dfa.
Hypothesis Hwf : dfa_wf d = true.
Notation m := (step_tree d).

(** the caller's loop over a list of chunks: the loop of Drive.v on the current chunk, then the next chunk
    ([fuel] bounds the feed calls per chunk) *)
Fixpoint drive_chunks (fuel : nat) (chunks : list (list N)) (q : nat) (x : D) : option (list item) :=
  match chunks with
  | [] => Some []
  | c :: rest => drivek D exec evalt d (drive_chunks fuel rest) fuel c q x
  end.

Lemma go_mono s (k1 k2 : nat -> D -> option (list item)) :
  (forall q x t, k1 q x = Some t -> k2 q x = Some t) ->
  forall c q x t, go D exec evalt m s k1 c q x = Some t -> go D exec evalt m s k2 c q x = Some t.
Proof.
  intros Hk. induction c as [|c' IH]; intros q x t H; cbn [go] in *;
    (destruct (evali D exec evalt (m q s) s x) as [[[es l] x']|]; [|discriminate]);
    destruct l as [q'|r q' adv].
  - destruct (k1 q' x') as [t1|] eqn:E; [|discriminate]. rewrite (Hk _ _ _ E). exact H.
  - destruct (is_yield r); [|exact H]. destruct adv; [|discriminate].
    destruct (k1 q' x') as [t1|] eqn:E; [|discriminate]. rewrite (Hk _ _ _ E). exact H.
  - destruct (k1 q' x') as [t1|] eqn:E; [|discriminate]. rewrite (Hk _ _ _ E). exact H.
  - destruct (is_yield r); [|exact H]. destruct adv.
    + destruct (k1 q' x') as [t1|] eqn:E; [|discriminate]. rewrite (Hk _ _ _ E). exact H.
    + destruct (go D exec evalt m s k1 c' q' x') as [t1|] eqn:E; [|discriminate]. rewrite (IH _ _ _ E). exact H.
Qed.

Lemma runk_mono (k1 k2 : nat -> D -> option (list item)) K :
  (forall q x t, k1 q x = Some t -> k2 q x = Some t) ->
  forall input q x t, runk D exec evalt d k1 K input q x = Some t -> runk D exec evalt d k2 K input q x = Some t.
Proof.
  intros Hk. induction input as [|s rest IH]; intros q x t H; cbn [runk] in *; [apply Hk; exact H|].
  apply (go_mono s _ _ IH). exact H.
Qed.

(** what the chunked loop produces, the run on the concatenation produces *)
Theorem drive_chunks_run : forall f K, f <= K -> forall chunks q x tr,
  drive_chunks f chunks q x = Some tr -> run D exec evalt m K (concat chunks) q x = Some tr.
Proof.
  intros f K HK. induction chunks as [|c rest IH]; intros q x tr H; cbn [drive_chunks concat] in *.
  - exact H.
  - rewrite (run_app D exec evalt d).
    apply (runk_mono (drive_chunks f rest) (run D exec evalt m K (concat rest)) K IH).
    exact (drivek_runk D exec evalt d Hwf (drive_chunks f rest) f c q x tr K HK H).
Qed.

(** so two compositions of the same input cannot be told apart *)
Corollary two_chunkings_same_trace : forall f1 f2 cs1 cs2 q x tr1 tr2, concat cs1 = concat cs2 ->
  drive_chunks f1 cs1 q x = Some tr1 -> drive_chunks f2 cs2 q x = Some tr2 -> tr1 = tr2.
Proof.
  intros f1 f2 cs1 cs2 q x tr1 tr2 Hc H1 H2.
  pose proof (drive_chunks_run f1 (Nat.max f1 f2) (Nat.le_max_l _ _) cs1 q x tr1 H1) as R1.
  pose proof (drive_chunks_run f2 (Nat.max f1 f2) (Nat.le_max_r _ _) cs2 q x tr2 H2) as R2.
  rewrite Hc in R1. rewrite R1 in R2. inversion R2. reflexivity.
Qed.

(** ** conversely: when the run on the concatenation produces a trace, the chunked loop produces it, given enough
    feed calls per chunk ((K+2) * length + 1 is enough, K the run's budget of consecutive yields without progress) *)
Lemma drivek_fuel_mono k : forall f f' bs q x t, f <= f' ->
  drivek D exec evalt d k f bs q x = Some t -> drivek D exec evalt d k f' bs q x = Some t.
Proof.
  induction f as [|f IH]; intros f' bs q x t Hle H; [discriminate|].
  destruct f' as [|f']; [lia|]. cbn [drivek] in *.
  destruct bs as [|b bs]; [exact H|].
  destruct (feed_go D exec evalt d (b :: bs) q x 0 []) as [r|]; [|discriminate].
  destruct (f_res D r); try exact H.
  match type of H with option_map _ ?e = _ => destruct e as [t1|] eqn:E end; [|discriminate].
  rewrite (IH f' _ _ _ _ ltac:(lia) E). exact H.
Qed.

Lemma drivek_mono_k (k1 k2 : nat -> D -> option (list item)) :
  (forall q x t, k1 q x = Some t -> k2 q x = Some t) ->
  forall f bs q x t, drivek D exec evalt d k1 f bs q x = Some t -> drivek D exec evalt d k2 f bs q x = Some t.
Proof.
  intros Hk. induction f as [|f IH]; intros bs q x t H; [discriminate|]. cbn [drivek] in *.
  destruct bs as [|b bs]; [apply Hk; exact H|].
  destruct (feed_go D exec evalt d (b :: bs) q x 0 []) as [r|]; [|discriminate].
  destruct (f_res D r); try exact H.
  - destruct (Nat.eqb _ _); [|exact H].
    destruct (k1 (f_q D r) (f_x D r)) as [t1|] eqn:E; [|discriminate]. rewrite (Hk _ _ _ E). exact H.
  - match type of H with option_map _ ?e = _ => destruct e as [t1|] eqn:E end; [|discriminate].
    rewrite (IH _ _ _ _ E). exact H.
Qed.

Section Bound.
Variable k : nat -> D -> option (list item).
Variable K : nat.
Definition bound (n : nat) : nat := (K + 2) * n + 1.

Lemma go_drivek_bound (s : N) (rest : list N) :
  (forall q x t, runk D exec evalt d k K rest q x = Some t -> drivek D exec evalt d k (bound (length rest)) rest q x = Some t) ->
  forall c q x t, go D exec evalt m s (runk D exec evalt d k K rest) c q x = Some t ->
  drivek D exec evalt d k (S (S (c + (K + 2) * length rest))) (s :: rest) q x = Some t.
Proof.
  intros IHr. unfold bound in IHr.
  induction c as [|c' IHc]; intros q x t H; cbn [go] in H; rewrite (evali_eval D exec evalt) in H;
    (destruct (eval D exec evalt (step_tree d q s) s x) as [[[es l] x']|] eqn:Ev; [|discriminate]);
    pose proof (eval_leaf_all D exec evalt leaf_good _ _ _ _ _ _ Ev (nf_good d Hwf _ q s)) as Hg;
    destruct l as [q'|rc q' adv].
  - destruct (runk D exec evalt d k K rest q' x') as [t1|] eqn:Er; [|discriminate]. cbn [option_map] in H. inversion H; subst t.
    rewrite (drive_consume D exec evalt d k _ s rest q x es q' x' Ev).
    rewrite (drivek_fuel_mono k ((K + 2) * length rest + 1) (S (S (0 + (K + 2) * length rest))) _ _ _ _ ltac:(lia) (IHr _ _ _ Er)). reflexivity.
  - destruct rc as [| | |fc|yc]; cbn [is_yield] in H.
    + cbn [drivek Sem.feed_go]; rewrite Ev; cbn [f_res f_q f_x f_consumed f_evs app skipn length Nat.eqb].
      destruct adv; [cbn in Hg; discriminate|]. exact H.
    + cbn [drivek Sem.feed_go]; rewrite Ev. exact H.
    + cbn [drivek Sem.feed_go]; rewrite Ev. exact H.
    + cbn [drivek Sem.feed_go]; rewrite Ev. exact H.
    + destruct adv; [|discriminate].
      destruct (runk D exec evalt d k K rest q' x') as [t1|] eqn:Er; [|discriminate]. cbn [option_map] in H. inversion H; subst t.
      rewrite (drive_yield D exec evalt d k _ s rest q x es yc q' true x' Ev).
      rewrite (drivek_fuel_mono k ((K + 2) * length rest + 1) (S (0 + (K + 2) * length rest)) _ _ _ _ ltac:(lia) (IHr _ _ _ Er)). reflexivity.
  - destruct (runk D exec evalt d k K rest q' x') as [t1|] eqn:Er; [|discriminate]. cbn [option_map] in H. inversion H; subst t.
    rewrite (drive_consume D exec evalt d k _ s rest q x es q' x' Ev).
    rewrite (drivek_fuel_mono k ((K + 2) * length rest + 1) (S (S (S c' + (K + 2) * length rest))) _ _ _ _ ltac:(lia) (IHr _ _ _ Er)). reflexivity.
  - destruct rc as [| | |fc|yc]; cbn [is_yield] in H.
    + cbn [drivek Sem.feed_go]; rewrite Ev; cbn [f_res f_q f_x f_consumed f_evs app skipn length Nat.eqb].
      destruct adv; [cbn in Hg; discriminate|]. exact H.
    + cbn [drivek Sem.feed_go]; rewrite Ev. exact H.
    + cbn [drivek Sem.feed_go]; rewrite Ev. exact H.
    + cbn [drivek Sem.feed_go]; rewrite Ev. exact H.
    + rewrite (drive_yield D exec evalt d k _ s rest q x es yc q' adv x' Ev). destruct adv.
      * destruct (runk D exec evalt d k K rest q' x') as [t1|] eqn:Er; [|discriminate]. cbn [option_map] in H. inversion H; subst t.
        rewrite (drivek_fuel_mono k ((K + 2) * length rest + 1) (S (S c' + (K + 2) * length rest)) _ _ _ _ ltac:(lia) (IHr _ _ _ Er)). reflexivity.
      * destruct (go D exec evalt m s (runk D exec evalt d k K rest) c' q' x') as [t1|] eqn:Eg; [|discriminate].
        cbn [option_map] in H. inversion H; subst t.
        pose proof (IHc _ _ _ Eg) as Hd. change (S (S c' + (K + 2) * length rest)) with (S (S (c' + (K + 2) * length rest))). rewrite Hd. reflexivity.
Qed.

Theorem runk_drivek_bound : forall (bs : list N) q x t, runk D exec evalt d k K bs q x = Some t ->
  drivek D exec evalt d k (bound (length bs)) bs q x = Some t.
Proof.
  induction bs as [|s rest IH]; intros q x t H.
  - unfold bound. cbn [length]. rewrite Nat.mul_0_r. cbn [plus drivek]. exact H.
  - cbn [runk] in H. pose proof (go_drivek_bound s rest IH K q x t H) as Hd.
    apply (drivek_fuel_mono k (S (S (K + (K + 2) * length rest))) (bound (length (s :: rest))) _ _ _ _ ltac:(unfold bound; cbn [length]; rewrite Nat.mul_succ_r; lia) Hd).
Qed.
End Bound.

Theorem run_drive_chunks : forall K chunks F, bound K (length (concat chunks)) <= F -> forall q x tr,
  run D exec evalt m K (concat chunks) q x = Some tr -> drive_chunks F chunks q x = Some tr.
Proof.
  intros K. induction chunks as [|c rest IH]; intros F HF q x tr H; cbn [drive_chunks concat] in *.
  - exact H.
  - rewrite (run_app D exec evalt d) in H. rewrite app_length in HF. unfold bound in *. rewrite Nat.mul_add_distr_l in HF.
    assert (HFr : (K + 2) * length (concat rest) + 1 <= F) by lia.
    apply (drivek_mono_k (run D exec evalt m K (concat rest)) (drive_chunks F rest) (fun q0 x0 t0 => IH F HFr q0 x0 t0)).
    apply (drivek_fuel_mono _ ((K + 2) * length c + 1) F _ _ _ _ ltac:(lia)).
    exact (runk_drivek_bound (run D exec evalt m K (concat rest)) K c q x tr H).
Qed.
End DriveChunks.
