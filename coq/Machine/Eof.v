(** C17 (model level): data bytes never take a transition because of its End mark, and end-of-input
    never takes a consuming data transition in machines carrying the certificate [end_safe]. *)
From Coq Require Import NArith Arith List Bool Lia.
Import ListNotations.
From NV Require Import Machine.Dfa Machine.Sem.

(** clearing / setting the End mark of every transition does not change what a data byte selects *)
Definition set_end (b : bool) (t : trans) : trans :=
  {| t_on := if b then N.setbit (t_on t) 256 else N.clearbit (t_on t) 256;
     t_tgt := t_tgt t; t_fall := t_fall t; t_err := t_err t; t_early := t_early t; t_acts := t_acts t |}.

Lemma has_set_end b t s : (s <> 256)%N -> has (t_on (set_end b t)) s = has (t_on t) s.
Proof.
  intros H. unfold has, set_end; cbn [t_on]. destruct b.
  - rewrite N.setbit_neq; auto.
  - rewrite N.clearbit_neq; auto.
Qed.

Lemma first_else_set_end b ts : first_else (map (set_end b) ts) = first_else ts.
Proof.
  induction ts as [|t r IH]; cbn [map first_else]; auto.
  rewrite has_set_end by (unfold bit_else; lia). rewrite IH. reflexivity.
Qed.

Lemma select_byte_go_set_end b s : (s <> 256)%N -> forall ts i sk,
  select_byte_go (map (set_end b) ts) i sk s = option_map (set_end b) (select_byte_go ts i sk s).
Proof.
  intros Hs. induction ts as [|t r IH]; intros i sk; cbn [map select_byte_go option_map]; auto.
  destruct (match sk with Some k => Nat.eqb i k | None => false end); auto.
  rewrite has_set_end by auto. destruct (has (t_on t) s); auto.
Qed.

Theorem select_feed_ignores_end b ts s : (s < 256)%N ->
  select_feed (map (set_end b) ts) s = option_map (set_end b) (select_feed ts s).
Proof.
  intros Hs. unfold select_feed. rewrite first_else_set_end, select_byte_go_set_end by lia.
  destruct (select_byte_go ts 0 (first_else ts) s); cbn [option_map]; auto.
  destruct (first_else ts) as [k|]; auto. rewrite nth_error_map. reflexivity.
Qed.

(** certificate: at end-of-input a state selects nothing, a transition marked End, or a transition that
    only passes control on (fall-through) / is an error transition: never a consuming data transition *)
Definition end_choice_ok (ts : list trans) : bool :=
  match select_end ts with
  | None => true
  | Some t => has (t_on t) sym_end || t_fall t || t_err t
  end.
Definition end_safe (d : dfa) : bool :=
  forallb (fun st => match st with SNormal ts => end_choice_ok ts | _ => true end) (d_states d).

Theorem end_safe_sound d : end_safe d = true -> forall q ts t,
  nth_error (d_states d) q = Some (SNormal ts) -> select ts sym_end = Some t ->
  has (t_on t) sym_end = true \/ t_fall t = true \/ t_err t = true.
Proof.
  intros H q ts t Hn Hs. unfold end_safe in H. rewrite forallb_forall in H.
  specialize (H _ (nth_error_In _ _ Hn)). cbn in H. unfold end_choice_ok in H.
  unfold select in Hs. rewrite N.eqb_refl in Hs. rewrite Hs in H.
  apply orb_prop in H as [H|H]; [apply orb_prop in H as [H|H]|]; auto.
Qed.

(** end() never consumes and returns by the documented rule: from an accepting state with nothing to do DONE,
    from a non-accepting one FAIL *)
Theorem end_no_transition d q ts : nth_error (d_states d) q = Some (SNormal ts) -> select ts sym_end = None ->
  step_tree d q sym_end = Leaf (if accepting d q then LRet RDone q false else LRet RFail (fail_index d) false).
Proof.
  intros Hn Hs. unfold step_tree, fuel_of. cbn [nf]. rewrite Hn, Hs. unfold source_return.
  unfold is_end. rewrite N.eqb_refl. destruct (accepting d q); reflexivity.
Qed.

Definition end_witness (d : dfa) : option nat :=
  find (fun q => match nth_error (d_states d) q with Some (SNormal ts) => negb (end_choice_ok ts) | _ => false end)
       (seq 0 (length (d_states d))).
