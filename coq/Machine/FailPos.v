(** C10, position of FAIL: "FAIL leaves the start pointer on the first offending byte".

    At the level of the abstract machine the offending byte is the byte on which a machine that has not failed
    yet fails.  The certificate [fail_entry_ok] (computed per compiled machine) says that no step consumes a byte
    and leaves the machine in a fail state, that FAIL is never returned with the cursor already advanced, and that
    no yield advances the cursor into a fail state.  Under it a FAIL result of feed decomposes the chunk: every
    byte in front of the reported position was consumed by a machine that had not failed, and the byte at the
    reported position is the one on which that machine fails - without consuming it. *)
From Coq Require Import NArith Arith List Bool Lia.
Import ListNotations.
From NV Require Import Machine.Dfa Machine.Sem Machine.Chunk.

Definition is_failb (d : dfa) (q : nat) : bool :=
  match nth_error (d_states d) q with Some SFail => true | _ => false end.

Definition leaf_fail_ok (d : dfa) (l : leaf) : bool :=
  match l with
  | LConsume q' => negb (is_failb d q')
  | LRet RFail _ adv => negb adv
  | LRet ROk q' _ => negb (is_failb d q')
  | LRet (RYield _) q' adv => negb (adv && is_failb d q')
  | LRet _ _ _ => true
  end.

Definition fail_entry_ok (d : dfa) : bool :=
  forallb (fun q => is_failb d q || forallb (fun b => tree_all (leaf_fail_ok d) (step_tree d q b)) (map N.of_nat (seq 0 256)))
          (seq 0 (length (d_states d))).

(** diagnostics (untrusted): first live state and byte whose step breaks the certificate *)
Definition fail_entry_witness (d : dfa) : option (nat * N) :=
  find (fun qb => negb (is_failb d (fst qb)) && negb (tree_all (leaf_fail_ok d) (step_tree d (fst qb) (snd qb))))
       (flat_map (fun q => map (fun b => (q, b)) (map N.of_nat (seq 0 256))) (seq 0 (length (d_states d)))).

Section FailPos.
Variable D : Type.
Variable exec : pid -> sym -> D -> D.
Variable evalt : tid -> sym -> D -> bool.
Variable d : dfa.

Notation feed_go := (feed_go D exec evalt d).

Lemma fail_entry_tree : fail_entry_ok d = true -> forall q b, (b < 256)%N -> is_failb d q = false ->
  tree_all (leaf_fail_ok d) (step_tree d q b) = true.
Proof.
  intros H q b Hb Hq. destruct (Nat.lt_ge_cases q (length (d_states d))) as [Hl|Hl].
  - unfold fail_entry_ok in H. rewrite forallb_forall in H. specialize (H q ltac:(apply in_seq; lia)).
    rewrite Hq in H. cbn [orb] in H. rewrite forallb_forall in H. apply H.
    apply in_map_iff. exists (N.to_nat b). split; [apply N2Nat.id | apply in_seq; lia].
  - unfold step_tree, fuel_of. cbn [nf]. apply nth_error_None in Hl. rewrite Hl. reflexivity.
Qed.

(** what a FAIL result at position k says about the chunk *)
Definition fails_at (bs : list N) (q : nat) (x : D) (k : nat) : Prop :=
  exists pre b post r1 es q2 x2,
    bs = pre ++ b :: post /\ length pre = k /\
    feed_go pre q x 0 [] = Some r1 /\ f_res D r1 = ROk /\ f_consumed D r1 = k /\ is_failb d (f_q D r1) = false /\
    eval D exec evalt (step_tree d (f_q D r1) b) b (f_x D r1) = Some (es, LRet RFail q2 false, x2).

Theorem fail_position : fail_entry_ok d = true -> forall bs, Forall (fun b => (b < 256)%N) bs ->
  forall q x r, is_failb d q = false -> feed_go bs q x 0 [] = Some r ->
  (f_res D r = ROk -> is_failb d (f_q D r) = false) /\
  (f_res D r = RFail -> fails_at bs q x (f_consumed D r)).
Proof.
  intros Hc bs Hb. induction Hb as [|b bs Hlt _ IH]; intros q x r Hq H; cbn [Sem.feed_go] in H.
  - inversion H; subst; cbn. split; [auto|discriminate].
  - destruct (eval D exec evalt (step_tree d q b) b x) as [[[es l] x']|] eqn:Ev; [|discriminate].
    pose proof (eval_leaf_all D exec evalt (leaf_fail_ok d) _ _ _ _ _ _ Ev (fail_entry_tree Hc q b Hlt Hq)) as Hg.
    destruct l as [q'|rc q' adv].
    + cbn [leaf_fail_ok] in Hg. apply negb_true_iff in Hg.
      rewrite (feed_go_shift D exec evalt d) in H.
      destruct (Sem.feed_go D exec evalt d bs q' x' 0 []) as [r'|] eqn:E; [|discriminate].
      cbn [option_map] in H. inversion H; subst r; clear H. cbn [shift f_res f_q f_consumed].
      destruct (IH q' x' r' Hg E) as [IHok IHfail]. split; [exact IHok|].
      intros Hf. destruct (IHfail Hf) as (pre & b0 & post & r1 & es1 & q2 & x2 & Hbs & Hlen & Hpre & Hr1 & Hc1 & Hq1 & Hev).
      exists (b :: pre), b0, post, (shift D 1 ([] ++ es) r1), es1, q2, x2.
      repeat split.
      * cbn [app]. rewrite Hbs. reflexivity.
      * cbn [length]. rewrite Hlen. reflexivity.
      * cbn [Sem.feed_go]. rewrite Ev. rewrite (feed_go_shift D exec evalt d), Hpre. reflexivity.
      * exact Hr1.
      * cbn [shift f_consumed]. rewrite Hc1. reflexivity.
      * exact Hq1.
      * exact Hev.
    + inversion H; subst r; clear H. cbn [f_res f_q f_consumed]. split.
      * intros ->. cbn [leaf_fail_ok] in Hg. apply negb_true_iff in Hg. exact Hg.
      * intros ->. cbn [leaf_fail_ok] in Hg. apply negb_true_iff in Hg. subst adv.
        exists [], b, bs, {| f_res := ROk; f_q := q; f_x := x; f_consumed := 0; f_evs := [] |}, es, q', x'.
        cbn. repeat split; auto.
Qed.
End FailPos.
