(** C10: once FAIL has been returned every later feed or end call returns FAIL.  [Chunk.fail_absorbing_*] says the fail
    state is absorbing; what remained open is that a call which returns FAIL has *left the machine in* such a state.
    [fail_sticky_ok d] is the per-machine certificate for that: every FAIL leaf of every normal-form tree records a fail
    state (or an index that is not a state, which feed and end answer with FAIL: where end() leaves a parser whose fail state
    was removed as unreachable).  Its soundness theorem: for every data semantics, after any call that returned FAIL every later call - feed on
    any non-empty chunk, or end() - returns FAIL, consumes nothing, runs nothing and changes nothing. *)
From Coq Require Import NArith Arith List Bool Lia.
Import ListNotations.
From NV Require Import Machine.Dfa Machine.Sem Machine.NoSpin Machine.Chunk Machine.FailPos Machine.Bisim Machine.CallEquiv.

Definition leaf_fail_sticky (d : dfa) (l : leaf) : bool :=
  match l with LRet RFail q' _ => is_failb d q' || Nat.leb (length (d_states d)) q' | _ => true end.

Definition fail_sticky_ok (d : dfa) : bool :=
  forallb (fun q => forallb (fun s => tree_all (leaf_fail_sticky d) (step_tree d q s)) all_syms) (state_ids d).

Definition fail_sticky_witness (d : dfa) : option (nat * N) :=
  find (fun qs => negb (tree_all (leaf_fail_sticky d) (step_tree d (fst qs) (snd qs))))
       (flat_map (fun q => map (fun s => (q, s)) all_syms) (state_ids d)).

(** a state from which nothing but FAIL comes: the fail state, or an index that is not a state *)
Definition dead (d : dfa) (q : nat) : Prop := forall s, step_tree d q s = Leaf (LRet RFail q false).

Lemma failb_dead d q : is_failb d q = true -> dead d q.
Proof.
  unfold is_failb. intros H s. destruct (nth_error (d_states d) q) as [st|] eqn:E; [|discriminate].
  destruct st; try discriminate. exact (step_tree_fail d q s E).
Qed.

Lemma sticky_tree d : fail_sticky_ok d = true -> forall q s, (s <= 256)%N -> q < length (d_states d) ->
  tree_all (leaf_fail_sticky d) (step_tree d q s) = true.
Proof.
  intros H q s Hs Hq. unfold fail_sticky_ok in H. rewrite forallb_forall in H.
  specialize (H q ltac:(apply in_seq; lia)). rewrite forallb_forall in H. apply H. apply in_all_syms. exact Hs.
Qed.

Section Sticky.
Variable D : Type.
Variable exec : pid -> sym -> D -> D.
Variable evalt : tid -> sym -> D -> bool.
Variable d : dfa.
Hypothesis Hc : fail_sticky_ok d = true.

(** a dispatch that ends in FAIL records a dead state *)
Lemma eval_fail_dead q s (inval : sym) x es q' adv x' : (s <= 256)%N ->
  eval D exec evalt (step_tree d q s) inval x = Some (es, LRet RFail q' adv, x') -> dead d q'.
Proof.
  intros Hs E. destruct (Nat.lt_ge_cases q (length (d_states d))) as [Hq|Hq].
  - pose proof (eval_leaf_all D exec evalt (leaf_fail_sticky d) _ _ _ _ _ _ E (sticky_tree d Hc q s Hs Hq)) as Hl.
    cbn in Hl. apply orb_prop in Hl as [Hl|Hl]; [exact (failb_dead d q' Hl)|].
    apply Nat.leb_le in Hl. intros s'. exact (step_tree_out_of_range d q' s' Hl).
  - rewrite (step_tree_out_of_range d q s Hq) in E. cbn in E. inversion E; subst.
    intros s'. exact (step_tree_out_of_range d q' s' Hq).
Qed.

Lemma feed_go_fail_dead : forall bs, Forall (fun b => (b < 256)%N) bs -> forall q x n acc r,
  feed_go D exec evalt d bs q x n acc = Some r -> f_res D r = RFail -> dead d (f_q D r).
Proof.
  intros bs Hb. induction Hb as [|b bs Hlt _ IH]; intros q x n acc r H Hr; cbn [feed_go] in H.
  - inversion H; subst. discriminate.
  - destruct (eval D exec evalt (step_tree d q b) b x) as [[[es l] x']|] eqn:E; try discriminate.
    destruct l as [q'|rc q' adv]; [exact (IH _ _ _ _ _ H Hr)|].
    inversion H; subst. cbn [f_res f_q] in *. subst rc. exact (eval_fail_dead q b b x es q' adv x' ltac:(lia) E).
Qed.

Lemma end_call_fail_dead q x r : end_call D exec evalt d q x = Some r -> f_res D r = RFail -> dead d (f_q D r).
Proof.
  unfold end_call. intros H Hr.
  destruct (eval D exec evalt (step_tree d q sym_end) 255%N x) as [[[es l] x']|] eqn:E; try discriminate.
  destruct l as [q'|rc q' adv]; try discriminate. inversion H; subst. cbn [f_res f_q] in *. subst rc.
  exact (eval_fail_dead q sym_end 255%N x es q' adv x' ltac:(unfold sym_end; lia) E).
Qed.

(** from a dead state every call is FAIL and nothing moves *)
Definition failed (q : nat) (x : D) : fret D := {| f_res := RFail; f_q := q; f_x := x; f_consumed := 0; f_evs := [] |}.

Lemma dead_feed q : dead d q -> forall b bs x, feed_go D exec evalt d (b :: bs) q x 0 [] = Some (failed q x).
Proof. intros Hd b bs x. cbn [feed_go]. rewrite (Hd b). reflexivity. Qed.
Lemma dead_end q : dead d q -> forall x, end_call D exec evalt d q x = Some (failed q x).
Proof. intros Hd x. unfold end_call. rewrite (Hd sym_end). reflexivity. Qed.

Definition call_nonempty (c : call) : Prop := match c with CFeed bs => bs <> [] | CEnd => True end.
Definition call_bytes' (c : call) : Prop := match c with CFeed bs => Forall (fun b => (b < 256)%N) bs | CEnd => True end.

(** once FAIL, for ever FAIL: whatever call returned it, and whatever calls follow *)
Theorem fail_is_for_ever : forall c q x r, call_bytes' c -> do_call D exec evalt d c q x = Some r -> f_res D r = RFail ->
  forall later, Forall call_nonempty later ->
  Forall (fun c' => do_call D exec evalt d c' (f_q D r) (f_x D r) = Some (failed (f_q D r) (f_x D r))) later.
Proof.
  intros c q x r Hb H Hr later Hl.
  assert (Hd : dead d (f_q D r)).
  { destruct c as [bs|]; cbn [do_call] in H; [exact (feed_go_fail_dead bs Hb _ _ _ _ _ H Hr)|exact (end_call_fail_dead _ _ _ H Hr)]. }
  induction Hl as [|c' later Hc' _ IH]; constructor; [|exact IH].
  destruct c' as [bs'|]; cbn [do_call].
  - destruct bs' as [|b bs']; [exfalso; apply Hc'; reflexivity|]. apply dead_feed. exact Hd.
  - apply dead_end. exact Hd.
Qed.
End Sticky.
