(** C04: no input makes a generated parser spin.  [norm_ok d] is a boolean certificate computed on
    the exported machine; its soundness theorem quantifies over every data semantics, every state,
    every symbol and every data value. *)
From Coq Require Import NArith Arith List Bool Lia.
Import ListNotations.
From NV Require Import Machine.Dfa Machine.Sem.

Definition all_syms : list sym := map N.of_nat (seq 0 257).
(** the symbols a parser without end() is ever given: the 256 byte values *)
Definition data_syms : list sym := map N.of_nat (seq 0 256).
Definition syms_for (eof : bool) : list sym := if eof then all_syms else data_syms.
Lemma in_all_syms s : (s <= 256)%N -> In s all_syms.
Proof.
  intros H. unfold all_syms. apply in_map_iff. exists (N.to_nat s). split; [apply N2Nat.id|].
  apply in_seq. lia.
Qed.

Definition state_ids (d : dfa) : list nat := seq 0 (length (d_states d)).

Definition norm_ok (d : dfa) : bool :=
  forallb (fun q => forallb (fun s => tree_ok (step_tree d q s)) all_syms) (state_ids d).

Lemma step_tree_out_of_range d q s : length (d_states d) <= q -> step_tree d q s = Leaf (LRet RFail q false).
Proof.
  intros H. unfold step_tree, fuel_of. cbn [nf].
  apply nth_error_None in H. rewrite H. reflexivity.
Qed.

Lemma norm_ok_tree d : norm_ok d = true -> forall q s, (s <= 256)%N -> tree_ok (step_tree d q s) = true.
Proof.
  intros H q s Hs. destruct (Nat.lt_ge_cases q (length (d_states d))) as [Hq|Hq].
  - unfold norm_ok in H. rewrite forallb_forall in H.
    assert (Hin : In q (state_ids d)) by (apply in_seq; lia).
    specialize (H q Hin). rewrite forallb_forall in H. apply H. apply in_all_syms; auto.
  - rewrite step_tree_out_of_range by lia. reflexivity.
Qed.

Section Total.
Variable D : Type.
Variable exec : pid -> sym -> D -> D.
Variable evalt : tid -> sym -> D -> bool.

(** every byte step and the end-of-input step terminate, from every state, for every data value;
    the number of transitions taken is bounded by [fuel_of d] by construction of [nf] *)
Theorem no_spin_step d : norm_ok d = true ->
  forall q s (inval : sym) x, (s <= 256)%N -> eval D exec evalt (step_tree d q s) inval x <> None.
Proof. intros H q s inval x Hs. apply eval_ok. apply norm_ok_tree; auto. Qed.

Lemma feed_go_total d : norm_ok d = true ->
  forall bs, Forall (fun b => (b < 256)%N) bs -> forall q x n acc, feed_go D exec evalt d bs q x n acc <> None.
Proof.
  intros H bs Hb. induction Hb as [|b bs Hlt _ IH]; intros q x n acc; cbn [feed_go]; try discriminate.
  pose proof (no_spin_step d H q b b x ltac:(lia)) as Hs.
  destruct (eval D exec evalt (step_tree d q b) b x) as [[[es l] x']|]; [|congruence].
  destruct l; [apply IH|discriminate].
Qed.

Theorem no_spin_feed d : norm_ok d = true ->
  forall bs, bs <> [] \/ d_end_check d = true -> Forall (fun b => (b < 256)%N) bs ->
  forall q x, feed D exec evalt d bs q x <> None.
Proof.
  intros H bs Hne Hb q x. unfold feed. destruct bs as [|b r].
  - destruct Hne as [Hne|Hne]; [congruence|]. rewrite Hne. discriminate.
  - apply feed_go_total; auto.
Qed.

(** ** yields: re-invoking feed after a yield that did not advance the cursor re-dispatches the
    same byte; [ychain n] bounds the number of such consecutive yields on every path *)
Fixpoint leaves (t : tree) : list leaf :=
  match t with Leaf l => [l] | Act _ k => leaves k | Test _ a b => leaves a ++ leaves b | OutOfFuel => [] end.

Fixpoint ychain (d : dfa) (n : nat) (q : nat) (s : sym) : bool :=
  match n with
  | O => false
  | S n' => forallb (fun l => match l with
                              | LRet (RYield _) q' false => ychain d n' q' s
                              | _ => true end) (leaves (step_tree d q s))
  end.

Definition yield_ok (d : dfa) : bool :=
  forallb (fun q => forallb (fun s => ychain d (S (length (d_states d))) q s) all_syms) (state_ids d).

Lemma eval_leaf_in t : forall s x es l x', eval D exec evalt t s x = Some (es, l, x') -> In l (leaves t).
Proof.
  induction t as [l0|p k IH|c a IHa b IHb|]; cbn [eval leaves]; intros s x es l x' H; try discriminate.
  - inversion H; subst. left; auto.
  - destruct (eval D exec evalt k s (exec p s x)) as [[[? ?] ?]|] eqn:E; try discriminate. inversion H; subst. eapply IH; eauto.
  - apply in_or_app. destruct (evalt c s x).
    + destruct (eval D exec evalt a s x) as [[[? ?] ?]|] eqn:E; try discriminate. inversion H; subst. left. eapply IHa; eauto.
    + destruct (eval D exec evalt b s x) as [[[? ?] ?]|] eqn:E; try discriminate. inversion H; subst. right. eapply IHb; eauto.
Qed.

(** number of consecutive non-advancing yield returns when the caller keeps re-invoking on byte s *)
Fixpoint yrun (d : dfa) (k : nat) (q : nat) (s : sym) (x : D) : nat :=
  match k with
  | O => 0
  | S k' => match eval D exec evalt (step_tree d q s) s x with
            | Some (_, LRet (RYield _) q' false, x') => S (yrun d k' q' s x')
            | _ => 0 end
  end.

Theorem yield_progress d : forall n q s, ychain d n q s = true -> forall k x, yrun d k q s x < n.
Proof.
  induction n as [|n IH]; intros q s H k x; cbn [ychain] in H; try discriminate.
  destruct k as [|k]; cbn [yrun]; try lia.
  destruct (eval D exec evalt (step_tree d q s) s x) as [[[es l] x']|] eqn:E; try lia.
  destruct l as [q'|r q' adv]; try lia. destruct r; try lia. destruct adv; try lia.
  rewrite forallb_forall in H. specialize (H _ (eval_leaf_in _ _ _ _ _ _ E)). cbn in H.
  specialize (IH q' s H k x'). lia.
Qed.
End Total.
