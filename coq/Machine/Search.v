(** Untrusted worklist searches that PRODUCE the certificates checked by Bisim.closed (and friends).
    Nothing here is proved or needs to be: a wrong answer makes the verified checker say false. *)
From Coq Require Import NArith Arith List Bool.
Import ListNotations.
From NV Require Import Machine.Dfa Machine.Sem Machine.NoSpin Machine.Bisim.

Record sfail := { sf_q1 : nat; sf_q2 : nat; sf_sym : sym; sf_parents : list (nat * nat * (nat * nat) * sym) }.

(** successors of one pair over all symbols, or the first symbol on which the trees do not match *)
Fixpoint pair_succs (m1 m2 : nfm) (p : nat * nat) (syms : list sym) (acc : list (nat * nat * sym)) : (list (nat * nat * sym)) + sym :=
  match syms with
  | [] => inl acc
  | s :: r => match tmatch (m1 (fst p) s) (m2 (snd p) s) with
              | Some l => pair_succs m1 m2 p r (map (fun x => (x, s)) l ++ acc)
              | None => inr s
              end
  end.

(** the worklist loop runs on binary fuel (2^k iterations by structural recursion on a positive),
    so no large unary number is ever built *)
Record bstate := { b_todo : list (nat * nat); b_R : list (nat * nat); b_par : list (nat * nat * (nat * nat) * sym) }.

Definition bstep (ss : list sym) (m1 m2 : nfm) (st : bstate) : bstate + ((list (nat * nat)) + sfail) :=
  match b_todo st with
  | [] => inr (inl (b_R st))
  | p :: rest =>
    if memp p (b_R st) then inl {| b_todo := rest; b_R := b_R st; b_par := b_par st |}
    else match pair_succs m1 m2 p ss [] with
         | inr s => inr (inr {| sf_q1 := fst p; sf_q2 := snd p; sf_sym := s; sf_parents := b_par st |})
         | inl l =>
             let new := filter (fun x => negb (memp (fst x) (p :: b_R st))) l in
             inl {| b_todo := map fst new ++ rest; b_R := p :: b_R st;
                    b_par := map (fun x => (fst x, p, snd x)) new ++ b_par st |}
         end
  end.

Fixpoint bloop (ss : list sym) (fuel : positive) (m1 m2 : nfm) (st : bstate) : bstate + ((list (nat * nat)) + sfail) :=
  match fuel with
  | xH => bstep ss m1 m2 st
  | xO f => match bloop ss f m1 m2 st with inl st' => bloop ss f m1 m2 st' | inr r => inr r end
  | xI f => match bstep ss m1 m2 st with
            | inl st1 => match bloop ss f m1 m2 st1 with inl st' => bloop ss f m1 m2 st' | inr r => inr r end
            | inr r => inr r end
  end.

Definition dfa_bsearch_on (ss : list sym) (d1 d2 : dfa) : (list (nat * nat)) + sfail :=
  match bloop ss (Pos.shiftl 1 40) (step_tree d1) (step_tree d2)
              {| b_todo := [(d_start d1, d_start d2)]; b_R := []; b_par := [] |} with
  | inr r => r
  | inl st => inr {| sf_q1 := 0; sf_q2 := 0; sf_sym := 999%N; sf_parents := b_par st |}
  end.
Definition dfa_bsearch : dfa -> dfa -> (list (nat * nat)) + sfail := dfa_bsearch_on all_syms.

(** search + verified check in one call (what the extracted driver runs); [eof]: the parsers have an end() function,
    so the end-of-input symbol is one of the symbols they are given *)
Definition dfa_bisim_run_on (eof : bool) (d1 d2 : dfa) : bool + sfail :=
  match dfa_bsearch_on (syms_for eof) d1 d2 with
  | inl R => inl (dfa_bisim_check_on (syms_for eof) d1 d2 R)
  | inr f => inr f
  end.
Definition dfa_bisim_run : dfa -> dfa -> bool + sfail := dfa_bisim_run_on true.

(** diagnostics for the no-spin certificate: first (state, symbol) whose normal form runs out of fuel *)
Definition spin_witness (d : dfa) : option (nat * sym) :=
  match find (fun qs => negb (tree_ok (step_tree d (fst qs) (snd qs))))
             (flat_map (fun q => map (fun s => (q, s)) all_syms) (state_ids d)) with
  | Some x => Some x
  | None => find (fun qs => negb (ychain d (S (length (d_states d))) (fst qs) (snd qs)))
                 (flat_map (fun q => map (fun s => (q, s)) all_syms) (state_ids d))
  end.

(** search + check packaged as one boolean, with its soundness statement (what certificates cite) *)
Definition dfa_equiv_cert_on (eof : bool) (d1 d2 : dfa) : bool :=
  match dfa_bsearch_on (syms_for eof) d1 d2 with inl R => dfa_bisim_check_on (syms_for eof) d1 d2 R | inr _ => false end.

Theorem dfa_equiv_cert_on_sound eof d1 d2 : dfa_equiv_cert_on eof d1 d2 = true ->
  forall D exec evalt n input, (forall s, In s input -> In s (syms_for eof)) -> forall x,
  match run D exec evalt (step_tree d1) n (d_start d1) input x, run D exec evalt (step_tree d2) n (d_start d2) input x with
  | Some a, Some b => a = b
  | _, _ => False end.
Proof.
  unfold dfa_equiv_cert_on. destruct (dfa_bsearch_on (syms_for eof) d1 d2) as [R|f]; [|discriminate].
  intros H. apply (dfa_bisim_sound_on (syms_for eof) d1 d2 R H).
Qed.

Definition dfa_equiv_cert (d1 d2 : dfa) : bool :=
  match dfa_bsearch d1 d2 with inl R => dfa_bisim_check d1 d2 R | inr _ => false end.

Theorem dfa_equiv_cert_sound d1 d2 : dfa_equiv_cert d1 d2 = true ->
  forall D exec evalt n input, (forall s, In s input -> (s <= 256)%N) -> forall x,
  match run D exec evalt (step_tree d1) n (d_start d1) input x, run D exec evalt (step_tree d2) n (d_start d2) input x with
  | Some a, Some b => a = b
  | _, _ => False end.
Proof.
  unfold dfa_equiv_cert. destruct (dfa_bsearch d1 d2) as [R|f]; [|discriminate].
  intros H. apply (dfa_bisim_sound d1 d2 R H).
Qed.

Definition nospin_cert (d : dfa) : bool := norm_ok d && yield_ok d.
