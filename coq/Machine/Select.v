(** C06: which transition a state takes on a byte (the order of the emitted if-chain), characterised.
    [Dfa.select_feed] mirrors _generate_switch_body: the first transition carrying Else is the else branch, the others are
    tested in list order on the byte alone.  These lemmas say what that means without reference to the loop. *)
From Coq Require Import NArith Arith List Bool Lia.
Import ListNotations.
From NV Require Import Machine.Dfa.

Lemma first_else_nth ts : forall k, first_else ts = Some k ->
  exists t, nth_error ts k = Some t /\ has (t_on t) bit_else = true /\
            forall j u, j < k -> nth_error ts j = Some u -> has (t_on u) bit_else = false.
Proof.
  induction ts as [|t r IH]; intros k H; cbn [first_else] in H; [discriminate|].
  destruct (has (t_on t) bit_else) eqn:E.
  - inversion H; subst. exists t. repeat split; auto. intros j u Hj. lia.
  - destruct (first_else r) as [k'|] eqn:Er; [|discriminate]. cbn in H. inversion H; subst.
    destruct (IH k' eq_refl) as [t' [Hn [He Hb]]]. exists t'. repeat split; auto.
    intros j u Hj Hu. destruct j as [|j]; cbn in Hu; [inversion Hu; subst; exact E|]. apply (Hb j u); [lia|exact Hu].
Qed.

Lemma first_else_none ts : first_else ts = None -> forall t, In t ts -> has (t_on t) bit_else = false.
Proof.
  induction ts as [|t r IH]; intros H u Hin; [destruct Hin|]. cbn [first_else] in H.
  destruct (has (t_on t) bit_else) eqn:E; [discriminate|].
  destruct (first_else r) eqn:Er; [discriminate|]. destruct Hin as [<-|Hin]; [exact E|exact (IH eq_refl u Hin)].
Qed.

(** the byte loop: the transition found is at some position i0 + j that is not the skipped one, lists the byte, and no
    earlier position other than the skipped one lists it *)
Lemma select_byte_go_spec ts : forall i skip b t, select_byte_go ts i skip b = Some t ->
  exists j, nth_error ts j = Some t /\ has (t_on t) b = true /\ skip <> Some (i + j) /\
            forall j' u, j' < j -> nth_error ts j' = Some u -> skip <> Some (i + j') -> has (t_on u) b = false.
Proof.
  induction ts as [|t0 r IH]; intros i skip b t H; cbn [select_byte_go] in H; [discriminate|].
  destruct (match skip with Some k => Nat.eqb i k | None => false end) eqn:Es.
  - destruct (IH _ _ _ _ H) as [j [Hn [Hb [Hs Hf]]]]. exists (S j). cbn [nth_error].
    repeat split; auto; [replace (i + S j) with (S i + j) by lia; exact Hs|].
    intros j' u Hj Hu Hsk. destruct j' as [|j'].
    + exfalso. apply Hsk. destruct skip as [k|]; [|discriminate]. apply Nat.eqb_eq in Es. subst. f_equal. lia.
    + cbn in Hu. apply (Hf j' u); [lia|exact Hu|]. replace (S i + j') with (i + S j') by lia. exact Hsk.
  - destruct (has (t_on t0) b) eqn:Eb.
    + inversion H; subst. exists 0. cbn. repeat split; auto.
      * intros Heq. destruct skip as [k|]; [|discriminate]. inversion Heq; subst. rewrite Nat.add_0_r, Nat.eqb_refl in Es. discriminate.
      * intros j' u Hj. lia.
    + destruct (IH _ _ _ _ H) as [j [Hn [Hb [Hs Hf]]]]. exists (S j). cbn [nth_error].
      repeat split; auto; [replace (i + S j) with (S i + j) by lia; exact Hs|].
      intros j' u Hj Hu Hsk. destruct j' as [|j']; [cbn in Hu; inversion Hu; subst; exact Eb|].
      cbn in Hu. apply (Hf j' u); [lia|exact Hu|]. replace (S i + j') with (i + S j') by lia. exact Hsk.
Qed.

Lemma select_byte_go_none ts : forall i skip b, select_byte_go ts i skip b = None ->
  forall j u, nth_error ts j = Some u -> skip <> Some (i + j) -> has (t_on u) b = false.
Proof.
  induction ts as [|t0 r IH]; intros i skip b H j u Hu Hsk; [destruct j; discriminate|]. cbn [select_byte_go] in H.
  destruct (match skip with Some k => Nat.eqb i k | None => false end) eqn:Es.
  - destruct j as [|j].
    + exfalso. apply Hsk. destruct skip as [k|]; [|discriminate]. apply Nat.eqb_eq in Es. subst. f_equal. lia.
    + cbn in Hu. apply (IH _ _ _ H j u Hu). replace (S i + j) with (i + S j) by lia. exact Hsk.
  - destruct (has (t_on t0) b) eqn:Eb; [discriminate|]. destruct j as [|j]; [cbn in Hu; inversion Hu; subst; exact Eb|].
    cbn in Hu. apply (IH _ _ _ H j u Hu). replace (S i + j) with (i + S j) by lia. exact Hsk.
Qed.

(** ** what [select_feed] returns *)
Inductive chosen (ts : list trans) (b : N) (t : trans) : Prop :=
| by_byte j : nth_error ts j = Some t -> has (t_on t) b = true -> first_else ts <> Some j ->
              (forall j' u, j' < j -> nth_error ts j' = Some u -> first_else ts <> Some j' -> has (t_on u) b = false) ->
              chosen ts b t
| by_else k : first_else ts = Some k -> nth_error ts k = Some t -> has (t_on t) bit_else = true ->
              (forall j u, nth_error ts j = Some u -> j <> k -> has (t_on u) b = false) ->
              chosen ts b t.

(** the transition taken on a byte is the first one, in list order and leaving the else branch aside, that lists the byte;
    if there is none it is the else branch (the first transition carrying Else) *)
Theorem select_feed_chosen ts b t : select_feed ts b = Some t -> chosen ts b t.
Proof.
  unfold select_feed. intros H. destruct (select_byte_go ts 0 (first_else ts) b) as [t'|] eqn:E.
  - inversion H; subst. destruct (select_byte_go_spec _ _ _ _ _ E) as [j [Hn [Hb [Hs Hf]]]]. cbn in Hs.
    apply (by_byte ts b t j); auto.
  - destruct (first_else ts) as [k|] eqn:Ef; [|discriminate].
    destruct (first_else_nth ts k Ef) as [t' [Hn [He _]]]. rewrite Hn in H. inversion H; subst.
    apply (by_else ts b t k); auto; try (intros j u Hu Hjk; apply (select_byte_go_none _ _ _ _ E j u Hu); cbn; congruence).
Qed.

(** and a state takes no transition on a byte exactly when nothing lists it and there is no else branch *)
Theorem select_feed_none ts b : select_feed ts b = None ->
  forall t, In t ts -> has (t_on t) b = false /\ has (t_on t) bit_else = false.
Proof.
  unfold select_feed. intros H t Hin. destruct (select_byte_go ts 0 (first_else ts) b) as [t'|] eqn:E; [discriminate|].
  destruct (first_else ts) as [k|] eqn:Ef.
  - destruct (first_else_nth ts k Ef) as [t' [Hn _]]. rewrite Hn in H. discriminate.
  - split; [|exact (first_else_none ts Ef t Hin)].
    destruct (In_nth_error _ _ Hin) as [j Hj]. apply (select_byte_go_none _ _ _ _ E j t Hj). discriminate.
Qed.

(** selection is by content only: it returns a member of the list *)
Theorem select_feed_in ts b t : select_feed ts b = Some t -> In t ts.
Proof. intros H. destruct (select_feed_chosen ts b t H) as [j Hn _ _ _|k _ Hn _ _]; eapply nth_error_In; eauto. Qed.
