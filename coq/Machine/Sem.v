(** The abstract machine: what one byte (or end-of-input) does from a machine state, as a decision
    tree over primitives and tests (the symbolic normal form), and its evaluation under an arbitrary
    data semantics.  Mirrors CodegenCtx._generate_switch_body / _generate_transition_body /
    _generate_condition_point_body / _generate_end_switch_body (DESIGN.md 3.3, 3.6). *)
From Coq Require Import NArith Arith List Bool Lia.
Import ListNotations.
From NV Require Import Machine.Dfa.

Inductive leaf :=
| LConsume (q : nat)                     (* the byte is consumed; machine state becomes q *)
| LRet (r : res) (q : nat) (adv : bool). (* the call returns r with state q; adv: cursor already moved past the byte *)

Inductive tree := Leaf (l : leaf) | Act (p : pid) (k : tree) | Test (t : tid) (kt kf : tree) | OutOfFuel.

Section NF.
Variable d : dfa.

Definition is_end (s : sym) : bool := N.eqb s sym_end.

(** what the code after a state's if-chain returns when nothing (more) applies *)
(** where a parser that end() has failed for good is left (fix e-sticky: every later call answers FAIL too): the fail state,
    or - when it was removed as unreachable - the first index that is not a state *)
Fixpoint fail_index_go (sts : list state) (i : nat) : nat :=
  match sts with
  | [] => i
  | SFail :: _ => i
  | _ :: r => fail_index_go r (S i)
  end.
Definition fail_index : nat := fail_index_go (d_states d) 0.

Definition source_return (src : nat) (s : sym) : leaf :=
  if accepting d src then LRet RDone src false
  else if is_end s then LRet RFail fail_index false
  else LRet ROk src false.

(** [goes_on]: the transition has a target state, or a break has just set the state it leaves for (the code behind the
    skip label goes on exactly as if the target existed; a target is absent only when it was removed as unreachable) *)
Definition epilogue (rec : nat -> tree) (src : nat) (s : sym) (t : trans) (qc : nat) (adv : bool) (brk : bool) : tree :=
  let goes_on := brk || match t_tgt t with Some _ => true | None => false end in
  if t_fall t then
    if goes_on then rec qc else Leaf (source_return src s)
  else if immediate_done d t then Leaf (LRet RDone qc adv)
  else if is_end s then
    (* end(): an `end` pattern matched here; DONE when the program is complete behind it (the transition's own target is an
       accepting state) or was complete already, else FAIL *)
    (if (match t_tgt t with Some q => accepting d q | None => false end) || accepting d src then Leaf (LRet RDone qc false)
     else Leaf (LRet RFail fail_index false))
  else if goes_on then Leaf (LConsume qc) else Leaf (source_return src s).

Fixpoint run_acts (rec : nat -> tree) (src : nat) (s : sym) (t : trans) (a : atree) (qc : nat) (adv : bool) : tree :=
  match a with
  | AEnd => epilogue rec src s t qc adv false
  | APrim p k => Act p (run_acts rec src s t k qc adv)
  | ATest c a1 a2 => Test c (run_acts rec src s t a1 qc adv) (run_acts rec src s t a2 qc adv)
  | ARet r => Leaf (LRet r qc adv)
  | AGoto q2 => rec q2
  | ABreak q2 => epilogue rec src s t q2 adv true
  end.

Definition early_adv (s : sym) (t : trans) : bool :=
  t_early t && negb (is_end s) && negb (t_fall t) && negb (immediate_done d t).

Definition body (rec : nat -> tree) (src : nat) (s : sym) (t : trans) : tree :=
  run_acts rec src s t (t_acts t) (match t_tgt t with Some q => q | None => src end) (early_adv s t).

Fixpoint conds (rec : nat -> tree) (src : nat) (s : sym) (brs : list (option tid * trans)) : tree :=
  match brs with
  | [] => Leaf (LRet RFail src false)
  | (None, t) :: _ => body rec src s t
  | (Some c, t) :: r => Test c (body rec src s t) (conds rec src s r)
  end.

Fixpoint nf (fuel : nat) (q : nat) (s : sym) {struct fuel} : tree :=
  match fuel with
  | O => OutOfFuel
  | S f =>
    match nth_error (d_states d) q with
    | None => Leaf (LRet RFail q false)
    | Some SFail => Leaf (LRet RFail q false)
    | Some (SNormal ts) =>
        match select ts s with
        | None => Leaf (source_return q s)
        | Some t =>
            (* end() in an accepting state takes only a transition that lists End itself and is not an error transition: the
               parse is complete, a transition that rejects further bytes or the end of input does not make it fail *)
            if is_end s && accepting d q && (negb (has (t_on t) sym_end) || t_err t) then Leaf (source_return q s)
            else body (fun q' => nf f q' s) q s t
        end
    | Some (SCond brs) => conds (fun q' => nf f q' s) q s brs
    end
  end.

Definition fuel_of : nat := S (S (length (d_states d))).
Definition step_tree (q : nat) (s : sym) : tree := nf fuel_of q s.

Fixpoint tree_ok (t : tree) : bool :=
  match t with
  | Leaf _ => true | Act _ k => tree_ok k | Test _ a b => tree_ok a && tree_ok b | OutOfFuel => false end.
End NF.

(** ** evaluation under an arbitrary data semantics *)
Section DataSem.
Variable D : Type.
Variable exec : pid -> sym -> D -> D.
Variable evalt : tid -> sym -> D -> bool.

Inductive ev := EvPrim (p : pid) (s : sym) | EvTest (t : tid) (b : bool).

Fixpoint eval (t : tree) (s : sym) (x : D) : option (list ev * leaf * D) :=
  match t with
  | Leaf l => Some ([], l, x)
  | Act p k => match eval k s (exec p s x) with Some (es, l, x') => Some (EvPrim p s :: es, l, x') | None => None end
  | Test c kt kf =>
      let b := evalt c s x in
      match eval (if b then kt else kf) s x with Some (es, l, x') => Some (EvTest c b :: es, l, x') | None => None end
  | OutOfFuel => None
  end.

Lemma eval_ok t : tree_ok t = true -> forall s x, eval t s x <> None.
Proof.
  induction t as [l|p k IH|c a IHa b IHb|]; simpl; intros H s x; try discriminate.
  - specialize (IH H s (exec p s x)). destruct (eval k s (exec p s x)) as [[[? ?] ?]|]; congruence.
  - apply andb_prop in H as [Ha Hb]. destruct (evalt c s x).
    + specialize (IHa Ha s x). destruct (eval a s x) as [[[? ?] ?]|]; congruence.
    + specialize (IHb Hb s x). destruct (eval b s x) as [[[? ?] ?]|]; congruence.
Qed.

(** one call of feed on a chunk: result code, new machine state, data, bytes consumed, events.
    [None] = the normal form ran out of fuel (excluded by the no-spin certificate). *)
Record fret := { f_res : res; f_q : nat; f_x : D; f_consumed : nat; f_evs : list ev }.

Fixpoint feed_go (d : dfa) (bs : list N) (q : nat) (x : D) (n : nat) (acc : list ev) : option fret :=
  match bs with
  | [] => Some {| f_res := ROk; f_q := q; f_x := x; f_consumed := n; f_evs := acc |}
  | b :: r =>
    match eval (step_tree d q b) b x with
    | None => None
    | Some (es, LConsume q', x') => feed_go d r q' x' (S n) (acc ++ es)
    | Some (es, LRet rc q' adv, x') =>
        Some {| f_res := rc; f_q := q'; f_x := x'; f_consumed := if adv then S n else n; f_evs := acc ++ es |}
    end
  end.

(** [feed]: the prologue's end check, then the byte loop.  Calling feed on an empty chunk without
    the end check reads past the buffer: modelled as [None] too (callers must not do it). *)
Definition feed (d : dfa) (bs : list N) (q : nat) (x : D) : option fret :=
  match bs with
  | [] => if d_end_check d then Some {| f_res := ROk; f_q := q; f_x := x; f_consumed := 0; f_evs := [] |} else None
  | _ => feed_go d bs q x 0 []
  end.

Definition end_call (d : dfa) (q : nat) (x : D) : option fret :=
  match eval (step_tree d q sym_end) 255%N x with
  | None => None
  | Some (es, LConsume q', x') => None      (* end-of-input is never consumed *)
  | Some (es, LRet rc q' _, x') => Some {| f_res := rc; f_q := q'; f_x := x'; f_consumed := 0; f_evs := es |}
  end.
End DataSem.
