(** C04, the quantitative half: the work of a feed call is bounded by the chunk length times a constant of the machine,
    the work of end() by that constant.  "Work" is what the emitted C does besides moving from label to label: the
    primitive actions it executes and the conditions it evaluates - exactly the events [Sem.eval] records.  (The number of
    labels passed per byte is bounded by [fuel_of d] = number of states + 2 by the construction of [Sem.nf].)
    [work_bound d] is computed from the exported machine: the depth of the deepest normal-form tree of any state on any
    symbol.  Nothing here needs a certificate: the bounds hold of whatever a call returns; that it returns at all is
    [NoSpin.no_spin_feed] under the certificate [norm_ok]. *)
From Coq Require Import NArith Arith List Bool Lia.
Import ListNotations.
From NV Require Import Machine.Dfa Machine.Sem Machine.NoSpin.

Fixpoint depth (t : tree) : nat :=
  match t with
  | Leaf _ | OutOfFuel => 0
  | Act _ k => S (depth k)
  | Test _ a b => S (Nat.max (depth a) (depth b))
  end.

Definition list_max (l : list nat) : nat := fold_right Nat.max 0 l.
Lemma list_max_ge l : forall n, In n l -> n <= list_max l.
Proof.
  induction l as [|a l IH]; intros n Hin; [destruct Hin|].
  cbn [list_max fold_right]. destruct Hin as [->|Hin]; [lia|]. specialize (IH n Hin). unfold list_max in IH. lia.
Qed.

Definition work_bound (d : dfa) : nat :=
  list_max (flat_map (fun q => map (fun s => depth (step_tree d q s)) all_syms) (state_ids d)).

Lemma depth_le_bound d q s : (s <= 256)%N -> depth (step_tree d q s) <= work_bound d.
Proof.
  intros Hs. destruct (Nat.lt_ge_cases q (length (d_states d))) as [Hq|Hq].
  - apply list_max_ge. apply in_flat_map. exists q. split; [apply in_seq; lia|].
    apply in_map_iff. exists s. split; [reflexivity|apply in_all_syms; exact Hs].
  - rewrite step_tree_out_of_range by lia. cbn [depth]. lia.
Qed.

Section Work.
Variable D : Type.
Variable exec : pid -> sym -> D -> D.
Variable evalt : tid -> sym -> D -> bool.

(** one dispatch executes at most [depth] actions and tests, whatever the data *)
Lemma eval_events_le_depth t : forall s x es l x', eval D exec evalt t s x = Some (es, l, x') -> length es <= depth t.
Proof.
  induction t as [l0|p k IH|c a IHa b IHb|]; cbn [eval depth]; intros s x es l x' H; try discriminate.
  - inversion H; subst. cbn. lia.
  - destruct (eval D exec evalt k s (exec p s x)) as [[[es0 l0] x0]|] eqn:E; try discriminate.
    inversion H; subst. specialize (IH _ _ _ _ _ E). cbn [length]. lia.
  - destruct (evalt c s x).
    + destruct (eval D exec evalt a s x) as [[[es0 l0] x0]|] eqn:E; try discriminate.
      inversion H; subst. specialize (IHa _ _ _ _ _ E). cbn [length]. lia.
    + destruct (eval D exec evalt b s x) as [[[es0 l0] x0]|] eqn:E; try discriminate.
      inversion H; subst. specialize (IHb _ _ _ _ _ E). cbn [length]. lia.
Qed.

Lemma feed_go_work d : forall bs, Forall (fun b => (b < 256)%N) bs ->
  forall q x n acc r, feed_go D exec evalt d bs q x n acc = Some r ->
  length (f_evs D r) <= length acc + length bs * work_bound d.
Proof.
  intros bs Hb. induction Hb as [|b bs Hlt _ IH]; intros q x n acc r H; cbn [feed_go] in H.
  - inversion H; subst. cbn. lia.
  - destruct (eval D exec evalt (step_tree d q b) b x) as [[[es l] x']|] eqn:E; try discriminate.
    pose proof (eval_events_le_depth _ _ _ _ _ _ E) as He.
    pose proof (depth_le_bound d q b ltac:(lia)) as Hd.
    destruct l as [q'|rc q' adv].
    + specialize (IH _ _ _ _ _ H). rewrite app_length in IH. cbn [length Nat.mul]. lia.
    + inversion H; subst. cbn [f_evs length Nat.mul]. rewrite app_length. lia.
Qed.

(** the work of one feed call is linear in the chunk: at most [work_bound d] actions and tests per byte offered *)
Theorem feed_work_linear d : forall bs, Forall (fun b => (b < 256)%N) bs ->
  forall q x r, feed D exec evalt d bs q x = Some r -> length (f_evs D r) <= length bs * work_bound d.
Proof.
  intros bs Hb q x r H. unfold feed in H. destruct bs as [|b bs'].
  - destruct (d_end_check d); [|discriminate]. inversion H; subst. cbn. lia.
  - pose proof (feed_go_work d _ Hb _ _ _ _ _ H) as Hw. cbn [length] in Hw. exact Hw.
Qed.

(** sharper: the work is bounded by the bytes actually looked at (consumed, plus the one the call stopped on) *)
Lemma feed_go_work_consumed d : forall bs q x n acc r, Forall (fun b => (b < 256)%N) bs ->
  feed_go D exec evalt d bs q x n acc = Some r ->
  length (f_evs D r) + n * work_bound d <= length acc + (S (f_consumed D r)) * work_bound d.
Proof.
  intros bs q x n acc r Hb. revert q x n acc r. induction Hb as [|b bs Hlt _ IH]; intros q x n acc r H; cbn [feed_go] in H.
  - inversion H; subst. cbn [f_evs f_consumed]. lia.
  - destruct (eval D exec evalt (step_tree d q b) b x) as [[[es l] x']|] eqn:E; try discriminate.
    pose proof (eval_events_le_depth _ _ _ _ _ _ E) as He.
    pose proof (depth_le_bound d q b ltac:(lia)) as Hd.
    destruct l as [q'|rc q' adv].
    + specialize (IH _ _ _ _ _ H). rewrite app_length in IH. cbn [Nat.mul] in IH. lia.
    + inversion H; subst. cbn [f_evs f_consumed]. rewrite app_length. destruct adv; cbn [Nat.mul]; lia.
Qed.

Theorem feed_work_consumed d : forall bs, Forall (fun b => (b < 256)%N) bs ->
  forall q x r, feed D exec evalt d bs q x = Some r -> length (f_evs D r) <= S (f_consumed D r) * work_bound d.
Proof.
  intros bs Hb q x r H. unfold feed in H. destruct bs as [|b bs'].
  - destruct (d_end_check d); [|discriminate]. inversion H; subst. cbn. lia.
  - pose proof (feed_go_work_consumed d _ _ _ _ _ _ Hb H) as Hw. cbn [length Nat.mul] in Hw. lia.
Qed.

(** end() does at most [work_bound d] actions and tests *)
Theorem end_work_bounded d : forall q x r, end_call D exec evalt d q x = Some r -> length (f_evs D r) <= work_bound d.
Proof.
  intros q x r H. unfold end_call in H.
  destruct (eval D exec evalt (step_tree d q sym_end) 255%N x) as [[[es l] x']|] eqn:E; try discriminate.
  pose proof (eval_events_le_depth _ _ _ _ _ _ E) as He.
  pose proof (depth_le_bound d q sym_end ltac:(unfold sym_end; lia)) as Hd.
  destruct l as [q'|rc q' adv]; try discriminate. inversion H; subst. cbn [f_evs]. lia.
Qed.

(** both halves together: under the no-spin certificate every feed call on a non-empty chunk of bytes returns, having
    consumed no more than the chunk and done work linear in it *)
Theorem feed_returns_with_linear_work d : norm_ok d = true ->
  forall bs, bs <> [] -> Forall (fun b => (b < 256)%N) bs ->
  forall q x, exists r, feed D exec evalt d bs q x = Some r /\
                        length (f_evs D r) <= length bs * work_bound d /\
                        length (f_evs D r) <= S (f_consumed D r) * work_bound d.
Proof.
  intros Hn bs Hne Hb q x.
  pose proof (no_spin_feed D exec evalt d Hn bs (or_introl Hne) Hb q x) as Ht.
  destruct (feed D exec evalt d bs q x) as [r|] eqn:E; [|congruence].
  exists r. split; [reflexivity|]. split; [eapply feed_work_linear; eauto|eapply feed_work_consumed; eauto].
Qed.

(** end() returns under the certificate, provided the machine never consumes the end of input ([Eof.end_safe] is the
    certificate for that; here it is the hypothesis that the call is defined at all once the dispatch terminates) *)
Theorem end_dispatch_terminates d : norm_ok d = true ->
  forall q x, eval D exec evalt (step_tree d q sym_end) 255%N x <> None.
Proof. intros Hn q x. apply no_spin_step; [exact Hn|unfold sym_end; lia]. Qed.
End Work.
