(** C01 - accepted programs behave as their procedural reading prescribes.

    The procedural reading is Ref/RefSem.v (statement language: Ref/Lang.v).  The property is decided per
    accepted program by a certificate: [sim_cert syms p d = true] for the program term p (from which the
    source text was printed) and the machine d the current compiler built from that text.  The theorem below
    is what a successful certificate means; it holds for every data semantics (every interpretation of
    assignments, appends, hooks and conditions), every input over the symbols of interest, every number of
    re-invocations after yields. *)
From Coq Require Import NArith Arith List Bool.
Import ListNotations.
From NV Require Import Machine.Dfa Machine.Sem Machine.Bisim Machine.BBisim Regex.Re Ref.Lang Ref.RefSem Ref.Sim Ref.RefCert Machine.Chunk Machine.Drive Ref.CallLevel.

Theorem c01_compiled_trace_is_a_reading : forall syms p d, sim_cert syms p d = true ->
  forall D exec evalt K2 input, (forall s, In s input -> In s syms) -> forall x tr,
  crun D exec evalt d K2 input x = Some tr ->
  reading D exec evalt (ref_spec (ref_table syms p)) (to_stree (ref_table syms p) (start_tree p)) input x tr.
Proof. exact sim_cert_sound. Qed.
Print Assumptions c01_compiled_trace_is_a_reading.

(** the same at the level of calls: a caller who runs start(), passes its input to feed and calls feed again after
    every yield code with what the reported cursor position has not passed (Ref/CallLevel.cdrive over Sem.feed_go,
    the call-level model of C02 / C10) observes a trace the reading allows *)
Theorem c01_caller_observes_a_reading : forall syms p d, sim_cert syms p d = true -> dfa_wf d = true ->
  forall D exec evalt fuel input, (forall s, In s input -> In s syms) -> forall x tr,
  cdrive D exec evalt d fuel input x = Some tr ->
  reading D exec evalt (ref_spec (ref_table syms p)) (to_stree (ref_table syms p) (start_tree p)) input x tr.
Proof. exact caller_sees_a_reading. Qed.
Print Assumptions c01_caller_observes_a_reading.

(** the step lemma behind it: whatever the machine does on one symbol from a related pair is one of the
    options of the reading, event for event, and the successors are related again *)
Theorem c01_step : forall D exec evalt t1 t2 succs, sim_lock t1 t2 = Some succs ->
  forall s x es l x', evali D exec evalt t2 s x = Some (es, l, x') ->
  match l with
  | LConsume q' => exists j, In (j, q') succs /\ seval D exec evalt t1 s x es (OCont j) x'
  | LRet r q' adv => exists j, seval D exec evalt t1 s x es (ORet r j adv) x' /\ (is_yield r = true -> In (j, q') succs)
  end.
Proof. exact sim_lock_sem. Qed.
Print Assumptions c01_step.

(** the hypothesis is satisfiable: hook h0; out int n0; parser { "a"; h0(); optional { "b"; n0 = [n0 + 1]; } "c"; }
    and the machine nmfu builds from it at -O0 *)
Notation mkT := Build_trans.
Notation mkD := Build_dfa.
Definition ex_prog : list stmt := [SMatch (Cls 158456325028528675187087900672%N) None; SAct 0%N; SOptional [SMatch (Cls 316912650057057350374175801344%N) None; SAct 1%N]; SMatch (Cls 633825300114114700748351602688%N) None].
Definition ex_dfa : dfa := (mkD [(SNormal [(mkT 231584178474632390847141970017375815706539969331281128078915168015826259279872%N (Some 6) true true false AEnd); (mkT 158456325028528675187087900672%N (Some 1) false false false (APrim 0%N AEnd))]);
 (SNormal [(mkT 231584178474632390847141970017375815706539969331281128078915168015826259279872%N (Some 6) true true false AEnd); (mkT 316912650057057350374175801344%N (Some 3) false false false (APrim 1%N AEnd)); (mkT 633825300114114700748351602688%N (Some 5) false false false AEnd)]);
 (SNormal [(mkT 231584178474632390847141970017375815706539969331281128078915168015826259279872%N (Some 6) true true false AEnd); (mkT 316912650057057350374175801344%N (Some 3) false false false (APrim 1%N AEnd)); (mkT 633825300114114700748351602688%N (Some 5) false false false AEnd)]);
 (SNormal [(mkT 231584178474632390847141970017375815706539969331281128078915168015826259279872%N (Some 6) true true false AEnd); (mkT 633825300114114700748351602688%N (Some 5) false false false AEnd)]);
 (SNormal [(mkT 231584178474632390847141970017375815706539969331281128078915168015826259279872%N (Some 6) true true false AEnd); (mkT 633825300114114700748351602688%N (Some 5) false false false AEnd)]);
 (SNormal []);
 SFail] 0 [5] AEnd false false).
Definition byte_syms : list sym := map N.of_nat (seq 0 256).
Example c01_example : sim_cert byte_syms ex_prog ex_dfa = true.
Proof. vm_compute. reflexivity. Qed.

Example c01_example_wf : dfa_wf ex_dfa = true.
Proof. vm_compute. reflexivity. Qed.
(** and the caller's loop really produces a trace on it: a c, one byte per... the whole input in one call *)
Example c01_example_calls :
  cdrive (list N) (fun p _ x => p :: x) (fun _ _ _ => true) ex_dfa 3 [97; 98; 99]%N [] = Some [IPrim 0%N; IPrim 1%N; IRet RDone].
Proof. vm_compute. reflexivity. Qed.

(** a machine that calls the hook one symbol too late AND a second time is refused *)
Definition ex_bad : dfa := (mkD [(SNormal [(mkT 231584178474632390847141970017375815706539969331281128078915168015826259279872%N (Some 6) true true false AEnd); (mkT 158456325028528675187087900672%N (Some 1) false false false (APrim 0%N AEnd))]);
 (SNormal [(mkT 231584178474632390847141970017375815706539969331281128078915168015826259279872%N (Some 6) true true false AEnd); (mkT 316912650057057350374175801344%N (Some 3) false false false (APrim 0%N (APrim 1%N AEnd))); (mkT 633825300114114700748351602688%N (Some 5) false false false AEnd)]);
 (SNormal [(mkT 231584178474632390847141970017375815706539969331281128078915168015826259279872%N (Some 6) true true false AEnd); (mkT 316912650057057350374175801344%N (Some 3) false false false (APrim 1%N AEnd)); (mkT 633825300114114700748351602688%N (Some 5) false false false AEnd)]);
 (SNormal [(mkT 231584178474632390847141970017375815706539969331281128078915168015826259279872%N (Some 6) true true false AEnd); (mkT 633825300114114700748351602688%N (Some 5) false false false AEnd)]);
 (SNormal [(mkT 231584178474632390847141970017375815706539969331281128078915168015826259279872%N (Some 6) true true false AEnd); (mkT 633825300114114700748351602688%N (Some 5) false false false AEnd)]);
 (SNormal []);
 SFail] 0 [5] AEnd false false).
Example c01_example_refused : sim_cert byte_syms ex_prog ex_bad = false.
Proof. vm_compute. reflexivity. Qed.
