(** C02 - parsing result is independent of how input is chunked (model level; the tie of the model
    to the emitted C under every split is the correspondence run by harness/props/c02.py). *)
From Coq Require Import NArith Arith List Bool.
Import ListNotations.
From NV Require Import Machine.Dfa Machine.Sem Machine.Chunk.

(** one call on c1 ++ c2 = a call on c1 and, if it ran off the end of c1, a call on c2 from the struct
    it left: same code, state, data, total consumed count, same events in the same order *)
Theorem c02_two_chunks : forall D exec evalt d, dfa_wf d = true -> forall bs1 bs2 q x, bs1 <> [] -> bs2 <> [] ->
  feed D exec evalt d (bs1 ++ bs2) q x =
  match feed D exec evalt d bs1 q x with
  | None => None
  | Some r => if ran_off D r (length bs1)
              then option_map (shift D (length bs1) (f_evs D r)) (feed D exec evalt d bs2 (f_q D r) (f_x D r))
              else Some r
  end.
Proof. exact feed_app. Qed.
Print Assumptions c02_two_chunks.

(** every composition of the input into chunks, down to one byte per call *)
Theorem c02_any_composition : forall D exec evalt d, dfa_wf d = true -> forall chunks q x,
  feed_chunks D exec evalt d chunks q x = feed_go D exec evalt d (concat chunks) q x 0 [].
Proof. exact feed_chunks_concat. Qed.
Print Assumptions c02_any_composition.

Theorem c02_two_compositions_agree : forall D exec evalt d, dfa_wf d = true -> forall cs1 cs2 q x,
  concat cs1 = concat cs2 -> feed_chunks D exec evalt d cs1 q x = feed_chunks D exec evalt d cs2 q x.
Proof. exact any_two_compositions. Qed.
Print Assumptions c02_two_compositions_agree.

(** non-vacuity: a two-state machine with an action, fed "ab" whole and as "a","b" *)
Definition ex_d : dfa :=
  {| d_states := [SNormal [{| t_on := N.shiftl 1 97; t_tgt := Some 1; t_fall := false; t_err := false; t_early := false; t_acts := APrim 7%N AEnd |}];
                  SNormal [{| t_on := N.shiftl 1 98; t_tgt := Some 0; t_fall := false; t_err := false; t_early := false; t_acts := AEnd |}]];
     d_start := 0; d_acc := []; d_start_acts := AEnd; d_strict_done := false; d_end_check := false |}.
Example c02_example : dfa_wf ex_d = true /\
  option_map (fun r => (f_res nat r, f_consumed nat r, f_x nat r)) (feed nat (fun p _ x => x + N.to_nat p) (fun _ _ _ => true) ex_d [97; 98]%N 0 0) = Some (ROk, 2, 7) /\
  option_map (fun r => (f_res nat r, f_consumed nat r, f_x nat r)) (feed_chunks nat (fun p _ x => x + N.to_nat p) (fun _ _ _ => true) ex_d [[97]; [98]]%N 0 0) = Some (ROk, 2, 7).
Proof. repeat split; vm_compute; reflexivity. Qed.
