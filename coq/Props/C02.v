(** C02 - parsing result is independent of how input is chunked (model level; the tie of the model
    to the emitted C under every split is the correspondence run by harness/props/c02.py). *)
From Coq Require Import NArith Arith List Bool.
Import ListNotations.
From NV Require Import Machine.Dfa Machine.Sem Machine.Chunk Machine.Bisim Machine.BBisim Machine.Drive Machine.DriveChunks.

(** one call on c1 ++ c2 = a call on c1 and, if it ran off the end of c1, a call on c2 from the struct
    it left: same code, state, data, total consumed count, same events in the same order *)
Theorem c02_two_chunks : forall D exec evalt d, dfa_wf d = true -> forall bs1 bs2 q x, bs1 <> [] -> bs2 <> [] ->
  feed D exec evalt d (bs1 ++ bs2) q x =
  match feed D exec evalt d bs1 q x with
  | None => None
  | Some r => if ran_off D r (length bs1)
              then option_map (shift D (length bs1) (f_evs D r)) (feed D exec evalt d bs2 (f_q D r) (f_x D r))
              else Some r
  end.
Proof. exact feed_app. Qed.
Print Assumptions c02_two_chunks.

(** every composition of the input into chunks, down to one byte per call *)
Theorem c02_any_composition : forall D exec evalt d, dfa_wf d = true -> forall chunks q x,
  feed_chunks D exec evalt d chunks q x = feed_go D exec evalt d (concat chunks) q x 0 [].
Proof. exact feed_chunks_concat. Qed.
Print Assumptions c02_any_composition.

Theorem c02_two_compositions_agree : forall D exec evalt d, dfa_wf d = true -> forall cs1 cs2 q x,
  concat cs1 = concat cs2 -> feed_chunks D exec evalt d cs1 q x = feed_chunks D exec evalt d cs2 q x.
Proof. exact any_two_compositions. Qed.
Print Assumptions c02_two_compositions_agree.

(** non-vacuity: a two-state machine with an action, fed "ab" whole and as "a","b" *)
Definition ex_d : dfa :=
  {| d_states := [SNormal [{| t_on := N.shiftl 1 97; t_tgt := Some 1; t_fall := false; t_err := false; t_early := false; t_acts := APrim 7%N AEnd |}];
                  SNormal [{| t_on := N.shiftl 1 98; t_tgt := Some 0; t_fall := false; t_err := false; t_early := false; t_acts := AEnd |}]];
     d_start := 0; d_acc := []; d_start_acts := AEnd; d_strict_done := false; d_end_check := false |}.
Example c02_example : dfa_wf ex_d = true /\
  option_map (fun r => (f_res nat r, f_consumed nat r, f_x nat r)) (feed nat (fun p _ x => x + N.to_nat p) (fun _ _ _ => true) ex_d [97; 98]%N 0 0) = Some (ROk, 2, 7) /\
  option_map (fun r => (f_res nat r, f_consumed nat r, f_x nat r)) (feed_chunks nat (fun p _ x => x + N.to_nat p) (fun _ _ _ => true) ex_d [[97]; [98]]%N 0 0) = Some (ROk, 2, 7).
Proof. repeat split; vm_compute; reflexivity. Qed.

(** with yields: a caller who passes the input in chunks - any chunks, empty ones included - and after every yield code
    calls feed again with what the reported cursor position has not passed of the current chunk (DriveChunks.drive_chunks,
    built from Sem.feed_go) observes exactly the symbol-by-symbol run on the concatenation: every trace the chunked loop
    produces is the run's, and whenever the run produces a trace the loop produces it (given (K+2) * length + 1 feed calls
    per chunk, K the run's budget of consecutive yields that do not advance) *)
Theorem c02_chunked_loop_is_the_run : forall D exec evalt d, dfa_wf d = true ->
  (forall f K, f <= K -> forall chunks q x tr,
     drive_chunks D exec evalt d f chunks q x = Some tr -> run D exec evalt (step_tree d) K (concat chunks) q x = Some tr) /\
  (forall K chunks F, bound K (length (concat chunks)) <= F -> forall q x tr,
     run D exec evalt (step_tree d) K (concat chunks) q x = Some tr -> drive_chunks D exec evalt d F chunks q x = Some tr).
Proof. intros D exec evalt d Hwf. split; [exact (drive_chunks_run D exec evalt d Hwf) | exact (run_drive_chunks D exec evalt d Hwf)]. Qed.
Print Assumptions c02_chunked_loop_is_the_run.

(** hence two ways of cutting the same input cannot be told apart: hooks, test outcomes, yield / finish codes and the
    final result come in the same order *)
Theorem c02_two_chunkings_same_trace : forall D exec evalt d, dfa_wf d = true ->
  forall f1 f2 cs1 cs2 q x tr1 tr2, concat cs1 = concat cs2 ->
  drive_chunks D exec evalt d f1 cs1 q x = Some tr1 -> drive_chunks D exec evalt d f2 cs2 q x = Some tr2 -> tr1 = tr2.
Proof. exact two_chunkings_same_trace. Qed.
Print Assumptions c02_two_chunkings_same_trace.

(** non-vacuity with a yield: a machine that yields code 5 on every a (advancing) and runs primitive 7 on b; the
    input a b a cut as [a b a], [a][b][a] and [a b][][a] gives the same trace *)
Definition ex_y : dfa :=
  {| d_states := [SNormal [{| t_on := N.shiftl 1 97; t_tgt := Some 0; t_fall := false; t_err := false; t_early := true; t_acts := ARet (RYield 5%N) |};
                           {| t_on := N.shiftl 1 98; t_tgt := Some 0; t_fall := false; t_err := false; t_early := false; t_acts := APrim 7%N AEnd |}]];
     d_start := 0; d_acc := []; d_start_acts := AEnd; d_strict_done := false; d_end_check := false |}.
Example c02_example_yield : dfa_wf ex_y = true /\
  drive_chunks unit (fun _ _ x => x) (fun _ _ _ => true) ex_y 4 [[97; 98; 97]]%N 0 tt = Some [IRet (RYield 5%N); IPrim 7%N; IRet (RYield 5%N)] /\
  drive_chunks unit (fun _ _ x => x) (fun _ _ _ => true) ex_y 4 [[97]; [98]; [97]]%N 0 tt = Some [IRet (RYield 5%N); IPrim 7%N; IRet (RYield 5%N)] /\
  drive_chunks unit (fun _ _ x => x) (fun _ _ _ => true) ex_y 4 [[97; 98]; []; [97]]%N 0 tt = Some [IRet (RYield 5%N); IPrim 7%N; IRet (RYield 5%N)].
Proof. repeat split; vm_compute; reflexivity. Qed.
