(** C03 - generated parsers are memory-safe and respect output capacities (model level: contents,
    lengths and capacities; the real heap and the sanitizer verdicts are the correspondence of
    harness/props/c03.py). *)
From Coq Require Import ZArith NArith List Bool Lia.
Import ListNotations.
From NV Require Import Base.PyLite Gen.GLit Machine.Dfa Machine.Sem Expr.CArith CSkel.Store CSkel.Run CSkel.Safety.

(** every buffer keeps its declared array size and a counter within the effective size (terminator
    excluded), every integer stays in the range of its C type, after start() and after ANY history of
    feed / end calls, on every input *)
Theorem c03_capacity_invariant : forall cfg d x0 r q x cs q' x',
  vals_ok (c_decls cfg) (vals x0) = true ->
  cstart cfg d x0 = Some (r, q, x) ->
  run_calls cfg d cs q x = Some (q', x') ->
  vals_ok (c_decls cfg) (vals x) = true /\ vals_ok (c_decls cfg) (vals x') = true.
Proof. exact capacity_invariant. Qed.
Print Assumptions c03_capacity_invariant.

Theorem c03_invariant_per_primitive : forall cfg p inval x x',
  vals_ok (c_decls cfg) (vals x) = true -> exec_cprim cfg p inval x = Some x' -> vals_ok (c_decls cfg) (vals x') = true.
Proof. exact store_inv_prim. Qed.
Print Assumptions c03_invariant_per_primitive.

(** behind the buffer-full test an append is performed inside the array; when the buffer is full the
    test says so (the out-of-space branch is taken instead of the write) *)
Theorem c03_guarded_append : forall cfg v size null u8 s x,
  vals_ok (c_decls cfg) (vals x) = true -> nth_error (c_decls cfg) v = Some (DBuf size null u8) ->
  eval_ctest cfg (TFull v) s x = Some false ->
  exists x', exec_cprim cfg (PAppend v) s x = Some x' /\ vals_ok (c_decls cfg) (vals x') = true.
Proof. exact guarded_append_defined. Qed.
Print Assumptions c03_guarded_append.
Theorem c03_guarded_append_expr : forall cfg v e size null u8 s x cv,
  vals_ok (c_decls cfg) (vals x) = true -> nth_error (c_decls cfg) v = Some (DBuf size null u8) ->
  eval_ctest cfg (TFull v) s x = Some false -> ceval (cenv cfg (vals x) s) e = Some cv ->
  exists x', exec_cprim cfg (PAppendExpr v e) s x = Some x' /\ vals_ok (c_decls cfg) (vals x') = true.
Proof. exact guarded_append_expr_defined. Qed.
Print Assumptions c03_guarded_append_expr.
Theorem c03_full_detected : forall cfg v size null u8 s x cells,
  nth_error (c_decls cfg) v = Some (DBuf size null u8) -> nth_error (vals x) v = Some (VBuf cells (eff_size size null)) ->
  eval_ctest cfg (TFull v) s x = Some true.
Proof. exact full_detected. Qed.
Print Assumptions c03_full_detected.

(** a string constant is executable iff it fits the effective size (longer ones must be compile errors) *)
Theorem c03_constant_fits_iff : forall cfg v bs size null u8 s x cells n,
  nth_error (c_decls cfg) v = Some (DBuf size null u8) -> nth_error (vals x) v = Some (VBuf cells n) ->
  (exists x', exec_cprim cfg (PSetStr v bs) s x = Some x') <-> length bs <= eff_size size null.
Proof. exact setstr_fits_iff. Qed.
Print Assumptions c03_constant_fits_iff.

(** the unsigned C type CodegenCtx._integer_containing (regenerated from the source) picks for a value
    bound n can hold n: counters and the state index never wrap *)
Definition s_u8 : pystr := [117; 105; 110; 116; 56; 95; 116]%N.
Definition s_u16 : pystr := [117; 105; 110; 116; 49; 54; 95; 116]%N.
Definition s_u32 : pystr := [117; 105; 110; 116; 51; 50; 95; 116]%N.
Definition s_umax : pystr := [117; 105; 110; 116; 109; 97; 120; 95; 116]%N.
Definition utype_max (t : pystr) : option Z :=
  if str_eqb t s_u8 then Some 255%Z else if str_eqb t s_u16 then Some 65535%Z
  else if str_eqb t s_u32 then Some 4294967295%Z else if str_eqb t s_umax then Some 18446744073709551615%Z else None.

Lemma counter_type_fits_lemma : forall n, (0 <= n <= 18446744073709551615)%Z ->
  exists t m, integer_containing (Some n) false None = Ok t /\ utype_max t = Some m /\ (n <= m)%Z.
Proof.
  intros n Hn. unfold integer_containing. cbn [negb].
  destruct (Z.ltb_spec n 256). { exists s_u8, 255%Z. split; [reflexivity|]. split; [reflexivity | lia]. }
  destruct (Z.ltb_spec n 65536). { exists s_u16, 65535%Z. split; [reflexivity|]. split; [reflexivity | lia]. }
  destruct (Z.ltb_spec n 4294967296). { exists s_u32, 4294967295%Z. split; [reflexivity|]. split; [reflexivity | lia]. }
  exists s_umax, 18446744073709551615%Z. split; [reflexivity|]. split; [reflexivity | lia].
Qed.
Theorem c03_counter_type_fits : forall n, (0 <= n <= 18446744073709551615)%Z ->
  exists t m, integer_containing (Some n) false None = Ok t /\ utype_max t = Some m /\ (n <= m)%Z.
Proof. exact counter_type_fits_lemma. Qed.
Print Assumptions c03_counter_type_fits.

(** non-vacuity: a 4-byte terminated string, three appends, then the fourth is refused by the test *)
Definition ex_cfg : ccfg := {| c_decls := [DBuf 4 true false]; c_prims := [PAppend 0]; c_tests := [TFull 0]; c_safe_idx := true; c_defaults := [] |}.
Definition ex_x0 : cdata := {| vals := [VBuf [Some 0; Some 0; Some 0; Some 0]%N 0]; hooks := [] |}.
Example c03_example :
  vals_ok (c_decls ex_cfg) (vals ex_x0) = true /\
  (match exec_cprim ex_cfg (PAppend 0) 97%N ex_x0 with
   | Some x1 => match exec_cprim ex_cfg (PAppend 0) 98%N x1 with
                | Some x2 => match exec_cprim ex_cfg (PAppend 0) 99%N x2 with
                             | Some x3 => eval_ctest ex_cfg (TFull 0) 100%N x3 = Some true /\ exec_cprim ex_cfg (PAppend 0) 100%N x3 = None
                             | None => False end
                | None => False end
   | None => False end).
Proof. vm_compute. repeat split; reflexivity. Qed.
