(** C04 - feed and end always return; no input makes a generated parser spin (model level: the exported machine of
    every accepted program is given the certificates [norm_ok] / [yield_ok] by harness/props/c04.py, in the kernel
    for a sample and by the extracted checker for all; the tie of [Sem.step_tree] to the emitted C is C06's sweep). *)
From Coq Require Import NArith Arith List Bool.
Import ListNotations.
From NV Require Import Machine.Dfa Machine.Sem Machine.NoSpin Machine.Work Machine.CallEquiv Machine.CallTotal CSkel.Store CSkel.Run.

(** every dispatch - of a byte or of the end of input - terminates, from every state, for every data value and every
    data semantics: the number of labels passed is at most [fuel_of d] by construction of [Sem.nf] *)
Theorem c04_dispatch_terminates : forall D exec evalt d, norm_ok d = true ->
  forall q s (inval : sym) x, (s <= 256)%N -> eval D exec evalt (step_tree d q s) inval x <> None.
Proof. exact no_spin_step. Qed.
Print Assumptions c04_dispatch_terminates.

(** every feed call returns *)
Theorem c04_feed_returns : forall D exec evalt d, norm_ok d = true ->
  forall bs, bs <> [] \/ d_end_check d = true -> Forall (fun b => (b < 256)%N) bs ->
  forall q x, feed D exec evalt d bs q x <> None.
Proof. exact no_spin_feed. Qed.
Print Assumptions c04_feed_returns.

(** ... after work bounded by the chunk length: at most [work_bound d] actions and condition tests per byte offered, and
    per byte actually looked at (the constant is computed from the machine, it does not depend on input or data) *)
Theorem c04_feed_work_linear : forall D exec evalt d, norm_ok d = true ->
  forall bs, bs <> [] -> Forall (fun b => (b < 256)%N) bs ->
  forall q x, exists r, feed D exec evalt d bs q x = Some r /\
                        length (f_evs D r) <= length bs * work_bound d /\
                        length (f_evs D r) <= S (f_consumed D r) * work_bound d.
Proof. exact feed_returns_with_linear_work. Qed.
Print Assumptions c04_feed_work_linear.

(** the bound needs no certificate: whatever a call returns, it has done no more than this *)
Theorem c04_work_bound_unconditional : forall D exec evalt d bs, Forall (fun b => (b < 256)%N) bs ->
  forall q x r, feed D exec evalt d bs q x = Some r -> length (f_evs D r) <= length bs * work_bound d.
Proof. exact feed_work_linear. Qed.
Print Assumptions c04_work_bound_unconditional.

(** end(): the dispatch terminates and does at most [work_bound d] actions and tests *)
Theorem c04_end_terminates : forall D exec evalt d, norm_ok d = true ->
  forall q x, eval D exec evalt (step_tree d q sym_end) 255%N x <> None.
Proof. exact end_dispatch_terminates. Qed.
Print Assumptions c04_end_terminates.
Theorem c04_end_work_bounded : forall D exec evalt d q x r,
  end_call D exec evalt d q x = Some r -> length (f_evs D r) <= work_bound d.
Proof. exact end_work_bounded. Qed.
Print Assumptions c04_end_work_bounded.

(** yield mode: a caller who keeps re-invoking feed on the same byte after yields that did not advance gets fewer than
    [n] of them in a row, on every path on which the certificate [ychain d n] holds (harness: n = number of states + 1) *)
Theorem c04_yields_make_progress : forall D exec evalt d n q s, ychain d n q s = true ->
  forall k x, yrun D exec evalt d k q s x < n.
Proof. exact yield_progress. Qed.
Print Assumptions c04_yields_make_progress.

(** the same bound for the concrete data model of the emitted C (LP64 integers, buffers with capacities, UB = None):
    a defined concrete feed is the generic feed at the concrete semantics, so its work is linear too *)
Theorem c04_concrete_feed_work_linear : forall cfg d bs, Forall (fun b => (b < 256)%N) bs ->
  forall q x r, cfeed_go cfg d bs q x 0 = Some r ->
  exists evs, feed_go cdata (cexec cfg) (cevalt cfg) d bs q x 0 [] =
                Some {| f_res := r_res r; f_q := r_q r; f_x := r_x r; f_consumed := r_consumed r; f_evs := evs |}
              /\ length evs <= length bs * work_bound d.
Proof.
  intros cfg d bs Hb q x r H. destruct (cfeed_go_feed_go cfg d bs q x 0 [] r H) as [evs He].
  exists evs. split; [exact He|]. exact (feed_go_work cdata (cexec cfg) (cevalt cfg) d bs Hb q x 0 [] _ He).
Qed.
Print Assumptions c04_concrete_feed_work_linear.

(** at the level of the caller: every history of feed / end calls returns, call after call (end() included: its dispatch
    never ends in a consumption), and the work of the whole history is linear in the bytes offered plus the end() calls *)
Theorem c04_every_call_history_returns : forall D exec evalt d, norm_ok d = true ->
  forall cs, Forall call_bytes cs -> forall q x, history D exec evalt d cs q x <> None.
Proof. exact history_returns. Qed.
Print Assumptions c04_every_call_history_returns.
Theorem c04_history_work_linear : forall D exec evalt d cs, Forall call_bytes cs -> forall q x l x',
  history D exec evalt d cs q x = Some (l, x') -> total_work l <= total_size cs * work_bound d.
Proof. exact history_work_linear. Qed.
Print Assumptions c04_history_work_linear.

(** non-vacuity: a two-transition machine (yield 5 on a, primitive 7 on b) carries the certificates; its constant is 1,
    and a spinning machine (state 0 falls through to itself on every byte) is refused *)
Definition ex_ok : dfa :=
  {| d_states := [SNormal [{| t_on := N.shiftl 1 97; t_tgt := Some 0; t_fall := false; t_err := false; t_early := true; t_acts := ARet (RYield 5%N) |};
                           {| t_on := N.shiftl 1 98; t_tgt := Some 0; t_fall := false; t_err := false; t_early := false; t_acts := APrim 7%N AEnd |}]];
     d_start := 0; d_acc := []; d_start_acts := AEnd; d_strict_done := false; d_end_check := false |}.
Definition ex_spin : dfa :=
  {| d_states := [SNormal [{| t_on := N.ones 256; t_tgt := Some 0; t_fall := true; t_err := false; t_early := false; t_acts := AEnd |}]];
     d_start := 0; d_acc := []; d_start_acts := AEnd; d_strict_done := false; d_end_check := false |}.
Example c04_example : norm_ok ex_ok = true /\ yield_ok ex_ok = true /\ work_bound ex_ok = 1 /\ norm_ok ex_spin = false.
Proof. repeat split; vm_compute; reflexivity. Qed.
