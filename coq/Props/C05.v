(** C05 - optimisation levels and flags never change parser behaviour (model level: harness/props/c05.py computes the
    certificates on the machines the real compiler exports for each pair of levels / flag settings - strict for the
    passes that must preserve timing exactly, slack where an action may move across the byte boundary as C01 allows -
    in the kernel for a sample and with the extracted checker for all). *)
From Coq Require Import NArith Arith List Bool.
Import ListNotations.
From NV Require Import Machine.Dfa Machine.Sem Machine.NoSpin Machine.Bisim Machine.Search Machine.BBisim Machine.BSearch
                       Machine.Chunk Machine.Drive Machine.DriveChunks Machine.CallEquiv.

(** strict certificate: identical timed traces (actions, tests with their outcomes, consumptions, result codes with the
    cursor flag) on every input over the certificate's symbols, for every data semantics and every data value *)
Theorem c05_strict_certificate_sound : forall eof d1 d2, dfa_equiv_cert_on eof d1 d2 = true ->
  forall D exec evalt n input, (forall s, In s input -> In s (syms_for eof)) -> forall x,
  match Bisim.run D exec evalt (step_tree d1) n (d_start d1) input x, Bisim.run D exec evalt (step_tree d2) n (d_start d2) input x with
  | Some a, Some b => a = b
  | _, _ => False end.
Proof. exact dfa_equiv_cert_on_sound. Qed.
Print Assumptions c05_strict_certificate_sound.

(** ... and at the level of the caller: every history of feed / end calls (chunks of any sizes) returns the same codes,
    consumes the same numbers of bytes, performs the same actions and tests and leaves the same data on both parsers, up to
    and including the first terminal result *)
Theorem c05_strict_certificate_call_histories : forall eof d1 d2, dfa_equiv_cert_on eof d1 d2 = true ->
  forall D exec evalt cs, Forall (call_in (syms_for eof)) cs -> forall x,
  history D exec evalt d1 cs (d_start d1) x = history D exec evalt d2 cs (d_start d2) x.
Proof. exact strict_cert_histories_agree. Qed.
Print Assumptions c05_strict_certificate_call_histories.

(** slack certificate: for every data semantics in which the flagged primitives and tests do not look at the current
    byte, the un-timed traces agree up to the tail the eager machine is still ahead by *)
Theorem c05_slack_certificate_sound : forall fp ft eof d1 d2, dfa_slack_cert_on fp ft eof d1 d2 = true ->
  forall D exec evalt,
  (forall p s s' x, in_ids fp p = true -> exec p s x = exec p s' x) ->
  (forall t s s' x, in_ids ft t = true -> evalt t s x = evalt t s' x) ->
  forall K1 K2 input, (forall s, In s input -> In s (syms_for eof)) -> forall x tr1 tr2,
  BBisim.run D exec evalt (step_tree d1) K1 input (d_start d1) x = Some tr1 ->
  BBisim.run D exec evalt (step_tree d2) K2 input (d_start d2) x = Some tr2 ->
  exists tail, tr1 = tr2 ++ tail.
Proof. exact dfa_slack_cert_on_sound. Qed.
Print Assumptions c05_slack_certificate_sound.

(** ... and at the level of the caller: two callers of the two parsers, each cutting the same bytes into chunks as it
    likes and re-invoking feed after yields, observe the same trace up to that tail *)
Theorem c05_callers_agree_whatever_the_chunking : forall D exec evalt fp ft eof d1 d2,
  dfa_slack_cert_on fp ft eof d1 d2 = true -> dfa_wf d1 = true -> dfa_wf d2 = true ->
  (forall p s s' x, in_ids fp p = true -> exec p s x = exec p s' x) ->
  (forall t s s' x, in_ids ft t = true -> evalt t s x = evalt t s' x) ->
  forall f1 f2 cs1 cs2, concat cs1 = concat cs2 -> Forall (fun b => (b < 256)%N) (concat cs1) ->
  forall x tr1 tr2,
  drive_chunks D exec evalt d1 f1 cs1 (d_start d1) x = Some tr1 ->
  drive_chunks D exec evalt d2 f2 cs2 (d_start d2) x = Some tr2 ->
  exists tail, tr1 = tr2 ++ tail.
Proof. exact callers_agree_up_to_slack. Qed.
Print Assumptions c05_callers_agree_whatever_the_chunking.

Theorem c05_callers_with_end_agree : forall D exec evalt fp ft d1 d2,
  dfa_slack_cert_on fp ft true d1 d2 = true -> dfa_wf d1 = true -> dfa_wf d2 = true ->
  (forall p s s' x, in_ids fp p = true -> exec p s x = exec p s' x) ->
  (forall t s s' x, in_ids ft t = true -> evalt t s x = evalt t s' x) ->
  (forall p x, exec p sym_end x = exec p 255%N x) -> (forall t x, evalt t sym_end x = evalt t 255%N x) ->
  forall f1 f2 bs, Forall (fun b => (b < 256)%N) bs ->
  forall x tr1 tr2,
  drive_end D exec evalt d1 f1 f1 bs (d_start d1) x = Some tr1 ->
  drive_end D exec evalt d2 f2 f2 bs (d_start d2) x = Some tr2 ->
  exists tail, tr1 = tr2 ++ tail.
Proof. exact callers_with_end_agree_up_to_slack. Qed.
Print Assumptions c05_callers_with_end_agree.

(** non-vacuity: the machine of Props/C02's example against a copy with an unreachable extra state carries both
    certificates; against a machine that runs primitive 8 instead of 7 it carries neither *)
Definition tr_a : trans := {| t_on := N.shiftl 1 97; t_tgt := Some 0; t_fall := false; t_err := false; t_early := true; t_acts := ARet (RYield 5%N) |}.
Definition tr_b (p : N) : trans := {| t_on := N.shiftl 1 98; t_tgt := Some 0; t_fall := false; t_err := false; t_early := false; t_acts := APrim p AEnd |}.
Definition mk (sts : list state) : dfa :=
  {| d_states := sts; d_start := 0; d_acc := []; d_start_acts := AEnd; d_strict_done := false; d_end_check := false |}.
Definition ex1 : dfa := mk [SNormal [tr_a; tr_b 7%N]].
Definition ex2 : dfa := mk [SNormal [tr_a; tr_b 7%N]; SNormal [tr_b 9%N]].
Definition ex3 : dfa := mk [SNormal [tr_a; tr_b 8%N]].
Example c05_example :
  dfa_equiv_cert_on false ex1 ex2 = true /\ dfa_slack_cert_on [] [] false ex1 ex2 = true /\
  dfa_equiv_cert_on false ex1 ex3 = false /\ dfa_slack_cert_on [] [] false ex1 ex3 = false /\
  history unit (fun _ _ x => x) (fun _ _ _ => true) ex1 [CFeed [97; 98]%N; CFeed [98]%N] 0 tt =
  history unit (fun _ _ x => x) (fun _ _ _ => true) ex2 [CFeed [97; 98]%N; CFeed [98]%N] 0 tt.
Proof. repeat split; vm_compute; reflexivity. Qed.
