(** C06 - emitted C executes exactly the compiled state machine (model level).  The property is a statement about the
    tie between emitted text and machine, and is decided by the exhaustive sweep of harness/props/c06.py: every state x
    every byte (and the end of input) x data contexts, on gcc-built binaries against the extracted [CSkel.Run] over
    [Machine.Sem].  What is proved here is what the model side of that sweep means: which transition [Sem] takes
    (the order of the emitted if-chain), and that the concrete data model refines the generic semantics all other
    theorems (C02, C04, C10, C17) are stated over. *)
From Coq Require Import NArith Arith List Bool.
Import ListNotations.
From NV Require Import Machine.Dfa Machine.Sem Machine.Select Machine.Eof CSkel.Store CSkel.Run.

(** on a byte a state takes the first transition, in list order and leaving the else branch aside, that lists the byte;
    if none does, the else branch - the first transition carrying Else *)
Theorem c06_transition_taken_on_a_byte : forall ts b t, select_feed ts b = Some t -> chosen ts b t.
Proof. exact select_feed_chosen. Qed.
Print Assumptions c06_transition_taken_on_a_byte.

(** it takes none exactly when nothing lists the byte and there is no else branch (the code behind the if-chain runs) *)
Theorem c06_no_transition_on_a_byte : forall ts b, select_feed ts b = None ->
  forall t, In t ts -> has (t_on t) b = false /\ has (t_on t) bit_else = false.
Proof. exact select_feed_none. Qed.
Print Assumptions c06_no_transition_on_a_byte.

(** marking transitions for the end of input never changes what a byte selects *)
Theorem c06_end_marks_do_not_affect_bytes : forall b ts s, (s < 256)%N ->
  select_feed (map (set_end b) ts) s = option_map (set_end b) (select_feed ts s).
Proof. exact select_feed_ignores_end. Qed.
Print Assumptions c06_end_marks_do_not_affect_bytes.

(** the run of the concrete data model of the emitted C (LP64 integers, buffers with capacities, undefined behaviour =
    None) is, whenever it is defined, the generic feed at the concrete semantics: same result code, state, data and
    number of consumed bytes *)
Theorem c06_concrete_run_refines_generic : forall cfg d bs q x n acc r,
  cfeed_go cfg d bs q x n = Some r ->
  exists evs, feed_go cdata (cexec cfg) (cevalt cfg) d bs q x n acc =
              Some {| f_res := r_res r; f_q := r_q r; f_x := r_x r; f_consumed := r_consumed r; f_evs := evs |}.
Proof. exact cfeed_go_feed_go. Qed.
Print Assumptions c06_concrete_run_refines_generic.

(** non-vacuity: three transitions - [b], Else, [a b]: a selects the third, b the first (not the third), c the else branch *)
Definition t1 : trans := {| t_on := N.shiftl 1 98; t_tgt := Some 1; t_fall := false; t_err := false; t_early := false; t_acts := AEnd |}.
Definition t2 : trans := {| t_on := N.shiftl 1 bit_else; t_tgt := Some 2; t_fall := true; t_err := true; t_early := false; t_acts := AEnd |}.
Definition t3 : trans := {| t_on := N.lor (N.shiftl 1 97) (N.shiftl 1 98); t_tgt := Some 3; t_fall := false; t_err := false; t_early := false; t_acts := AEnd |}.
Example c06_example : select_feed [t1; t2; t3] 97 = Some t3 /\ select_feed [t1; t2; t3] 98 = Some t1 /\ select_feed [t1; t2; t3] 99 = Some t2 /\
                      select_feed [t1; t3] 99 = None.
Proof. repeat split; vm_compute; reflexivity. Qed.
