(** C07 - a compiled regular expression accepts exactly its language.
    Property theorems only.  [s] is a surface regular expression of the nmfu dialect (what the harness
    prints into the program text), [lang s] its language (Regex/Surface.v), [d] the machine the real
    compiler built for [parser { /s/; }] (exported), [R] the certificate found by the search.  Every
    theorem holds for all byte strings and for every data semantics [D exec evalt]. *)
From Coq Require Import NArith List Bool.
Import ListNotations.
From NV Require Import Machine.Dfa Machine.Sem Regex.Re Regex.Surface Regex.ReCheck Regex.RegexProps.

(** the compiled matcher accepts exactly the byte strings of the expression's language:
    [accepts]: the run on w ends with OK in an accepting state, or returns DONE on the last byte of w *)
Theorem c07_language : forall D (exec : pid -> sym -> D -> D) (evalt : tid -> sym -> D -> bool)
  (s : surface) (d : dfa) (R : rel),
  re_dfa_check (desugar s) d R = true ->
  forall (w : list N) (x : D), bytes w -> (accepts D exec evalt d w x <-> lang s w).
Proof. exact surface_language. Qed.

(** the complete description of a run in terms of derivatives (no data action is performed, the
    result is OK / DONE / FAIL with the positions stated in [outcome]) *)
Theorem c07_run : forall D (exec : pid -> sym -> D -> D) (evalt : tid -> sym -> D -> bool)
  (r : re) (d : dfa) (R : rel),
  re_dfa_check r d R = true ->
  forall (w : list N) (x : D), bytes w ->
  exists fr, mrun D exec evalt d w x = Some fr /\ f_x fr = x /\ f_evs fr = [] /\ outcome D exec evalt d r w fr /\
             (f_res fr = ROk -> in_rel R (derivs r w) (f_q fr) = true).
Proof. exact recheck_run. Qed.

(** a mismatch (FAIL) is reported at exactly the first byte after which no member of the language is
    reachable: nothing extends the prefix ending at the reported byte, something extends every
    shorter non-empty prefix *)
Theorem c07_mismatch_is_first_dead_byte : forall D (exec : pid -> sym -> D -> D) (evalt : tid -> sym -> D -> bool)
  (s : surface) (d : dfa) (R : rel),
  re_dfa_check (desugar s) d R = true ->
  forall (w : list N) (x : D) (fr : fret D), bytes w ->
  mrun D exec evalt d w x = Some fr -> f_res fr = RFail ->
  let n := f_consumed fr in
  (n < length w)%nat /\
  (forall u, ~ lang s (firstn (S n) w ++ u)) /\
  (forall m, (m < n)%nat -> exists u, lang s (firstn (S m) w ++ u)).
Proof. exact surface_fail_first_dead. Qed.

(** conversely the first such byte IS reported: FAIL at that byte, or the parser had already returned
    DONE on the byte before it and refuses every further byte at once *)
Theorem c07_first_dead_byte_is_reported : forall D (exec : pid -> sym -> D -> D) (evalt : tid -> sym -> D -> bool)
  (s : surface) (d : dfa) (R : rel),
  re_dfa_check (desugar s) d R = true ->
  forall (w : list N) (x : D) (n : nat), bytes w -> (n < length w)%nat ->
  (forall u, ~ lang s (firstn (S n) w ++ u)) ->
  (forall m, (m < n)%nat -> exists u, lang s (firstn (S m) w ++ u)) ->
  exists fr, mrun D exec evalt d w x = Some fr /\
    ((f_res fr = RFail /\ f_consumed fr = n) \/
     (f_res fr = RDone /\ S (f_consumed fr) = n /\ refuses_all D exec evalt d (f_q fr))).
Proof. exact surface_dead_reported. Qed.

(** end-of-input is never matched by the expression - not by the wildcard, not by an inverted set:
    the end call consumes nothing, performs nothing, and returns FAIL (or DONE, only when the input
    read so far is in the language) *)
Theorem c07_end_of_input_not_matched : forall D (exec : pid -> sym -> D -> D) (evalt : tid -> sym -> D -> bool)
  (s : surface) (d : dfa) (R : rel),
  re_dfa_check (desugar s) d R = true ->
  forall (w : list N) (x : D) (fr : fret D), bytes w ->
  mrun D exec evalt d w x = Some fr -> f_res fr = ROk ->
  exists fe, end_call D exec evalt d (f_q fr) (f_x fr) = Some fe /\ f_evs fe = [] /\
             (f_res fe = RFail \/ (f_res fe = RDone /\ lang s w)).
Proof. exact surface_end. Qed.

Print Assumptions c07_language.
Print Assumptions c07_run.
Print Assumptions c07_mismatch_is_first_dead_byte.
Print Assumptions c07_first_dead_byte_is_reported.
Print Assumptions c07_end_of_input_not_matched.

(** the specification side: the desugaring of the dialect (incl. ? * + {n} {n,m} {n,}) denotes the
    stated languages, and derivatives / nullability / emptiness are exact *)
Theorem c07_desugar : forall s w, matches (desugar s) w <-> lang s w.
Proof. exact desugar_correct. Qed.
Print Assumptions c07_desugar.
Theorem c07_deriv : forall r c w, matches r (c :: w) <-> matches (deriv c r) w.
Proof. exact deriv_correct. Qed.
Print Assumptions c07_deriv.
Theorem c07_nullable : forall r, nullable r = true <-> matches r [].
Proof. exact nullable_correct. Qed.
Print Assumptions c07_nullable.
Theorem c07_void : forall r, void r = true <-> forall w, ~ matches r w.
Proof. exact void_correct. Qed.
Print Assumptions c07_void.

(** non-vacuity: a concrete program, the machine the compiler built for it, and a certificate.
    parser { /a[^b]c|.d/; }  (exported after conversion) *)
Notation mkT := Build_trans.
Notation mkD := Build_dfa.
Definition ex_s : surface :=
  SAlt (SSeq (SChr 97%N) (SSeq (SNSet [IChr 98%N]) (SChr 99%N))) (SSeq SAny (SChr 100%N)).
Definition ex_on (l : list N) : N := fold_right (fun b acc => N.setbit acc b) 0%N l.
Definition ex_else : trans := mkT (ex_on [257%N]) (Some 6) true true false AEnd.    (* Else -> fail state, fall-through *)
Definition ex_to (l : list N) (q : nat) : trans := mkT (ex_on l) (Some q) false false false AEnd.
Definition ex_d : dfa :=
  mkD [SNormal [ex_to [98%N; 99%N; 100%N; 257%N] 1; mkT (ex_on [256%N]) (Some 6) true true false AEnd; ex_to [97%N] 3];
       SNormal [ex_else; ex_to [100%N] 2];
       SNormal [ex_else];
       SNormal [ex_to [97%N; 99%N; 257%N] 4; mkT (ex_on [98%N; 256%N]) (Some 6) true true false AEnd; ex_to [100%N] 5];
       SNormal [ex_else; ex_to [99%N] 2];
       SNormal [ex_else; ex_to [99%N] 2];
       SFail] 0 [2; 5] AEnd false false.
Definition ex_R : rel :=
  let r0 := desugar ex_s in
  let ra := deriv 97%N r0 in let rx := deriv 0%N r0 in
  [(r0, 0%nat); (rx, 1%nat); (ra, 3%nat); (deriv 100%N rx, 2%nat); (deriv 0%N ra, 4%nat); (deriv 100%N ra, 5%nat)].
Example c07_example_certificate : re_dfa_check (desugar ex_s) ex_d ex_R = true.
Proof. vm_compute. reflexivity. Qed.
(** the checker is not vacuous: the same certificate is rejected for a machine that forgets that
    state 5 ("ad" has been read) is accepting *)
Example c07_example_rejected :
  re_dfa_check (desugar ex_s) (mkD (d_states ex_d) 0 [2] AEnd false false) ex_R = false.
Proof. vm_compute. reflexivity. Qed.
Example c07_example_language : lang ex_s [97; 0; 99]%N /\ lang ex_s [255; 100]%N /\ ~ lang ex_s [97; 98; 99]%N.
Proof.
  split; [|split].
  - apply desugar_correct. apply derivs_nullable. vm_compute. reflexivity.
  - apply desugar_correct. apply derivs_nullable. vm_compute. reflexivity.
  - intros H. apply desugar_correct in H. apply derivs_nullable in H. vm_compute in H. discriminate.
Qed.
(** the wildcard matched byte 255 above; it does not match end-of-input: after "a" then end the call fails *)
Example c07_example_end : forall fr, mrun unit (fun _ _ x => x) (fun _ _ _ => false) ex_d [97]%N tt = Some fr ->
  option_map (fun fe => f_res fe) (end_call unit (fun _ _ x => x) (fun _ _ _ => false) ex_d (f_q fr) tt) = Some RFail.
Proof. intros fr H. vm_compute in H. injection H as <-. vm_compute. reflexivity. Qed.
