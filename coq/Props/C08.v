(** C08 - a case statement runs exactly the clause whose pattern matched.

    Two layers.  (1) Over the procedural reading (Ref/RefSem.v) and the declarative meaning of patterns
    (Regex/Re.v [matches]), for ALL clause sets and ALL consumed texts: the clause the reading selects has a
    pattern that EQUALS the consumed text; a clause is found iff some pattern matches it; else / no-match is taken
    exactly when the text followed by the symbol is a prefix of no pattern; the greedy selection is a matching
    pattern of the highest priority among the matching ones.  (2) Per accepted program: the machine the compiler
    built is validated against the reading (sim_cert, every input and data semantics), the clause bodies
    carrying distinct markers (hook calls / yield codes) so that which clause ran, and at which byte its body,
    the else body or the no-match handler starts, are events of the trace. *)
From Coq Require Import NArith Arith List Bool.
Import ListNotations.
From NV Require Import Machine.Dfa Machine.Sem Machine.Bisim Machine.BBisim Regex.Re Ref.Lang Ref.RefSem Ref.Sim Ref.RefCert Ref.CaseProps.

Theorem c08_selected_clause_matches : forall vec w i, first_done (run_vec vec w) = Some i -> exists p, In (p, i) vec /\ matches p w.
Proof. exact case_selects_matching. Qed.
Print Assumptions c08_selected_clause_matches.

Theorem c08_clause_found_iff_some_pattern_matches : forall vec w, w <> [] ->
  (first_done (run_vec vec w) <> None) <-> (exists p i, In (p, i) vec /\ matches p w).
Proof. exact case_finds_match. Qed.
Print Assumptions c08_clause_found_iff_some_pattern_matches.

Theorem c08_else_exactly_when_no_pattern_continues : forall vec w c, step_vec (run_vec vec w) c = [] <->
  (forall p i, In (p, i) vec -> forall u, ~ matches p ((w ++ [c]) ++ u)).
Proof. exact case_dies_iff. Qed.
Print Assumptions c08_else_exactly_when_no_pattern_continues.

Theorem c08_greedy_selects_highest_priority_match : forall gcls vec w k, best_done gcls (run_vec vec w) = Some k ->
  (exists p, In (p, k) vec /\ matches p w) /\
  (forall p i, w <> [] -> In (p, i) vec -> matches p w -> (gprio gcls i <= gprio gcls k)%N).
Proof. exact greedy_selects_best. Qed.
Print Assumptions c08_greedy_selects_highest_priority_match.

Theorem c08_compiled_trace_is_a_reading : forall syms p d, sim_cert syms p d = true ->
  forall D exec evalt K2 input, (forall s, In s input -> In s syms) -> forall x tr,
  crun D exec evalt d K2 input x = Some tr ->
  reading D exec evalt (ref_spec (ref_table syms p)) (to_stree (ref_table syms p) (start_tree p)) input x tr.
Proof. exact sim_cert_sound. Qed.
Print Assumptions c08_compiled_trace_is_a_reading.

(** the hypotheses are satisfiable: patterns ab (clause 0) and a[bc]c (clause 1) after the text "ab" *)
Definition cl (c : N) : re := Cls (N.shiftl 1 c).
Definition ex_vec : list (re * nat) := [(Seq (cl 97) (cl 98), 0); (Seq (cl 97) (Seq (Alt (cl 98) (cl 99)) (cl 99)), 1)].
Example c08_example : first_done (run_vec ex_vec [97; 98]%N) = Some 0 /\ length (run_vec ex_vec [97; 98]%N) = 2.
Proof. vm_compute. split; reflexivity. Qed.
Definition byte_syms : list sym := map N.of_nat (seq 0 256).
