(** C09 - acceptance implies one-byte-lookahead unambiguity.  What counts as an ambiguous decision of the
    procedural reading is Ref/Unambig.v ([ambiguous_at]); the property is decided per accepted program by
    [unambig_check syms p = true].  The theorems say what a passed check covers. *)
From Coq Require Import NArith Arith List Bool.
Import ListNotations.
From NV Require Import Machine.Dfa Regex.Re Ref.Lang Ref.LangEq Ref.RefSem Ref.Unambig Ref.UnambigAll.

(** no decision of any configuration in the table is ambiguous, on any symbol of interest *)
Theorem c09_no_decision_ambiguous : forall f syms tbl, find_ambiguity f syms tbl = None ->
  forall K, In K tbl -> forall K1, In K1 (leaves (settle false f K)) -> forall s, In s syms ->
  ambiguous_at f K1 s = None.
Proof. exact find_ambiguity_none. Qed.
Print Assumptions c09_no_decision_ambiguous.

(** and the table holds every configuration the reading can be in, after any input over the symbols of
    interest, pauses at cuts included *)
Theorem c09_reachable_in_table : forall syms p tbl, table_closed syms p tbl = true ->
  forall K, reachable syms p K -> In K tbl.
Proof. intros syms p tbl H. apply (reachable_in_table syms p tbl H). intros K K0 _. apply cfg_eqb_ok. Qed.
Print Assumptions c09_reachable_in_table.

(** both together: a program that passes the check has no ambiguous decision in any configuration its reading can
    reach on any input over the symbols of interest *)
Theorem c09_checked_program_is_unambiguous : forall syms p, unambig_check syms p = true ->
  forall K, reachable syms p K -> forall K1, In K1 (leaves (settle false ref_fuel K)) -> forall s, In s syms ->
  ambiguous_at ref_fuel K1 s = None.
Proof. exact unambig_check_sound. Qed.
Print Assumptions c09_checked_program_is_unambiguous.

(** examples over bytes a b:  /a+/; "ab"  is ambiguous at the second a;  /a+/; "b"  is not *)
Definition a_ : N := 97%N. Definition b_ : N := 98%N.
Definition cls1 (c : N) : re := Cls (N.shiftl 1 c).
Definition ex_amb : list stmt := [SMatch (Seq (cls1 a_) (Star (cls1 a_))) None; SMatch (Seq (cls1 a_) (cls1 b_)) None].
Definition ex_unamb : list stmt := [SMatch (Seq (cls1 a_) (Star (cls1 a_))) None; SMatch (cls1 b_) None].
Example c09_example_ambiguous : unambig_check [a_; b_] ex_amb = false.
Proof. vm_compute. reflexivity. Qed.
Example c09_example_unambiguous : unambig_check [a_; b_] ex_unamb = true.
Proof. vm_compute. reflexivity. Qed.
