(** C10 - result codes and the start pointer follow the documented protocol (model level; the tie to
    the emitted C, including the cursor position after every call, is the correspondence of
    harness/props/c10.py). *)
From Coq Require Import NArith Arith List Bool.
Import ListNotations.
From NV Require Import Machine.Dfa Machine.Sem Machine.Chunk Machine.FailPos Machine.Bisim Machine.BBisim Machine.Drive Machine.CallEquiv Machine.FailSticky.

(** OK is returned only after the whole chunk has been consumed, for every machine carrying the
    certificate [no_stuck_ok] (computed per compiled machine) *)
Theorem c10_ok_consumes_all : forall D exec evalt d, no_stuck_ok d = true ->
  forall bs, Forall (fun b => (b < 256)%N) bs ->
  forall q x r, feed_go D exec evalt d bs q x 0 [] = Some r -> f_res D r = ROk -> f_consumed D r = length bs.
Proof. exact ok_consumes_all. Qed.
Print Assumptions c10_ok_consumes_all.

(** a call never reports more consumed bytes than it was given *)
Theorem c10_consumed_bounded : forall D exec evalt d bs q x r,
  feed_go D exec evalt d bs q x 0 [] = Some r -> f_consumed D r <= length bs.
Proof. exact feed_go_consumed_le. Qed.
Print Assumptions c10_consumed_bounded.

(** once the fail state has been entered every later feed and end call returns FAIL, consuming nothing
    and changing nothing *)
Theorem c10_fail_absorbing_feed : forall D exec evalt d q bs x, is_fail_state d q -> bs <> [] ->
  feed D exec evalt d bs q x = Some {| f_res := RFail; f_q := q; f_x := x; f_consumed := 0; f_evs := [] |}.
Proof. exact fail_absorbing_feed. Qed.
Print Assumptions c10_fail_absorbing_feed.
Theorem c10_fail_absorbing_end : forall D exec evalt d q x, is_fail_state d q ->
  end_call D exec evalt d q x = Some {| f_res := RFail; f_q := q; f_x := x; f_consumed := 0; f_evs := [] |}.
Proof. exact fail_absorbing_end. Qed.
Print Assumptions c10_fail_absorbing_end.

(** once FAIL has been returned every later feed or end call returns FAIL: for every machine carrying the certificate
    [fail_sticky_ok] (computed per compiled machine: every FAIL leaf records the fail state), whatever call returned FAIL -
    feed on any chunk, or end() - every later call, feed on any non-empty chunk or end(), returns FAIL from the same
    state with the same data, consuming nothing and running nothing *)
Theorem c10_fail_is_for_ever : forall D exec evalt d, fail_sticky_ok d = true ->
  forall c q x r, call_bytes' c -> do_call D exec evalt d c q x = Some r -> f_res D r = RFail ->
  forall later, Forall call_nonempty later ->
  Forall (fun c' => do_call D exec evalt d c' (f_q D r) (f_x D r) = Some (failed D (f_q D r) (f_x D r))) later.
Proof. exact fail_is_for_ever. Qed.
Print Assumptions c10_fail_is_for_ever.

(** FAIL is reported at the first offending byte: for every machine carrying the certificate [fail_entry_ok]
    (computed per compiled machine), a feed call that starts in a state that has not failed
    - returns OK only with the machine still not failed, and
    - when it returns FAIL at position k, every byte in front of k was consumed by a machine that had not failed
      and byte k is the one on which that machine fails, without being consumed ([fails_at]) *)
Theorem c10_fail_at_first_offending_byte : forall D exec evalt d, fail_entry_ok d = true ->
  forall bs, Forall (fun b => (b < 256)%N) bs ->
  forall q x r, is_failb d q = false -> feed_go D exec evalt d bs q x 0 [] = Some r ->
  (f_res D r = ROk -> is_failb d (f_q D r) = false) /\
  (f_res D r = RFail -> fails_at D exec evalt d bs q x (f_consumed D r)).
Proof. exact fail_position. Qed.
Print Assumptions c10_fail_at_first_offending_byte.

(** re-invoking feed after a yield at the reported position loses, repeats and re-reports nothing: the caller's loop
    (Machine/Drive.drive: feed the rest of the input; after a yield code feed what the reported cursor position has not
    passed; stop at any other result) produces exactly the symbol-by-symbol run of the machine - each symbol dispatched
    once per consumption, re-dispatched only behind a yield that did not advance - which is the run the theorems of
    C01 / C05 / C08 / C16 speak about *)
Theorem c10_reinvocation_is_the_run : forall D exec evalt d, dfa_wf d = true ->
  (forall f bs q x tr K, f <= K -> drive D exec evalt d f bs q x = Some tr -> run D exec evalt (step_tree d) K bs q x = Some tr) /\
  (forall K bs q x tr, run D exec evalt (step_tree d) K bs q x = Some tr -> exists f, drive D exec evalt d f bs q x = Some tr).
Proof. intros D exec evalt d Hwf. split; [exact (drive_run D exec evalt d Hwf) | exact (run_drive D exec evalt d Hwf)]. Qed.
Print Assumptions c10_reinvocation_is_the_run.
