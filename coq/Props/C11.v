(** C11 - every accepted program compiles cleanly in every option combination (the part that is logic).

    Property theorems only.  Part A is about the table Gen/GApi.v that translator/header2coq.py regenerates from
    CodegenCtx.generate_header / generate_source / _generate_state_object_decl of /repo/nmfu.py on every run; part B
    is about the hand mirror Api/Labels.v of the label emission rules, tied to the real text of feed()/end() by the
    harness.  Whether gcc accepts the emitted text is observed by the harness (compilation correspondence), not proved. *)
From Coq Require Import String List Bool Permutation.
Import ListNotations.
From NV Require Import Api.ApiSpec Gen.GApi Api.ApiProps Api.Labels.
Open Scope string_scope.
Open Scope list_scope.

(** exactly the documented API is declared: for EVERY flag vector, every outcome of the tests on the program's
    outputs, every list of hooks, finish codes and yield codes, the declarations of the header are a permutation
    of the documented ones (start and feed - with the direct or indirect pointer signature - always, end iff EOF
    support, free iff dynamic memory, hooks as prototypes iff hook-global, as members iff hook-per-state, OK / FAIL /
    DONE and one enumerator per finish / yield code).  Bound of the reflection: all 2^5 = 32 assignments of the
    flags occurring in an API guard or in the documentation; every other flag is irrelevant by [emitted_ext]. *)
Theorem c11_api_exact : forall (data : string -> bool) (fv : flagvec) (hooks fcs ycs : list string),
  Permutation (declared data fv hooks fcs ycs header_items) (documented fv hooks fcs ycs).
Proof. exact api_exact. Qed.
Print Assumptions c11_api_exact.

Theorem c11_api_exact_iff : forall data fv hooks fcs ycs d,
  In d (declared data fv hooks fcs ycs header_items) <-> In d (documented fv hooks fcs ycs).
Proof. exact api_exact_iff. Qed.
Print Assumptions c11_api_exact_iff.

(** the header declares a function (with that signature) iff the source defines it, each once *)
Theorem c11_header_defines_what_source_defines : forall (data : string -> bool) (fv : flagvec),
  (forall name sig, In (name, sig) (declared_functions data fv header_items) <-> In (name, sig) (defined_functions data fv source_items))
  /\ NoDup (map fst (declared_functions data fv header_items))
  /\ NoDup (map fst (defined_functions data fv source_items)).
Proof. exact header_defines_what_source_defines. Qed.
Print Assumptions c11_header_defines_what_source_defines.

(** include guard / #pragma once (exactly one of them), every #if closed, extern "C" opened iff closed *)
Theorem c11_guards_balanced : forall (data : string -> bool) (fv : flagvec), balanced (emitted data fv header_items) = true.
Proof. exact guards_balanced. Qed.
Print Assumptions c11_guards_balanced.

(** hooks as members are members of the state struct; prototypes and enumerators are not *)
Theorem c11_hook_members_inside_struct : forall (data : string -> bool) (fv : flagvec),
  members_inside false (emitted data fv header_items) = true.
Proof. exact hook_members_inside_struct. Qed.
Print Assumptions c11_hook_members_inside_struct.

(** the header includes what its own declarations need, the source includes its header, <stdlib.h> iff dynamic memory *)
Theorem c11_includes_exact : forall (data : string -> bool) (fv : flagvec),
  In (Include "stdint.h") (emitted data fv header_items)
  /\ In (Include "stdbool.h") (emitted data fv header_items)
  /\ In IncludeSelf (emitted data fv source_items)
  /\ (In (Include "stdlib.h") (emitted data fv source_items) <-> fv "DYNAMIC_MEMORY" = true).
Proof. exact includes_exact. Qed.
Print Assumptions c11_includes_exact.

(** every goto has its label exactly once in its own function, for every machine *)
Theorem c11_labels_resolve : forall (strict : bool) (m : machine), targets_in_range m -> tids_distinct m ->
  (forall l, In l (feed_gotos strict m) -> count_occ label_eq_dec (feed_labels strict m) l = 1)
  /\ (forall l, In l (end_gotos strict m) -> count_occ label_eq_dec (end_labels m) l = 1)
  /\ NoDup (feed_labels strict m) /\ NoDup (end_labels m).
Proof. exact labels_resolve. Qed.
Print Assumptions c11_labels_resolve.

(** * Non-vacuity *)
(** a legal flag vector with EOF support, dynamic memory and per-state hooks, two hooks, one finish and one yield code *)
Definition fv_example : flagvec := fun f =>
  if String.eqb f "EOF_SUPPORT" then true else if String.eqb f "DYNAMIC_MEMORY" then true
  else if String.eqb f "HOOK_PER_STATE" then true else if String.eqb f "USE_CPLUSPLUS_GUARD" then true else false.
Example c11_api_example :
  declared (fun _ => false) fv_example ["a"; "b"] ["F"] ["Y"] header_items
  = [DHookMember "a"; DHookMember "b"; DEnum "OK"; DEnum "FAIL"; DEnum "DONE"; DEnum "FINISH_F"; DEnum "YIELD_Y";
     DFun "start" sig_start; DFun "feed" sig_feed_dir; DFun "end" sig_end; DFun "free" sig_free]
  /\ defined_functions (fun _ => false) fv_example source_items
     = [("start", sig_start); ("feed", sig_feed_dir); ("end", sig_end); ("free", sig_free)].
Proof. split; vm_compute; reflexivity. Qed.

(** a machine with an unreachable state (2) that falls into state 1, an append (goto repeatswitch), a conditional
    break (skip label) and a direct jump: the hypotheses hold and every kind of label occurs *)
Definition tr (id : nat) (t : option nat) (f hb e : bool) (a : list action) : trans :=
  {| tid := id; tgt := t; fall := f; tgt_acc := false; tgt_all_err := false; has_byte := hb; is_else := e; is_end := e; acts := a |}.
Definition m_example : machine :=
  [ {| kind := KNormal; ts := [tr 10 (Some 1) false true false [AAppend]; tr 11 (Some 3) true false true []] |};
    {| kind := KNormal; ts := [tr 12 (Some 0) false true false [ACond [ABreak [AOther]]]; tr 13 (Some 1) false true false []] |};
    {| kind := KNormal; ts := [tr 14 (Some 1) true false true []] |};
    {| kind := KFail; ts := [] |} ].
Example c11_labels_example :
  targets_in_rangeb m_example = true /\ tids_distinctb m_example = true
  /\ feed_gotos false m_example = [LRepeat; LRepeat; LFall 3; LSkip 12; LRepeat; LJpto 1; LFall 1]
  /\ feed_labels false m_example = [LRepeat; LFall 1; LJpto 1; LSkip 12; LFall 3]
  /\ end_gotos false m_example = [LFall 3; LFall 1]
  /\ end_labels m_example = [LRepeat; LFall 1; LFall 3].
Proof. repeat split; vm_compute; reflexivity. Qed.
