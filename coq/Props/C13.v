(** C13 - macros behave exactly like their textual expansion
    (model level: harness/props/c13.py has the real compiler export the two machines and computes the strict certificate
    [Search.dfa_equiv_cert_on] between them - in the kernel for a sample, with the extracted checker for all; values of
    stored strings and the C-level representation are the business of the gcc-built correspondences). *)
From Coq Require Import NArith Arith List Bool.
Import ListNotations.
From NV Require Import Machine.Dfa Machine.Sem Machine.NoSpin Machine.Bisim Machine.Search Machine.CallEquiv.

(** two machines carrying the certificate produce identical timed traces - actions, tests with their outcomes, consumed
    bytes, result codes with the cursor flag - on every input over the certificate's symbols (the 256 bytes, and the end
    of input with -feof-support), for every data semantics and every data value *)
Theorem c13_certificate_sound : forall eof d1 d2, dfa_equiv_cert_on eof d1 d2 = true ->
  forall D exec evalt n input, (forall s, In s input -> In s (syms_for eof)) -> forall x,
  match Bisim.run D exec evalt (step_tree d1) n (d_start d1) input x, Bisim.run D exec evalt (step_tree d2) n (d_start d2) input x with
  | Some a, Some b => a = b
  | _, _ => False end.
Proof. exact dfa_equiv_cert_on_sound. Qed.
Print Assumptions c13_certificate_sound.

(** and a caller cannot tell them apart: every history of feed / end calls - chunks of any sizes, end() at any point -
    returns the same codes, consumes the same numbers of bytes, performs the same actions and tests in the same order and
    leaves the same data, up to and including the first terminal result *)
Theorem c13_call_histories_agree : forall eof d1 d2, dfa_equiv_cert_on eof d1 d2 = true ->
  forall D exec evalt cs, Forall (call_in (syms_for eof)) cs -> forall x,
  history D exec evalt d1 cs (d_start d1) x = history D exec evalt d2 cs (d_start d2) x.
Proof. exact strict_cert_histories_agree. Qed.
Print Assumptions c13_call_histories_agree.

(** non-vacuity: a machine and a copy with an unreachable extra state carry the certificate and a three-call history is
    observed identically (and is not trivial); a machine running another primitive does not carry it *)
Definition tr_a : trans := {| t_on := N.shiftl 1 97; t_tgt := Some 0; t_fall := false; t_err := false; t_early := true; t_acts := ARet (RYield 5%N) |}.
Definition tr_b (p : N) : trans := {| t_on := N.shiftl 1 98; t_tgt := Some 0; t_fall := false; t_err := false; t_early := false; t_acts := APrim p AEnd |}.
Definition mk (sts : list state) : dfa :=
  {| d_states := sts; d_start := 0; d_acc := []; d_start_acts := AEnd; d_strict_done := false; d_end_check := false |}.
Definition ex1 : dfa := mk [SNormal [tr_a; tr_b 7%N]].
Definition ex2 : dfa := mk [SNormal [tr_a; tr_b 7%N]; SNormal [tr_b 9%N]].
Definition ex3 : dfa := mk [SNormal [tr_a; tr_b 8%N]].
Definition hist (d : dfa) := history unit (fun _ _ x => x) (fun _ _ _ => true) d [CFeed [98; 97]%N; CFeed [98]%N; CFeed [99]%N] 0 tt.
Example c13_example :
  dfa_equiv_cert_on false ex1 ex2 = true /\ dfa_equiv_cert_on false ex1 ex3 = false /\ hist ex1 = hist ex2 /\
  hist ex1 = Some ([(RYield 5%N, 2, [EvPrim 7%N 98%N]); (ROk, 1, [EvPrim 7%N 98%N]); (ROk, 0, [])], tt).
Proof. repeat split; vm_compute; reflexivity. Qed.
