(** C14 - math expressions evaluate as C arithmetic over the parser's variables.
    Property theorems only.  [n_tab], [layers_*], [same_tree], [int_type_exact] are about Gen/GGrammar.v,
    regenerated from the grammar string (and _integer_containing) of /repo/nmfu.py on every run; the
    desugaring / rendering mirror (Expr/ExprModel.v) is tied to the implementation by the per-run
    correspondence of harness/props/c14.py; C's grammar and LP64 arithmetic (Expr/CParse.v, Expr/CArith.v,
    [cceval]) are specifications, cross-checked against gcc on every run. *)
From Coq Require Import ZArith NArith List Bool.
Import ListNotations.
From NV Require Import Expr.CArith Expr.CParse Expr.ExprModel Expr.ExprProps Gen.GGrammar Machine.Dfa Machine.Sem CSkel.Store.
Local Open Scope nat_scope.

(** ** 1. Same tree as C *)
Theorem c14_layers_agree : forall x y,
  (g_lvl n_tab x < g_lvl n_tab y -> c_prec x < c_prec y)
  /\ (c_prec x < c_prec y -> g_lvl n_tab x < g_lvl n_tab y \/ (is_cmp x = true /\ is_cmp y = true))
  /\ (c_prec x = c_prec y -> g_lvl n_tab x = g_lvl n_tab y)
  /\ (g_chain n_tab x = false <-> is_cmp x = true \/ is_shift x = true)
  /\ (1 <= g_lvl n_tab x < g_unary_lvl n_tab)
  /\ length (filter (fun l => mem_op x (fst l)) g_layers) = 1.
Proof. exact layers_agree. Qed.
Print Assumptions c14_layers_agree.

Theorem c14_layers_unary :
  g_unary_ops = [UNot; UNeg] /\ g_unary_arg_is_atom = true /\ g_atom_has_paren = true /\ g_atom_has_index = true.
Proof. exact layers_unary. Qed.
Print Assumptions c14_layers_unary.

(** every expression nmfu's grammar derives is parsed by C's grammar to the same tree *)
Theorem c14_same_tree : forall s, wf n_tab 0 s = true -> cparse (tok s) = Some (emb s).
Proof. exact same_tree. Qed.
Print Assumptions c14_same_tree.

(** the C parser is complete for C's own (left-associative, ten-level) grammar *)
Theorem c14_cparse_complete : forall s, wf c_tab 0 s = true -> cparse (tok s) = Some (emb s).
Proof. exact cparse_complete. Qed.
Print Assumptions c14_cparse_complete.

Theorem c14_chain_left_assoc : forall x y a b c, wf n_tab 0 (SBin y (SBin x a b) c) = true ->
  cparse (tok a ++ TOp x :: tok b ++ TOp y :: tok c) = Some (CBin y (CBin x (emb a) (emb b)) (emb c))
  /\ forall tenv io, is_cmp y = false ->
       fold (to_nexpr n_tab tenv io (SBin y (SBin x a b) c))
       = EBin y (fold (to_nexpr n_tab tenv io (SBin x a b))) (fold (to_nexpr n_tab tenv io c)).
Proof. exact chain_left_assoc. Qed.
Print Assumptions c14_chain_left_assoc.

Theorem c14_nonassoc_rejected : forall x y a b c m, g_chain n_tab y = false -> g_lvl n_tab x = g_lvl n_tab y ->
  wf n_tab m (SBin y (SBin x a b) c) = false.
Proof. exact nonassoc_rejected. Qed.
Print Assumptions c14_nonassoc_rejected.

(** ** 2. Desugaring and rendering preserve the value *)
Theorem c14_desugar_preserves : forall G tenv E s io, consts_ok s = true ->
  cceval E (emb s) = ceval E (fold (to_nexpr G tenv io s)).
Proof. exact desugar_preserves. Qed.
Print Assumptions c14_desugar_preserves.

Theorem c14_to_nexpr_valid : forall tenv s io, nvalid (to_nexpr n_tab tenv io s) = true.
Proof. exact (fun tenv => to_nexpr_valid n_tab tenv layers_chain_classes). Qed.
Print Assumptions c14_to_nexpr_valid.

(** full parenthesisation of the children makes the C reading of the emitted text the left fold *)
Theorem c14_render_parses : forall n, nvalid n = true -> cparse (render n) = Some (render_tree n).
Proof. exact render_parses. Qed.
Print Assumptions c14_render_parses.

Theorem c14_render_tree_eval : forall E n, cceval E (render_tree n) = ceval E (fold n).
Proof. exact render_tree_eval. Qed.
Print Assumptions c14_render_tree_eval.

Theorem c14_cembed_eval : forall E e, cceval E (cembed e) = ceval E e.
Proof. exact cembed_eval. Qed.
Print Assumptions c14_cembed_eval.

(** source text and emitted text, both read by C, have the same value in every environment
    (including where that value is undefined) *)
Theorem c14_source_and_emitted_agree : forall tenv s io, wf n_tab 0 s = true -> consts_ok s = true ->
  exists ts te, cparse (tok s) = Some ts /\ cparse (render (to_nexpr n_tab tenv io s)) = Some te
                /\ forall E, cceval E ts = cceval E te.
Proof. exact source_and_emitted_agree_nmfu. Qed.
Print Assumptions c14_source_and_emitted_agree.

(** C arithmetic keeps every defined value inside the range of its type *)
Theorem c14_arith_type_sound : forall E, env_ok E -> forall e c, iconsts_ok e = true -> ceval E e = Some c ->
  in_range (fst c) (snd c) = true.
Proof. exact ceval_in_range. Qed.
Print Assumptions c14_arith_type_sound.

(** indexing *)
Theorem c14_index_safe : forall E v i iv, safe_idx E = true -> ceval E i = Some iv -> idx_val E v (snd iv) = None ->
  ceval E (EIdx v i) = Some (TI32, 0%Z).
Proof. exact index_safe. Qed.
Print Assumptions c14_index_safe.

Theorem c14_index_unsafe_undefined : forall E v i iv, safe_idx E = false -> ceval E i = Some iv -> idx_val E v (snd iv) = None ->
  ceval E (EIdx v i) = None.
Proof. exact index_unsafe_undefined. Qed.
Print Assumptions c14_index_unsafe_undefined.

Theorem c14_guard_is_checked_read : forall E v size iv, env_sized E v size -> in_range (fst iv) (snd iv) = true ->
  guard_eval E v size iv =
  match idx_val E v (snd iv) with
  | None => Some (TI32, 0%Z)
  | Some None => None
  | Some (Some c) => Some (promote (fst c), snd c)
  end.
Proof. exact guard_is_checked_read. Qed.
Print Assumptions c14_guard_is_checked_read.

(** conditions *)
Theorem c14_cond_truthy : forall E e x, ceval E e = Some x -> in_range (fst x) (snd x) = true ->
  ceval E (EBin ONe e (ELit 0)) = Some (of_bool (truth x)).
Proof. exact cond_truthy. Qed.
Print Assumptions c14_cond_truthy.

Theorem c14_cond_truthy_env : forall E e x, env_ok E -> iconsts_ok e = true -> ceval E e = Some x ->
  exists r, ceval E (EBin ONe e (ELit 0)) = Some r /\ truth r = negb (snd x =? 0)%Z.
Proof. exact cond_truthy_env. Qed.
Print Assumptions c14_cond_truthy_env.

Theorem c14_as_cond_truth : forall E tenv n x, ceval E (fold n) = Some x -> in_range (fst x) (snd x) = true ->
  exists r, ceval E (fold (as_cond tenv n)) = Some r /\ truth r = truth x.
Proof. exact as_cond_truth. Qed.
Print Assumptions c14_as_cond_truth.

(** ** 3. Storing, and the four contexts *)
Theorem c14_assign_converts : forall cfg v e inval x x', exec_cprim cfg (PSetInt v e) inval x = Some x' ->
  exists t cv, nth_error (c_decls cfg) v = Some (DInt t) /\ ceval (cenv cfg (vals x) inval) e = Some cv
    /\ vals x' = set_nth (vals x) v (VInt (wrap t (snd cv))) /\ in_range t (wrap t (snd cv)) = true.
Proof. exact assign_converts. Qed.
Print Assumptions c14_assign_converts.

Theorem c14_contexts_agree : forall cfg e inval x,
  let E := cenv cfg (vals x) inval in
  (forall v x', exec_cprim cfg (PSetInt v e) inval x = Some x' ->
     exists t cv, nth_error (c_decls cfg) v = Some (DInt t) /\ ceval E e = Some cv /\ vals x' = set_nth (vals x) v (VInt (store_conv t cv)))
  /\ (forall v x', exec_cprim cfg (PAppendExpr v e) inval x = Some x' ->
     exists cells n cv (null : bool), nth_error (vals x) v = Some (VBuf cells n) /\ ceval E e = Some cv
       /\ vals x' = set_nth (vals x) v (VBuf (let cells' := set_nth cells n (Some (Z.to_N (store_conv TU8 cv))) in
                                               if null then set_nth cells' (S n) (Some 0%N) else cells') (S n)))
  /\ (forall b, eval_ctest cfg (TCond e) inval x = Some b -> exists cv, ceval E e = Some cv /\ b = truth cv).
Proof. exact contexts_agree. Qed.
Print Assumptions c14_contexts_agree.

Theorem c14_cenv_ok : forall cfg vs inval, vals_ok (c_decls cfg) vs = true -> (inval < 256)%N ->
  (forall v size null u8, nth_error (c_decls cfg) v = Some (DBuf size null u8) -> (Z.of_nat size < 2 ^ 32)%Z) ->
  (forall v cells n i b, nth_error vs v = Some (VBuf cells n) -> nth_error cells i = Some (Some b) -> (b < 256)%N) ->
  env_ok (cenv cfg vs inval).
Proof. exact cenv_ok. Qed.
Print Assumptions c14_cenv_ok.

Theorem c14_int_type_exact : forall w sg, In w [1; 2; 4; 8]%Z ->
  exists t, int_type w sg = Some t /\ In (w, sg, t) g_int_types /\ width t = (8 * w)%Z /\ is_signed t = sg.
Proof. exact int_type_exact. Qed.
Print Assumptions c14_int_type_exact.

Theorem c14_int_type_default : In (0%Z, true, TI32) g_int_types /\ In (0%Z, false, TU32) g_int_types.
Proof. exact int_type_default. Qed.
Print Assumptions c14_int_type_default.

(** ** Non-vacuity: concrete expressions, environments and stores *)
Local Open Scope Z_scope.

(** source text   n - (a + b) * 2 == -3 && !f   with outputs 0:n 1:a 2:b (ints) 3:f (bool) *)
Definition ex_s : sexpr :=
  SBin OLAnd (SBin OEq (SBin OSub (SVar 0) (SBin OMul (SParen (SBin OAdd (SVar 1) (SVar 2))) (SNum 2))) (SNum (-3)))
             (SNot (SVar 3)).
Definition ex_tenv (v : nat) : vkind := match v with 3%nat => KBool | _ => KInt end.
Definition ex_env : env :=
  {| var_val := fun v => match v with 0%nat => Some (TI32, 7) | 1%nat => Some (TU8, 2) | 2%nat => Some (TI16, 3) | 3%nat => Some (TBool, 0) | _ => None end;
     len_val := fun _ => None; idx_val := fun _ i => if (0 <=? i) && (i <? 4) then Some (Some (TU8, 200)) else None;
     safe_idx := true; last := 65 |}.

Example c14_example_tree :
  wf n_tab 0 ex_s = true /\ consts_ok ex_s = true
  /\ cparse (tok ex_s)
     = Some (CBin OLAnd (CBin OEq (CBin OSub (CVar 0) (CBin OMul (CBin OAdd (CVar 1) (CVar 2)) (CLit 2))) (CNeg (CLit 3))) (CNot (CVar 3)))
  /\ fold (to_nexpr n_tab ex_tenv IntoNone ex_s)
     = EBin OLAnd (EBin OEq (EBin OSub (EVar 0) (EBin OMul (EBin OAdd (EVar 1) (EVar 2)) (ELit 2))) (ELit (-3))) (EBin OEq (EVar 3) (EConstInt 0))
  /\ cparse (render (to_nexpr n_tab ex_tenv IntoNone ex_s)) = Some (render_tree (to_nexpr n_tab ex_tenv IntoNone ex_s))
  /\ ceval ex_env (fold (to_nexpr n_tab ex_tenv IntoNone ex_s)) = Some (TI32, 1)
  /\ cceval ex_env (emb ex_s) = Some (TI32, 1).
Proof. repeat split; vm_compute; reflexivity. Qed.

(** a chain is collected into one node and printed side by side; C reads it to the left:  n - a + b  is (n - a) + b = 8 *)
Example c14_example_chain :
  let s := SBin OAdd (SBin OSub (SVar 0) (SVar 1)) (SVar 2) in
  to_nexpr n_tab ex_tenv IntoInt s = NNode OAdd (NNode OSub (NVar 0) false (NVar 1)) true (NVar 2)
  /\ render (to_nexpr n_tab ex_tenv IntoInt s) = [TLP; TVar 0; TRP; TOp OSub; TLP; TVar 1; TRP; TOp OAdd; TLP; TVar 2; TRP]
  /\ cparse (render (to_nexpr n_tab ex_tenv IntoInt s)) = Some (CBin OAdd (CBin OSub (CVar 0) (CVar 1)) (CVar 2))
  /\ ceval ex_env (fold (to_nexpr n_tab ex_tenv IntoInt s)) = Some (TI32, 8)
  /\ wf n_tab 0 (SBin OLt (SBin OLt (SVar 0) (SVar 1)) (SVar 2)) = false
  /\ wf c_tab 0 (SBin OLt (SBin OLt (SVar 0) (SVar 1)) (SVar 2)) = true.
Proof. repeat split; vm_compute; reflexivity. Qed.

(** usual arithmetic conversions:  -1 < 1u  is false;  unary minus of an unsigned wraps;  INT_MIN negated is undefined;
    an int used as a condition *)
Example c14_example_arith :
  eval_bin OLt (TI32, -1) (TU32, 1) = Some (TI32, 0)
  /\ cneg (TU32, 1) = Some (TU32, 4294967295)
  /\ cneg (TI32, -2147483648) = None
  /\ ceval ex_env (EBin OSub (ELit 0) (ELit (-2147483648))) = Some (TI64, 2147483648)
  /\ ceval ex_env (fold (as_cond ex_tenv (NNode OSub (NVar 0) false (NLit 7)))) = Some (TI32, 0)
  /\ ceval ex_env (fold (as_cond ex_tenv (NVar 0))) = Some (TI32, 1)
  /\ ceval ex_env (EBin ODiv (EVar 0) (EBin OSub (EVar 1) (ELit 2))) = None.
Proof. repeat split; vm_compute; reflexivity. Qed.

Example c14_example_guard :
  env_sized ex_env 0 4 /\ guard_eval ex_env 0 4 (TI32, 3) = Some (TI32, 200) /\ guard_eval ex_env 0 4 (TI32, 4) = Some (TI32, 0)
  /\ guard_eval ex_env 0 4 (TI64, -1) = Some (TI32, 0) /\ ceval ex_env (EIdx 0 (ELit 9)) = Some (TI32, 0)
  /\ env_ok ex_env.
Proof.
  assert (Hc : forall i, ((0 <=? i) && (i <? 4)) = true <-> 0 <= i < 4).
  { intros i. rewrite andb_true_iff, Z.leb_le, Z.ltb_lt. tauto. }
  split; [|split; [|split; [|split; [|split]]]]; try (vm_compute; reflexivity).
  - split; [|split].
    + vm_compute. split; [reflexivity|congruence].
    + intros i. cbn [ex_env idx_val]. destruct ((0 <=? i) && (i <? 4)) eqn:E; split; intros H; try discriminate.
      * exfalso. apply H, Hc, E.
      * intros H1. apply Hc in H1. congruence.
      * reflexivity.
    + intros i c H. cbn [ex_env idx_val] in H. destruct ((0 <=? i) && (i <? 4)); inversion H; split; reflexivity.
  - split; [|split; [|split]].
    + intros v c H. cbn [ex_env var_val] in H. destruct v as [|[|[|[|v]]]]; inversion H; reflexivity.
    + intros v c H. discriminate.
    + intros v i c H. cbn [ex_env idx_val] in H. destruct ((0 <=? i) && (i <? 4)); inversion H; reflexivity.
    + reflexivity.
Qed.

(** storing 300 into a uint8_t output keeps 44; appending it appends byte 44; the condition [300] is true *)
Definition ex_cfg : ccfg :=
  {| c_decls := [DInt TU8; DBuf 4 true false]; c_prims := []; c_tests := []; c_safe_idx := true; c_defaults := [] |}.
Definition ex_data : cdata := {| vals := [VInt 0; VBuf [Some 0%N; None; None; None] 0]; hooks := [] |}.
Example c14_example_store :
  option_map vals (exec_cprim ex_cfg (PSetInt 0 (ELit 300)) 65%N ex_data) = Some [VInt 44; VBuf [Some 0%N; None; None; None] 0]
  /\ option_map vals (exec_cprim ex_cfg (PAppendExpr 1 (ELit 300)) 65%N ex_data) = Some [VInt 0; VBuf [Some 44%N; Some 0%N; None; None] 1]
  /\ eval_ctest ex_cfg (TCond (EBin ONe (ELit 300) (ELit 0))) 65%N ex_data = Some true
  /\ eval_ctest ex_cfg (TCond (EBin ONe (EVar 0) (ELit 0))) 65%N ex_data = Some false.
Proof. repeat split; vm_compute; reflexivity. Qed.

(** scope note (not a theorem about nmfu): number literals are read by VALUE.  nmfu prints every literal in decimal,
    so the source spelling 0xFFFFFFFF + 1 is emitted as 4294967295 + 1 and evaluates in long (4294967296), whereas C
    would type the hexadecimal spelling itself unsigned int and wrap to 0. *)
Example c14_literal_spelling_note :
  ceval ex_env (EBin OAdd (ELit 4294967295) (ELit 1)) = Some (TI64, 4294967296)
  /\ eval_bin OAdd (TU32, 4294967295) (TI32, 1) = Some (TU32, 0).
Proof. split; vm_compute; reflexivity. Qed.
