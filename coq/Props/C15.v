(** C15 - literals denote exactly the bytes and values they spell.
    Property theorems only; every one is about the definitions in Gen/GLit.v, which are
    regenerated from /repo/nmfu.py on every run. *)
From Coq Require Import ZArith NArith List Bool.
Import ListNotations.
From NV Require Import Base.PyLite Gen.GLit Lit.LitSpec Lit.LitProps.

(** string literals: every spelling in the documented escape language denotes, through the
    current body of ParseCtx._convert_string, exactly the bytes it spells *)
Theorem c15_string_literal_denotes : forall s bs, Denotes s bs ->
  forall fuel, (length s < fuel)%nat -> convert_string fuel (34%N :: s ++ [34%N]) = Ok bs.
Proof. exact convert_string_sound. Qed.
Print Assumptions c15_string_literal_denotes.

Theorem c15_string_literal_wellformed : forall s bs fuel dfuel,
  decode dfuel s = Some bs -> (length s < fuel)%nat -> convert_string fuel (34%N :: s ++ [34%N]) = Ok bs.
Proof. exact convert_string_correct. Qed.
Print Assumptions c15_string_literal_wellformed.

(** non-vacuity: a spelling with every kind of escape *)
Example c15_string_example :
  convert_string 40 (34 :: [97; 92; 110; 92; 120; 102; 70; 92; 48; 92; 34; 92; 92; 255] ++ [34])%N
  = Ok [97; 10; 255; 0; 34; 92; 255]%N
  /\ decode 40 [97; 92; 110; 92; 120; 102; 70; 92; 48; 92; 34; 92; 92; 255]%N = Some [97; 10; 255; 0; 34; 92; 255]%N.
Proof. split; vm_compute; reflexivity. Qed.

(** character constants *)
Theorem c15_char_const_plain : forall c, convert_char_const [39; c; 39]%N = Ok [c].
Proof. exact char_const_plain. Qed.
Print Assumptions c15_char_const_plain.
Theorem c15_char_const_escape : forall c v, In (c, v) char_escapes -> convert_char_const [39; 92; c; 39]%N = Ok [v].
Proof. exact char_const_escape. Qed.
Print Assumptions c15_char_const_escape.

(** integer literals: decimal / 0x / 0b with sign *)
Theorem c15_int_decimal : forall ds, all_digits 10 ds = true -> ds <> [] ->
  convert_int ds = Ok (digits_val 10 ds 0)
  /\ convert_int (43%N :: ds) = Ok (digits_val 10 ds 0)
  /\ convert_int (45%N :: ds) = Ok (- digits_val 10 ds 0)%Z.
Proof. exact convert_int_decimal. Qed.
Print Assumptions c15_int_decimal.
Theorem c15_int_hex : forall ds, all_digits 16 ds = true -> ds <> [] ->
  convert_int (48 :: 120 :: ds)%N = Ok (digits_val 16 ds 0)
  /\ convert_int (43 :: 48 :: 120 :: ds)%N = Ok (digits_val 16 ds 0)
  /\ convert_int (45 :: 48 :: 120 :: ds)%N = Ok (- digits_val 16 ds 0)%Z.
Proof. exact convert_int_hex. Qed.
Print Assumptions c15_int_hex.
Theorem c15_int_bin : forall ds, all_digits 2 ds = true -> ds <> [] ->
  convert_int (48 :: 98 :: ds)%N = Ok (digits_val 2 ds 0).
Proof. exact convert_int_bin. Qed.
Print Assumptions c15_int_bin.
Example c15_int_example : convert_int [45; 48; 120; 49; 102]%N = Ok (-31)%Z /\ convert_int [48; 98; 49; 48; 49]%N = Ok 5%Z
   /\ convert_int [43; 49; 50]%N = Ok 12%Z.
Proof. repeat split; vm_compute; reflexivity. Qed.

(** case-insensitive literals: the set accepted for a character is exactly {c, other case of c}
    for ASCII letters and {c} otherwise - finite (256 bytes), by computation on the generated term *)
Definition casei_spec (c : N) : list pystr :=
  if ((97 <=? c) && (c <=? 122))%N then [[c]; [c - 32]%N]
  else if ((65 <=? c) && (c <=? 90))%N then [[c]; [c + 32]%N] else [[c]].
Definition strlist_eqb (a b : list pystr) : bool :=
  (Nat.eqb (length a) (length b)) && forallb (fun p => str_eqb (fst p) (snd p)) (combine a b).
Definition casei_check : bool :=
  forallb (fun c => match create_casei_from [c] with Ok l => strlist_eqb l (casei_spec c) | _ => false end) bytes256.
Theorem c15_casei_set : casei_check = true.
Proof. vm_compute. reflexivity. Qed.
Print Assumptions c15_casei_set.

(** C emission: the text _escape_string produces for a byte string lexes, as a C string literal
    (maximal-munch hex escapes, bounded octal escapes), back to exactly those bytes *)
Lemma esc_byte_check_ok : esc_byte_check = true.
Proof. vm_compute. reflexivity. Qed.
Theorem c15_emit_roundtrip : forall bs, Forall (fun b => (b < 256)%N) bs ->
  exists t, escape_string_bytes (map Z.of_N bs) = Ok t /\ c_lex t = Some bs.
Proof. exact (emit_roundtrip_bytes esc_byte_check_ok). Qed.
Print Assumptions c15_emit_roundtrip.
Theorem c15_emit_roundtrip_str : forall bs, Forall (fun b => (b < 256)%N) bs ->
  exists t, escape_string_str bs = Ok t /\ c_lex t = Some bs.
Proof. exact (emit_roundtrip_str esc_byte_check_ok). Qed.
Print Assumptions c15_emit_roundtrip_str.
Example c15_emit_example : exists t, escape_string_bytes [1; 97; 255; 34; 92; 48]%Z = Ok t /\ c_lex t = Some [1; 97; 255; 34; 92; 48]%N.
Proof. eexists. split; vm_compute; reflexivity. Qed.
