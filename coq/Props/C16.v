(** C16 - wait never fails and stops at the first restart-semantics match.

    (1) Over the procedural reading (Ref/RefSem.v), for ALL patterns, contexts and bytes: one step of a wait
    either consumes the byte (continuing or completing the pattern, or skipping a byte that cannot start it),
    or abandons the partial match and re-offers the byte to the beginning of the pattern, or - the pattern being
    complete - hands the byte to what follows; it never raises, so no handler and no FAIL is reached from a wait
    on a byte; at end of input it reports failure of the parse without entering a handler.  (2) Per accepted
    program: the machine the compiler built is validated against that reading (sim_cert: every input and data
    semantics, end-of-input included when the parser has an end()). *)
From Coq Require Import NArith Arith List Bool.
Import ListNotations.
From NV Require Import Machine.Dfa Machine.Sem Machine.Bisim Machine.BBisim Regex.Re Ref.Lang Ref.RefSem Ref.Sim Ref.RefCert Ref.CaseProps.

Theorem c16_wait_step : forall noeach f r0 r K' s,
  feed false noeach (S (S f)) (FW r0 r :: K') s = wait_step noeach (S f) (fun K2 => feed false noeach (S f) K2 s) r0 r K' s.
Proof. exact wait_feed_eq. Qed.
Print Assumptions c16_wait_step.

Theorem c16_wait_never_fails : forall noeach f r0 r K' s, is_end s = false ->
  let again := fun K2 => feed false noeach (S f) K2 s in
  let t := feed false noeach (S (S f)) (FW r0 r :: K') s in
  (exists Kafter, t = consumed noeach (S f) again Kafter K' None) \/ t = again K' \/ t = again (FW r0 r0 :: K').
Proof. exact wait_never_fails. Qed.
Print Assumptions c16_wait_never_fails.

Theorem c16_end_of_input_in_wait : forall noeach f r0 r K', void (deriv sym_end r) = true -> nullable r = false ->
  feed false noeach (S (S f)) (FW r0 r :: K') sym_end = RRet None RFail [] false.
Proof. exact wait_end_fails. Qed.
Print Assumptions c16_end_of_input_in_wait.

Theorem c16_compiled_trace_is_a_reading : forall syms p d, sim_cert syms p d = true ->
  forall D exec evalt K2 input, (forall s, In s input -> In s syms) -> forall x tr,
  crun D exec evalt d K2 input x = Some tr ->
  reading D exec evalt (ref_spec (ref_table syms p)) (to_stree (ref_table syms p) (start_tree p)) input x tr.
Proof. exact sim_cert_sound. Qed.
Print Assumptions c16_compiled_trace_is_a_reading.

(** wait "ab" on a a b: the second a abandons the partial match and restarts it; the reading consumes all three *)
Definition cl (c : N) : re := Cls (N.shiftl 1 c).
Definition w_ab : re := Seq (cl 97) (cl 98).
Example c16_example_restart :
  feed false 0 5 [FW w_ab (cl 98)] 97%N = RCons [FW w_ab (cl 98)] /\
  feed false 0 5 [FW w_ab (cl 98)] 98%N = RRet (Some []) RDone [] false /\
  feed false 0 5 [FW w_ab w_ab] 120%N = RCons [FW w_ab w_ab].
Proof. vm_compute. repeat split; reflexivity. Qed.
Definition byte_syms : list sym := map N.of_nat (seq 0 256).
