(** C17 - end-of-input handling follows the EOF contract (model level; the emitted end() is tied to the
    model by the end-of-input sweep over every state and by runs ending in end(), harness/props/c17.py). *)
From Coq Require Import NArith Arith List Bool.
Import ListNotations.
From NV Require Import Machine.Dfa Machine.Sem Machine.Eof Machine.Chunk Machine.Bisim Machine.BBisim Machine.Drive Regex.Re Ref.Lang Ref.RefSem Ref.Sim Ref.RefCert Ref.CallLevel.

(** `end` patterns never match a data byte: what a byte selects does not depend on End marks at all *)
Theorem c17_end_never_matches_data : forall b ts s, (s < 256)%N ->
  select_feed (map (set_end b) ts) s = option_map (set_end b) (select_feed ts s).
Proof. exact select_feed_ignores_end. Qed.
Print Assumptions c17_end_never_matches_data.

(** data patterns never match end-of-input, in every machine carrying the certificate end_safe *)
Theorem c17_data_never_matches_end : forall d, end_safe d = true -> forall q ts t,
  nth_error (d_states d) q = Some (SNormal ts) -> select ts sym_end = Some t ->
  has (t_on t) sym_end = true \/ t_fall t = true \/ t_err t = true.
Proof. exact end_safe_sound. Qed.
Print Assumptions c17_data_never_matches_end.

(** with nothing to do at end-of-input: DONE iff the program has already reached its end, else FAIL *)
Theorem c17_end_without_transition : forall d q ts, nth_error (d_states d) q = Some (SNormal ts) -> select ts sym_end = None ->
  step_tree d q sym_end = Leaf (if accepting d q then LRet RDone q false else LRet RFail (fail_index d) false).
Proof. exact end_no_transition. Qed.
Print Assumptions c17_end_without_transition.

(** after a failure end() reports FAIL *)
Theorem c17_end_after_fail : forall D exec evalt d q x, is_fail_state d q ->
  end_call D exec evalt d q x = Some {| f_res := RFail; f_q := q; f_x := x; f_consumed := 0; f_evs := [] |}.
Proof. exact fail_absorbing_end. Qed.
Print Assumptions c17_end_after_fail.

(** end() never consumes and never moves the cursor: every outcome of a step on the end-of-input symbol is a return
    with the cursor where it was *)
Theorem c17_end_consumes_nothing : forall d fuel q, tree_all leaf_end_ok (nf d fuel q sym_end) = true.
Proof. exact nf_end. Qed.
Print Assumptions c17_end_consumes_nothing.

(** feeding the whole input (re-invoking after yields) and then calling end() is the symbol-by-symbol run on the input
    followed by the end-of-input symbol - the run the certificates of C01 / C16 are about.  (Actions that run inside end()
    see 255 as the last byte, which is what the hypotheses on the data semantics say.) *)
Theorem c17_feed_then_end_is_the_run_with_end : forall D exec evalt d, dfa_wf d = true ->
  (forall p x, exec p sym_end x = exec p 255%N x) -> (forall t x, evalt t sym_end x = evalt t 255%N x) ->
  forall f bs q x tr K, f <= K -> drive_end D exec evalt d K f bs q x = Some tr ->
  run D exec evalt (step_tree d) K (bs ++ [sym_end]) q x = Some tr.
Proof. exact drive_end_run. Qed.
Print Assumptions c17_feed_then_end_is_the_run_with_end.

(** hence, for a program whose machine carries the certificate of C01, what a caller observes who feeds its input and
    calls end() is a trace the procedural reading allows for that input followed by the end of input *)
Theorem c17_caller_with_end_observes_a_reading : forall syms p d, sim_cert syms p d = true -> dfa_wf d = true ->
  forall D exec evalt, (forall p x, exec p sym_end x = exec p 255%N x) -> (forall t x, evalt t sym_end x = evalt t 255%N x) ->
  forall K fuel input, fuel <= K -> (forall s, In s input -> In s syms) -> In sym_end syms -> forall x tr,
  cdrive_end D exec evalt d K fuel input x = Some tr ->
  reading D exec evalt (ref_spec (ref_table syms p)) (to_stree (ref_table syms p) (start_tree p)) (input ++ [sym_end]) x tr.
Proof. exact caller_with_end_sees_a_reading. Qed.
Print Assumptions c17_caller_with_end_observes_a_reading.
