(** C17 - end-of-input handling follows the EOF contract (model level; the emitted end() is tied to the
    model by the end-of-input sweep over every state and by runs ending in end(), harness/props/c17.py). *)
From Coq Require Import NArith Arith List Bool.
Import ListNotations.
From NV Require Import Machine.Dfa Machine.Sem Machine.Eof Machine.Chunk.

(** `end` patterns never match a data byte: what a byte selects does not depend on End marks at all *)
Theorem c17_end_never_matches_data : forall b ts s, (s < 256)%N ->
  select_feed (map (set_end b) ts) s = option_map (set_end b) (select_feed ts s).
Proof. exact select_feed_ignores_end. Qed.
Print Assumptions c17_end_never_matches_data.

(** data patterns never match end-of-input, in every machine carrying the certificate end_safe *)
Theorem c17_data_never_matches_end : forall d, end_safe d = true -> forall q ts t,
  nth_error (d_states d) q = Some (SNormal ts) -> select ts sym_end = Some t ->
  has (t_on t) sym_end = true \/ t_fall t = true \/ t_err t = true.
Proof. exact end_safe_sound. Qed.
Print Assumptions c17_data_never_matches_end.

(** with nothing to do at end-of-input: DONE iff the program has already reached its end, else FAIL *)
Theorem c17_end_without_transition : forall d q ts, nth_error (d_states d) q = Some (SNormal ts) -> select ts sym_end = None ->
  step_tree d q sym_end = Leaf (LRet (if accepting d q then RDone else RFail) q false).
Proof. exact end_no_transition. Qed.
Print Assumptions c17_end_without_transition.

(** after a failure end() reports FAIL *)
Theorem c17_end_after_fail : forall D exec evalt d q x, is_fail_state d q ->
  end_call D exec evalt d q x = Some {| f_res := RFail; f_q := q; f_x := x; f_consumed := 0; f_evs := [] |}.
Proof. exact fail_absorbing_end. Qed.
Print Assumptions c17_end_after_fail.
