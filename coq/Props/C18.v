(** C18 - the compiler always terminates with code or a diagnosed error (part A: what a theorem can carry).
    Property theorems only; every one is about the definitions in Gen/GLit.v, which are regenerated from
    /repo/nmfu.py on every run, over the lexical classes of Total/Lexical.v (compared with the grammar terminals of
    the current source on every run).  The two statements that are false of today's source live in
    Total/OpenIntFull.v / Total/OpenICFull.v (with their refutations in Total/Open*Refuted.v); here are their
    versions under the weakest side condition. *)
From Coq Require Import ZArith NArith List Bool.
Import ListNotations.
From NV Require Import Base.PyLite Gen.GLit Lit.LitSpec Total.GLex Total.Lexical Total.TotalProps.

(** string literals: for every STRING token, with fuel above the body length (the termination argument of the
    while loop), the outcome is a byte string or a diagnosed error - never KeyError/ValueError/IndexError, never Fuel *)
Theorem c18_convert_string_total : forall body, string_body body ->
  forall fuel, (length body < fuel)%nat ->
  diagnosed_or is_bytes (convert_string fuel (34%N :: body ++ [34%N])).
Proof. exact convert_string_total. Qed.
Print Assumptions c18_convert_string_total.

Example c18_string_examples :
  convert_string 9 (34 :: [97; 92; 113] ++ [34])%N = Raise Diagnosed          (* "a\q" *)
  /\ convert_string 9 (34 :: [92; 120] ++ [34])%N = Raise Diagnosed            (* "\x" *)
  /\ convert_string 9 (34 :: [92; 117; 49] ++ [34])%N = Raise Diagnosed        (* "\u1" *)
  /\ convert_string 9 (34 :: [8364] ++ [34])%N = Raise Diagnosed               (* a character above 255 *)
  /\ convert_string 9 (34 :: [92; 120; 102; 70; 10] ++ [34])%N = Ok [255; 10]%N
  /\ string_body [97; 92; 113]%N /\ string_body [92; 120]%N /\ string_body [92; 117; 49]%N.
Proof.
  repeat split; try (vm_compute; reflexivity);
    repeat (first [apply SB_nil | apply SB_esc; [discriminate|] | apply SB_plain; [discriminate|discriminate|]]).
Qed.

(** character constants: every CHAR_CONSTANT token denotes exactly one character (so ord() of it cannot fail) *)
Theorem c18_convert_char_const_total : forall t, char_token t -> exists v, convert_char_const t = Ok [v].
Proof. exact convert_char_const_total. Qed.
Print Assumptions c18_convert_char_const_total.

(** numbers: every RADIX_NUMBER token except the digit-less binary prefix 0b has a value (0b itself: see
    Total/OpenIntRefuted.v - today the grammar admits it and int("", 2) raises ValueError) *)
Theorem c18_convert_int_total_partial : forall t, radix_token t -> t <> [48; 98]%N -> exists v, convert_int t = Ok v.
Proof. exact convert_int_total_partial. Qed.
Print Assumptions c18_convert_int_total_partial.

Theorem c18_number_token_total : forall t, number_token t -> exists v, convert_int t = Ok v.
Proof. exact number_token_total. Qed.
Print Assumptions c18_number_token_total.

Example c18_int_examples :
  radix_token [45; 48; 120; 49; 70]%N /\ convert_int [45; 48; 120; 49; 70]%N = Ok (-31)%Z
  /\ convert_int [48; 98; 49; 48]%N = Ok 2%Z /\ convert_int [43; 48; 48; 55]%N = Ok 7%Z.
Proof. split; [exact (proj1 radix_ex)|repeat split; vm_compute; reflexivity]. Qed.

(** binary strings: on every token the outcome is a byte string or the ValueError (odd number of hex digits) that
    both call sites convert into a diagnosed IllegalParseTree *)
Theorem c18_convert_binary_string_total : forall t, bin_outcome (convert_binary_string t).
Proof. exact convert_binary_string_total. Qed.
Print Assumptions c18_convert_binary_string_total.

Example c18_binary_examples :
  convert_binary_string [34; 48; 97; 32; 70; 102; 34]%N = Ok [10; 255]%N     (* "0a Ff"b *)
  /\ convert_binary_string [34; 48; 97; 48; 34]%N = Raise ValueError           (* "0a0"b *)
  /\ convert_binary_string [34; 122; 34]%N = Ok []%N.                           (* "z"b: no digits at all *)
Proof. repeat split; vm_compute; reflexivity. Qed.

(** integer types: a declaration `int{signed?, size N}` gets a C type when it is signed (any N) or N is 1, 2, 4, 8
    (unsigned with another size: see Total/OpenICRefuted.v - TypeError for EVERY other N); counters always do *)
Theorem c18_integer_containing_total_partial : forall sg w, (sg = false -> width_known w) ->
  exists v, integer_containing None sg w = Ok v.
Proof. exact integer_containing_total_partial. Qed.
Print Assumptions c18_integer_containing_total_partial.

Theorem c18_integer_containing_counter_total : forall m, exists v, integer_containing (Some m) false None = Ok v.
Proof. exact integer_containing_counter_total. Qed.
Print Assumptions c18_integer_containing_counter_total.

Example c18_integer_examples :
  integer_containing None true (Some 3%Z) = Ok [105; 110; 116; 51; 50; 95; 116]%N      (* int32_t *)
  /\ integer_containing None false (Some 8%Z) = Ok [117; 105; 110; 116; 109; 97; 120; 95; 116]%N   (* uintmax_t *)
  /\ width_known (Some 8%Z).
Proof. repeat split; try (vm_compute; reflexivity). right; right; right; right; reflexivity. Qed.

(** what _convert_string produces (byte strings) is always escaped into a C literal, and the case-insensitive
    expansion of every character exists *)
Theorem c18_escape_string_total : forall bs, is_bytes bs ->
  (exists t, escape_string_bytes (map Z.of_N bs) = Ok t) /\ (exists t, escape_string_str bs = Ok t).
Proof. exact escape_string_total. Qed.
Print Assumptions c18_escape_string_total.

Theorem c18_create_casei_from_total : forall c, exists l, create_casei_from [c] = Ok l.
Proof. exact create_casei_from_total. Qed.
Print Assumptions c18_create_casei_from_total.

Example c18_casei_example : create_casei_from [8364]%N = Ok [[8364]%N] /\ create_casei_from [97]%N = Ok [[97]; [65]]%N.
Proof. split; vm_compute; reflexivity. Qed.
