(** C19 - command-line options resolve to a consistent configuration.
    Property theorems only.  [resolve] / [tokenise] are the hand-written model of
    ProgramData.load_commandline_flags (Flags/FlagsModel.v, tied to the implementation by the
    correspondence runs of harness/props/c19.py); [gm] / [gT] are the flag metadata regenerated from
    the current nmfu.py on every run (Gen/GFlags.v).

    Bound of the finite theorems ([in_domain l]): [l] sets only flags related by implies/exclusive
    metadata (the flags carrying such metadata or mentioned by it: 3^k on/off/absent assignments,
    k = length (relevant gm)), or only flags of the -O level table; each flag at most once; ANY order;
    at every level of the table.  [c19_order_independent], [c19_never_crashes] and the tokeniser theorems have no
    bound on the arguments involved. *)
From Coq Require Import NArith ZArith List Bool Permutation.
From Coq Require String.
Import String.StringSyntax.
Local Open Scope string_scope.
From NV Require Import Flags.FlagsModel Flags.FlagsProps Flags.FlagsOrder Flags.FlagsTable Flags.FlagsThms.
Import ListNotations.

(** the effective configuration does not depend on the order in which different flags are given:
    equal configurations, or an error in both orders *)
Theorem c19_order_independent : forall lv l1 l2, NoDup (map fst l1) -> Permutation l1 l2 ->
  res_equiv (resolve gm lv l1) (resolve gm lv l2).
Proof. exact order_independent_gm. Qed.
Print Assumptions c19_order_independent.
(** ... and for every metadata table satisfying the computed side condition, not only today's *)
Theorem c19_order_independent_any_table : forall m, meta_ok m = true ->
  forall lv l1 l2, NoDup (map fst l1) -> Permutation l1 l2 -> res_equiv (resolve m lv l1) (resolve m lv l2).
Proof. exact order_independent. Qed.
Print Assumptions c19_order_independent_any_table.
Theorem c19_table_side_condition : meta_ok gm = true.
Proof. exact gm_meta_ok. Qed.
Print Assumptions c19_table_side_condition.

(** resolution never crashes and never diverges; the only error is a justified conflict *)
Theorem c19_resolve_total : forall lv l, In lv (levels gm) -> in_domain l ->
  (exists c, resolve gm lv l = Ok c)
  \/ (exists a b, resolve gm lv l = Error (EConflict a b) /\ ov_on (ov_dict l) a = true /\ In a (gexclusive b)).
Proof. exact resolve_total. Qed.
Print Assumptions c19_resolve_total.

(** a flag's implied flags are on *)
Theorem c19_implied_on : forall lv l c, In lv (levels gm) -> in_domain l -> resolve gm lv l = Ok c ->
  forall f g, In g (gimplies f) -> get c f = true -> get c g = true.
Proof. exact implied_on. Qed.
Print Assumptions c19_implied_on.

(** two mutually exclusive flags are never both on ... *)
Theorem c19_exclusive_never_both : forall lv l c, In lv (levels gm) -> in_domain l -> resolve gm lv l = Ok c ->
  forall f g, In g (gexclusive f) -> get c f = true -> get c g = false.
Proof. exact exclusive_never_both. Qed.
Print Assumptions c19_exclusive_never_both.

(** ... and explicitly requesting both is an error *)
Theorem c19_explicit_both_is_error : forall lv l, In lv (levels gm) -> in_domain l ->
  forall f g, In g (gexclusive f) -> ov_on (ov_dict l) f = true -> ov_on (ov_dict l) g = true ->
  exists e, resolve gm lv l = Error e.
Proof. exact explicit_both_is_error. Qed.
Print Assumptions c19_explicit_both_is_error.

(** -O levels are cumulative: each level enables a superset of the one below (same error status) *)
Theorem c19_levels_cumulative : forall i l, (S i < length (mlevels gm))%nat -> in_domain l ->
  (forall c1, resolve gm (Z.of_nat i) l = Ok c1 ->
     exists c2, resolve gm (Z.of_nat (S i)) l = Ok c2 /\ forall f, In f (ids gm) -> get c1 f = true -> get c2 f = true)
  /\ (forall e, resolve gm (Z.of_nat i) l = Error e -> exists e', resolve gm (Z.of_nat (S i)) l = Error e').
Proof. exact levels_cumulative. Qed.
Print Assumptions c19_levels_cumulative.

(** explicit settings override the level: explicit "on" is on; explicit "off" is off unless a flag that is
    on implies it; for the optimisation flags of the level table the explicit setting is final *)
Theorem c19_overrides_beat_level : forall lv l c, In lv (levels gm) -> in_domain l -> resolve gm lv l = Ok c ->
  forall k b, In (k, b) (ov_dict l) ->
  if b then get c k = true
  else get c k = true -> exists fm, In fm (mflags gm) /\ In k (fimplies fm) /\ get c (fid fm) = true.
Proof. exact overrides_beat_level. Qed.
Print Assumptions c19_overrides_beat_level.
Theorem c19_overrides_beat_level_opt : forall lv l c, In lv (levels gm) -> in_domain l -> resolve gm lv l = Ok c ->
  forall k b, In (k, b) (ov_dict l) -> In k (level_flags gm) -> get c k = b.
Proof. exact overrides_beat_level_opt. Qed.
Print Assumptions c19_overrides_beat_level_opt.

(** unknown or malformed options are reported as errors (RuntimeError) rather than ignored - for every table
    [T], every argument tail and every parser state; and no command line whatsoever makes the front end raise
    anything but RuntimeError.  (Out-of-fuel outcomes of the model are excluded on [in_domain] by
    [c19_resolve_total]; for arbitrary override lists the termination of the "Set implies" loop within the
    model's fuel is not proved - it is the one thing not covered by a theorem here.) *)
Theorem c19_never_crashes : forall args k, run_cmdline gT args <> Crash k.
Proof. exact never_crashes. Qed.
Print Assumptions c19_never_crashes.
Theorem c19_unknown_flag_is_error : forall T v rest st,
  assoc_str (t_names T) (flagify (if starts_with (s2l "no-") v then skipn 3 v else v)) = None ->
  tokenise T ((45 :: 102 :: v)%N :: rest) st = Error EUnknownFlag.
Proof. exact unknown_flag_is_error. Qed.
Print Assumptions c19_unknown_flag_is_error.
Theorem c19_unknown_long_flag_is_error : forall T v n b rest st,
  parse_flag_arg false v = Ok (n, b) -> assoc_str (t_names T) (flagify n) = None ->
  tokenise T (s2l "--flag" :: v :: rest) st = Error EUnknownFlag.
Proof. exact unknown_long_flag_is_error. Qed.
Print Assumptions c19_unknown_long_flag_is_error.
Theorem c19_malformed_flag_value_is_error : forall T v n w rest st,
  split_first 61 v [] = Some (n, w) -> flag_value w = None ->
  tokenise T (s2l "--flag" :: v :: rest) st = Error EInvalidFlagValue.
Proof. exact malformed_flag_value_is_error. Qed.
Print Assumptions c19_malformed_flag_value_is_error.
Theorem c19_malformed_level_is_error : forall T v rest st,
  parse_level (t_meta T) v = None -> tokenise T ((45 :: 79 :: v)%N :: rest) st = Error EInvalidLevel.
Proof. exact malformed_level_is_error. Qed.
Print Assumptions c19_malformed_level_is_error.
Theorem c19_unknown_dump_is_error : forall T v rest st,
  parse_dumps (t_dumps T) (split_on 44 v []) = None -> tokenise T ((45 :: 100 :: v)%N :: rest) st = Error EUnknownDump.
Proof. exact unknown_dump_is_error. Qed.
Print Assumptions c19_unknown_dump_is_error.
Theorem c19_unknown_option_is_error : forall T c t rest st,
  existsb (N.eqb c) [45; 111; 79; 102; 104; 100; 116]%N = false ->
  index_str (map fst (t_options T)) (flagify [c]) 0 = None ->
  tokenise T ((45 :: c :: t)%N :: rest) st = Error EUnknownOption.
Proof. exact unknown_short_option_is_error. Qed.
Print Assumptions c19_unknown_option_is_error.
Theorem c19_unknown_long_option_is_error : forall T name v rest st,
  mem_str name builtin_long = false -> index_str (map fst (t_options T)) (flagify name) 0 = None ->
  tokenise T ((45 :: 45 :: name)%N :: v :: rest) st = Error EUnknownOption.
Proof. exact unknown_long_option_is_error. Qed.
Print Assumptions c19_unknown_long_option_is_error.
Theorem c19_missing_value_is_error : forall T name st, mem_str name no_value_names = false ->
  tokenise T [(45 :: 45 :: name)%N] st = Error EMissingValue.
Proof. exact missing_value_is_error. Qed.
Print Assumptions c19_missing_value_is_error.

(** non-vacuity: the domain, the levels and the hypotheses of the theorems are inhabited by non-trivial objects *)
Example c19_example_domain :
  in_domain [(8, true); (21, true); (17, false); (30, true)]%N /\ In 3%Z (levels gm)
  /\ (exists c, resolve gm 3 [(8, true); (21, true); (17, false); (30, true)]%N = Ok c
                /\ get c 8 = true /\ get c 6 = true /\ get c 7 = true /\ get c 5 = false /\ get c 17 = true /\ get c 303 = true)
  /\ In 6%N (gimplies 8) /\ In 5%N (gexclusive 6).
Proof.
  split; [|split; [|split; [|split]]]; try (vm_compute; tauto).
  - left. split; [|intros kv H; vm_compute; simpl in H; intuition (subst; simpl; tauto)].
    simpl. repeat constructor; simpl; intuition discriminate.
  - eexists. split; [vm_compute; reflexivity|]. vm_compute. tauto.
Qed.
Example c19_example_conflict :
  ov_on (ov_dict [(5, true); (8, true)]%N) 5 = true
  /\ resolve gm 1 [(5, true); (8, true)]%N = Error (EConflict 5 6) /\ resolve gm 1 [(8, true); (5, true)]%N = Error (EConflict 5 6).
Proof. repeat split; vm_compute; reflexivity. Qed.
Example c19_example_unknown :
  tokenise gT [s2l "-fno-such-flag"; s2l "x.nmfu"] p0 = Error EUnknownFlag
  /\ tokenise gT [s2l "-x"; s2l "x.nmfu"] p0 = Error EUnknownOption
  /\ tokenise gT [s2l "-Ofoo"; s2l "x.nmfu"] p0 = Error EInvalidLevel
  /\ tokenise gT [s2l "-O9"; s2l "x.nmfu"] p0 = Error EInvalidLevel
  /\ tokenise gT [s2l "-O-1"; s2l "x.nmfu"] p0 = Error EInvalidLevel
  /\ tokenise gT [s2l "--flag"; s2l "eof-support=yes=no"; s2l "x.nmfu"] p0 = Error EInvalidFlagValue
  /\ tokenise gT [s2l "--flag"; s2l "eof-support=maybe"; s2l "x.nmfu"] p0 = Error EInvalidFlagValue
  /\ tokenise gT [s2l "-dast,,dfa"; s2l "x.nmfu"] p0 = Error EUnknownDump
  /\ parse_level gm (s2l "foo") = None /\ flag_value (s2l "maybe") = None
  /\ classify (run_cmdline gT [s2l "-O2"; s2l "-fyield-support"; s2l "--flag"; s2l "eof-support=on"; s2l "x.nmfu"]) = 0%N.
Proof. repeat split; vm_compute; reflexivity. Qed.
