(** The certificate of C01 at the level of calls: what a caller observes who runs start(), passes its input to
    feed and, whenever feed returns a yield code, calls feed again with what the reported cursor position has
    not passed (Machine/Drive.v) is a trace the procedural reading allows. *)
From Coq Require Import NArith Arith List Bool Lia.
Import ListNotations.
From NV Require Import Machine.Dfa Machine.Sem Machine.NoSpin Machine.Bisim Machine.BBisim Machine.Chunk Machine.Drive Regex.Re Ref.Lang Ref.RefSem Ref.Sim Ref.RefCert.

Section CallLevel.
Variable D : Type.
Variable exec : pid -> sym -> D -> D.
Variable evalt : tid -> sym -> D -> bool.

(** start(), then the caller's loop *)
Definition cdrive (d : dfa) (fuel : nat) (input : list N) (x : D) : option (list item) :=
  match evali D exec evalt (start_tree_of d (d_start_acts d)) 0%N x with
  | Some (es, LConsume q, x') => option_map (app es) (drive D exec evalt d fuel input q x')
  | Some (es, LRet r _ _, x') => Some (es ++ [IRet r])
  | None => None
  end.

Lemma cdrive_crun d (Hwf : dfa_wf d = true) fuel K input x tr : fuel <= K ->
  cdrive d fuel input x = Some tr -> crun D exec evalt d K input x = Some tr.
Proof.
  intros HK H. unfold cdrive in H. unfold crun.
  destruct (evali D exec evalt (start_tree_of d (d_start_acts d)) 0%N x) as [[[es l] x']|]; [|discriminate].
  destruct l as [q|r q adv]; [|exact H].
  destruct (drive D exec evalt d fuel input q x') as [t|] eqn:Ed; [|discriminate].
  rewrite (drive_run D exec evalt d Hwf fuel input q x' t K HK Ed). exact H.
Qed.

Lemma crun_cdrive d (Hwf : dfa_wf d = true) K input x tr :
  crun D exec evalt d K input x = Some tr -> exists fuel, cdrive d fuel input x = Some tr.
Proof.
  intros H. unfold crun in H. unfold cdrive.
  destruct (evali D exec evalt (start_tree_of d (d_start_acts d)) 0%N x) as [[[es l] x']|]; [|discriminate].
  destruct l as [q|r q adv]; [|exists 0; exact H].
  destruct (run D exec evalt (step_tree d) K input q x') as [t|] eqn:Er; [|discriminate].
  destruct (run_drive D exec evalt d Hwf K input q x' t Er) as [f Hf]. exists f. rewrite Hf. exact H.
Qed.

(** start(), the caller's loop, then end() (and end() again after a yield code, at most K times in a row) *)
Definition cdrive_end (d : dfa) (K fuel : nat) (input : list N) (x : D) : option (list item) :=
  match evali D exec evalt (start_tree_of d (d_start_acts d)) 0%N x with
  | Some (es, LConsume q, x') => option_map (app es) (drive_end D exec evalt d K fuel input q x')
  | Some (es, LRet r _ _, x') => Some (es ++ [IRet r])
  | None => None
  end.

Lemma cdrive_end_crun d (Hwf : dfa_wf d = true)
  (exec_end : forall p x, exec p sym_end x = exec p 255%N x) (evalt_end : forall t x, evalt t sym_end x = evalt t 255%N x)
  fuel K input x tr : fuel <= K ->
  cdrive_end d K fuel input x = Some tr -> crun D exec evalt d K (input ++ [sym_end]) x = Some tr.
Proof.
  intros HK H. unfold cdrive_end in H. unfold crun.
  destruct (evali D exec evalt (start_tree_of d (d_start_acts d)) 0%N x) as [[[es l] x']|]; [|discriminate].
  destruct l as [q|r q adv]; [|exact H].
  destruct (drive_end D exec evalt d K fuel input q x') as [t|] eqn:Ed; [|discriminate].
  rewrite (drive_end_run D exec evalt d Hwf exec_end evalt_end fuel input q x' t K HK Ed). exact H.
Qed.
End CallLevel.

Theorem caller_sees_a_reading syms p d : sim_cert syms p d = true -> dfa_wf d = true ->
  forall D exec evalt fuel input, (forall s, In s input -> In s syms) -> forall x tr,
  cdrive D exec evalt d fuel input x = Some tr ->
  reading D exec evalt (ref_spec (ref_table syms p)) (to_stree (ref_table syms p) (start_tree p)) input x tr.
Proof.
  intros Hc Hwf D exec evalt fuel input Hi x tr H.
  apply (sim_cert_sound syms p d Hc D exec evalt fuel input Hi x tr).
  apply (cdrive_crun D exec evalt d Hwf fuel fuel input x tr (le_n _) H).
Qed.

(** with end(): the trace is one the reading allows for the input followed by the end of input.  The data semantics
    is any in which actions that run at the end of input see 255 as the last byte - the value end() passes *)
Theorem caller_with_end_sees_a_reading syms p d : sim_cert syms p d = true -> dfa_wf d = true ->
  forall D exec evalt, (forall p x, exec p sym_end x = exec p 255%N x) -> (forall t x, evalt t sym_end x = evalt t 255%N x) ->
  forall K fuel input, fuel <= K -> (forall s, In s input -> In s syms) -> In sym_end syms -> forall x tr,
  cdrive_end D exec evalt d K fuel input x = Some tr ->
  reading D exec evalt (ref_spec (ref_table syms p)) (to_stree (ref_table syms p) (start_tree p)) (input ++ [sym_end]) x tr.
Proof.
  intros Hc Hwf D exec evalt He Ht K fuel input HK Hi Hend x tr H.
  apply (sim_cert_sound syms p d Hc D exec evalt K (input ++ [sym_end])).
  - intros s Hs. apply in_app_or in Hs as [Hs|[<-|[]]]; [apply Hi; exact Hs | exact Hend].
  - apply (cdrive_end_crun D exec evalt d Hwf He Ht fuel K input x tr HK H).
Qed.
