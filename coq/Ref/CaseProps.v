(** What the procedural reading's case and wait do, stated against the declarative meaning of patterns
    (Regex/Re.v [matches]).  C08, C16.

    The reading runs the patterns of a case in parallel as a vector of derivatives ([step_vec]); the lemmas below
    say that after consuming a text w the vector holds exactly the patterns of which w is a viable prefix, that a
    pattern is complete in it iff it matches w, hence that the clause the reading selects is one whose pattern
    EQUALS the consumed text, that else / no-match is taken exactly when w followed by the symbol is a prefix of no
    pattern, and that the greedy selection picks a matching pattern of the highest priority among the matching. *)
From Coq Require Import NArith Arith List Bool Lia.
Import ListNotations.
From NV Require Import Machine.Dfa Machine.Sem Regex.Re Ref.Lang Ref.RefSem.

Definition run_vec (vec : list (re * nat)) (w : list N) : list (re * nat) := fold_left step_vec w vec.

Lemma step_vec_in vec s q i : In (q, i) (step_vec vec s) <-> exists p, In (p, i) vec /\ q = deriv s p /\ void q = false.
Proof.
  unfold step_vec. rewrite filter_In, in_map_iff. cbn [fst]. split.
  - intros [[[p j] [E Hin]] Hv]. cbn [fst snd] in E. inversion E; subst. exists p. repeat split; auto.
    destruct (void (deriv s p)); [discriminate|reflexivity].
  - intros [p [Hin [-> Hv]]]. split; [exists (p, i); auto|]. rewrite Hv. reflexivity.
Qed.

Lemma run_vec_app vec u v : run_vec vec (u ++ v) = run_vec (run_vec vec u) v.
Proof. unfold run_vec. apply fold_left_app. Qed.

(** the vector after w: the patterns of which w is a viable prefix, each as its derivative by w *)
Theorem run_vec_in w : forall vec q i,
  In (q, i) (run_vec vec w) <-> exists p, In (p, i) vec /\ q = derivs p w /\ (w = [] \/ void q = false).
Proof.
  induction w as [|c w IH] using rev_ind; intros vec q i.
  - cbn. split.
    + intros H. exists q. auto.
    + intros [p [Hin [-> _]]]. exact Hin.
  - rewrite run_vec_app. change (run_vec (run_vec vec w) [c]) with (step_vec (run_vec vec w) c).
    rewrite step_vec_in. split.
    + intros [p' [Hin [-> Hv]]]. apply IH in Hin as [p [Hp [-> _]]].
      exists p. split; auto. split; [rewrite derivs_app; reflexivity|right; exact Hv].
    + intros [p [Hp [-> Hv]]]. destruct Hv as [Hv|Hv]; [destruct w; discriminate|].
      exists (derivs p w). rewrite derivs_app in Hv |- *. cbn [derivs fold_left] in Hv |- *. repeat split; auto.
      apply IH. exists p. repeat split; auto.
      destruct w as [|c0 w0]; [left; reflexivity|right].
      destruct (void (derivs p (c0 :: w0))) eqn:E; auto.
      apply (deriv_void_mono c) in E. unfold derivs in Hv, E. rewrite Hv in E. discriminate.
Qed.

(** a pattern is complete in the vector iff it matches the consumed text *)
Corollary run_vec_complete vec w i : w <> [] ->
  (exists q, In (q, i) (run_vec vec w) /\ nullable q = true) <-> (exists p, In (p, i) vec /\ matches p w).
Proof.
  intros Hw. split.
  - intros [q [Hin Hn]]. apply run_vec_in in Hin as [p [Hp [-> _]]]. exists p. split; auto. apply derivs_nullable. exact Hn.
  - intros [p [Hp Hm]]. exists (derivs p w). split; [|apply derivs_nullable; exact Hm].
    apply run_vec_in. exists p. repeat split; auto. right.
    apply derivs_nonvoid. exists []. rewrite app_nil_r. exact Hm.
Qed.

(** C08, non-greedy: the clause the reading selects has a pattern that equals the consumed text *)
Theorem case_selects_matching vec w i : first_done (run_vec vec w) = Some i -> exists p, In (p, i) vec /\ matches p w.
Proof.
  unfold first_done. intros H. destruct (find (fun pi => nullable (fst pi)) (run_vec vec w)) as [[q j]|] eqn:E; [|discriminate].
  cbn in H. inversion H; subst j. apply find_some in E as [Hin Hn]. cbn [fst] in Hn.
  apply run_vec_in in Hin as [p [Hp [-> _]]]. exists p. split; auto. apply derivs_nullable. exact Hn.
Qed.

(** ... and a clause with a matching pattern exists iff the reading finds one *)
Theorem case_finds_match vec w : w <> [] ->
  (first_done (run_vec vec w) <> None) <-> (exists p i, In (p, i) vec /\ matches p w).
Proof.
  intros Hw. unfold first_done. split.
  - intros H. destruct (find (fun pi => nullable (fst pi)) (run_vec vec w)) as [[q j]|] eqn:E; [|exfalso; apply H; reflexivity].
    apply find_some in E as [Hin Hn]. cbn [fst] in Hn. apply run_vec_in in Hin as [p [Hp [-> _]]].
    exists p, j. split; auto. apply derivs_nullable. exact Hn.
  - intros [p [i [Hp Hm]]] H.
    assert (Hin : In (derivs p w, i) (run_vec vec w)).
    { apply run_vec_in. exists p. repeat split; auto. right. apply derivs_nonvoid. exists []. rewrite app_nil_r. exact Hm. }
    destruct (find (fun pi => nullable (fst pi)) (run_vec vec w)) as [x|] eqn:E; [discriminate|].
    pose proof (find_none _ _ E _ Hin) as Hn. cbn [fst] in Hn. apply derivs_nullable in Hm. congruence.
Qed.

(** else / no-match: the vector dies at symbol c exactly when the consumed text followed by c is a prefix of
    no pattern *)
Theorem case_dies_iff vec w c : step_vec (run_vec vec w) c = [] <->
  (forall p i, In (p, i) vec -> forall u, ~ matches p ((w ++ [c]) ++ u)).
Proof.
  change (step_vec (run_vec vec w) c) with (run_vec (run_vec vec w) [c]). rewrite <- run_vec_app. split.
  - intros H p i Hp u Hm.
    assert (Hin : In (derivs p (w ++ [c]), i) (run_vec vec (w ++ [c]))).
    { apply run_vec_in. exists p. repeat split; auto. right. apply derivs_nonvoid. exists u. exact Hm. }
    rewrite H in Hin. destruct Hin.
  - intros H. destruct (run_vec vec (w ++ [c])) as [|[q i] l] eqn:E; auto. exfalso.
    assert (Hin : In (q, i) (run_vec vec (w ++ [c]))) by (rewrite E; left; reflexivity).
    apply run_vec_in in Hin as [p [Hp [-> Hv]]]. destruct Hv as [Hv|Hv]; [destruct w; discriminate|].
    apply derivs_nonvoid in Hv as [u Hu]. exact (H p i Hp u Hu).
Qed.

(** C08, greedy: the selected clause has a pattern that matches the consumed text, and no clause with a matching
    pattern has a strictly higher priority *)
Lemma best_done_spec gcls : forall vec acc r,
  fold_left (fun acc pi => if nullable (fst pi) then
                             match acc with
                             | None => Some (snd pi)
                             | Some j => if N.ltb (gprio gcls j) (gprio gcls (snd pi)) then Some (snd pi) else acc
                             end
                           else acc) vec acc = r ->
  (forall j, acc = Some j -> exists i, r = Some i /\ (gprio gcls j <= gprio gcls i)%N) /\
  (forall q i, In (q, i) vec -> nullable q = true -> exists k, r = Some k /\ (gprio gcls i <= gprio gcls k)%N) /\
  (forall k, r = Some k -> acc = Some k \/ exists q, In (q, k) vec /\ nullable q = true).
Proof.
  induction vec as [|[q0 i0] vec IH]; intros acc r H; cbn [fold_left fst snd] in H.
  - subst r. repeat split.
    + intros j ->. exists j. split; auto. lia.
    + intros q i [].
    + intros k ->. left; reflexivity.
  - destruct (nullable q0) eqn:En.
    + destruct acc as [j|].
      * destruct (N.ltb (gprio gcls j) (gprio gcls i0)) eqn:El.
        -- apply N.ltb_lt in El. destruct (IH _ _ H) as [A [B C]]. repeat split.
           ++ intros j' E. inversion E; subst j'. destruct (A i0 eq_refl) as [i [-> Hi]]. exists i. split; auto. lia.
           ++ intros q i [E|Hin] Hn; [inversion E; subst; apply (A _ eq_refl)|apply (B q i Hin Hn)].
           ++ intros k Hk. destruct (C k Hk) as [E|[q [Hin Hn]]]; [inversion E; subst; right; exists q0; split; [left; reflexivity|exact En]|right; exists q; split; [right; exact Hin|exact Hn]].
        -- apply N.ltb_ge in El. destruct (IH _ _ H) as [A [B C]]. repeat split.
           ++ intros j' E. inversion E; subst j'. apply (A j eq_refl).
           ++ intros q i [E|Hin] Hn; [inversion E; subst; destruct (A j eq_refl) as [k [-> Hk]]; exists k; split; auto; lia|apply (B q i Hin Hn)].
           ++ intros k Hk. destruct (C k Hk) as [E|[q [Hin Hn]]]; [left; exact E|right; exists q; split; [right; exact Hin|exact Hn]].
      * destruct (IH _ _ H) as [A [B C]]. repeat split.
        -- intros j E. discriminate.
        -- intros q i [E|Hin] Hn; [inversion E; subst; apply (A _ eq_refl)|apply (B q i Hin Hn)].
        -- intros k Hk. destruct (C k Hk) as [E|[q [Hin Hn]]]; [inversion E; subst; right; exists q0; split; [left; reflexivity|exact En]|right; exists q; split; [right; exact Hin|exact Hn]].
    + destruct (IH _ _ H) as [A [B C]]. repeat split.
      * exact A.
      * intros q i [E|Hin] Hn; [inversion E; subst; congruence|apply (B q i Hin Hn)].
      * intros k Hk. destruct (C k Hk) as [E|[q [Hin Hn]]]; [left; exact E|right; exists q; split; [right; exact Hin|exact Hn]].
Qed.

Theorem greedy_selects_best gcls vec w k : best_done gcls (run_vec vec w) = Some k ->
  (exists p, In (p, k) vec /\ matches p w) /\
  (forall p i, w <> [] -> In (p, i) vec -> matches p w -> (gprio gcls i <= gprio gcls k)%N).
Proof.
  unfold best_done. intros H. destruct (best_done_spec gcls _ None _ H) as [_ [B C]]. split.
  - destruct (C k eq_refl) as [E|[q [Hin Hn]]]; [discriminate|].
    apply run_vec_in in Hin as [p [Hp [-> _]]]. exists p. split; auto. apply derivs_nullable. exact Hn.
  - intros p i Hw Hp Hm.
    assert (Hin : In (derivs p w, i) (run_vec vec w)).
    { apply run_vec_in. exists p. repeat split; auto. right. apply derivs_nonvoid. exists []. rewrite app_nil_r. exact Hm. }
    destruct (B _ _ Hin (proj2 (derivs_nullable p w) Hm)) as [k' [E Hk]]. inversion E; subst. exact Hk.
Qed.

(** ** C16: one step of a wait in the reading.  On a byte a wait frame consumes (continuing or completing its
    pattern, or skipping a byte that cannot start it), re-offers the byte to the pattern's beginning, or - when the
    pattern is complete - hands the byte to what follows; it never raises.  At end of input it merely fails. *)
Definition wait_step (noeach : nat) (f : nat) (again : cfg -> rtree) (r0 r : re) (K' : cfg) (s : sym) : rtree :=
  let d := deriv s r in
  if negb (void d) then
    (if nullable d && negb (can_continue d) then consumed noeach f again K' K' None
     else consumed noeach f again (FW r0 d :: K') K' None)
  else if nullable r then feed false noeach f K' s
  else if is_end s then RRet None RFail [] false
  else if re_eqb r r0 then consumed noeach f again (FW r0 r :: K') K' None
  else feed false noeach f (FW r0 r0 :: K') s.

Theorem wait_feed_eq noeach f r0 r K' s :
  feed false noeach (S (S f)) (FW r0 r :: K') s = wait_step noeach (S f) (fun K2 => feed false noeach (S f) K2 s) r0 r K' s.
Proof. reflexivity. Qed.

(** the four things a wait does with a byte; none of them is a raise or a FAIL of the wait itself *)
Theorem wait_never_fails noeach f r0 r K' s : is_end s = false ->
  let again := fun K2 => feed false noeach (S f) K2 s in
  let t := feed false noeach (S (S f)) (FW r0 r :: K') s in
  (exists Kafter, t = consumed noeach (S f) again Kafter K' None) \/ t = again K' \/ t = again (FW r0 r0 :: K').
Proof.
  intros He again t. unfold t. rewrite wait_feed_eq. unfold wait_step. rewrite He.
  destruct (negb (void (deriv s r))).
  - left. destruct (nullable (deriv s r) && negb (can_continue (deriv s r))); eexists; reflexivity.
  - destruct (nullable r); [right; left; reflexivity|].
    destruct (re_eqb r r0); [left; eexists; reflexivity|right; right; reflexivity].
Qed.

(** end of input during a wait reports failure of the parse without entering any handler *)
Theorem wait_end_fails noeach f r0 r K' : void (deriv sym_end r) = true -> nullable r = false ->
  feed false noeach (S (S f)) (FW r0 r :: K') sym_end = RRet None RFail [] false.
Proof. intros Hv Hn. rewrite wait_feed_eq. unfold wait_step. rewrite Hv, Hn. reflexivity. Qed.
