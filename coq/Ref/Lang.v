(** The statement language of nmfu after macro expansion (docs/user-ref: parser body), as an AST, and the
    configurations of its procedural reading (Ref/RefSem.v).  C01, C08, C09, C16.

    Data actions are opaque: a primitive id [pid] (assignment, string assignment, delete, hook call, append
    of the current byte, append of an expression value) or a test id [tid] (an if-condition, "buffer v is
    full"), the same ids the exporter assigns by structure to the compiled machine's actions
    (harness/export.py Interner), so that a statement of the source and the action the compiler made of it
    carry the same name.  Patterns are regular expressions over symbols 0..255 (bytes) and 256 (the [end]
    pattern), in the core syntax of Regex/Re.v. *)
From Coq Require Import NArith Arith List Bool.
Import ListNotations.
From NV Require Import Machine.Dfa Regex.Re.

Inductive stmt :=
| SAct (p : pid)                                  (* n = e;  s = "..";  delete s;  hook(); *)
| SAppC (t : tid) (p : pid)                       (* s += [e];   t = "s is full" *)
| SRet (r : res)                                  (* finish; / finish code;  (RDone / RFinish c)   yield c; (RYield c) *)
| SBreak (l : N)                                  (* break out of the loop numbered l *)
| SMatch (r : re) (app : option (tid * pid))      (* pattern;   s += pattern;  (per byte: full test, append) *)
| SWait (r : re)
| SLoop (l : N) (body : list stmt)
| SCase (cls : list clause) (els : option (list stmt))
| SGCase (gcls : list gclause)                    (* greedy case *)
| SOptional (body : list stmt)
| STry (body : list stmt) (nm os : bool) (handler : list stmt)    (* catch (nomatch / outofspace) *)
| SForeach (body : list stmt) (each : list stmt)
| SIf (brs : list ibranch) (els : list stmt)
with clause := Clause (pats : list re) (body : list stmt)
with gclause := GClause (prio : N) (pat : re) (body : list stmt)
with ibranch := IBranch (c : tid) (body : list stmt).

Inductive frame :=
| FSeq (ss : list stmt)                           (* statements still to run in this block *)
| FLoop (l : N) (body : list stmt)                (* inside loop l: when the body ends it restarts *)
| FTry (nm os : bool) (handler : list stmt)       (* inside the body of a try *)
| FForeach (each : list stmt)                     (* inside the body of a foreach *)
| FM (r : re) (app : option (tid * pid))          (* in the middle of a match: what remains to be matched *)
| FW (r0 r : re)                                  (* in a wait for r0: what remains of the current attempt *)
| FC (vec : list (re * nat)) (cls : list clause) (els : option (list stmt)) (started : bool)
| FG (vec : list (re * nat)) (gcls : list gclause) (started : bool).

Definition cfg := list frame.      (* innermost frame first *)

(** ** decidable equality (boolean), used to name configurations by their position in a table *)
Section ListEqb.
Variable A : Type.
Variable f : A -> A -> bool.
Fixpoint list_eqb (a b : list A) : bool :=
  match a, b with
  | [], [] => true
  | x :: a', y :: b' => f x y && list_eqb a' b'
  | _, _ => false
  end.
End ListEqb.
Arguments list_eqb {A} f a b.

Definition opt_eqb {A} (f : A -> A -> bool) (a b : option A) : bool :=
  match a, b with Some x, Some y => f x y | None, None => true | _, _ => false end.
Definition pair_eqb {A B} (f : A -> A -> bool) (g : B -> B -> bool) (a b : A * B) : bool :=
  f (fst a) (fst b) && g (snd a) (snd b).
Definition app_eqb := opt_eqb (pair_eqb N.eqb N.eqb).

Fixpoint stmt_eqb (a b : stmt) {struct a} : bool :=
  match a, b with
  | SAct p, SAct q => N.eqb p q
  | SAppC t p, SAppC t' p' => N.eqb t t' && N.eqb p p'
  | SRet r, SRet r' => res_eqb r r'
  | SBreak l, SBreak l' => N.eqb l l'
  | SMatch r ap, SMatch r' ap' => re_eqb r r' && app_eqb ap ap'
  | SWait r, SWait r' => re_eqb r r'
  | SLoop l x, SLoop l' y => N.eqb l l' && list_eqb stmt_eqb x y
  | SCase c e, SCase c' e' =>
      list_eqb clause_eqb c c' &&
      match e, e' with Some x, Some y => list_eqb stmt_eqb x y | None, None => true | _, _ => false end
  | SGCase c, SGCase c' => list_eqb gclause_eqb c c'
  | SOptional x, SOptional y => list_eqb stmt_eqb x y
  | STry x nm os h, STry x' nm' os' h' => list_eqb stmt_eqb x x' && Bool.eqb nm nm' && Bool.eqb os os' && list_eqb stmt_eqb h h'
  | SForeach x e, SForeach x' e' => list_eqb stmt_eqb x x' && list_eqb stmt_eqb e e'
  | SIf brs e, SIf brs' e' => list_eqb ibranch_eqb brs brs' && list_eqb stmt_eqb e e'
  | _, _ => false
  end
with clause_eqb (a b : clause) {struct a} : bool :=
  match a, b with Clause p x, Clause p' x' => list_eqb re_eqb p p' && list_eqb stmt_eqb x x' end
with gclause_eqb (a b : gclause) {struct a} : bool :=
  match a, b with GClause n p x, GClause n' p' x' => N.eqb n n' && re_eqb p p' && list_eqb stmt_eqb x x' end
with ibranch_eqb (a b : ibranch) {struct a} : bool :=
  match a, b with IBranch c x, IBranch c' x' => N.eqb c c' && list_eqb stmt_eqb x x' end.

Definition stmts_eqb := list_eqb stmt_eqb.
Definition vec_eqb := list_eqb (pair_eqb re_eqb Nat.eqb).

Definition frame_eqb (a b : frame) : bool :=
  match a, b with
  | FSeq x, FSeq y => stmts_eqb x y
  | FLoop l x, FLoop l' y => N.eqb l l' && stmts_eqb x y
  | FTry nm os h, FTry nm' os' h' => Bool.eqb nm nm' && Bool.eqb os os' && stmts_eqb h h'
  | FForeach e, FForeach e' => stmts_eqb e e'
  | FM r ap, FM r' ap' => re_eqb r r' && app_eqb ap ap'
  | FW r0 r, FW r0' r' => re_eqb r0 r0' && re_eqb r r'
  | FC v c e st, FC v' c' e' st' => vec_eqb v v' && list_eqb clause_eqb c c' && opt_eqb stmts_eqb e e' && Bool.eqb st st'
  | FG v c st, FG v' c' st' => vec_eqb v v' && list_eqb gclause_eqb c c' && Bool.eqb st st'
  | _, _ => false
  end.
Definition cfg_eqb : cfg -> cfg -> bool := list_eqb frame_eqb.
