(** The boolean equality that names configurations (Ref/Lang.v cfg_eqb) implies equality. *)
From Coq Require Import NArith Arith List Bool Lia.
Import ListNotations.
From NV Require Import Machine.Dfa Regex.Re Ref.Lang.

Lemma list_eqb_ok_in {A} (f : A -> A -> bool) : forall l1,
  (forall a, In a l1 -> forall b, f a b = true -> a = b) -> forall l2, list_eqb f l1 l2 = true -> l1 = l2.
Proof.
  induction l1 as [|x l1 IH]; intros H l2 E; destruct l2 as [|y l2]; cbn [list_eqb] in E; try discriminate; auto.
  apply andb_prop in E as [E1 E2]. f_equal.
  - apply H; [left; reflexivity|exact E1].
  - apply IH; [intros a Ha; apply H; right; exact Ha|exact E2].
Qed.
Lemma list_eqb_ok {A} (f : A -> A -> bool) : (forall a b, f a b = true -> a = b) -> forall l1 l2, list_eqb f l1 l2 = true -> l1 = l2.
Proof. intros H l1. apply list_eqb_ok_in. intros a _. apply H. Qed.

Lemma app_eqb_ok a b : app_eqb a b = true -> a = b.
Proof.
  unfold app_eqb, opt_eqb, pair_eqb. destruct a as [[t p]|], b as [[t' p']|]; cbn; try discriminate; auto.
  intros E. apply andb_prop in E as [E1 E2]. apply N.eqb_eq in E1, E2. subst. reflexivity.
Qed.

(** nesting depth of statements *)
Fixpoint depth (s : stmt) : nat :=
  let dl := fix dl (l : list stmt) : nat := match l with [] => 0 | x :: r => Nat.max (depth x) (dl r) end in
  match s with
  | SLoop _ b => S (dl b)
  | SCase cls els =>
      S (Nat.max ((fix dc (l : list clause) : nat := match l with [] => 0 | Clause _ b :: r => Nat.max (dl b) (dc r) end) cls)
                 (match els with Some e => dl e | None => 0 end))
  | SGCase g => S ((fix dg (l : list gclause) : nat := match l with [] => 0 | GClause _ _ b :: r => Nat.max (dl b) (dg r) end) g)
  | SOptional b => S (dl b)
  | STry b _ _ h => S (Nat.max (dl b) (dl h))
  | SForeach b e => S (Nat.max (dl b) (dl e))
  | SIf brs e => S (Nat.max ((fix di (l : list ibranch) : nat := match l with [] => 0 | IBranch _ b :: r => Nat.max (dl b) (di r) end) brs) (dl e))
  | _ => 0
  end.
Fixpoint dl (l : list stmt) : nat := match l with [] => 0 | x :: r => Nat.max (depth x) (dl r) end.
Definition cdepth (c : clause) : nat := match c with Clause _ b => dl b end.
Definition gdepth (c : gclause) : nat := match c with GClause _ _ b => dl b end.
Definition idepth (c : ibranch) : nat := match c with IBranch _ b => dl b end.
Fixpoint dmax {A} (f : A -> nat) (l : list A) : nat := match l with [] => 0 | x :: r => Nat.max (f x) (dmax f r) end.

Lemma dmax_in {A} (f : A -> nat) l x : In x l -> f x <= dmax f l.
Proof. induction l as [|y l IH]; cbn; intros H; [destruct H|]. destruct H as [->|H]; [lia|specialize (IH H); lia]. Qed.
Lemma dl_dmax l : dl l = dmax depth l.
Proof. induction l as [|x l IH]; cbn; auto. Qed.

Lemma depth_eq s : depth s =
  match s with
  | SLoop _ b => S (dl b)
  | SCase cls els => S (Nat.max (dmax cdepth cls) (match els with Some e => dl e | None => 0 end))
  | SGCase g => S (dmax gdepth g)
  | SOptional b => S (dl b)
  | STry b _ _ h => S (Nat.max (dl b) (dl h))
  | SForeach b e => S (Nat.max (dl b) (dl e))
  | SIf brs e => S (Nat.max (dmax idepth brs) (dl e))
  | _ => 0
  end.
Proof.
  assert (DL : forall l, (fix dl0 (l : list stmt) : nat := match l with [] => 0 | x :: r => Nat.max (depth x) (dl0 r) end) l = dl l)
    by (induction l as [|x l IH]; cbn [dl]; [reflexivity|rewrite IH; reflexivity]).
  destruct s as [p|t p|r|l|r ap|r|l b|cls els|g|b|b nm os h|b e|brs e]; cbn [depth]; try reflexivity; rewrite ?DL; try reflexivity.
  - assert (C : (fix dc (l : list clause) : nat := match l with [] => 0 | Clause _ b :: r => Nat.max ((fix dl0 (l0 : list stmt) : nat := match l0 with [] => 0 | x :: r0 => Nat.max (depth x) (dl0 r0) end) b) (dc r) end) cls = dmax cdepth cls).
    { induction cls as [|[ps b] cls IH]; cbn [dmax cdepth]; [reflexivity|]. rewrite DL, IH. reflexivity. }
    rewrite C. destruct els as [e|]; [rewrite DL|]; reflexivity.
  - f_equal. induction g as [|[n p b] g IH]; cbn [dmax gdepth]; [reflexivity|]. rewrite DL, IH. reflexivity.
  - f_equal. f_equal. induction brs as [|[c b] brs IH]; cbn [dmax idepth]; [reflexivity|]. rewrite DL, IH. reflexivity.
Qed.

Theorem stmt_eqb_ok_depth : forall n,
  (forall a, depth a < n -> forall b, stmt_eqb a b = true -> a = b).
Proof.
  induction n as [|n IH]; intros a Hd b E; [lia|].
  assert (LS : forall l1, dl l1 < n -> forall l2, list_eqb stmt_eqb l1 l2 = true -> l1 = l2).
  { intros l1 H l2. apply list_eqb_ok_in. intros x Hx y. apply IH. rewrite dl_dmax in H. pose proof (dmax_in depth l1 x Hx). lia. }
  rewrite depth_eq in Hd.
  destruct a as [p|t p|r|l|r ap|r|l x|cls els|g|x|x nm os h|x e|brs e];
    destruct b as [p'|t' p'|r'|l'|r' ap'|r'|l' x'|cls' els'|g'|x'|x' nm' os' h'|x' e'|brs' e']; cbn [stmt_eqb] in E; try discriminate.
  - apply N.eqb_eq in E. subst; reflexivity.
  - apply andb_prop in E as [E1 E2]. apply N.eqb_eq in E1, E2. subst; reflexivity.
  - apply res_eqb_ok in E. subst; reflexivity.
  - apply N.eqb_eq in E. subst; reflexivity.
  - apply andb_prop in E as [E1 E2]. apply re_eqb_eq in E1. apply app_eqb_ok in E2. subst; reflexivity.
  - apply re_eqb_eq in E. subst; reflexivity.
  - apply andb_prop in E as [E1 E2]. apply N.eqb_eq in E1. subst. f_equal. apply LS; [lia|exact E2].
  - apply andb_prop in E as [E1 E2]. f_equal.
    + revert E1. apply list_eqb_ok_in. intros [ps bd] Hc [ps' bd'] Ec. cbn [clause_eqb] in Ec.
      apply andb_prop in Ec as [Ec1 Ec2]. apply (list_eqb_ok re_eqb re_eqb_eq) in Ec1. subst. f_equal.
      apply LS; [|exact Ec2]. pose proof (dmax_in cdepth cls _ Hc) as Hm. cbn [cdepth] in Hm. lia.
    + destruct els as [e1|], els' as [e2|]; try discriminate; [|reflexivity]. f_equal. apply LS; [lia|exact E2].
  - f_equal. revert E. apply list_eqb_ok_in. intros [n0 p0 bd] Hc [n1 p1 bd'] Ec. cbn [gclause_eqb] in Ec.
    apply andb_prop in Ec as [Ec1 Ec2]. apply andb_prop in Ec1 as [Ea Eb]. apply N.eqb_eq in Ea. apply re_eqb_eq in Eb. subst. f_equal.
    apply LS; [|exact Ec2]. pose proof (dmax_in gdepth g _ Hc) as Hm. cbn [gdepth] in Hm. lia.
  - f_equal. apply LS; [lia|exact E].
  - apply andb_prop in E as [E1 E4]. apply andb_prop in E1 as [E1 E3]. apply andb_prop in E1 as [E1 E2].
    apply Bool.eqb_prop in E2, E3. subst. f_equal; apply LS; try lia; assumption.
  - apply andb_prop in E as [E1 E2]. f_equal; apply LS; try lia; assumption.
  - apply andb_prop in E as [E1 E2]. f_equal; [|apply LS; [lia|exact E2]].
    revert E1. apply list_eqb_ok_in. intros [c0 bd] Hc [c1 bd'] Ec. cbn [ibranch_eqb] in Ec.
    apply andb_prop in Ec as [Ea Eb]. apply N.eqb_eq in Ea. subst. f_equal.
    apply LS; [|exact Eb]. pose proof (dmax_in idepth brs _ Hc) as Hm. cbn [idepth] in Hm. lia.
Qed.

Theorem stmt_eqb_ok a b : stmt_eqb a b = true -> a = b.
Proof. apply (stmt_eqb_ok_depth (S (depth a))). lia. Qed.
Lemma stmts_eqb_ok a b : stmts_eqb a b = true -> a = b.
Proof. apply list_eqb_ok. exact stmt_eqb_ok. Qed.
Lemma clause_eqb_ok a b : clause_eqb a b = true -> a = b.
Proof.
  destruct a as [ps x], b as [ps' x']. cbn [clause_eqb]. intros E. apply andb_prop in E as [E1 E2].
  apply (list_eqb_ok re_eqb re_eqb_eq) in E1. apply stmts_eqb_ok in E2. subst; reflexivity.
Qed.
Lemma gclause_eqb_ok a b : gclause_eqb a b = true -> a = b.
Proof.
  destruct a as [n p x], b as [n' p' x']. cbn [gclause_eqb]. intros E. apply andb_prop in E as [E1 E2]. apply andb_prop in E1 as [Ea Eb].
  apply N.eqb_eq in Ea. apply re_eqb_eq in Eb. apply stmts_eqb_ok in E2. subst; reflexivity.
Qed.
Lemma vec_eqb_ok a b : vec_eqb a b = true -> a = b.
Proof.
  apply list_eqb_ok. intros [r i] [r' i']. unfold pair_eqb. cbn. intros E. apply andb_prop in E as [E1 E2].
  apply re_eqb_eq in E1. apply Nat.eqb_eq in E2. subst; reflexivity.
Qed.

Theorem frame_eqb_ok a b : frame_eqb a b = true -> a = b.
Proof.
  destruct a, b; cbn [frame_eqb]; try discriminate; intros E.
  - apply stmts_eqb_ok in E. subst; reflexivity.
  - apply andb_prop in E as [E1 E2]. apply N.eqb_eq in E1. apply stmts_eqb_ok in E2. subst; reflexivity.
  - apply andb_prop in E as [E1 E3]. apply andb_prop in E1 as [E1 E2]. apply Bool.eqb_prop in E1, E2. apply stmts_eqb_ok in E3. subst; reflexivity.
  - apply stmts_eqb_ok in E. subst; reflexivity.
  - apply andb_prop in E as [E1 E2]. apply re_eqb_eq in E1. apply app_eqb_ok in E2. subst; reflexivity.
  - apply andb_prop in E as [E1 E2]. apply re_eqb_eq in E1, E2. subst; reflexivity.
  - apply andb_prop in E as [E1 E4]. apply andb_prop in E1 as [E1 E3]. apply andb_prop in E1 as [E1 E2].
    apply vec_eqb_ok in E1. apply (list_eqb_ok clause_eqb clause_eqb_ok) in E2. apply Bool.eqb_prop in E4.
    assert (els = els0) by (destruct els, els0; cbn in E3; try discriminate; [f_equal; apply stmts_eqb_ok; exact E3|reflexivity]).
    subst; reflexivity.
  - apply andb_prop in E as [E1 E3]. apply andb_prop in E1 as [E1 E2].
    apply vec_eqb_ok in E1. apply (list_eqb_ok gclause_eqb gclause_eqb_ok) in E2. apply Bool.eqb_prop in E3. subst; reflexivity.
Qed.

Theorem cfg_eqb_ok a b : cfg_eqb a b = true -> a = b.
Proof. apply list_eqb_ok. exact frame_eqb_ok. Qed.

(** so the position of a configuration in a table names that configuration *)
From NV Require Import Machine.Sem Machine.Bisim Machine.BBisim Ref.RefSem.
Theorem index_of_ok tbl : forall K i, index_of tbl K = Some i -> nth_error tbl i = Some K.
Proof.
  induction tbl as [|K0 tbl IH]; intros K i H; cbn [index_of] in H; [discriminate|].
  destruct (cfg_eqb K K0) eqn:E.
  - inversion H; subst. apply cfg_eqb_ok in E. subst. reflexivity.
  - destruct (index_of tbl K) as [j|] eqn:Ej; [|discriminate]. inversion H; subst. cbn. apply IH. exact Ej.
Qed.
