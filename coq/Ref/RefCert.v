(** Packaged certificate: a program of Ref/Lang.v against the machine the compiler built from it.
    An untrusted worklist search proposes the relation; [Sim.closed] checks it; [sim_cert_sound] is the
    per-program theorem obtained from a successful check (C01, C08, C16). *)
From Coq Require Import NArith Arith List Bool Lia.
Import ListNotations.
From NV Require Import Machine.Dfa Machine.Sem Machine.NoSpin Machine.Bisim Machine.BBisim Regex.Re Ref.Lang Ref.RefSem Ref.Sim.

(** start() of the compiled parser: the start actions, then the parser waits in its start state (an append
    overflow or a break in them stores the handler state and returns OK; a finish returns its code) *)
Fixpoint start_tree_of (d : dfa) (a : atree) : tree :=
  match a with
  | AEnd => Leaf (LConsume (d_start d))
  | APrim p k => Act p (start_tree_of d k)
  | ATest c kt kf => Test c (start_tree_of d kt) (start_tree_of d kf)
  | ARet r => Leaf (LRet r (d_start d) false)
  | AGoto q | ABreak q => Leaf (LConsume q)
  end.

Record sfail := { sf_pair : nat * nat; sf_sym : sym; sf_parents : list ((nat * nat) * (nat * nat) * sym) }.

Section Search.
Variable syms : list sym.
Variable sp : spec.
Variable m2 : nfm.

Definition first_lock (t2 : tree) (opts : list stree) : option (list (nat * nat)) :=
  fold_left (fun acc o => match acc with Some _ => acc | None => sim_lock o t2 end) opts None.

Fixpoint pair_succs (x : nat * nat) (ss : list sym) (acc : list ((nat * nat) * sym)) : (list ((nat * nat) * sym)) + sym :=
  match ss with
  | [] => inl acc
  | s :: r => match first_lock (m2 (snd x) s) (sp (fst x) s) with
              | Some l => pair_succs x r (map (fun y => (y, s)) l ++ acc)
              | None => inr s end
  end.

Record sstate := { s_todo : list (nat * nat); s_R : list (nat * nat); s_par : list ((nat * nat) * (nat * nat) * sym) }.

Definition sstep (st : sstate) : sstate + ((list (nat * nat)) + sfail) :=
  match s_todo st with
  | [] => inr (inl (s_R st))
  | x :: rest =>
    if pair_mem x (s_R st) then inl {| s_todo := rest; s_R := s_R st; s_par := s_par st |}
    else match pair_succs x syms [] with
         | inr s => inr (inr {| sf_pair := x; sf_sym := s; sf_parents := s_par st |})
         | inl l =>
             let new := filter (fun y => negb (pair_mem (fst y) (x :: s_R st))) l in
             inl {| s_todo := map fst new ++ rest; s_R := x :: s_R st; s_par := map (fun y => (fst y, x, snd y)) new ++ s_par st |}
         end
  end.

Fixpoint sloop (fuel : positive) (st : sstate) : sstate + ((list (nat * nat)) + sfail) :=
  match fuel with
  | xH => sstep st
  | xO f => match sloop f st with inl st' => sloop f st' | inr r => inr r end
  | xI f => match sstep st with
            | inl st1 => match sloop f st1 with inl st' => sloop f st' | inr r => inr r end
            | inr r => inr r end
  end.
End Search.

Definition start_pairs (tbl : list cfg) (p : list stmt) (d : dfa) : option (list (nat * nat)) :=
  sim_lock (to_stree tbl (start_tree p)) (start_tree_of d (d_start_acts d)).

Definition sim_search (syms : list sym) (tbl : list cfg) (p : list stmt) (d : dfa) : (list (nat * nat)) + sfail :=
  match start_pairs tbl p d with
  | None => inr {| sf_pair := (0, d_start d); sf_sym := 997%N; sf_parents := [] |}
  | Some st0 =>
    match sloop syms (ref_spec tbl) (step_tree d) (Pos.shiftl 1 40) {| s_todo := st0; s_R := []; s_par := [] |} with
    | inr r => r
    | inl st => inr {| sf_pair := (0, d_start d); sf_sym := 999%N; sf_parents := s_par st |}
    end
  end.

Definition sim_check (syms : list sym) (tbl : list cfg) (p : list stmt) (d : dfa) (R : list (nat * nat)) : bool :=
  opt_ok R (start_tree_of d (d_start_acts d)) (to_stree tbl (start_tree p)) &&
  closed syms (ref_spec tbl) (step_tree d) R.

Definition sim_cert (syms : list sym) (p : list stmt) (d : dfa) : bool :=
  let tbl := ref_table syms p in
  match sim_search syms tbl p d with inl R => sim_check syms tbl p d R | inr _ => false end.

Definition sim_run (syms : list sym) (p : list stmt) (d : dfa) : (bool * nat * nat) + (sfail * list cfg) :=
  let tbl := ref_table syms p in
  match sim_search syms tbl p d with
  | inl R => inl (sim_check syms tbl p d R, length tbl, length R)
  | inr f => inr (f, tbl)
  end.

(** ** whole runs: start(), then the symbols of the input *)
Section Whole.
Variable D : Type.
Variable exec : pid -> sym -> D -> D.
Variable evalt : tid -> sym -> D -> bool.

Definition crun (d : dfa) (K2 : nat) (input : list sym) (x : D) : option (list item) :=
  match evali D exec evalt (start_tree_of d (d_start_acts d)) 0%N x with
  | Some (es, LConsume q, x') => option_map (app es) (run D exec evalt (step_tree d) K2 input q x')
  | Some (es, LRet r _ _, x') => Some (es ++ [IRet r])
  | None => None
  end.

(** the traces the reading allows for a program: what runs in front of the first symbol, then the input *)
Inductive reading (sp : spec) (st : stree) (input : list sym) (x : D) : list item -> Prop :=
| RD_cont es j x' tr : seval D exec evalt st 0%N x es (OCont j) x' -> srun D exec evalt sp input j x' tr -> reading sp st input x (es ++ tr)
| RD_ret es r j adv x' : seval D exec evalt st 0%N x es (ORet r j adv) x' -> reading sp st input x (es ++ [IRet r]).
End Whole.

Lemma sim_generic (sp : spec) (st : stree) (d : dfa) (syms : list sym) (R : list (nat * nat)) :
  opt_ok R (start_tree_of d (d_start_acts d)) st = true ->
  closed syms sp (step_tree d) R = true ->
  forall D exec evalt K2 input, (forall s, In s input -> In s syms) -> forall x tr,
  crun D exec evalt d K2 input x = Some tr ->
  reading D exec evalt sp st input x tr.
Proof.
  intros Hs Hc D exec evalt K2 input Hi x tr Hr. unfold crun in Hr.
  unfold opt_ok in Hs.
  destruct (sim_lock st (start_tree_of d (d_start_acts d))) as [succs|] eqn:EL; [|discriminate].
  destruct (evali D exec evalt (start_tree_of d (d_start_acts d)) 0%N x) as [[[es l] x']|] eqn:E; [|discriminate].
  pose proof (sim_lock_sem D exec evalt _ _ _ EL 0%N x es l x' E) as HS.
  destruct l as [q|r q adv].
  - destruct HS as [j [Hj Hse]].
    destruct (run D exec evalt (step_tree d) K2 input q x') as [t|] eqn:Er; [|discriminate]. inversion Hr; subst.
    eapply RD_cont; [exact Hse|].
    rewrite forallb_forall in Hs. apply (sim_sound D exec evalt _ _ syms R Hc K2 input Hi j q); auto.
    apply pair_mem_in. apply Hs. exact Hj.
  - destruct HS as [j [Hse _]]. inversion Hr; subst. eapply RD_ret. exact Hse.
Qed.

Lemma sim_check_sound syms tbl p d R : sim_check syms tbl p d R = true ->
  forall D exec evalt K2 input, (forall s, In s input -> In s syms) -> forall x tr,
  crun D exec evalt d K2 input x = Some tr ->
  reading D exec evalt (ref_spec tbl) (to_stree tbl (start_tree p)) input x tr.
Proof.
  unfold sim_check. intros H. apply andb_prop in H as [Hs Hc].
  exact (sim_generic (ref_spec tbl) (to_stree tbl (start_tree p)) d syms R Hs Hc).
Qed.

(** soundness: for every data semantics and every input over the symbols of interest, the trace of
    primitives, test outcomes and returned codes of the compiled parser (start() included) is one of the
    traces the procedural reading of the program allows *)
Lemma sim_cert_generic syms p d tbl (X : (list (nat * nat)) + sfail) :
  (match X with inl R => sim_check syms tbl p d R | inr _ => false end) = true ->
  forall D exec evalt K2 input, (forall s, In s input -> In s syms) -> forall x tr,
  crun D exec evalt d K2 input x = Some tr ->
  reading D exec evalt (ref_spec tbl) (to_stree tbl (start_tree p)) input x tr.
Proof. destruct X as [R|f]; [apply sim_check_sound|discriminate]. Qed.

Theorem sim_cert_sound syms p d : sim_cert syms p d = true ->
  forall D exec evalt K2 input, (forall s, In s input -> In s syms) -> forall x tr,
  crun D exec evalt d K2 input x = Some tr ->
  reading D exec evalt (ref_spec (ref_table syms p)) (to_stree (ref_table syms p) (start_tree p)) input x tr.
Proof.
  exact (sim_cert_generic syms p d (ref_table syms p) (sim_search syms (ref_table syms p) p d)).
Qed.
Print Assumptions sim_cert_sound.
