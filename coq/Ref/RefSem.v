(** The procedural reading of a parser body (docs/user-ref), as a deterministic interpreter with one
    symbol of lookahead.  C01, C08, C16 (and the deterministic core of C09).

    A configuration is a stack of frames (Ref/Lang.v).  [settle] runs everything that needs no input
    (actions, ifs, entering and leaving blocks, loop restarts) and stops in front of the next statement
    that needs a byte; [feed] offers one symbol to a configuration:

    - statements run in order; a match consumes the symbol iff what remains of its pattern can take it
      (Brzozowski derivative not void); a match that cannot take the symbol but has matched (nullable) ends
      and the SAME symbol is offered to what follows; otherwise it is a mismatch;
    - a mismatch / a full buffer unwinds to the innermost enclosing [try] whose catch lists the reason, and
      the handler starts AT THE OFFENDING SYMBOL; without one the parse fails;
    - [optional] is entered iff the symbol can start its body; [loop] restarts when its body ends and is
      left only by [break]; [case] runs its patterns in parallel, the clause whose pattern equals the
      consumed text is run, [else] (or a mismatch) is taken at the first symbol no pattern can continue
      with, that symbol being offered to the else body; a greedy case keeps consuming while some pattern
      can continue and then selects the matching pattern of highest priority; [foreach] runs its
      do-actions once per symbol consumed in its body, before the match's own append; [wait] restarts its
      pattern on a mismatch, re-offering the symbol, and skips a symbol that cannot start the pattern; it
      never fails on a byte (end of input during a wait merely reports failure of the parse);
    - after a consumed symbol everything that needs no input runs at once (the reading is maximally
      eager: the compiled machine may delay such actions until the next symbol arrives, never the
      reverse).

    The result of one symbol is a decision tree over primitives and tests whose leaves say what happened
    to the symbol and in which configuration the parser continues. *)
From Coq Require Import NArith Arith List Bool.
Import ListNotations.
From NV Require Import Machine.Dfa Machine.Sem Machine.NoSpin Machine.Bisim Machine.BBisim Regex.Re Ref.Lang.

(** Result of offering one symbol.  Nodes produced AFTER the symbol was consumed carry a cut: the
    configuration in which the reading may pause instead, leaving the rest for when the next symbol
    arrives ("an action sitting between two consumed bytes may run with either"). *)
Inductive rtree :=
| RLeaf (K : cfg)                                           (* settled: nothing more can be done without input *)
| RSRet (Kb : cfg) (r : res) (K : cfg)                      (* a finish / yield statement reached while settling from Kb *)
| RCons (K : cfg)                                           (* the symbol was consumed; continue in K *)
| RRet (cut : option cfg) (r : res) (K : cfg) (adv : bool)  (* the call returns r; adv: the symbol had been consumed *)
| RAct (cut : option cfg) (p : pid) (k : rtree)
| RTest (cut : option cfg) (t : tid) (a b : rtree)
| RRaise (cut : option cfg) (k : rtree)                     (* marker: an error transfers control (to configuration cut) *)
| RChoice (a b : rtree)                                     (* the reading allows either *)
| RFuel.

Inductive reason := NoMatch | OutOfSpace.

Fixpoint unwind (K : cfg) (rs : reason) : option cfg :=
  match K with
  | [] => None
  | FTry nm os h :: K' => if (match rs with NoMatch => nm | OutOfSpace => os end) then Some (FSeq h :: K') else unwind K' rs
  | _ :: K' => unwind K' rs
  end.

(** a configuration in which every symbol is a mismatch without a handler *)
Definition dead : cfg := [FM Void None].

Definition raise (K : cfg) (rs : reason) (k : cfg -> rtree) : rtree :=
  match unwind K rs with
  | Some K2 => RRaise (Some K2) (k K2)
  | None => RRaise (Some dead) (RRet None RFail [] false)
  end.

(** in front of a symbol that has not been consumed an error is no place to pause *)
Definition raise0 (K : cfg) (rs : reason) (k : cfg -> rtree) : rtree :=
  match raise K rs k with RRaise _ t => RRaise None t | t => t end.

Fixpoint break_to (K : cfg) (l : N) : option cfg :=
  match K with
  | [] => None
  | FLoop l' _ :: K' => if N.eqb l l' then Some K' else break_to K' l
  | _ :: K' => break_to K' l
  end.

(** do-actions of the enclosing foreach blocks, outermost first, each with the configuration around its
    foreach statement (where a full buffer in it looks for its handler) *)
Fixpoint each_levels (K : cfg) : list (list (stmt * cfg)) :=
  match K with
  | [] => []
  | FForeach e :: K' => each_levels K' ++ [map (fun st => (st, K')) e]
  | _ :: K' => each_levels K'
  end.
(** ... those of the levels not performed yet ([done] outermost levels have been) *)
Definition each_from (done : nat) (K : cfg) : list (stmt * cfg) := concat (skipn done (each_levels K)).

(** a block made of actions only: plain actions, expression appends, and - under an if - finish and break (the
    whole if is then one conditional action) *)
Fixpoint actions_only (inner : bool) (fuel : nat) (ss : list stmt) : bool :=
  match fuel with O => false | S f =>
  forallb (fun st => match st with
                     | SAct _ | SAppC _ _ => true
                     | SRet r => inner && negb (is_yield r)
                     | SBreak _ => inner
                     | SIf brs els => forallb (fun b => match b with IBranch _ x => actions_only true f x end) brs && actions_only true f els
                     | _ => false end) ss
  end.

(** [settle skip K]: run everything that needs no input.  With [skip] the data actions are passed over
    without being performed (actions pending when an error strikes may not have run); control statements
    (break, entering / leaving blocks) take effect all the same. *)
Fixpoint settle (skip : bool) (fuel : nat) (K : cfg) : rtree :=
  match fuel with O => RFuel | S f =>
  match K with
  | [] => RLeaf []
  | FLoop l body :: _ => settle skip f (FSeq body :: K)
  | FTry _ _ _ :: K' => settle skip f K'
  | FForeach _ :: K' => settle skip f K'
  | FSeq [] :: K' => settle skip f K'
  | FSeq (s :: ss) :: K' =>
      let rest := FSeq ss :: K' in
      match s with
      | SAct p => if skip then settle skip f rest else RAct (Some K) p (settle skip f rest)
      | SAppC t p => if skip then settle skip f rest
                     else RTest (Some K) t (raise rest OutOfSpace (settle skip f)) (RAct None p (settle skip f rest))
      | SRet r => if skip then settle skip f rest else RSRet K r rest   (* a pending finish / yield is an action too *)
      | SBreak l => match break_to K l with Some K2 => settle skip f K2 | None => RFuel end
      | SLoop l body => settle skip f (FSeq body :: FLoop l body :: rest)
      | STry body nm os h => settle skip f (FSeq body :: FTry nm os h :: rest)
      | SForeach body each => settle skip f (FSeq body :: FForeach each :: rest)
      | SIf brs els =>
          if skip && actions_only false f [s] then settle skip f rest
          else
          (fix chain (first : bool) (brs : list ibranch) : rtree :=
             match brs with
             | [] => settle skip f (FSeq els :: rest)
             | IBranch c b :: brs' => RTest (if first then Some K else None) c (settle skip f (FSeq b :: rest)) (chain false brs')
             end) true brs
      | _ => RLeaf K
      end
  | _ => RLeaf K
  end end.

(** after a consumed symbol: a settled configuration is where the parser waits for the next symbol; the end
    of the program is DONE; a yield reached while settling returns with the symbol consumed *)
Fixpoint fin (t : rtree) : rtree :=
  match t with
  | RLeaf [] => RRet (Some []) RDone [] false
  | RLeaf K => RCons K
  | RSRet Kb r K => RRet (Some Kb) r K (is_yield r)
  | RAct c p k => RAct c p (fin k)
  | RTest c t a b => RTest c t (fin a) (fin b)
  | RRaise c k => RRaise c (fin k)
  | RChoice a b => RChoice (fin a) (fin b)
  | other => other
  end.

(** the step in which pending actions are dropped is admissible only when an error strikes at once *)
Fixpoint drop_ok (t : rtree) : bool :=
  match t with
  | RRaise _ _ => true
  | RTest _ _ a b => drop_ok a && drop_ok b
  | RChoice a b => drop_ok a && drop_ok b
  | _ => false
  end.
Definition choice (n d : rtree) : rtree := if drop_ok d then RChoice n d else n.

(** in front of a symbol that has not been consumed: the symbol is offered to where settling stops ([k]).
    At every pending action the reading also allows
    - the rest of the pending actions not to run, provided the symbol then is an error at once ([alt K]: the step
      from K with the pending actions passed over);
    - the do-actions of (some of the outer) foreach blocks in which the symbol is going to be consumed to run at
      this point rather than after the pending actions, outer blocks before inner ones ([alt2 K]; the
      documentation does not order do-actions and deferred actions of the same symbol). *)
Definition choice2 (n : rtree) (e : list rtree) : rtree := fold_left RChoice e n.
Fixpoint look (t : rtree) (k : cfg -> rtree) (alt : cfg -> rtree) (alt2 : cfg -> list rtree) : rtree :=
  match t with
  | RLeaf K => k K
  | RSRet Kb r K => choice (RRet None r K false) (alt Kb)
  | RAct c p t' => let n := RAct None p (look t' k alt alt2) in match c with Some K => choice2 (choice n (alt K)) (alt2 K) | None => n end
  | RTest c x a b => let n := RTest None x (look a k alt alt2) (look b k alt alt2) in match c with Some K => choice2 (choice n (alt K)) (alt2 K) | None => n end
  | RRaise _ t' => RRaise None (look t' k alt alt2)
  | other => other
  end.

Definition sym_list : list sym := map N.of_nat (seq 0 257).
Definition can_continue (r : re) : bool := existsb (fun c => negb (void (deriv c r))) sym_list.
Definition takes (r : re) (s : sym) : bool := negb (void (deriv s r)).

(** can symbol s be the first symbol taken by this block, and can the block end without taking any?
    (the decision of [optional]; leading actions and ifs are looked through).  The documentation says an
    optional block is skipped "if the first character does not match": the symbols that begin a block are
    those its first patterns take; the else clause of a case and the skipping of a wait do not count. *)
Fixpoint starts (fuel : nat) (ss : list stmt) (s : sym) : bool * bool :=
  match fuel with O => (false, false) | S f =>
  match ss with
  | [] => (false, true)
  | st :: r =>
    let one : bool * bool :=
      match st with
      | SAct _ | SAppC _ _ => (false, true)
      | SRet _ | SBreak _ => (false, false)
      | SMatch re _ => (takes re s, nullable re)
      | SWait re => (takes re s, false)          (* a wait is begun by a symbol that starts its pattern *)
      | SCase cls els =>                          (* ... and a case by a symbol one of its patterns takes: else does not count *)
          let own := existsb (fun c => match c with Clause ps _ => existsb (fun p => takes p s) ps end) cls in
          match els with Some e => (own, snd (starts f e s)) | None => (own, false) end
      | SGCase gcls => (existsb (fun c => match c with GClause _ p _ => takes p s end) gcls, false)
      | SLoop _ b => (fst (starts f b s), false)
      | STry b _ _ _ => starts f b s
      | SForeach b _ => starts f b s
      | SOptional b => (fst (starts f b s), true)
      | SIf brs els =>
          fold_left (fun acc br => match br with IBranch _ b => let x := starts f b s in (fst acc || fst x, snd acc || snd x) end)
                    brs (starts f els s)
      end in
    if snd one then let x := starts f r s in (fst one || fst x, snd x) else one
  end end.
Definition first_accepts (fuel : nat) (ss : list stmt) (s : sym) : bool := fst (starts fuel ss s).

(** the do-actions of foreach: plain actions, expression appends, action-only ifs; a full buffer hands the
    symbol to the handler *)
Fixpoint emit (fuel : nat) (ss : list (stmt * cfg)) (ovf : cfg -> rtree) (k : rtree) : rtree :=
  match fuel with O => RFuel | S f =>
  match ss with
  | [] => k
  | (SAct p, _) :: r => RAct None p (emit f r ovf k)
  | (SAppC t p, Kc) :: r => RTest None t (raise0 Kc OutOfSpace ovf) (RAct None p (emit f r ovf k))
  | (SIf brs els, Kc) :: r =>
      (fix chain (brs : list ibranch) : rtree :=
         match brs with
         | [] => emit f (map (fun st => (st, Kc)) els ++ r) ovf k
         | IBranch c b :: brs' => RTest None c (emit f (map (fun st => (st, Kc)) b ++ r) ovf k) (chain brs')
         end) brs
  | _ => RFuel
  end end.

(** symbol consumed in context Kctx by a match with per-byte append [app]; the parser continues in Kafter *)
Definition consumed (done : nat) (f : nat) (rec : cfg -> rtree) (Kafter Kctx : cfg) (app : option (tid * pid)) : rtree :=
  let after := fin (settle false f Kafter) in
  emit f (each_from done Kctx) rec
    match app with
    | None => after
    | Some (t, p) => RTest None t (raise0 Kctx OutOfSpace rec) (RAct None p after)   (* full: the handler gets this very symbol *)
    end.

Definition vec_of (cls : list clause) : list (re * nat) :=
  concat (map (fun ic => match snd ic with Clause ps _ => map (fun p => (p, fst ic)) ps end) (combine (seq 0 (length cls)) cls)).
Definition gvec_of (gcls : list gclause) : list (re * nat) :=
  map (fun ic => match snd ic with GClause _ p _ => (p, fst ic) end) (combine (seq 0 (length gcls)) gcls).

Definition step_vec (vec : list (re * nat)) (s : sym) : list (re * nat) :=
  filter (fun pi => negb (void (fst pi))) (map (fun pi => (deriv s (fst pi), snd pi)) vec).
Definition first_done (vec : list (re * nat)) : option nat :=
  option_map snd (find (fun pi => nullable (fst pi)) vec).
Definition clause_body (cls : list clause) (i : nat) : list stmt :=
  match nth_error cls i with Some (Clause _ b) => b | None => [] end.

Definition gprio (gcls : list gclause) (i : nat) : N := match nth_error gcls i with Some (GClause n _ _) => n | None => 0%N end.
Definition gbody (gcls : list gclause) (i : nat) : list stmt := match nth_error gcls i with Some (GClause _ _ b) => b | None => [] end.
(** among the patterns that match what was consumed: the one of highest priority (the first such) *)
Definition best_done (gcls : list gclause) (vec : list (re * nat)) : option nat :=
  fold_left (fun acc pi => if nullable (fst pi) then
                             match acc with
                             | None => Some (snd pi)
                             | Some j => if N.ltb (gprio gcls j) (gprio gcls (snd pi)) then Some (snd pi) else acc
                             end
                           else acc) vec None.

(** where would symbol s be consumed if offered to K (data actions in front of it passed over)? *)
Fixpoint next_ctx (fuel : nat) (K : cfg) (s : sym) : option cfg :=
  match fuel with O => None | S f =>
  match settle true f K with
  | RLeaf (FSeq (st :: ss) :: K') =>
      let rest := FSeq ss :: K' in
      match st with
      | SMatch r _ => if takes r s then Some rest else if nullable r then next_ctx f rest s else None
      | SWait _ => if is_end s then None else Some rest
      | SCase cls _ => if existsb (fun c => match c with Clause ps _ => existsb (fun p => takes p s) ps end) cls then Some rest else None
      | SGCase gcls => if existsb (fun c => match c with GClause _ p _ => takes p s end) gcls then Some rest else None
      | SOptional body => if first_accepts f body s then next_ctx f (FSeq body :: rest) s else None
      | _ => None
      end
  | _ => None
  end end.

(** [feed skip done fuel K s]: offer symbol s to configuration K.  [skip]: the data actions passed before the
    symbol is consumed or an error strikes are not performed; [done]: the do-actions of that many (outermost)
    foreach blocks have been performed for this symbol already. *)
Fixpoint feed (skip : bool) (noeach : nat) (fuel : nat) (K : cfg) (s : sym) : rtree :=
  match fuel with O => RFuel | S f =>
  (fun body => look (settle skip f K) body
                    (if skip then (fun _ => RFuel) else (fun K0 => feed true noeach f K0 s))
                    (if skip then (fun _ => []) else
                     (fun K0 => match next_ctx f K0 s with
                                | Some Kctx =>
                                    let lv := each_levels Kctx in
                                    map (fun j => emit f (concat (firstn (j - noeach) (skipn noeach lv)))
                                                       (fun K2 => feed false j f K2 s) (feed false j f K0 s))
                                        (seq (S noeach) (length lv - noeach))
                                | None => []
                                end))) (fun K1 =>
  let again := fun K2 => feed skip noeach f K2 s in
  let handler := fun K2 => feed false noeach f K2 s in
  let consumed := consumed noeach in
  match K1 with
  | [] => RRet None RDone [] false                             (* the program has ended: the symbol is not consumed *)
  | FSeq (st :: ss) :: K' =>
      let rest := FSeq ss :: K' in
      match st with
      | SMatch r app => again (FM r app :: rest)
      | SWait r => again (FW r r :: rest)
      | SCase cls els => again (FC (vec_of cls) cls els false :: rest)
      | SGCase gcls => again (FG (gvec_of gcls) gcls false :: rest)
      | SOptional body => if first_accepts f body s then again (FSeq body :: rest) else again rest
      | _ => RFuel
      end
  | FM r app :: K' =>
      let d := deriv s r in
      if negb (void d) then
        (if nullable d && negb (can_continue d) then consumed f handler K' K' app
         else consumed f handler (FM d app :: K') K' app)
      else if nullable r then again K'                           (* ended by lookahead *)
      else raise0 K' NoMatch handler
  | FW r0 r :: K' =>
      let d := deriv s r in
      if negb (void d) then
        (if nullable d && negb (can_continue d) then consumed f handler K' K' None
         else consumed f handler (FW r0 d :: K') K' None)
      else if nullable r then again K'
      else if is_end s then RRet None RFail [] false
      else if re_eqb r r0 then consumed f handler K1 K' None       (* cannot start the pattern: skipped *)
      else again (FW r0 r0 :: K')                                (* abandon the partial match, re-offer *)
  | FC vec cls els started :: K' =>
      let nv := step_vec vec s in
      match nv with
      | _ :: _ =>
          match first_done nv with
          | Some i => if existsb (fun pi => can_continue (fst pi)) nv
                      then consumed f handler (FC nv cls els true :: K') K' None
                      else consumed f handler (FSeq (clause_body cls i) :: K') K' None
          | None => consumed f handler (FC nv cls els true :: K') K' None
          end
      | [] =>
          match (if started then first_done vec else None) with
          | Some i => again (FSeq (clause_body cls i) :: K')
          | None => match els with
                    | Some e => again (FSeq e :: K')
                    | None => raise0 K' NoMatch handler
                    end
          end
      end
  | FG vec gcls started :: K' =>
      let nv := step_vec vec s in
      match nv with
      | _ :: _ =>
          if existsb (fun pi => can_continue (fst pi)) nv then consumed f handler (FG nv gcls true :: K') K' None
          else match best_done gcls nv with
               | Some i => consumed f handler (FSeq (gbody gcls i) :: K') K' None
               | None => consumed f handler (FG nv gcls true :: K') K' None
               end
      | [] =>
          match (if started then best_done gcls vec else None) with
          | Some i => again (FSeq (gbody gcls i) :: K')
          | None => raise0 K' NoMatch handler
          end
      end
  | _ => RFuel
  end)
  end.

Definition ref_fuel : nat := 400.

(** what the reading allows when symbol s arrives in configuration K: the pending actions run first, then the
    symbol is dealt with; the alternatives the reading leaves open are choices inside the tree (see [look]) *)
Definition options (K : cfg) (s : sym) : list rtree := [feed false 0 ref_fuel K s].

(** start(): everything in front of the first symbol may run now or be left for the first symbol *)
Definition start_tree (p : list stmt) : rtree := fin (settle false ref_fuel [FSeq p]).

(** ** naming configurations by their position in a table (built by an untrusted exploration) *)
Fixpoint index_of (tbl : list cfg) (K : cfg) : option nat :=
  match tbl with
  | [] => None
  | K' :: r => if cfg_eqb K K' then Some 0 else option_map S (index_of r K)
  end.

(** successor configurations of a step, cuts included *)
Definition cut_cons (c : option cfg) (acc : list cfg) : list cfg := match c with Some K => K :: acc | None => acc end.
Fixpoint succs_of (t : rtree) (acc : list cfg) : list cfg :=
  match t with
  | RCons K => K :: acc
  | RRet c r K _ => cut_cons c (if is_yield r then K :: acc else acc)
  | RAct c _ k => cut_cons c (succs_of k acc)
  | RTest c _ a b => cut_cons c (succs_of a (succs_of b acc))
  | RRaise c k => cut_cons c (succs_of k acc)
  | RChoice a b => succs_of a (succs_of b acc)
  | _ => acc
  end.

Definition mem_cfg (K : cfg) (l : list cfg) : bool := existsb (cfg_eqb K) l.

Definition estate := (list cfg * list cfg)%type.     (* to do, table *)
Definition estep (syms : list sym) (st : estate) : estate + list cfg :=
  match fst st with
  | [] => inr (snd st)
  | K :: rest =>
      if mem_cfg K (snd st) then inl (rest, snd st)
      else inl (fold_left (fun acc s => fold_left (fun acc2 o => succs_of o acc2) (options K s) acc) syms [] ++ rest, snd st ++ [K])
  end.
Fixpoint eloop (syms : list sym) (fuel : positive) (st : estate) : estate + list cfg :=
  match fuel with
  | xH => estep syms st
  | xO f => match eloop syms f st with inl st' => eloop syms f st' | inr r => inr r end
  | xI f => match estep syms st with
            | inl st1 => match eloop syms f st1 with inl st' => eloop syms f st' | inr r => inr r end
            | inr r => inr r end
  end.

Definition ref_table (syms : list sym) (p : list stmt) : list cfg :=
  match eloop syms (Pos.shiftl 1 30) (succs_of (start_tree p) [], [[]]) with inr t => t | inl st => snd st end.
