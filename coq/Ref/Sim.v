(** Simulation certificates: the compiled machine against the procedural reading (Ref/RefSem.v).

    The reading leaves exactly two things open (property C01): an action that sits between two consumed
    symbols may run right after the first or when the second arrives (a CUT: the reading pauses in front of
    the remaining actions), and actions still pending when the next symbol is an error at once may not
    have run (the DROPPED option of [RefSem.options]).  It is therefore a nondeterministic specification;
    the compiled machine is deterministic, and the certificate shows that every step of the compiled
    machine is one of the steps the reading allows, with the same primitives in the same order, the same
    test outcomes, the same returned code, and the same "symbol consumed or not".

      closed ... = true ->  for every data semantics, every input over the symbols of interest:
                            the trace of the compiled parser IS a trace of the reading.            *)
From Coq Require Import NArith Arith List Bool Lia.
Import ListNotations.
From NV Require Import Machine.Dfa Machine.Sem Machine.NoSpin Machine.Bisim Machine.BBisim Regex.Re Ref.Lang Ref.RefSem.

(** option trees over named configurations *)
Inductive stree :=
| TCons (i : nat)
| TRet (cut : option nat) (r : res) (i : nat) (adv : bool)
| TAct (cut : option nat) (p : pid) (k : stree)
| TTest (cut : option nat) (c : tid) (a b : stree)
| TChoice (a b : stree)
| TBad.

Definition cut_idx (tbl : list cfg) (c : option cfg) : option nat :=
  match c with Some K => index_of tbl K | None => None end.

Definition or_cut (c d : option nat) : option nat := match c with Some _ => c | None => d end.
Definition with_cut (d : option nat) (t : stree) : stree :=
  match t with
  | TRet c r i adv => TRet (or_cut c d) r i adv
  | TAct c p k => TAct (or_cut c d) p k
  | TTest c x a b => TTest (or_cut c d) x a b
  | other => other
  end.

Fixpoint to_stree (tbl : list cfg) (t : rtree) : stree :=
  match t with
  | RCons K => match index_of tbl K with Some i => TCons i | None => TBad end
  | RRet c r K adv =>
      if is_yield r then match index_of tbl K with Some i => TRet (cut_idx tbl c) r i adv | None => TBad end
      else TRet (cut_idx tbl c) r 0 adv
  | RAct c p k => TAct (cut_idx tbl c) p (to_stree tbl k)
  | RTest c t a b => TTest (cut_idx tbl c) t (to_stree tbl a) (to_stree tbl b)
  | RRaise c k => with_cut (cut_idx tbl c) (to_stree tbl k)
  | RChoice a b => TChoice (to_stree tbl a) (to_stree tbl b)
  | RLeaf _ | RSRet _ _ _ | RFuel => TBad
  end.

Definition spec := nat -> sym -> list stree.
Definition ref_spec (tbl : list cfg) : spec :=
  fun i s => match nth_error tbl i with Some K => map (to_stree tbl) (options K s) | None => [] end.

Definition cut_of (t : stree) : option nat :=
  match t with
  | TCons i => Some i
  | TRet c _ _ _ => c
  | TAct c _ _ => c
  | TTest c _ _ _ => c
  | TChoice _ _ | TBad => None
  end.

(** lock step of an option of the reading against the compiled machine's tree; result: the pairs
    (configuration, machine state) in which the two continue *)
Fixpoint sim_lock (t1 : stree) (t2 : tree) {struct t1} : option (list (nat * nat)) :=
  match t1 with
  | TChoice a b => match sim_lock a t2 with Some x => Some x | None => sim_lock b t2 end
  | _ =>
    match t2 with
    | Leaf (LConsume q2) => match cut_of t1 with Some i => Some [(i, q2)] | None => None end
    | Leaf (LRet r2 q2 adv2) =>
        match t1 with
        | TRet _ r1 i adv1 => if res_eqb r1 r2 && (Bool.eqb adv1 adv2 || negb (is_yield r1)) then Some (if is_yield r1 then [(i, q2)] else []) else None
        | _ => None end
    | Act p2 k2 => match t1 with TAct _ p1 k1 => if N.eqb p1 p2 then sim_lock k1 k2 else None | _ => None end
    | Test c2 a2 b2 =>
        match t1 with
        | TTest _ c1 a1 b1 => if N.eqb c1 c2 then match sim_lock a1 a2, sim_lock b1 b2 with Some x, Some y => Some (x ++ y) | _, _ => None end else None
        | _ => None end
    | OutOfFuel => None
    end
  end.

Definition pair_mem (x : nat * nat) (R : list (nat * nat)) : bool :=
  existsb (fun y => Nat.eqb (fst x) (fst y) && Nat.eqb (snd x) (snd y)) R.
Lemma pair_mem_in x R : pair_mem x R = true -> In x R.
Proof.
  unfold pair_mem. intros H. apply existsb_exists in H as [y [Hy E]]. apply andb_prop in E as [E1 E2].
  apply Nat.eqb_eq in E1, E2. destruct x, y; simpl in *; subst; auto.
Qed.

Definition opt_ok (R : list (nat * nat)) (t2 : tree) (o : stree) : bool :=
  match sim_lock o t2 with Some succs => forallb (fun y => pair_mem y R) succs | None => false end.

Definition step_ok (sp : spec) (m2 : nfm) (R : list (nat * nat)) (x : nat * nat) (s : sym) : bool :=
  existsb (opt_ok R (m2 (snd x) s)) (sp (fst x) s).

Definition closed (syms : list sym) (sp : spec) (m2 : nfm) (R : list (nat * nat)) : bool :=
  forallb (fun x => forallb (step_ok sp m2 R x) syms) R.

(** ** semantics of the specification and soundness *)
Section Sound.
Variable D : Type.
Variable exec : pid -> sym -> D -> D.
Variable evalt : tid -> sym -> D -> bool.

Inductive outcome := OCont (i : nat) | ORet (r : res) (i : nat) (adv : bool).

(** one option, evaluated: at a cut the reading may pause *)
Inductive seval : stree -> sym -> D -> list item -> outcome -> D -> Prop :=
| SE_cons i s x : seval (TCons i) s x [] (OCont i) x
| SE_ret c r i adv s x : seval (TRet c r i adv) s x [] (ORet r i adv) x
| SE_ret_term c r i adv adv' s x : is_yield r = false -> seval (TRet c r i adv) s x [] (ORet r i adv') x   (* where the cursor stands at a
                                                                     terminal result is the business of the result-code protocol (C10), not of the reading *)
| SE_act c p k s x es o x' : seval k s (exec p s x) es o x' -> seval (TAct c p k) s x (IPrim p :: es) o x'
| SE_test c t a b s x es o x' :
    seval (if evalt t s x then a else b) s x es o x' -> seval (TTest c t a b) s x (ITest t (evalt t s x) :: es) o x'
| SE_cut t j s x : cut_of t = Some j -> seval t s x [] (OCont j) x
| SE_left a b s x es o x' : seval a s x es o x' -> seval (TChoice a b) s x es o x'
| SE_right a b s x es o x' : seval b s x es o x' -> seval (TChoice a b) s x es o x'.

Variable sp : spec.

(** the traces of the reading on an input, from a configuration *)
Inductive srun : list sym -> nat -> D -> list item -> Prop :=
| SR_nil i x : srun [] i x []
| SR_cont s rest i x o es j x' tr :
    In o (sp i s) -> seval o s x es (OCont j) x' -> srun rest j x' tr -> srun (s :: rest) i x (es ++ tr)
| SR_ret s rest i x o es r j adv x' :
    In o (sp i s) -> seval o s x es (ORet r j adv) x' -> is_yield r = false -> srun (s :: rest) i x (es ++ [IRet r])
| SR_yield_adv s rest i x o es r j x' tr :
    In o (sp i s) -> seval o s x es (ORet r j true) x' -> is_yield r = true -> srun rest j x' tr ->
    srun (s :: rest) i x (es ++ IRet r :: tr)
| SR_yield_stay s rest i x o es r j x' tr :
    In o (sp i s) -> seval o s x es (ORet r j false) x' -> is_yield r = true -> srun (s :: rest) j x' tr ->
    srun (s :: rest) i x (es ++ IRet r :: tr).

Lemma sim_lock_sem : forall t1 t2 succs, sim_lock t1 t2 = Some succs ->
  forall s x es l x', evali D exec evalt t2 s x = Some (es, l, x') ->
  match l with
  | LConsume q' => exists j, In (j, q') succs /\ seval t1 s x es (OCont j) x'
  | LRet r q' adv => exists j, seval t1 s x es (ORet r j adv) x' /\ (is_yield r = true -> In (j, q') succs)
  end.
Proof.
  assert (LeafC : forall t1 (q2 : nat) (succs : list (nat * nat)), (match cut_of t1 with Some i => Some [(i, q2)] | None => None end) = Some succs ->
            forall s x, exists j, In (j, q2) succs /\ seval t1 s x [] (OCont j) x).
  { intros t1 q2 succs H s x. destruct (cut_of t1) as [i|] eqn:EC; [|discriminate]. inversion H; subst.
    exists i. split; [left; reflexivity|]. apply SE_cut. exact EC. }
  induction t1 as [i|c r1 i adv1|c p k IH|c t a IHa b IHb|a IHa b IHb|]; intros t2 succs HL s x es l x' HE.
  - (* TCons *) cbn [sim_lock] in HL. destruct t2 as [[q2|r2 q2 adv2]|p2 k2|c2 a2 b2|]; try discriminate.
    cbn [evali] in HE. inversion HE; subst. apply (LeafC (TCons i) q2 succs HL).
  - (* TRet *) cbn [sim_lock] in HL. destruct t2 as [[q2|r2 q2 adv2]|p2 k2|c2 a2 b2|]; try discriminate.
    + cbn [evali] in HE. inversion HE; subst. apply (LeafC (TRet c r1 i adv1) q2 succs HL).
    + cbn [evali] in HE. inversion HE; subst.
      destruct (res_eqb r1 r2 && (Bool.eqb adv1 adv2 || negb (is_yield r1))) eqn:E; [|discriminate].
      apply andb_prop in E as [E1 E2]. apply res_eqb_ok in E1. subst r2. apply orb_prop in E2 as [E2|E2].
      * apply Bool.eqb_prop in E2. subst.
        exists i. split; [constructor|]. intros Y. rewrite Y in HL. inversion HL; subst. left; reflexivity.
      * apply negb_true_iff in E2. exists i. split; [apply SE_ret_term; exact E2|]. intros Y. congruence.
  - (* TAct *) cbn [sim_lock] in HL. destruct t2 as [[q2|r2 q2 adv2]|p2 k2|c2 a2 b2|]; try discriminate.
    + cbn [evali] in HE. inversion HE; subst. apply (LeafC (TAct c p k) q2 succs HL).
    + destruct (N.eqb p p2) eqn:E; [|discriminate]. apply N.eqb_eq in E. subst p.
      cbn [evali] in HE. destruct (evali D exec evalt k2 s (exec p2 s x)) as [[[es0 l0] x0]|] eqn:E0; [|discriminate].
      inversion HE; subst. specialize (IH k2 succs HL s (exec p2 s x) es0 l x' E0).
      destruct l as [q'|r q' adv].
      * destruct IH as [j [Hin Hs]]. exists j. split; auto. constructor. exact Hs.
      * destruct IH as [j [Hs Hy]]. exists j. split; auto. constructor. exact Hs.
  - (* TTest *) cbn [sim_lock] in HL. destruct t2 as [[q2|r2 q2 adv2]|p2 k2|c2 a2 b2|]; try discriminate.
    + cbn [evali] in HE. inversion HE; subst. apply (LeafC (TTest c t a b) q2 succs HL).
    + destruct (N.eqb t c2) eqn:E; [|discriminate]. apply N.eqb_eq in E. subst t.
      destruct (sim_lock a a2) as [sa|] eqn:Ea; [|discriminate].
      destruct (sim_lock b b2) as [sb|] eqn:Eb; [|discriminate]. inversion HL; subst.
      cbn [evali] in HE.
      destruct (evali D exec evalt (if evalt c2 s x then a2 else b2) s x) as [[[es0 l0] x0]|] eqn:E0; [|discriminate].
      inversion HE; subst.
      destruct (evalt c2 s x) eqn:Eb0.
      * specialize (IHa a2 sa Ea s x es0 l x' E0). destruct l as [q'|r q' adv].
        -- destruct IHa as [j [Hin Hs]]. exists j. split; [apply in_or_app; left; auto|].
           rewrite <- Eb0. constructor. rewrite Eb0. exact Hs.
        -- destruct IHa as [j [Hs Hy]]. exists j. split; [|intros Y; apply in_or_app; left; auto].
           rewrite <- Eb0. constructor. rewrite Eb0. exact Hs.
      * specialize (IHb b2 sb Eb s x es0 l x' E0). destruct l as [q'|r q' adv].
        -- destruct IHb as [j [Hin Hs]]. exists j. split; [apply in_or_app; right; auto|].
           rewrite <- Eb0. constructor. rewrite Eb0. exact Hs.
        -- destruct IHb as [j [Hs Hy]]. exists j. split; [|intros Y; apply in_or_app; right; auto].
           rewrite <- Eb0. constructor. rewrite Eb0. exact Hs.
  - (* TChoice *) cbn [sim_lock] in HL. destruct (sim_lock a t2) as [sa|] eqn:Ea.
    + inversion HL; subst. specialize (IHa t2 succs Ea s x es l x' HE). destruct l as [q'|r q' adv].
      * destruct IHa as [j [Hin Hs]]. exists j. split; auto. apply SE_left. exact Hs.
      * destruct IHa as [j [Hs Hy]]. exists j. split; auto. apply SE_left. exact Hs.
    + specialize (IHb t2 succs HL s x es l x' HE). destruct l as [q'|r q' adv].
      * destruct IHb as [j [Hin Hs]]. exists j. split; auto. apply SE_right. exact Hs.
      * destruct IHb as [j [Hs Hy]]. exists j. split; auto. apply SE_right. exact Hs.
  - (* TBad *) cbn [sim_lock] in HL. destruct t2 as [[q2|r2 q2 adv2]|p2 k2|c2 a2 b2|]; discriminate.
Qed.

Variable m2 : nfm.
Variable syms : list sym.
Variable R : list (nat * nat).
Hypothesis HC : closed syms sp m2 R = true.

Lemma closed_step i q s : In (i, q) R -> In s syms ->
  exists o succs, In o (sp i s) /\ sim_lock o (m2 q s) = Some succs /\ forall y, In y succs -> In y R.
Proof.
  intros Hin Hs. unfold closed in HC. rewrite forallb_forall in HC. specialize (HC _ Hin).
  rewrite forallb_forall in HC. specialize (HC _ Hs). unfold step_ok in HC. cbn [fst snd] in HC.
  apply existsb_exists in HC as [o [Ho Hok]]. unfold opt_ok in Hok.
  destruct (sim_lock o (m2 q s)) as [succs|] eqn:E; [|discriminate].
  exists o, succs. repeat split; auto. intros y Hy. rewrite forallb_forall in Hok. apply pair_mem_in. apply Hok. exact Hy.
Qed.

(** every trace of the compiled machine is a trace of the reading *)
Theorem sim_sound : forall K2 input, (forall s, In s input -> In s syms) ->
  forall i q, In (i, q) R -> forall x tr, run D exec evalt m2 K2 input q x = Some tr -> srun input i x tr.
Proof.
  intros K2. induction input as [|s rest IH]; intros Hs i q Hin x tr Hr.
  - cbn [run] in Hr. inversion Hr. constructor.
  - assert (Hrest : forall s', In s' rest -> In s' syms) by (intros; apply Hs; right; auto).
    specialize (IH Hrest). assert (Hs0 : In s syms) by (apply Hs; left; auto).
    cbn [run] in Hr. revert i q Hin x tr Hr. generalize K2 at 2. intros c.
    induction c as [|c IHc]; intros i q Hin x tr Hr.
    + cbn [go] in Hr.
      destruct (closed_step i q s Hin Hs0) as [o [succs [Ho [HL Hsub]]]].
      destruct (evali D exec evalt (m2 q s) s x) as [[[es l] x']|] eqn:E; [|discriminate].
      pose proof (sim_lock_sem _ _ _ HL s x es l x' E) as HS.
      destruct l as [q'|r q' adv].
      * destruct HS as [j [Hj Hse]].
        destruct (run D exec evalt m2 K2 rest q' x') as [t|] eqn:Er; [|discriminate]. inversion Hr; subst.
        eapply SR_cont; eauto.
      * destruct HS as [j [Hse Hy]]. destruct (is_yield r) eqn:Y.
        -- destruct adv; [|discriminate].
           destruct (run D exec evalt m2 K2 rest q' x') as [t|] eqn:Er; [|discriminate]. inversion Hr; subst.
           eapply SR_yield_adv; eauto.
        -- inversion Hr; subst. eapply SR_ret; eauto.
    + cbn [go] in Hr.
      destruct (closed_step i q s Hin Hs0) as [o [succs [Ho [HL Hsub]]]].
      destruct (evali D exec evalt (m2 q s) s x) as [[[es l] x']|] eqn:E; [|discriminate].
      pose proof (sim_lock_sem _ _ _ HL s x es l x' E) as HS.
      destruct l as [q'|r q' adv].
      * destruct HS as [j [Hj Hse]].
        destruct (run D exec evalt m2 K2 rest q' x') as [t|] eqn:Er; [|discriminate]. inversion Hr; subst.
        eapply SR_cont; eauto.
      * destruct HS as [j [Hse Hy]]. destruct (is_yield r) eqn:Y.
        -- destruct adv.
           ++ destruct (run D exec evalt m2 K2 rest q' x') as [t|] eqn:Er; [|discriminate]. inversion Hr; subst.
              eapply SR_yield_adv; eauto.
           ++ destruct (go D exec evalt m2 s (run D exec evalt m2 K2 rest) c q' x') as [t|] eqn:Eg; [|discriminate].
              inversion Hr; subst. eapply SR_yield_stay; eauto.
        -- inversion Hr; subst. eapply SR_ret; eauto.
Qed.
End Sound.
