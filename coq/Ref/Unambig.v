(** One-symbol-lookahead unambiguity of a program under its procedural reading (C09).

    Wherever the reading decides by looking at the next symbol - enter an optional block or skip it, go on
    with an open-ended match (or wait pattern) or end it, which clause of a case has been matched, which
    pattern of a greedy case wins - the symbol (resp. the consumed text) must not allow two continuations:

    - optional:   the symbol does not both begin the body and begin what follows the block;
    - open match: when what has been matched so far is a complete match, the symbol does not both continue the
                  pattern and begin what follows (the same for the pattern of a wait);
    - case:       no consumed text matches patterns of two clauses, or matches one pattern while ANOTHER
                  pattern can still continue (non-greedy);
    - greedy case: among the patterns that match the consumed text the highest priority is held by one clause.

    "Begins" is by first symbols of patterns (Ref/RefSem.starts): the else clause of a case and the skipping
    of a wait take every symbol and are what happens when nothing else applies, not alternatives.

    [unambig_check syms p] decides this for every configuration the reading can reach on inputs over [syms]
    ([table_closed]: the table of configurations is closed under steps, so every reachable configuration is in
    it) and every symbol. *)
From Coq Require Import NArith Arith List Bool.
Import ListNotations.
From NV Require Import Machine.Dfa Machine.Sem Machine.Bisim Machine.BBisim Regex.Re Ref.Lang Ref.RefSem.

Fixpoint leaves (t : rtree) : list cfg :=
  match t with
  | RLeaf K => [K]
  | RAct _ _ k => leaves k
  | RTest _ _ a b => leaves a ++ leaves b
  | RRaise _ k => leaves k
  | RChoice a b => leaves a ++ leaves b
  | _ => []
  end.

(** can symbol s be the first symbol taken by what configuration K still has to do (on some outcome of the
    conditions in between)? *)
Fixpoint cfg_starts (fuel : nat) (K : cfg) (s : sym) : bool :=
  match fuel with O => false | S f =>
  existsb (fun K1 =>
    match K1 with
    | FSeq ss :: K' => let x := starts f ss s in fst x || (snd x && cfg_starts f K' s)
    | _ => false
    end) (leaves (settle false f K))
  end.

Inductive amb_kind := AmbOptional | AmbOpenMatch | AmbWait | AmbCaseTwo | AmbCasePrefix | AmbGreedyTie.

Definition clause_ids (vec : list (re * nat)) : list nat := map snd (filter (fun pi => nullable (fst pi)) vec).
Definition two_distinct (l : list nat) : bool :=
  match l with [] => false | i :: r => existsb (fun j => negb (Nat.eqb i j)) r end.

(** a pattern is complete while a DIFFERENT pattern of the vector can still continue *)
Definition prefix_conflict (vec : list (re * nat)) : bool :=
  existsb (fun pi => nullable (fst pi) &&
                     existsb (fun pj => negb (re_eqb (fst pi) (fst pj) && Nat.eqb (snd pi) (snd pj)) && can_continue (fst pj)) vec) vec.

Definition case_amb (vec : list (re * nat)) : option amb_kind :=
  if two_distinct (clause_ids vec) then Some AmbCaseTwo
  else if prefix_conflict vec then Some AmbCasePrefix else None.

(** the highest priority among the complete patterns is held by two clauses *)
Definition greedy_tie (gcls : list gclause) (vec : list (re * nat)) : bool :=
  let done := clause_ids vec in
  let top := fold_left (fun m i => N.max m (gprio gcls i)) done 0%N in
  two_distinct (filter (fun i => N.eqb (gprio gcls i) top) done).

(** ambiguity of one decision: configuration K1 (settled: it waits for input) in front of symbol s *)
Definition ambiguous_at (f : nat) (K1 : cfg) (s : sym) : option amb_kind :=
  match K1 with
  | FSeq (st :: ss) :: K' =>
      let rest := FSeq ss :: K' in
      match st with
      | SOptional body => if first_accepts f body s && cfg_starts f rest s then Some AmbOptional else None
      | SMatch r _ => if nullable r && takes r s && cfg_starts f rest s then Some AmbOpenMatch else None
      | SCase cls _ => case_amb (step_vec (vec_of cls) s)
      | SGCase gcls => if greedy_tie gcls (step_vec (gvec_of gcls) s) then Some AmbGreedyTie else None
      | _ => None
      end
  | FM r _ :: K' => if nullable r && takes r s && cfg_starts f K' s then Some AmbOpenMatch else None
  | FW _ r :: K' => if nullable r && takes r s && cfg_starts f K' s then Some AmbWait else None
  | FC vec _ _ _ :: _ => case_amb (step_vec vec s)
  | FG vec gcls _ :: _ => if greedy_tie gcls (step_vec vec s) then Some AmbGreedyTie else None
  | _ => None
  end.

Definition amb_of_cfg (f : nat) (syms : list sym) (K : cfg) : option (cfg * sym * amb_kind) :=
  fold_left (fun acc K1 =>
    match acc with Some _ => acc | None =>
      fold_left (fun acc2 s => match acc2 with Some _ => acc2 | None =>
                   match ambiguous_at f K1 s with Some k => Some (K1, s, k) | None => None end end) syms None
    end) (leaves (settle false f K)) None.

Definition find_ambiguity (f : nat) (syms : list sym) (tbl : list cfg) : option (cfg * sym * amb_kind) :=
  fold_left (fun acc K => match acc with Some _ => acc | None => amb_of_cfg f syms K end) tbl None.

(** the table is closed: it holds the configurations in front of the first symbol, and every configuration in
    which a step from a table configuration can continue *)
Definition closed_under (opts : cfg -> sym -> list rtree) (st0 : rtree) (syms : list sym) (tbl : list cfg) : bool :=
  forallb (fun K => mem_cfg K tbl) (succs_of st0 []) &&
  forallb (fun K => forallb (fun s => forallb (fun o => forallb (fun K2 => mem_cfg K2 tbl) (succs_of o [])) (opts K s)) syms) tbl.
Definition table_closed (syms : list sym) (p : list stmt) (tbl : list cfg) : bool :=
  closed_under options (start_tree p) syms tbl.

Definition unambig_check (syms : list sym) (p : list stmt) : bool :=
  let tbl := ref_table syms p in
  table_closed syms p tbl && match find_ambiguity ref_fuel syms tbl with None => true | Some _ => false end.

Definition unambig_run (syms : list sym) (p : list stmt) : bool * option (cfg * sym * amb_kind) * nat :=
  let tbl := ref_table syms p in
  (table_closed syms p tbl, find_ambiguity ref_fuel syms tbl, length tbl).

(** ** what a successful check means *)
Lemma fold_none_all {A B} (f : A -> option B) : forall l,
  fold_left (fun acc x => match acc with Some _ => acc | None => f x end) l None = None ->
  forall x, In x l -> f x = None.
Proof.
  assert (S : forall l b, fold_left (fun acc x => match acc with Some _ => acc | None => f x end) l (Some b) = Some b).
  { induction l as [|y l IH]; intros b; cbn [fold_left]; auto. }
  induction l as [|y l IH]; intros H x Hin; [destruct Hin|].
  cbn [fold_left] in H. destruct (f y) as [b|] eqn:E.
  - rewrite S in H. discriminate.
  - destruct Hin as [->|Hin]; auto.
Qed.

(** no decision of any configuration in the table is ambiguous *)
Theorem find_ambiguity_none f syms tbl : find_ambiguity f syms tbl = None ->
  forall K, In K tbl -> forall K1, In K1 (leaves (settle false f K)) -> forall s, In s syms ->
  ambiguous_at f K1 s = None.
Proof.
  intros H K HK K1 HK1 s Hs. unfold find_ambiguity in H.
  pose proof (fold_none_all (amb_of_cfg f syms) tbl H K HK) as H1. unfold amb_of_cfg in H1.
  pose proof (fold_none_all (fun K1 => fold_left (fun acc2 s => match acc2 with Some _ => acc2 | None =>
                   match ambiguous_at f K1 s with Some k => Some (K1, s, k) | None => None end end) syms None)
                _ H1 K1 HK1) as H2. cbn beta in H2.
  pose proof (fold_none_all (fun s => match ambiguous_at f K1 s with Some k => Some (K1, s, k) | None => None end) syms H2 s Hs) as H3.
  cbn beta in H3. destruct (ambiguous_at f K1 s); [discriminate|reflexivity].
Qed.

(** configurations the reading can be in after some input over syms (pauses at cuts included) *)
Section Reach.
Variable opts : cfg -> sym -> list rtree.
Variable st0 : rtree.
Variable syms : list sym.

Inductive reachable_by : cfg -> Prop :=
| R_start K : In K (succs_of st0 []) -> reachable_by K
| R_step K s o K2 : reachable_by K -> In s syms -> In o (opts K s) -> In K2 (succs_of o []) -> reachable_by K2.

Lemma mem_cfg_ex K l : mem_cfg K l = true -> exists K0, In K0 l /\ cfg_eqb K K0 = true.
Proof. unfold mem_cfg. intros H. apply existsb_exists in H as [K0 [Hin E]]. eauto. Qed.

(** every reachable configuration is in a closed table - stated for tables on whose entries the boolean
    equality used to name configurations is the identity *)
Theorem reachable_in_closed tbl : closed_under opts st0 syms tbl = true ->
  (forall K K0, In K0 tbl -> cfg_eqb K K0 = true -> K = K0) ->
  forall K, reachable_by K -> In K tbl.
Proof.
  intros HC Heq K HR. unfold closed_under in HC. apply andb_prop in HC as [H0 H1].
  rewrite forallb_forall in H0, H1.
  induction HR as [K Hin|K s o K2 HR IH Hs Ho Hk].
  - specialize (H0 K Hin). apply mem_cfg_ex in H0 as [K0 [Hin0 E]]. rewrite (Heq K K0 Hin0 E). exact Hin0.
  - specialize (H1 K IH). rewrite forallb_forall in H1. specialize (H1 s Hs).
    rewrite forallb_forall in H1. specialize (H1 o Ho). rewrite forallb_forall in H1. specialize (H1 K2 Hk).
    apply mem_cfg_ex in H1 as [K0 [Hin0 E]]. rewrite (Heq K2 K0 Hin0 E). exact Hin0.
Qed.
End Reach.

Definition reachable (syms : list sym) (p : list stmt) : cfg -> Prop := reachable_by options (start_tree p) syms.

Theorem reachable_in_table syms p tbl : table_closed syms p tbl = true ->
  (forall K K0, In K0 tbl -> cfg_eqb K K0 = true -> K = K0) ->
  forall K, reachable syms p K -> In K tbl.
Proof. exact (reachable_in_closed options (start_tree p) syms tbl). Qed.
