(** C09, the two halves put together: a passed [unambig_check] covers every configuration the reading can reach. *)
From Coq Require Import NArith Arith List Bool.
Import ListNotations.
From NV Require Import Machine.Dfa Regex.Re Ref.Lang Ref.LangEq Ref.RefSem Ref.Unambig.

Lemma unambig_generic f syms p tbl : table_closed syms p tbl = true -> find_ambiguity f syms tbl = None ->
  forall K, reachable syms p K -> forall K1, In K1 (leaves (settle false f K)) -> forall s, In s syms ->
  ambiguous_at f K1 s = None.
Proof.
  intros Hc Hf K HR. apply (find_ambiguity_none f syms tbl Hf K).
  apply (reachable_in_table syms p tbl Hc); [|exact HR]. intros A B _. apply cfg_eqb_ok.
Qed.

Lemma check_split {A} (b : bool) (o : option A) :
  b && match o with None => true | Some _ => false end = true -> b = true /\ o = None.
Proof. intros H. apply andb_prop in H as [H1 H2]. split; [exact H1|]. destruct o; [discriminate|reflexivity]. Qed.

Lemma unambig_generic2 f syms p tbl :
  table_closed syms p tbl && match find_ambiguity f syms tbl with None => true | Some _ => false end = true ->
  forall K, reachable syms p K -> forall K1, In K1 (leaves (settle false f K)) -> forall s, In s syms ->
  ambiguous_at f K1 s = None.
Proof. intros H. destruct (check_split _ _ H) as [H1 H2]. exact (unambig_generic f syms p tbl H1 H2). Qed.

Theorem unambig_check_sound syms p : unambig_check syms p = true ->
  forall K, reachable syms p K -> forall K1, In K1 (leaves (settle false ref_fuel K)) -> forall s, In s syms ->
  ambiguous_at ref_fuel K1 s = None.
Proof. exact (unambig_generic2 ref_fuel syms p (ref_table syms p)). Qed.
Print Assumptions unambig_check_sound.
