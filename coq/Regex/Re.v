(** Regular expressions over bytes (C07): the core language [re] with an inductive matching relation,
    Brzozowski derivatives with ACI-normalising smart constructors, decidable nullability and
    emptiness, and the correctness theorems

      nullable_correct : nullable r = true <-> matches r []
      deriv_correct    : matches r (b :: w) <-> matches (deriv b r) w
      void_correct     : void r = true <-> forall w, ~ matches r w

    A character class is a 256-bit set of bytes held in an [N] (bit b = byte b). *)
From Coq Require Import NArith Arith List Bool Lia.
Import ListNotations.

Inductive re :=
| Eps | Void
| Cls (s : N)
| Seq (a b : re)
| Alt (a b : re)
| Star (a : re).

Inductive matches : re -> list N -> Prop :=
| MEps : matches Eps []
| MCls s b : N.testbit s b = true -> matches (Cls s) [b]
| MSeq a b u v : matches a u -> matches b v -> matches (Seq a b) (u ++ v)
| MAltL a b w : matches a w -> matches (Alt a b) w
| MAltR a b w : matches b w -> matches (Alt a b) w
| MStar0 a : matches (Star a) []
| MStarS a u v : matches a u -> matches (Star a) v -> matches (Star a) (u ++ v).

(** ** inversion principles as equivalences *)
Lemma m_eps w : matches Eps w <-> w = [].
Proof. split; intros H. inversion H; auto. subst; constructor. Qed.
Lemma m_void w : matches Void w <-> False.
Proof. split; intros H; [inversion H | tauto]. Qed.
Lemma m_cls s w : matches (Cls s) w <-> exists b, w = [b] /\ N.testbit s b = true.
Proof. split; intros H. inversion H; subst; eauto. destruct H as (b & -> & H). constructor; auto. Qed.
Lemma m_seq a b w : matches (Seq a b) w <-> exists u v, w = u ++ v /\ matches a u /\ matches b v.
Proof. split; intros H. inversion H; subst; eauto. destruct H as (u & v & -> & H1 & H2). constructor; auto. Qed.
Lemma m_alt a b w : matches (Alt a b) w <-> matches a w \/ matches b w.
Proof. split; intros H. inversion H; subst; auto. destruct H; [apply MAltL | apply MAltR]; auto. Qed.

(** a non-empty word of a star starts with a non-empty word of the body *)
Lemma m_star_cons a c w : matches (Star a) (c :: w) ->
  exists u v, w = u ++ v /\ matches a (c :: u) /\ matches (Star a) v.
Proof.
  intros H. remember (Star a) as r eqn:Er. remember (c :: w) as x eqn:Ex.
  revert c w Ex. induction H; intros c w' Ex; try discriminate.
  injection Er as ->.
  destruct u as [|c' u].
  - simpl in Ex. apply IHmatches2; auto.
  - simpl in Ex. injection Ex as E1 E2. subst. exists u, v. auto.
Qed.

Lemma m_star_app a u v : matches (Star a) u -> matches (Star a) v -> matches (Star a) (u ++ v).
Proof.
  intros H. remember (Star a) as r eqn:Er. revert Er. induction H; intros Er Hv; try discriminate.
  - simpl; auto.
  - injection Er as ->. rewrite <- app_assoc. apply MStarS; auto.
Qed.

Lemma m_star_one a w : matches a w -> matches (Star a) w.
Proof. intros H. rewrite <- (app_nil_r w). apply MStarS; auto. constructor. Qed.

(** ** a total order on terms (used to keep alternations sorted and duplicate-free) *)
Definition tag (r : re) : nat :=
  match r with Eps => 0 | Void => 1 | Cls _ => 2 | Seq _ _ => 3 | Alt _ _ => 4 | Star _ => 5 end.

Fixpoint re_cmp (a b : re) : comparison :=
  match a, b with
  | Eps, Eps => Eq
  | Void, Void => Eq
  | Cls s, Cls t => N.compare s t
  | Seq a1 a2, Seq b1 b2 => match re_cmp a1 b1 with Eq => re_cmp a2 b2 | c => c end
  | Alt a1 a2, Alt b1 b2 => match re_cmp a1 b1 with Eq => re_cmp a2 b2 | c => c end
  | Star a1, Star b1 => re_cmp a1 b1
  | _, _ => Nat.compare (tag a) (tag b)
  end.

Lemma re_cmp_eq a : forall b, re_cmp a b = Eq -> a = b.
Proof.
  induction a as [| |s|a1 IH1 a2 IH2|a1 IH1 a2 IH2|a1 IH1]; intros [| |t|b1 b2|b1 b2|b1]; simpl; try discriminate; auto.
  - intros H. apply N.compare_eq in H. subst; auto.
  - destruct (re_cmp a1 b1) eqn:E; try discriminate. intros H. rewrite (IH1 _ E), (IH2 _ H); auto.
  - destruct (re_cmp a1 b1) eqn:E; try discriminate. intros H. rewrite (IH1 _ E), (IH2 _ H); auto.
  - intros H. rewrite (IH1 _ H); auto.
Qed.

Lemma re_cmp_refl a : re_cmp a a = Eq.
Proof. induction a; simpl; auto. apply N.compare_refl. rewrite IHa1; auto. rewrite IHa1; auto. Qed.

Definition re_eqb (a b : re) : bool := match re_cmp a b with Eq => true | _ => false end.
Lemma re_eqb_eq a b : re_eqb a b = true -> a = b.
Proof. unfold re_eqb. destruct (re_cmp a b) eqn:E; try discriminate. intros _. apply re_cmp_eq; auto. Qed.
Lemma re_eqb_refl a : re_eqb a a = true.
Proof. unfold re_eqb. rewrite re_cmp_refl. auto. Qed.

(** ** smart constructors *)
(** sequences are right-nested, [Eps] is the unit, [Void] the zero *)
Fixpoint seq_app (a b : re) : re :=
  match a with
  | Void => Void
  | Eps => b
  | Seq a1 a2 => Seq a1 (seq_app a2 b)
  | _ => Seq a b
  end.
Definition mkSeq (a b : re) : re :=
  match b with
  | Void => Void
  | Eps => a
  | _ => seq_app a b
  end.

(** alternations are right-nested lists, sorted by [re_cmp], without duplicates and without [Void] *)
Fixpoint alt_ins (x l : re) : re :=
  match l with
  | Alt y l' => match re_cmp x y with Eq => l | Lt => Alt x l | Gt => Alt y (alt_ins x l') end
  | Void => x
  | y => match re_cmp x y with Eq => y | Lt => Alt x y | Gt => Alt y x end
  end.
Fixpoint mkAlt (a b : re) : re :=
  match a with
  | Alt x a' => alt_ins x (mkAlt a' b)
  | Void => b
  | x => alt_ins x b
  end.

Definition mkStar (a : re) : re :=
  match a with
  | Star _ => a
  | Eps => Eps
  | Void => Eps
  | _ => Star a
  end.

Lemma seq_app_ok a : forall b w, matches (seq_app a b) w <-> matches (Seq a b) w.
Proof.
  induction a as [| |s|a1 IH1 a2 IH2|a1 IH1 a2 IH2|a1 IH1]; intros b w; simpl; try tauto.
  - rewrite m_seq. split.
    + intros H. exists [], w. split; auto. split; auto. constructor.
    + intros (u & v & -> & Hu & Hv). apply m_eps in Hu. subst. auto.
  - rewrite m_seq. split; [intros H; inversion H|]. intros (u & v & _ & Hu & _). inversion Hu.
  - rewrite !m_seq. split.
    + intros (u & v & -> & Hu & Hv). apply IH2 in Hv. apply m_seq in Hv. destruct Hv as (v1 & v2 & -> & Hv1 & Hv2).
      exists (u ++ v1), v2. rewrite app_assoc. split; auto. split; auto. constructor; auto.
    + intros (u & v & -> & Hu & Hv). apply m_seq in Hu. destruct Hu as (u1 & u2 & -> & Hu1 & Hu2).
      exists u1, (u2 ++ v). rewrite <- app_assoc. split; auto. split; auto. apply IH2. constructor; auto.
Qed.

Lemma mkSeq_ok a b w : matches (mkSeq a b) w <-> matches (Seq a b) w.
Proof.
  destruct b; simpl; try apply seq_app_ok.
  - rewrite m_seq. split.
    + intros H. exists w, []. rewrite app_nil_r. split; auto. split; auto. constructor.
    + intros (u & v & -> & Hu & Hv). apply m_eps in Hv. subst. rewrite app_nil_r. auto.
  - rewrite m_seq. split; [intros H; inversion H|]. intros (u & v & _ & _ & Hv). inversion Hv.
Qed.

Lemma alt_ins_ok x l : forall w, matches (alt_ins x l) w <-> matches x w \/ matches l w.
Proof.
  induction l as [| |s|l1 IH1 l2 IH2|l1 IH1 l2 IH2|l1 IH1]; intros w; simpl.
  1,3,4,6: destruct (re_cmp x _) eqn:E; [apply re_cmp_eq in E; subst; tauto | rewrite m_alt; tauto | rewrite m_alt; tauto].
  - rewrite m_void. tauto.
  - destruct (re_cmp x l1) eqn:E.
    + apply re_cmp_eq in E; subst. rewrite m_alt. tauto.
    + rewrite !m_alt. tauto.
    + rewrite !m_alt, IH2. tauto.
Qed.

Lemma mkAlt_ok a : forall b w, matches (mkAlt a b) w <-> matches (Alt a b) w.
Proof.
  induction a as [| |s|a1 IH1 a2 IH2|a1 IH1 a2 IH2|a1 IH1]; intros b w; simpl; rewrite ?alt_ins_ok, ?m_alt; try tauto.
  - rewrite m_void. tauto.
  - rewrite IH2, !m_alt. tauto.
Qed.

Lemma m_star_eps w : matches (Star Eps) w <-> w = [].
Proof.
  split.
  - intros H. remember (Star Eps) as r eqn:Er. induction H; try discriminate; auto.
    injection Er as ->. inversion H; subst. simpl. auto.
  - intros ->. constructor.
Qed.
Lemma m_star_void w : matches (Star Void) w <-> w = [].
Proof.
  split.
  - intros H. remember (Star Void) as r eqn:Er. induction H; try discriminate; auto.
    injection Er as ->. inversion H.
  - intros ->. constructor.
Qed.
Lemma m_star_star a w : matches (Star (Star a)) w <-> matches (Star a) w.
Proof.
  split.
  - intros H. remember (Star (Star a)) as r eqn:Er. induction H; try discriminate.
    + constructor.
    + injection Er as ->. apply m_star_app; auto.
  - apply m_star_one.
Qed.

Lemma mkStar_ok a w : matches (mkStar a) w <-> matches (Star a) w.
Proof.
  destruct a; simpl; try tauto.
  - rewrite m_star_eps. apply m_eps.
  - rewrite m_star_void. apply m_eps.
  - symmetry. apply m_star_star.
Qed.

(** ** nullability, derivatives, emptiness *)
Fixpoint nullable (r : re) : bool :=
  match r with
  | Eps => true | Void => false | Cls _ => false
  | Seq a b => nullable a && nullable b
  | Alt a b => nullable a || nullable b
  | Star _ => true
  end.

Fixpoint deriv (c : N) (r : re) : re :=
  match r with
  | Eps => Void
  | Void => Void
  | Cls s => if N.testbit s c then Eps else Void
  | Seq a b => if nullable a then mkAlt (mkSeq (deriv c a) b) (deriv c b) else mkSeq (deriv c a) b
  | Alt a b => mkAlt (deriv c a) (deriv c b)
  | Star a => mkSeq (deriv c a) (mkStar a)
  end.

Fixpoint void (r : re) : bool :=
  match r with
  | Eps => false | Void => true
  | Cls s => N.eqb s 0
  | Seq a b => void a || void b
  | Alt a b => void a && void b
  | Star _ => false
  end.

Theorem nullable_correct r : nullable r = true <-> matches r [].
Proof.
  induction r as [| |s|a IHa b IHb|a IHa b IHb|a IHa]; simpl.
  - split; auto. intros _. constructor.
  - split; [discriminate | intros H; inversion H].
  - split; [discriminate | intros H; inversion H].
  - rewrite andb_true_iff, IHa, IHb, m_seq. split.
    + intros [H1 H2]. exists [], []. auto.
    + intros (u & v & E & H1 & H2). symmetry in E. apply app_eq_nil in E. destruct E; subst; auto.
  - rewrite orb_true_iff, IHa, IHb, m_alt. tauto.
  - split; auto. intros _. constructor.
Qed.

Theorem deriv_correct r : forall c w, matches r (c :: w) <-> matches (deriv c r) w.
Proof.
  induction r as [| |s|a IHa b IHb|a IHa b IHb|a IHa]; intros c w; simpl.
  - rewrite m_eps, m_void. split; [discriminate | tauto].
  - rewrite !m_void. tauto.
  - rewrite m_cls. destruct (N.testbit s c) eqn:E.
    + rewrite m_eps. split.
      * intros (b & Eb & _). injection Eb as _ ->. auto.
      * intros ->. exists c. auto.
    + rewrite m_void. split; [|tauto]. intros (b & Eb & Hb). injection Eb as -> _. congruence.
  - assert (Hseq : matches (Seq a b) (c :: w) <->
                   (matches (Seq (deriv c a) b) w \/ (nullable a = true /\ matches (deriv c b) w))).
    { rewrite !m_seq. split.
      - intros (u & v & E & Hu & Hv). destruct u as [|c' u].
        + simpl in E. subst v. right. split. apply nullable_correct; auto. apply IHb; auto.
        + simpl in E. injection E as -> ->. left. exists u, v. split; auto. split; auto. apply IHa; auto.
      - intros [(u & v & -> & Hu & Hv) | [Hn Hb]].
        + exists (c :: u), v. split; auto. split; auto. apply IHa; auto.
        + exists [], (c :: w). split; auto. split. apply nullable_correct; auto. apply IHb; auto. }
    rewrite Hseq. destruct (nullable a).
    + rewrite mkAlt_ok, m_alt, mkSeq_ok. intuition.
    + rewrite mkSeq_ok. intuition discriminate.
  - rewrite mkAlt_ok, !m_alt, IHa, IHb. tauto.
  - rewrite mkSeq_ok, m_seq. split.
    + intros H. apply m_star_cons in H. destruct H as (u & v & -> & Hu & Hv).
      exists u, v. split; auto. split. apply IHa; auto. apply mkStar_ok; auto.
    + intros (u & v & -> & Hu & Hv). apply IHa in Hu. apply mkStar_ok in Hv.
      change (c :: u ++ v) with ((c :: u) ++ v). apply MStarS; auto.
Qed.

Lemma void_sound r : void r = true -> forall w, ~ matches r w.
Proof.
  induction r as [| |s|a IHa b IHb|a IHa b IHb|a IHa]; simpl; intros H w M; try discriminate.
  - inversion M.
  - apply N.eqb_eq in H. subst. inversion M; subst. rewrite N.bits_0 in *. discriminate.
  - apply m_seq in M. destruct M as (u & v & _ & Hu & Hv). apply orb_true_iff in H. destruct H as [H|H].
    + eapply IHa; eauto.
    + eapply IHb; eauto.
  - apply andb_true_iff in H. destruct H as [H1 H2]. apply m_alt in M. destruct M as [M|M].
    + eapply IHa; eauto.
    + eapply IHb; eauto.
Qed.

Lemma void_complete r : void r = false -> exists w, matches r w.
Proof.
  induction r as [| |s|a IHa b IHb|a IHa b IHb|a IHa]; simpl; intros H; try discriminate.
  - exists []. constructor.
  - apply N.eqb_neq in H. exists [N.log2 s]. constructor. apply N.bit_log2; auto.
  - apply orb_false_iff in H. destruct H as [H1 H2].
    destruct (IHa H1) as (u & Hu). destruct (IHb H2) as (v & Hv). exists (u ++ v). constructor; auto.
  - apply andb_false_iff in H. destruct H as [H|H].
    + destruct (IHa H) as (u & Hu). exists u. apply MAltL; auto.
    + destruct (IHb H) as (u & Hu). exists u. apply MAltR; auto.
  - exists []. constructor.
Qed.

Theorem void_correct r : void r = true <-> forall w, ~ matches r w.
Proof.
  split. apply void_sound.
  intros H. destruct (void r) eqn:E; auto. destruct (void_complete r E) as (w & Hw). exfalso. eapply H; eauto.
Qed.

(** ** iterated derivatives *)
Definition derivs (r : re) (w : list N) : re := fold_left (fun r c => deriv c r) w r.

Lemma derivs_app r u v : derivs r (u ++ v) = derivs (derivs r u) v.
Proof. unfold derivs. apply fold_left_app. Qed.

Theorem derivs_correct u : forall r v, matches r (u ++ v) <-> matches (derivs r u) v.
Proof.
  induction u as [|c u IH]; intros r v; simpl. tauto.
  rewrite deriv_correct. apply IH.
Qed.

Corollary derivs_nullable r w : nullable (derivs r w) = true <-> matches r w.
Proof. rewrite nullable_correct, <- derivs_correct, app_nil_r. tauto. Qed.

(** [void (derivs r p) = true]: no member of the language extends the prefix [p] *)
Corollary derivs_void r p : void (derivs r p) = true <-> forall u, ~ matches r (p ++ u).
Proof.
  rewrite void_correct. split; intros H u M; apply (H u); apply derivs_correct; auto.
Qed.
Corollary derivs_nonvoid r p : void (derivs r p) = false <-> exists u, matches r (p ++ u).
Proof.
  split.
  - intros H. destruct (void_complete _ H) as (u & Hu). exists u. apply derivs_correct; auto.
  - intros (u & Hu). destruct (void (derivs r p)) eqn:E; auto.
    exfalso. eapply derivs_void; eauto.
Qed.

Lemma deriv_void_mono c r : void r = true -> void (deriv c r) = true.
Proof.
  intros H. apply void_correct. intros w M. apply deriv_correct in M. eapply void_sound; eauto.
Qed.

(** ** the 256 byte values *)
Definition bytes256 : list N := map N.of_nat (seq 0 256).

Lemma in_bytes256 b : In b bytes256 <-> (b < 256)%N.
Proof.
  unfold bytes256. rewrite in_map_iff. split.
  - intros (n & <- & Hn). apply in_seq in Hn. lia.
  - intros H. exists (N.to_nat b). split. apply N2Nat.id. apply in_seq. lia.
Qed.

(** a dead expression ("final": nothing can follow) *)
Definition final (r : re) : bool := forallb (fun c => void (deriv c r)) bytes256.

Lemma final_correct r : final r = true -> forall c, (c < 256)%N -> void (deriv c r) = true.
Proof. unfold final. rewrite forallb_forall. intros H c Hc. apply H. apply in_bytes256; auto. Qed.
