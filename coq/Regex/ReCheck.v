(** Translation validation of compiled regular expressions (C07).

    [re_dfa_check r d R] is a certificate checker: [R] is a candidate relation between derivative
    terms of [r] and state indices of the exported machine [d], found by an untrusted search.  The
    checker verifies that (r, start) is in [R] and that, for every pair (r', q) of [R]:
      - q is accepting exactly when r' is nullable;
      - for every byte c (0..255), what the machine does on c in q ([Sem.step_tree]) agrees with
        the derivative: it consumes c into a state related to [deriv c r'] when that derivative has
        a non-empty language, it returns DONE on c only when [deriv c r'] is nullable and nothing can
        follow it, and it returns FAIL without consuming c exactly when [deriv c r'] is void;
      - on end-of-input the machine neither consumes nor continues.

    The soundness theorems below hold for ALL byte strings and for every data semantics (the
    machines of pure regex programs perform no data action, which the checker also verifies: every
    step tree must be a single leaf). *)
From Coq Require Import NArith Arith List Bool Lia.
Import ListNotations.
From NV Require Import Machine.Dfa Machine.Sem Regex.Re.

Arguments f_res {D} _.
Arguments f_q {D} _.
Arguments f_x {D} _.
Arguments f_consumed {D} _.
Arguments f_evs {D} _.

Definition rel := list (re * nat).

Definition in_rel (R : rel) (r : re) (q : nat) : bool :=
  existsb (fun p => Nat.eqb (snd p) q && re_eqb (fst p) r) R.

Definition check_byte (d : dfa) (R : rel) (r : re) (q : nat) (c : N) : bool :=
  let r' := deriv c r in
  match step_tree d q c with
  | Leaf (LConsume q') => negb (void r') && in_rel R r' q'
  | Leaf (LRet RFail _ false) => void r'
  | Leaf (LRet RDone q' false) => nullable r' && final r' && in_rel R r' q'
  | _ => false
  end.

Definition check_end (d : dfa) (r : re) (q : nat) : bool :=
  match step_tree d q sym_end with
  | Leaf (LRet RFail _ _) => true
  | Leaf (LRet RDone _ _) => nullable r
  | _ => false
  end.

Definition check_pair (d : dfa) (R : rel) (p : re * nat) : bool :=
  Bool.eqb (accepting d (snd p)) (nullable (fst p))
  && forallb (check_byte d R (fst p) (snd p)) bytes256
  && check_end d (fst p) (snd p).

Definition re_dfa_check (r : re) (d : dfa) (R : rel) : bool :=
  in_rel R r (d_start d) && forallb (check_pair d R) R.

(** [alive r w]: after every byte of [w] some member of the language of [r] is still reachable *)
Fixpoint alive (r : re) (w : list N) : bool :=
  match w with
  | [] => true
  | c :: w' => negb (void (deriv c r)) && alive (deriv c r) w'
  end.

Definition bytes (w : list N) : Prop := Forall (fun b => (b < 256)%N) w.

Lemma nullable_nonvoid r : nullable r = true -> void r = false.
Proof.
  intros H. destruct (void r) eqn:E; auto. exfalso.
  apply nullable_correct in H. eapply void_sound; eauto.
Qed.

Lemma derivs_cons r c w : derivs r (c :: w) = derivs (deriv c r) w.
Proof. reflexivity. Qed.

Lemma derivs_snoc r p c : derivs r (p ++ [c]) = deriv c (derivs r p).
Proof. rewrite derivs_app. reflexivity. Qed.

Lemma alive_prefix p : forall r m, alive r p = true -> m < length p -> void (derivs r (firstn (S m) p)) = false.
Proof.
  induction p as [|c p IH]; intros r m H Hm; simpl in Hm. lia.
  simpl in H. apply andb_true_iff in H. destruct H as [H1 H2]. apply negb_true_iff in H1.
  destruct m as [|m].
  - simpl. destruct p; auto.
  - change (firstn (S (S m)) (c :: p)) with (c :: firstn (S m) p). rewrite derivs_cons. apply IH; auto. lia.
Qed.

Lemma alive_app p : forall r s, alive r (p ++ s) = alive r p && alive (derivs r p) s.
Proof.
  induction p as [|c p IH]; intros r s; simpl. auto.
  rewrite IH. rewrite andb_assoc. reflexivity.
Qed.

Lemma firstn_app_le {A} n (p s : list A) : n <= length p -> firstn n (p ++ s) = firstn n p.
Proof.
  intros H. rewrite firstn_app. replace (n - length p) with 0 by lia. simpl. apply app_nil_r.
Qed.

Lemma firstn_app_snoc {A} (p : list A) c s : firstn (S (length p)) (p ++ c :: s) = p ++ [c].
Proof.
  rewrite firstn_app. replace (S (length p) - length p) with 1 by lia.
  rewrite firstn_all2 by lia. reflexivity.
Qed.

Section Soundness.
Variable D : Type.
Variable exec : pid -> sym -> D -> D.
Variable evalt : tid -> sym -> D -> bool.

Notation feed_go := (feed_go D exec evalt).
Notation end_call := (end_call D exec evalt).

Lemma feed_go_cons d c w q x n acc :
  feed_go d (c :: w) q x n acc =
  match eval D exec evalt (step_tree d q c) c x with
  | None => None
  | Some (es, LConsume q', x') => feed_go d w q' x' (S n) (acc ++ es)
  | Some (es, LRet rc q' adv, x') =>
      Some {| f_res := rc; f_q := q'; f_x := x'; f_consumed := if adv then S n else n; f_evs := acc ++ es |}
  end.
Proof. reflexivity. Qed.

Variable d : dfa.
Variable R : rel.
Hypothesis Hall : forallb (check_pair d R) R = true.

Lemma pair_checked r q : in_rel R r q = true -> check_pair d R (r, q) = true.
Proof.
  unfold in_rel. rewrite existsb_exists. intros ((r0, q0) & Hin & H). simpl in H.
  apply andb_true_iff in H. destruct H as [H1 H2]. apply Nat.eqb_eq in H1. apply re_eqb_eq in H2. subst.
  apply (proj1 (forallb_forall _ _) Hall); auto.
Qed.

Lemma pair_acc r q : in_rel R r q = true -> accepting d q = nullable r.
Proof.
  intros H. apply pair_checked in H. unfold check_pair in H. cbn [fst snd] in H.
  apply andb_true_iff in H. destruct H as [H _]. apply andb_true_iff in H. destruct H as [H _].
  apply eqb_prop in H. auto.
Qed.

Lemma pair_byte r q c : in_rel R r q = true -> (c < 256)%N -> check_byte d R r q c = true.
Proof.
  intros H Hc. apply pair_checked in H. unfold check_pair in H. cbn [fst snd] in H.
  apply andb_true_iff in H. destruct H as [H _]. apply andb_true_iff in H. destruct H as [_ H].
  rewrite forallb_forall in H. apply H. apply in_bytes256; auto.
Qed.

Lemma pair_end r q : in_rel R r q = true -> check_end d r q = true.
Proof.
  intros H. apply pair_checked in H. unfold check_pair in H. cbn [fst snd] in H.
  apply andb_true_iff in H. destruct H as [_ H]. auto.
Qed.

(** the invariant carried along a run *)
Definition run_post (r : re) (w : list N) (n : nat) (fr : fret D) : Prop :=
  match f_res fr with
  | ROk => f_consumed fr = n + length w /\ alive r w = true /\ in_rel R (derivs r w) (f_q fr) = true
  | RDone => exists p c s, w = p ++ c :: s /\ f_consumed fr = n + length p /\ alive r (p ++ [c]) = true /\
               nullable (derivs r (p ++ [c])) = true /\ final (derivs r (p ++ [c])) = true /\
               in_rel R (derivs r (p ++ [c])) (f_q fr) = true
  | RFail => exists p c s, w = p ++ c :: s /\ f_consumed fr = n + length p /\ alive r p = true /\
               void (derivs r (p ++ [c])) = true
  | _ => False
  end.

Lemma run_inv w : forall r q x n acc, in_rel R r q = true -> bytes w ->
  exists fr, feed_go d w q x n acc = Some fr /\ f_x fr = x /\ f_evs fr = acc /\ run_post r w n fr.
Proof.
  induction w as [|c w IH]; intros r q x n acc HR Hw.
  - eexists. split. reflexivity. simpl. split; auto. split; auto. unfold run_post. simpl.
    split. lia. split; auto.
  - inversion Hw as [|c0 w0 Hc Hw']; subst.
    pose proof (pair_byte r q c HR Hc) as Hb. unfold check_byte in Hb.
    rewrite feed_go_cons.
    destruct (step_tree d q c) as [l| | |] eqn:Et; try discriminate.
    destruct l as [q'|rc q' adv].
    + (* consumed *)
      apply andb_true_iff in Hb. destruct Hb as [Hv Hin].
      cbn [eval]. destruct (IH (deriv c r) q' x (S n) (acc ++ []) Hin Hw') as (fr & Hf & Hx & He & Hp).
      exists fr. split; auto. split; auto. split. rewrite He. apply app_nil_r.
      unfold run_post in *. destruct (f_res fr); auto.
      * destruct Hp as (H1 & H2 & H3). split. simpl. lia. split. simpl. rewrite Hv, H2. auto.
        rewrite derivs_cons. auto.
      * destruct Hp as (p & c' & s & -> & H1 & H2 & H3).
        exists (c :: p), c', s. split; auto. split. simpl. lia. split. simpl. rewrite Hv, H2. auto.
        change ((c :: p) ++ [c']) with (c :: (p ++ [c'])). rewrite derivs_cons. auto.
      * destruct Hp as (p & c' & s & -> & H1 & H2 & H3 & H4 & H5).
        exists (c :: p), c', s. split; auto. split. simpl. lia.
        change ((c :: p) ++ [c']) with (c :: (p ++ [c'])). rewrite derivs_cons.
        split. simpl. rewrite Hv. auto. auto.
    + destruct rc; try discriminate; destruct adv; try discriminate; cbn [eval].
      * (* FAIL *)
        eexists. split. reflexivity. simpl. split; auto. split. apply app_nil_r.
        unfold run_post. simpl. exists [], c, w. simpl. repeat split; auto.
      * (* immediate DONE *)
        apply andb_true_iff in Hb. destruct Hb as [Hb Hin]. apply andb_true_iff in Hb. destruct Hb as [Hn Hf].
        eexists. split. reflexivity. simpl. split; auto. split. apply app_nil_r.
        unfold run_post. simpl. exists [], c, w. simpl. rewrite (nullable_nonvoid _ Hn). simpl. repeat split; auto.
Qed.

(** from a pair whose expression is final every byte is refused at once *)
Definition refuses_all (q : nat) : Prop :=
  forall c w x, (c < 256)%N -> exists fr, feed_go d (c :: w) q x 0 [] = Some fr /\ f_res fr = RFail /\ f_consumed fr = 0.

Lemma final_refuses r q : in_rel R r q = true -> final r = true -> refuses_all q.
Proof.
  intros HR Hf c w x Hc. pose proof (pair_byte r q c HR Hc) as Hb. unfold check_byte in Hb.
  pose proof (final_correct r Hf c Hc) as Hv.
  rewrite feed_go_cons.
  destruct (step_tree d q c) as [l| | |] eqn:Et; try discriminate.
  destruct l as [q'|rc q' adv].
  - rewrite Hv in Hb. discriminate.
  - destruct rc; try discriminate; destruct adv; try discriminate; cbn [eval].
    + eexists. split. reflexivity. auto.
    + apply andb_true_iff in Hb. destruct Hb as [Hb _]. apply andb_true_iff in Hb. destruct Hb as [Hn _].
      rewrite (nullable_nonvoid _ Hn) in Hv. discriminate.
Qed.

Variable r0 : re.
Hypothesis Hstart : in_rel R r0 (d_start d) = true.

Definition mrun (w : list N) (x : D) : option (fret D) := feed_go d w (d_start d) x 0 [].

(** what a run from the start state returns, in terms of derivatives *)
Definition outcome (w : list N) (fr : fret D) : Prop :=
  match f_res fr with
  | ROk => f_consumed fr = length w /\ alive r0 w = true /\ accepting d (f_q fr) = nullable (derivs r0 w)
  | RDone => exists p c s, w = p ++ c :: s /\ f_consumed fr = length p /\ alive r0 (p ++ [c]) = true /\
               nullable (derivs r0 (p ++ [c])) = true /\ final (derivs r0 (p ++ [c])) = true /\
               accepting d (f_q fr) = true /\ refuses_all (f_q fr)
  | RFail => exists p c s, w = p ++ c :: s /\ f_consumed fr = length p /\ alive r0 p = true /\
               void (derivs r0 (p ++ [c])) = true
  | _ => False
  end.

Lemma run_outcome w x : bytes w ->
  exists fr, mrun w x = Some fr /\ f_x fr = x /\ f_evs fr = [] /\ outcome w fr /\
             (f_res fr = ROk -> in_rel R (derivs r0 w) (f_q fr) = true).
Proof.
  intros Hw. destruct (run_inv w r0 (d_start d) x 0 [] Hstart Hw) as (fr & Hf & Hx & He & Hp).
  exists fr. split; auto. split; auto. split; auto. unfold run_post in Hp. unfold outcome.
  destruct (f_res fr); try tauto.
  - destruct Hp as (H1 & H2 & H3). split; [|auto]. split; auto. split; auto. apply pair_acc; auto.
  - split; [|discriminate]. destruct Hp as (p & c & s & H1 & H2 & H3 & H4).
    exists p, c, s. split; auto.
  - split; [|discriminate]. destruct Hp as (p & c & s & H1 & H2 & H3 & H4 & H5 & H6).
    exists p, c, s. split; auto. split; auto. split; auto. split; auto. split; auto.
    split. rewrite (pair_acc _ _ H6). auto. eapply final_refuses; eauto.
Qed.

(** ** the matcher accepts exactly the language *)
Definition accepts (w : list N) (x : D) : Prop :=
  exists fr, mrun w x = Some fr /\
    ((f_res fr = ROk /\ accepting d (f_q fr) = true) \/ (f_res fr = RDone /\ S (f_consumed fr) = length w)).

Theorem accepts_iff_matches w x : bytes w -> (accepts w x <-> matches r0 w).
Proof.
  intros Hw. destruct (run_outcome w x Hw) as (fr & Hf & _ & _ & Ho & _). unfold outcome in Ho. split.
  - intros (fr' & Hf' & H). rewrite Hf in Hf'. injection Hf' as <-. destruct H as [[E Ha]|[E Hn]]; rewrite E in Ho.
    + destruct Ho as (_ & _ & H). apply derivs_nullable. congruence.
    + destruct Ho as (p & c & s & -> & H1 & _ & H2 & _).
      rewrite app_length in Hn. simpl in Hn. assert (s = []) by (destruct s; auto; simpl in Hn; lia). subst.
      apply derivs_nullable. auto.
  - intros M. exists fr. split; auto. destruct (f_res fr) eqn:E; try tauto.
    + left. split; auto. destruct Ho as (_ & _ & ->). apply derivs_nullable; auto.
    + exfalso. destruct Ho as (p & c & s & -> & _ & _ & Hv).
      apply (proj1 (derivs_void r0 (p ++ [c])) Hv s). rewrite <- app_assoc. auto.
    + right. split; auto. destruct Ho as (p & c & s & -> & H1 & _ & _ & Hfin & _).
      destruct s as [|c' s].
      * rewrite app_length. simpl. lia.
      * exfalso. apply Forall_app in Hw. destruct Hw as [_ Hw]. inversion Hw as [|? ? _ Hw']; subst.
        inversion Hw' as [|? ? Hc' _]; subst.
        pose proof (final_correct _ Hfin c' Hc') as Hv. rewrite <- derivs_snoc in Hv.
        apply (proj1 (derivs_void r0 ((p ++ [c]) ++ [c'])) Hv s).
        rewrite <- !app_assoc. simpl. auto.
Qed.

(** ** a mismatch is reported at exactly the first byte after which no member of the language is reachable *)
Theorem fail_is_first_dead_byte w x fr : bytes w -> mrun w x = Some fr -> f_res fr = RFail ->
  let n := f_consumed fr in
  n < length w /\
  (forall u, ~ matches r0 (firstn (S n) w ++ u)) /\
  (forall m, m < n -> exists u, matches r0 (firstn (S m) w ++ u)).
Proof.
  intros Hw Hf E. destruct (run_outcome w x Hw) as (fr' & Hf' & _ & _ & Ho & _).
  rewrite Hf in Hf'. injection Hf' as <-. unfold outcome in Ho. rewrite E in Ho.
  destruct Ho as (p & c & s & -> & -> & Ha & Hv). cbn zeta. split; [|split].
  - rewrite app_length. simpl. lia.
  - rewrite firstn_app_snoc. apply derivs_void; auto.
  - intros m Hm. rewrite firstn_app_le by lia. apply derivs_nonvoid. apply alive_prefix; auto.
Qed.

Theorem first_dead_byte_is_reported w x n : bytes w -> n < length w ->
  (forall u, ~ matches r0 (firstn (S n) w ++ u)) ->
  (forall m, m < n -> exists u, matches r0 (firstn (S m) w ++ u)) ->
  exists fr, mrun w x = Some fr /\
    ((f_res fr = RFail /\ f_consumed fr = n) \/
     (f_res fr = RDone /\ S (f_consumed fr) = n /\ refuses_all (f_q fr))).
Proof.
  intros Hw Hn Hdead Hlive. destruct (run_outcome w x Hw) as (fr & Hf & _ & _ & Ho & _).
  exists fr. split; auto. unfold outcome in Ho.
  apply derivs_void in Hdead.
  assert (Hlive' : forall m, m < n -> void (derivs r0 (firstn (S m) w)) = false).
  { intros m Hm. apply derivs_nonvoid. auto. }
  destruct (f_res fr) eqn:E; try tauto.
  - exfalso. destruct Ho as (_ & Ha & _). rewrite (alive_prefix w r0 n Ha Hn) in Hdead. discriminate.
  - left. split; auto. destruct Ho as (p & c & s & -> & -> & Ha & Hv).
    destruct (Nat.lt_trichotomy (length p) n) as [Hlt|[Heq|Hgt]]; auto; exfalso.
    + specialize (Hlive' (length p) Hlt). rewrite firstn_app_snoc in Hlive'. congruence.
    + rewrite firstn_app_le in Hdead by lia. rewrite (alive_prefix p r0 n Ha Hgt) in Hdead. discriminate.
  - right. split; auto. destruct Ho as (p & c & s & -> & -> & Ha & _ & Hfin & _ & Hr). split; auto.
    destruct (Nat.lt_trichotomy (S (length p)) n) as [Hlt|[Heq|Hgt]]; auto; exfalso.
    + (* the byte after the DONE byte is already dead *)
      specialize (Hlive' (S (length p)) Hlt).
      rewrite app_length in Hn. simpl in Hn. destruct s as [|c' s]; [simpl in Hn; lia|].
      apply Forall_app in Hw. destruct Hw as [_ Hw]. inversion Hw as [|? ? _ Hw']; subst.
      inversion Hw' as [|? ? Hc' _]; subst.
      pose proof (final_correct _ Hfin c' Hc') as Hv. rewrite <- derivs_snoc in Hv.
      replace (p ++ c :: c' :: s) with (((p ++ [c]) ++ [c']) ++ s) in Hlive' by (rewrite <- !app_assoc; reflexivity).
      rewrite firstn_app_le in Hlive' by (rewrite !app_length; simpl; lia).
      rewrite firstn_all2 in Hlive' by (rewrite !app_length; simpl; lia). congruence.
    + replace (p ++ c :: s) with ((p ++ [c]) ++ s) in Hdead by (rewrite <- app_assoc; reflexivity).
      rewrite firstn_app_le in Hdead by (rewrite app_length; simpl; lia).
      rewrite (alive_prefix (p ++ [c]) r0 n Ha) in Hdead. discriminate. rewrite app_length. simpl. lia.
Qed.

(** ** end-of-input is never consumed and never continues the expression *)
Theorem end_not_matched w x fr : bytes w -> mrun w x = Some fr -> f_res fr = ROk ->
  exists fe, end_call d (f_q fr) (f_x fr) = Some fe /\ f_evs fe = [] /\
             (f_res fe = RFail \/ (f_res fe = RDone /\ matches r0 w)).
Proof.
  intros Hw Hf E. destruct (run_outcome w x Hw) as (fr' & Hf' & _ & _ & _ & HR).
  rewrite Hf in Hf'. injection Hf' as <-. specialize (HR E).
  pose proof (pair_end _ _ HR) as He. unfold check_end in He. unfold Sem.end_call.
  destruct (step_tree d (f_q fr) sym_end) as [l| | |]; try discriminate.
  destruct l as [q'|rc q' adv]; try discriminate. destruct rc; try discriminate; cbn [eval].
  - eexists. split. reflexivity. simpl. auto.
  - eexists. split. reflexivity. simpl. split; auto. right. split; auto. apply derivs_nullable; auto.
Qed.

End Soundness.

(** ** the theorems for a certified pair *)
Section Certified.
Variable D : Type.
Variable exec : pid -> sym -> D -> D.
Variable evalt : tid -> sym -> D -> bool.
Variables (r : re) (d : dfa) (R : rel).
Hypothesis Hcheck : re_dfa_check r d R = true.

Lemma cert_start : in_rel R r (d_start d) = true.
Proof. unfold re_dfa_check in Hcheck. apply andb_true_iff in Hcheck. tauto. Qed.
Lemma cert_all : forallb (check_pair d R) R = true.
Proof. unfold re_dfa_check in Hcheck. apply andb_true_iff in Hcheck. tauto. Qed.

Definition recheck_run := run_outcome D exec evalt d R cert_all r cert_start.
Definition recheck_language := accepts_iff_matches D exec evalt d R cert_all r cert_start.
Definition recheck_fail_first_dead := fail_is_first_dead_byte D exec evalt d R cert_all r cert_start.
Definition recheck_dead_reported := first_dead_byte_is_reported D exec evalt d R cert_all r cert_start.
Definition recheck_end := end_not_matched D exec evalt d R cert_all r cert_start.
End Certified.
