(** C07: the soundness theorems of the certificate checker restated over the SURFACE syntax
    (what the harness prints into the program text): [lang s] instead of [matches (desugar s)]. *)
From Coq Require Import NArith List Bool.
Import ListNotations.
From NV Require Import Machine.Dfa Machine.Sem Regex.Re Regex.Surface Regex.ReCheck.

Section SurfaceLevel.
Variable D : Type.
Variable exec : pid -> sym -> D -> D.
Variable evalt : tid -> sym -> D -> bool.
Variables (s : surface) (d : dfa) (R : rel).
Hypothesis H : re_dfa_check (desugar s) d R = true.

Lemma surface_language (w : list N) (x : D) : bytes w -> (accepts D exec evalt d w x <-> lang s w).
Proof. intros Hw. rewrite <- desugar_correct. exact (recheck_language D exec evalt _ d R H w x Hw). Qed.

Lemma surface_fail_first_dead (w : list N) (x : D) (fr : fret D) : bytes w ->
  mrun D exec evalt d w x = Some fr -> f_res fr = RFail ->
  let n := f_consumed fr in
  (n < length w)%nat /\
  (forall u, ~ lang s (firstn (S n) w ++ u)) /\
  (forall m, (m < n)%nat -> exists u, lang s (firstn (S m) w ++ u)).
Proof.
  intros Hw Hf E.
  destruct (recheck_fail_first_dead D exec evalt _ d R H w x fr Hw Hf E) as (H1 & H2 & H3).
  split; auto. split.
  - intros u M. apply (H2 u). apply desugar_correct; auto.
  - intros m Hm. destruct (H3 m Hm) as (u & Hu). exists u. apply desugar_correct; auto.
Qed.

Lemma surface_dead_reported (w : list N) (x : D) (n : nat) : bytes w -> (n < length w)%nat ->
  (forall u, ~ lang s (firstn (S n) w ++ u)) ->
  (forall m, (m < n)%nat -> exists u, lang s (firstn (S m) w ++ u)) ->
  exists fr, mrun D exec evalt d w x = Some fr /\
    ((f_res fr = RFail /\ f_consumed fr = n) \/
     (f_res fr = RDone /\ S (f_consumed fr) = n /\ refuses_all D exec evalt d (f_q fr))).
Proof.
  intros Hw Hn H1 H2.
  apply (recheck_dead_reported D exec evalt _ d R H w x n Hw Hn).
  - intros u M. apply (H1 u). apply desugar_correct; auto.
  - intros m Hm. destruct (H2 m Hm) as (u & Hu). exists u. apply desugar_correct; auto.
Qed.

Lemma surface_end (w : list N) (x : D) (fr : fret D) : bytes w ->
  mrun D exec evalt d w x = Some fr -> f_res fr = ROk ->
  exists fe, end_call D exec evalt d (f_q fr) (f_x fr) = Some fe /\ f_evs fe = [] /\
             (f_res fe = RFail \/ (f_res fe = RDone /\ lang s w)).
Proof.
  intros Hw Hf E.
  destruct (recheck_end D exec evalt _ d R H w x fr Hw Hf E) as (fe & H1 & H2 & H3).
  exists fe. split; auto. split; auto. destruct H3 as [H3|[H3 H4]]; auto. right. split; auto. apply desugar_correct; auto.
Qed.
End SurfaceLevel.
