(** The surface syntax of nmfu regular expressions (text form [/re/] and binary form [b/re/]) and its
    meaning (C07).

    [lang s] is the language denoted by a surface expression, written directly as a set of byte
    strings (this is the specification: the reading of the dialect in docs/user-ref/parser.md);
    [desugar s] is the core expression the certificate checker works on; [desugar_correct] shows that
    they agree, in particular that the expansions of [? * + {n} {n,m} {n,}] have the bounded-repeat
    languages. *)
From Coq Require Import NArith Arith List Bool Lia.
Import ListNotations.
From NV Require Import Regex.Re.
Local Open Scope N_scope.

(** ** byte sets from predicates *)
Definition set_of (p : N -> bool) : N :=
  fold_right (fun (b acc : N) => if p b then N.setbit acc b else acc) 0 bytes256.

Lemma set_of_list_spec (p : N -> bool) (l : list N) (b : N) :
  N.testbit (fold_right (fun (b acc : N) => if p b then N.setbit acc b else acc) 0 l) b = existsb (N.eqb b) l && p b.
Proof.
  induction l as [|a l IH]; simpl.
  - reflexivity.
  - destruct (N.eqb b a) eqn:E.
    + apply N.eqb_eq in E. subst a. simpl. destruct (p b) eqn:Ep.
      * rewrite N.setbit_eqb, N.eqb_refl. auto.
      * rewrite IH. apply andb_false_r.
    + simpl. destruct (p a).
      * rewrite N.setbit_eqb. rewrite N.eqb_sym, E. simpl. apply IH.
      * apply IH.
Qed.

Lemma existsb_bytes256 b : existsb (N.eqb b) bytes256 = (b <? 256).
Proof.
  apply eq_iff_eq_true. rewrite existsb_exists, N.ltb_lt. split.
  - intros (x & Hx & E). apply N.eqb_eq in E. subst. apply in_bytes256; auto.
  - intros H. exists b. split. apply in_bytes256; auto. apply N.eqb_refl.
Qed.

Lemma set_of_spec p b : N.testbit (set_of p) b = (b <? 256) && p b.
Proof. unfold set_of. rewrite set_of_list_spec, existsb_bytes256. auto. Qed.

(** ** named classes *)
Inductive cclass := CWord | CNotWord | CDigit | CNotDigit | CSpace | CNotSpace | CNewline | CTab | CReturn | CBlank.

Definition is_digit (b : N) : bool := (48 <=? b) && (b <=? 57).
Definition is_word (b : N) : bool :=
  is_digit b || ((65 <=? b) && (b <=? 90)) || ((97 <=? b) && (b <=? 122)) || (b =? 95).
Definition is_space (b : N) : bool := (b =? 32) || ((9 <=? b) && (b <=? 13)).   (* space \t \n \v \f \r *)

Definition class_has (k : cclass) (b : N) : bool :=
  match k with
  | CWord => is_word b | CNotWord => negb (is_word b)
  | CDigit => is_digit b | CNotDigit => negb (is_digit b)
  | CSpace => is_space b | CNotSpace => negb (is_space b)
  | CNewline => b =? 10 | CTab => b =? 9 | CReturn => b =? 13 | CBlank => b =? 32
  end.

Inductive setitem :=
| IChr (c : N)
| IRange (lo hi : N)
| ICls (k : cclass).

Definition item_has (it : setitem) (b : N) : bool :=
  match it with
  | IChr c => b =? c
  | IRange lo hi => (lo <=? b) && (b <=? hi)
  | ICls k => class_has k b
  end.

Definition items_have (items : list setitem) (b : N) : bool := existsb (fun it => item_has it b) items.

(** ** surface expressions *)
Inductive surface :=
| SChr (c : N)                       (* a literal character, an escaped character, or a binary byte *)
| SCls (k : cclass)                  (* \w \W \d \D \s \S \n \t \r and the escaped blank *)
| SSet (items : list setitem)        (* [...] *)
| SNSet (items : list setitem)       (* [^...] *)
| SAny                               (* . *)
| SGrp (a : surface)                 (* ( ) *)
| SSeq (a b : surface)
| SAlt (a b : surface)
| SOpt (a : surface)                 (* ? *)
| SStar (a : surface)                (* * *)
| SPlus (a : surface)                (* + *)
| SRep (n : nat) (a : surface)       (* {n} *)
| SRepRange (n m : nat) (a : surface)   (* {n,m} *)
| SRepAtLeast (n : nat) (a : surface).  (* {n,} *)

(** [pow L k]: concatenations of exactly [k] words of [L] *)
Fixpoint pow (L : list N -> Prop) (k : nat) (w : list N) : Prop :=
  match k with
  | O => w = []
  | S k' => exists u v, w = u ++ v /\ L u /\ pow L k' v
  end.

(** the specification: the language of a surface expression.  Every atom matches exactly one byte
    (a value below 256); inverted sets and the wildcard are complements within the 256 byte values. *)
Fixpoint lang (s : surface) (w : list N) : Prop :=
  match s with
  | SChr c => w = [c] /\ c < 256
  | SCls k => exists b, w = [b] /\ b < 256 /\ class_has k b = true
  | SSet items => exists b, w = [b] /\ b < 256 /\ items_have items b = true
  | SNSet items => exists b, w = [b] /\ b < 256 /\ items_have items b = false
  | SAny => exists b, w = [b] /\ b < 256
  | SGrp a => lang a w
  | SSeq a b => exists u v, w = u ++ v /\ lang a u /\ lang b v
  | SAlt a b => lang a w \/ lang b w
  | SOpt a => w = [] \/ lang a w
  | SStar a => exists k, pow (lang a) k w
  | SPlus a => exists k, (1 <= k)%nat /\ pow (lang a) k w
  | SRep n a => pow (lang a) n w
  | SRepRange n m a => exists k, (n <= k <= m)%nat /\ pow (lang a) k w
  | SRepAtLeast n a => exists k, (n <= k)%nat /\ pow (lang a) k w
  end.

(** ** desugaring to the core language *)
Fixpoint rep (n : nat) (r : re) : re :=
  match n with O => Eps | S n' => mkSeq r (rep n' r) end.
Definition opt (r : re) : re := mkAlt Eps r.

Fixpoint desugar (s : surface) : re :=
  match s with
  | SChr c => Cls (set_of (N.eqb c))
  | SCls k => Cls (set_of (class_has k))
  | SSet items => Cls (set_of (items_have items))
  | SNSet items => Cls (set_of (fun b => negb (items_have items b)))
  | SAny => Cls (set_of (fun _ => true))
  | SGrp a => desugar a
  | SSeq a b => mkSeq (desugar a) (desugar b)
  | SAlt a b => mkAlt (desugar a) (desugar b)
  | SOpt a => opt (desugar a)
  | SStar a => mkStar (desugar a)
  | SPlus a => mkSeq (desugar a) (mkStar (desugar a))
  | SRep n a => rep n (desugar a)
  | SRepRange n m a => if (m <? n)%nat then Void else mkSeq (rep n (desugar a)) (rep (m - n) (opt (desugar a)))
  | SRepAtLeast n a => mkSeq (rep n (desugar a)) (mkStar (desugar a))
  end.

(** ** correctness of the desugaring *)
Lemma pow_ext (L L' : list N -> Prop) : (forall w, L w <-> L' w) -> forall k w, pow L k w <-> pow L' k w.
Proof.
  intros H k. induction k as [|k IH]; intros w; simpl. tauto.
  split; intros (u & v & E & Hu & Hv); exists u, v; (split; [auto|split; [apply H; auto | apply IH; auto]]).
Qed.

Lemma pow_app L j : forall k w, pow L (j + k) w <-> exists u v, w = u ++ v /\ pow L j u /\ pow L k v.
Proof.
  induction j as [|j IH]; intros k w; simpl.
  - split.
    + intros H. exists [], w. auto.
    + intros (u & v & -> & -> & H). auto.
  - split.
    + intros (u & v & -> & Hu & Hv). apply IH in Hv. destruct Hv as (v1 & v2 & -> & H1 & H2).
      exists (u ++ v1), v2. rewrite app_assoc. split; auto. split; auto. exists u, v1. auto.
    + intros (u & v & -> & (u1 & u2 & -> & H1 & H2) & Hv).
      exists u1, (u2 ++ v). rewrite app_assoc. split; auto. split; auto. apply IH. exists u2, v. auto.
Qed.

Lemma rep_ok r n : forall w, matches (rep n r) w <-> pow (matches r) n w.
Proof.
  induction n as [|n IH]; intros w; simpl.
  - apply m_eps.
  - rewrite mkSeq_ok, m_seq. split; intros (u & v & E & Hu & Hv); exists u, v; (split; [auto|split; [auto|apply IH; auto]]).
Qed.

Lemma star_ok r w : matches (Star r) w <-> exists k, pow (matches r) k w.
Proof.
  split.
  - intros H. remember (Star r) as x eqn:Ex. induction H; try discriminate.
    + exists O. reflexivity.
    + injection Ex as ->. destruct (IHmatches2 eq_refl) as (k & Hk). exists (S k). simpl. exists u, v. auto.
  - intros (k & Hk). revert w Hk. induction k as [|k IH]; intros w; simpl.
    + intros ->. constructor.
    + intros (u & v & -> & Hu & Hv). apply MStarS; auto.
Qed.

Lemma opt_ok r w : matches (opt r) w <-> w = [] \/ matches r w.
Proof. unfold opt. rewrite mkAlt_ok, m_alt, m_eps. tauto. Qed.

Lemma rep_opt_ok r k : forall w, matches (rep k (opt r)) w <-> exists j, (j <= k)%nat /\ pow (matches r) j w.
Proof.
  induction k as [|k IH]; intros w; simpl.
  - rewrite m_eps. split.
    + intros ->. exists O. split; auto. reflexivity.
    + intros (j & Hj & H). assert (j = O) by lia. subst. auto.
  - rewrite mkSeq_ok, m_seq. split.
    + intros (u & v & -> & Hu & Hv). apply opt_ok in Hu. apply IH in Hv. destruct Hv as (j & Hj & Hv).
      destruct Hu as [->|Hu].
      * exists j. split; auto.
      * exists (S j). split. lia. simpl. exists u, v. auto.
    + intros (j & Hj & H). destruct j as [|j].
      * simpl in H. subst. exists [], []. split; auto. split. apply opt_ok; auto. apply IH. exists O. split. lia. reflexivity.
      * simpl in H. destruct H as (u & v & -> & Hu & Hv). exists u, v. split; auto. split. apply opt_ok; auto.
        apply IH. exists j. split; auto. lia.
Qed.

Lemma atom_ok p w : matches (Cls (set_of p)) w <-> exists b, w = [b] /\ b < 256 /\ p b = true.
Proof.
  rewrite m_cls. split; intros (b & -> & H); exists b; (split; [auto|]).
  - rewrite set_of_spec in H. apply andb_true_iff in H. destruct H as [H1 H2]. apply N.ltb_lt in H1. auto.
  - destruct H as [H1 H2]. rewrite set_of_spec, H2. apply N.ltb_lt in H1. rewrite H1. auto.
Qed.

Theorem desugar_correct s : forall w, matches (desugar s) w <-> lang s w.
Proof.
  induction s as [c|k|items|items| |a IHa|a IHa b IHb|a IHa b IHb|a IHa|a IHa|a IHa|n a IHa|n m a IHa|n a IHa];
    intros w; simpl.
  - rewrite atom_ok. split.
    + intros (b & -> & Hb & E). apply N.eqb_eq in E. subst. auto.
    + intros [-> Hc]. exists c. split; auto. split; auto. apply N.eqb_refl.
  - apply atom_ok.
  - apply atom_ok.
  - rewrite atom_ok. split; intros (b & -> & Hb & E); exists b; (split; [auto|split; [auto|]]).
    + apply negb_true_iff in E; auto.
    + rewrite E; auto.
  - rewrite atom_ok. split.
    + intros (b & -> & Hb & _). eauto.
    + intros (b & -> & Hb). eauto.
  - apply IHa.
  - rewrite mkSeq_ok, m_seq. split; intros (u & v & E & Hu & Hv); exists u, v; (split; [auto|split; [apply IHa; auto|apply IHb; auto]]).
  - rewrite mkAlt_ok, m_alt, IHa, IHb. tauto.
  - rewrite opt_ok, IHa. tauto.
  - rewrite mkStar_ok, star_ok. split; intros (k & Hk); exists k; (eapply pow_ext; [|apply Hk]); intros x; [symmetry|]; apply IHa.
  - rewrite mkSeq_ok, m_seq. split.
    + intros (u & v & -> & Hu & Hv). apply mkStar_ok in Hv. apply star_ok in Hv. destruct Hv as (k & Hk).
      exists (S k). split. lia. simpl. exists u, v. split; auto. split. apply IHa; auto.
      eapply pow_ext; [|apply Hk]. intros x. symmetry. apply IHa.
    + intros (k & Hk & H). destruct k as [|k]. lia. simpl in H. destruct H as (u & v & -> & Hu & Hv).
      exists u, v. split; auto. split. apply IHa; auto. apply mkStar_ok. apply star_ok. exists k.
      eapply pow_ext; [|apply Hv]. intros x. apply IHa.
  - rewrite rep_ok. apply pow_ext. apply IHa.
  - destruct (m <? n)%nat eqn:E.
    + apply Nat.ltb_lt in E. rewrite m_void. split; [tauto|]. intros (k & Hk & _). lia.
    + apply Nat.ltb_ge in E. rewrite mkSeq_ok, m_seq. split.
      * intros (u & v & -> & Hu & Hv). apply rep_ok in Hu. apply rep_opt_ok in Hv. destruct Hv as (j & Hj & Hv).
        exists (n + j)%nat. split. lia. apply pow_app. exists u, v. split; auto.
        split; (eapply pow_ext; [|eassumption]); intros x; symmetry; apply IHa.
      * intros (k & Hk & H). replace k with (n + (k - n))%nat in H by lia. apply pow_app in H.
        destruct H as (u & v & -> & Hu & Hv). exists u, v. split; auto. split.
        -- apply rep_ok. eapply pow_ext; [|apply Hu]. intros x. apply IHa.
        -- apply rep_opt_ok. exists (k - n)%nat. split. lia. eapply pow_ext; [|apply Hv]. intros x. apply IHa.
  - rewrite mkSeq_ok, m_seq. split.
    + intros (u & v & -> & Hu & Hv). apply rep_ok in Hu. apply mkStar_ok in Hv. apply star_ok in Hv. destruct Hv as (j & Hv).
      exists (n + j)%nat. split. lia. apply pow_app. exists u, v. split; auto.
      split; (eapply pow_ext; [|eassumption]); intros x; symmetry; apply IHa.
    + intros (k & Hk & H). replace k with (n + (k - n))%nat in H by lia. apply pow_app in H.
      destruct H as (u & v & -> & Hu & Hv). exists u, v. split; auto. split.
      * apply rep_ok. eapply pow_ext; [|apply Hu]. intros x. apply IHa.
      * apply mkStar_ok. apply star_ok. exists (k - n)%nat. eapply pow_ext; [|apply Hv]. intros x. apply IHa.
Qed.

(** every word of a surface language consists of byte values *)
Lemma pow_bytes (L : list N -> Prop) : (forall w, L w -> Forall (fun b => b < 256) w) ->
  forall k w, pow L k w -> Forall (fun b => b < 256) w.
Proof.
  intros H k. induction k as [|k IH]; intros w; simpl.
  - intros ->. constructor.
  - intros (u & v & -> & Hu & Hv). apply Forall_app. split; auto.
Qed.

Theorem lang_bytes s : forall w, lang s w -> Forall (fun b => b < 256) w.
Proof.
  induction s; intros w; simpl.
  - intros [-> H]. auto.
  - intros (b & -> & H & _). auto.
  - intros (b & -> & H & _). auto.
  - intros (b & -> & H & _). auto.
  - intros (b & -> & H). auto.
  - auto.
  - intros (u & v & -> & Hu & Hv). apply Forall_app. split; auto.
  - intros [H|H]; auto.
  - intros [->|H]; auto.
  - intros (k & H). eapply pow_bytes; eauto.
  - intros (k & _ & H). eapply pow_bytes; eauto.
  - intros H. eapply pow_bytes; eauto.
  - intros (k & _ & H). eapply pow_bytes; eauto.
  - intros (k & _ & H). eapply pow_bytes; eauto.
Qed.
