(** The lexical classes of the nmfu grammar that reach the translated front-end functions, as predicates on
    strings (lists of code points).  They mirror these terminals of the `grammar` string in nmfu.py; the harness
    compares the regular expressions lark compiled for the CURRENT grammar with these spellings on every run
    (written here with Q for the double quote character, A for the apostrophe and B for the backslash):

      STRING          Q ( [^QB] | B . )* Q                              [string_token]
      CHAR_CONSTANT   A [^AB] A   |   A B . A                           [char_token]
      NUMBER          [+-]? DIGIT+          (common.SIGNED_INT)         [number_token]
      HEX_NUMBER      [+-]? 0x HEXDIGIT+
      BIN_NUMBER      0b [01]+   written with lark's square brackets, which mean OPTIONAL: today the digits may be
                                 absent; Total/GLex.v (regenerated) says which spelling the current grammar has
      RADIX_NUMBER    HEX_NUMBER | BIN_NUMBER | NUMBER                  [radix_token]

    In a Python regular expression without DOTALL the dot is any character except newline (10), and a negated
    class matches newline too. *)
From Coq Require Import ZArith NArith List Bool Lia.
Import ListNotations.
From NV Require Import Base.PyLite Lit.LitSpec Total.GLex.
Open Scope N_scope.

(** the part of a STRING token between the quotes *)
Inductive string_body : pystr -> Prop :=
| SB_nil : string_body []
| SB_plain c s : c <> 34 -> c <> 92 -> string_body s -> string_body (c :: s)
| SB_esc c s : c <> 10 -> string_body s -> string_body (92 :: c :: s).

Definition string_token (t : pystr) : Prop := exists body, string_body body /\ t = 34 :: body ++ [34].

Inductive char_token : pystr -> Prop :=
| CT_plain c : c <> 39 -> c <> 92 -> char_token [39; c; 39]
| CT_esc c : c <> 10 -> char_token [39; 92; c; 39].

Definition sign_opt (s : pystr) : Prop := s = [] \/ s = [43] \/ s = [45].

Inductive number_token : pystr -> Prop :=
| NT sg ds : sign_opt sg -> all_digits 10 ds = true -> ds <> [] -> number_token (sg ++ ds).

Inductive radix_token : pystr -> Prop :=
| RT_dec t : number_token t -> radix_token t
| RT_hex sg ds : sign_opt sg -> all_digits 16 ds = true -> ds <> [] -> radix_token (sg ++ 48 :: 120 :: ds)
| RT_bin ds : all_digits 2 ds = true -> (ds <> [] \/ bin_digits_may_be_empty = true) -> radix_token (48 :: 98 :: ds).

(** outcomes that are not internal failures: a value, or a diagnosed (NMFUError) error *)
Definition diagnosed_or {A} (P : A -> Prop) (r : pyres A) : Prop :=
  match r with Ok v => P v | Raise Diagnosed => True | _ => False end.
Definition not_internal {A} (r : pyres A) : Prop := diagnosed_or (fun _ => True) r.

Lemma not_internal_cases {A} (r : pyres A) : not_internal r <-> (exists v, r = Ok v) \/ r = Raise Diagnosed.
Proof.
  unfold not_internal, diagnosed_or. destruct r as [v|e|]; [|destruct e|]; split; intros H; auto;
    try (left; eexists; reflexivity); try (right; reflexivity);
    try (destruct H as [[v' H]|H]; discriminate); try contradiction.
Qed.

Definition is_bytes (s : pystr) : Prop := Forall (fun b => b < 256) s.

(** non-vacuity of the classes *)
Example string_body_ex : string_body [97; 92; 113; 92; 120; 255; 10; 8364].
Proof. repeat (first [apply SB_nil | apply SB_esc; [discriminate|] | apply SB_plain; [discriminate|discriminate|]]). Qed.
Example radix_ex : radix_token [45; 48; 120; 49; 70] /\ radix_token [48; 98; 49] /\ radix_token [43; 55].
Proof.
  repeat split.
  - apply (RT_hex [45] [49; 70]); [right; right; reflexivity|reflexivity|discriminate].
  - apply (RT_bin [49]); [reflexivity|left; discriminate].
  - apply RT_dec. apply (NT [43] [55]); [right; left; reflexivity|reflexivity|discriminate].
Qed.
