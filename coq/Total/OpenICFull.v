(** C18 - open statement (NOT part of the project build; compiled on its own by harness/props/c18.py):
    _integer_containing yields a C type for EVERY (signed?, size N) a declaration can carry.  Compiles exactly when
    that is true of the current source; otherwise Total/OpenICRefuted.v must compile. *)
From Coq Require Import ZArith NArith List Bool Lia.
Import ListNotations.
From NV Require Import Base.PyLite Gen.GLit Total.Lexical Total.TotalProps.

Theorem integer_containing_total : forall sg w, not_internal (integer_containing None sg w).
Proof.
  intros sg w.
  assert (H : exists v, integer_containing None sg w = Ok v \/ integer_containing None sg w = Raise Diagnosed).
  { destruct sg; destruct w as [w|]; unfold integer_containing; cbn [negb zdict_get];
      repeat match goal with
             | |- context [Z.eqb ?a ?b] => destruct (Z.eqb_spec a b); try lia; subst
             | |- context [(?a <? ?b)%Z] => destruct (Z.ltb_spec a b); try lia
             end; cbn [negb]; eexists; first [left; reflexivity | right; reflexivity]. }
  destruct H as [v [-> | ->]]; exact I.
Qed.
Print Assumptions integer_containing_total.
