(** C18 - refutation that holds of TODAY's source (NOT part of the project build; compiled on its own by
    harness/props/c18.py when Total/OpenICFull.v does not compile): an unsigned `int` with a size other than
    1, 2, 4, 8 makes _integer_containing add 1 to None (TypeError) - for every such size, so the side condition of
    integer_containing_total_partial is the weakest one. *)
From Coq Require Import ZArith NArith List Bool Lia.
Import ListNotations.
From NV Require Import Base.PyLite Gen.GLit Total.Lexical Total.TotalProps.

Theorem integer_containing_total_refuted : exists w, integer_containing None false (Some w) = Raise TypeError.
Proof. exists 3%Z. vm_compute. reflexivity. Qed.
Print Assumptions integer_containing_total_refuted.

Theorem integer_containing_refuted_class : forall w, ~ In w [1; 2; 4; 8]%Z ->
  integer_containing None false (Some w) = Raise TypeError.
Proof.
  intros w H. assert (w <> 1 /\ w <> 2 /\ w <> 4 /\ w <> 8)%Z as [H1 [H2 [H4 H8]]].
  { repeat split; intros ->; apply H; simpl; auto. }
  unfold integer_containing; cbn [negb zdict_get].
  repeat match goal with |- context [Z.eqb ?a ?b] => destruct (Z.eqb_spec a b); try lia end.
  reflexivity.
Qed.
Print Assumptions integer_containing_refuted_class.
