(** C18 - open statement (NOT part of the project build; compiled on its own by harness/props/c18.py):
    _convert_int is total on every RADIX_NUMBER token.  This file compiles exactly when the statement is true of
    the current source: either the grammar no longer admits the digit-less binary prefix (Total/GLex.v), or
    _convert_int diagnoses it.  When it does not compile, Total/OpenIntRefuted.v must. *)
From Coq Require Import ZArith NArith List Bool Lia.
Import ListNotations.
From NV Require Import Base.PyLite Gen.GLit Lit.LitSpec Total.GLex Total.Lexical Total.TotalProps.

Theorem convert_int_total : forall t, radix_token t -> not_internal (convert_int t).
Proof.
  intros t H. destruct (list_eq_dec N.eq_dec t [48; 98]%N) as [->|Hne].
  - first [ vm_compute; exact I
          | exfalso; apply (radix_0b_excluded eq_refl); exact H ].
  - destruct (convert_int_total_partial t H Hne) as [v ->]. exact I.
Qed.
Print Assumptions convert_int_total.
