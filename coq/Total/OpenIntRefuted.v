(** C18 - refutation that holds of TODAY's source (NOT part of the project build; compiled on its own by
    harness/props/c18.py when Total/OpenIntFull.v does not compile): the grammar admits the RADIX_NUMBER token 0b
    (BIN_NUMBER is spelled with lark's optional brackets) and _convert_int dies on it with ValueError. *)
From Coq Require Import ZArith NArith List Bool.
Import ListNotations.
From NV Require Import Base.PyLite Gen.GLit Lit.LitSpec Total.GLex Total.Lexical.

Theorem convert_int_total_refuted : exists t, radix_token t /\ convert_int t = Raise ValueError.
Proof.
  exists [48; 98]%N. split.
  - apply (RT_bin []); [reflexivity|right; reflexivity].
  - vm_compute. reflexivity.
Qed.
Print Assumptions convert_int_total_refuted.
