(** C18, part A: totality of the front-end functions regenerated from /repo/nmfu.py (Gen/GLit.v) on the whole
    lexical class the grammar hands to them: the outcome is a value or a diagnosed error, never an internal
    exception and never out of fuel. *)
From Coq Require Import ZArith NArith List Bool Lia.
Import ListNotations.
From NV Require Import Base.PyLite Base.PyLiteLemmas Gen.GLit Lit.LitSpec Lit.LitProps Total.GLex Total.Lexical.

(** ** small facts about the lexical classes *)
Lemma string_body_tail c s : string_body (c :: s) -> c <> 92%N -> string_body s.
Proof. intros H Hc. inversion H; subst; auto. congruence. Qed.

Lemma string_body_esc c s : string_body (92%N :: c :: s) -> string_body s /\ c <> 10%N.
Proof. intros H. inversion H; subst; [congruence|auto]. Qed.

Lemma in_hexdigits_hexval c : py_in_chars [c] hexdigits_str = true -> exists v, hexval c = Some v.
Proof.
  unfold py_in_chars. intros H. apply existsb_exists in H as [x [Hin Hx]]. apply N.eqb_eq in Hx. subst x.
  assert (C : forallb (fun c => match hexval c with Some _ => true | None => false end) hexdigits_str = true)
    by (vm_compute; reflexivity).
  rewrite forallb_forall in C. specialize (C c Hin). destruct (hexval c); [eauto|discriminate].
Qed.

Lemma hexval_not_special c v : hexval c = Some v -> c <> 92%N /\ c <> 34%N.
Proof. intros H. split; intros ->; vm_compute in H; discriminate. Qed.

Definition esc_chars : pystr := [110; 114; 116; 98; 48; 34; 92]%N.
Definition esc_table : list (pystr * pystr) :=
  [([110]%N, [10]%N); ([114]%N, [13]%N); ([116]%N, [9]%N); ([98]%N, [8]%N); ([48]%N, [0]%N); ([34]%N, [34]%N); ([92]%N, [92]%N)].

Lemma esc_lookup c : py_in_chars [c] esc_chars = true -> exists v, @dict_get (list N) esc_table [c] = Ok [v] /\ (v < 256)%N.
Proof.
  unfold py_in_chars. intros H. apply existsb_exists in H as [x [Hin Hx]]. apply N.eqb_eq in Hx. subst x.
  unfold esc_chars in Hin. simpl in Hin.
  repeat (destruct Hin as [Hin|Hin]; [subst c; eexists; split; [reflexivity|reflexivity]|]). contradiction.
Qed.

Lemma is_bytes_snoc acc c : is_bytes acc -> (c < 256)%N -> is_bytes (acc ++ [c]).
Proof. intros Ha Hc. apply Forall_app. split; auto. Qed.

(** ** _convert_string: the while loop terminates within [length body + 1] iterations and ends in a byte string
    or in a diagnosed error, whatever escapes the body contains *)
Definition good_str (r : pyres pystr) : Prop := diagnosed_or is_bytes r.

Lemma loop_total : forall n rest, (length rest <= n)%nat -> string_body rest ->
  forall fuel pre acc es, (length rest < fuel)%nat -> is_bytes acc ->
  good_str (convert_string_loop1 fuel (pre ++ rest) es (py_len pre) acc).
Proof.
  induction n as [|n IH]; intros rest Hn Hb fuel pre acc es Hf Hacc; destruct fuel as [|f]; try (simpl in Hf; lia);
    cbn [convert_string_loop1]; cbv zeta.
  - destruct rest; [|simpl in Hn; lia]. rewrite ltb_len_end. exact Hacc.
  - destruct rest as [|c s].
    { rewrite ltb_len_end. exact Hacc. }
    destruct (N.eqb_spec c 92) as [->|Hc].
    + (* an escape *)
      destruct s as [|c2 s]; [inversion Hb; congruence|].
      destruct (string_body_esc _ _ Hb) as [Hs _].
      idx. cbn [N.eqb Pos.eqb negb].
      rewrite (py_len_snoc pre 92%N).
      replace (pre ++ 92%N :: c2 :: s) with ((pre ++ [92%N]) ++ c2 :: s) by (rewrite <- app_assoc; reflexivity).
      idx.
      destruct (N.eqb_spec c2 120) as [->|Hx].
      * (* \x *)
        idx. cbn [N.eqb Pos.eqb]. idx. cbn [N.eqb Pos.eqb].
        rewrite (py_len_snoc (pre ++ [92%N]) 120%N).
        destruct s as [|h [|l s']].
        -- replace (py_len (pre ++ [92%N]) + 3)%Z with (py_len ((pre ++ [92%N]) ++ [120%N]) + 2)%Z
             by (rewrite !py_len_app; unfold py_len; simpl length; lia).
           replace ((pre ++ [92%N]) ++ [120%N]) with (((pre ++ [92%N]) ++ [120%N]) ++ []) at 1 by apply app_nil_r.
           rewrite py_slice_short by (unfold py_len; simpl length; lia).
           exact I.
        -- replace (py_len (pre ++ [92%N]) + 3)%Z with (py_len ((pre ++ [92%N]) ++ [120%N]) + 2)%Z
             by (rewrite !py_len_app; unfold py_len; simpl length; lia).
           replace ((pre ++ [92%N]) ++ [120%N; h]) with (((pre ++ [92%N]) ++ [120%N]) ++ [h]) by (rewrite <- !app_assoc; reflexivity).
           rewrite py_slice_short by (unfold py_len; simpl length; lia).
           exact I.
        -- replace (py_len (pre ++ [92%N]) + 3)%Z with (py_len ((pre ++ [92%N]) ++ [120%N]) + py_len [h; l])%Z
             by (rewrite !py_len_app; unfold py_len; simpl length; lia).
           replace ((pre ++ [92%N]) ++ 120%N :: h :: l :: s') with (((pre ++ [92%N]) ++ [120%N]) ++ [h; l] ++ s')
             by (rewrite <- !app_assoc; reflexivity).
           rewrite py_slice_mid.
           replace (py_len [h; l] =? 2)%Z with true by reflexivity. cbn [negb].
           replace (py_index [h; l] 0) with (Ok [h] : pyres pystr) by reflexivity.
           replace (py_index [h; l] 1) with (Ok [l] : pyres pystr) by reflexivity. cbn [bind].
           fold hexdigits_str.
           destruct (py_in_chars [h] hexdigits_str) eqn:Eh; cbn [negb]; [|exact I].
           destruct (py_in_chars [l] hexdigits_str) eqn:El; cbn [negb]; [|exact I].
           destruct (in_hexdigits_hexval _ Eh) as [vh Hh]. destruct (in_hexdigits_hexval _ El) as [vl Hl].
           pose proof (hex2 h l vh vl Hh Hl) as H2.
           destruct (py_int_lit [h; l] 16) as [t| |]; cbn [bind] in H2 |- *; try discriminate.
           rewrite H2. cbn [bind].
           replace (py_len ((pre ++ [92%N]) ++ [120%N]) + py_len [h; l])%Z with (py_len ((((pre ++ [92%N]) ++ [120%N]) ++ [h; l])))
             by (rewrite !py_len_app; reflexivity).
           replace (((pre ++ [92%N]) ++ [120%N]) ++ [h; l] ++ s') with ((((pre ++ [92%N]) ++ [120%N]) ++ [h; l]) ++ s')
             by (rewrite <- !app_assoc; reflexivity).
           apply IH.
           ++ simpl in Hn |- *. lia.
           ++ apply (string_body_tail l). apply (string_body_tail h). exact Hs.
              apply (hexval_not_special _ _ Hh). apply (hexval_not_special _ _ Hl).
           ++ simpl in Hf |- *. lia.
           ++ apply is_bytes_snoc; auto. destruct (hexval_lt _ _ Hh), (hexval_lt _ _ Hl). lia.
      * idx.
        destruct (N.eqb_spec c2 117) as [->|Hu].
        -- (* \u *) cbn [N.eqb Pos.eqb]. idx. cbn [N.eqb Pos.eqb]. exact I.
        -- idx.
           fold esc_chars.
           destruct (py_in_chars [c2] esc_chars) eqn:Ee; cbn [negb]; [|exact I].
           idx. fold esc_table.
           destruct (esc_lookup _ Ee) as [v [Hd Hv]]. rewrite Hd. cbn [bind].
           rewrite (py_len_snoc (pre ++ [92%N]) c2).
           replace ((pre ++ [92%N]) ++ c2 :: s) with (((pre ++ [92%N]) ++ [c2]) ++ s) by (rewrite <- !app_assoc; reflexivity).
           apply IH; auto.
           ++ simpl in Hn |- *. lia.
           ++ simpl in Hf |- *. lia.
           ++ apply is_bytes_snoc; auto.
    + (* a plain character *)
      idx. apply N.eqb_neq in Hc. rewrite Hc. cbn [negb]. idx. cbn [py_ord bind].
      destruct (Z.of_N c >? 255)%Z eqn:E; [exact I|].
      idx. rewrite (py_len_snoc pre c).
      replace (pre ++ c :: s) with ((pre ++ [c]) ++ s) by (rewrite <- app_assoc; reflexivity).
      apply IH.
      * simpl in Hn. lia.
      * apply (string_body_tail c); auto. apply N.eqb_neq; auto.
      * simpl in Hf. lia.
      * apply is_bytes_snoc; auto. rewrite Z.gtb_ltb in E. apply Z.ltb_ge in E. lia.
Qed.

Theorem convert_string_total : forall body, string_body body ->
  forall fuel, (length body < fuel)%nat -> good_str (convert_string fuel (34%N :: body ++ [34%N])).
Proof.
  intros body Hb fuel Hf. unfold convert_string. cbv zeta. rewrite py_slice_quotes.
  apply (loop_total (length body) body (le_n _) Hb fuel [] [] _ Hf). constructor.
Qed.

Theorem convert_string_token_total : forall t, string_token t ->
  forall fuel, (length t < fuel + 2)%nat -> good_str (convert_string fuel t).
Proof.
  intros t [body [Hb ->]] fuel Hf. apply convert_string_total; auto.
  simpl in Hf. rewrite app_length in Hf. simpl in Hf. lia.
Qed.

(** ** _convert_char_const: every CHAR_CONSTANT token denotes exactly one character *)
Theorem convert_char_const_total : forall t, char_token t -> exists v, convert_char_const t = Ok [v].
Proof.
  intros t H. destruct H as [c H1 H2|c H].
  - exists c. reflexivity.
  - unfold convert_char_const.
    replace (py_len [39; 92; c; 39]%N =? 3)%Z with false by reflexivity.
    replace (py_index [39; 92; c; 39]%N 2) with (Ok [c] : pyres pystr) by reflexivity. cbn [bind].
    unfold dict_get_default. cbn [dict_get str_eqb].
    repeat match goal with |- context [N.eqb c ?k] => destruct (N.eqb c k) end; cbn [andb]; eexists; reflexivity.
Qed.

(** ** _convert_int: every RADIX_NUMBER spelling except the digit-less binary prefix has a value *)
Lemma radix_0b_excluded : bin_digits_may_be_empty = false -> ~ radix_token [48; 98]%N.
Proof.
  intros Hg H. remember [48; 98]%N as t0 eqn:Et. destruct H as [t Hn|sg ds Hs Ha Hne|ds Ha Hd].
  - destruct Hn as [sg ds Hs Ha Hne]. destruct Hs as [-> | [-> | ->]]; cbn [app] in Et.
    + subst ds. vm_compute in Ha. discriminate.
    + discriminate.
    + discriminate.
  - destruct Hs as [-> | [-> | ->]]; cbn [app] in Et; discriminate.
  - destruct Hd as [Hd|Hd]; [|congruence]. inversion Et. congruence.
Qed.

Theorem convert_int_total_partial : forall t, radix_token t -> t <> [48; 98]%N -> exists v, convert_int t = Ok v.
Proof.
  intros t H Hne. destruct H as [t Hn|sg ds Hs Ha Hd|ds Ha Hd].
  - destruct Hn as [sg ds Hs Ha Hd]. destruct (convert_int_decimal ds Ha Hd) as [E1 [E2 E3]].
    destruct Hs as [-> | [-> | ->]]; cbn [app]; eauto.
  - destruct (convert_int_hex ds Ha Hd) as [E1 [E2 E3]].
    destruct Hs as [-> | [-> | ->]]; cbn [app]; eauto.
  - destruct ds as [|d ds]; [congruence|]. eexists. apply convert_int_bin; auto. discriminate.
Qed.

(** NUMBER tokens (used by `size N`, `prio N` and repeat counts through Python's int()) are RADIX_NUMBER tokens *)
Theorem number_token_total : forall t, number_token t -> exists v, convert_int t = Ok v.
Proof.
  intros t H. apply convert_int_total_partial; [apply RT_dec; exact H|].
  intros Et. destruct H as [sg ds Hs Ha Hd]. destruct Hs as [-> | [-> | ->]]; cbn [app] in Et; try discriminate.
  subst ds. vm_compute in Ha. discriminate.
Qed.

(** ** _convert_binary_string: on ANY token the outcome is a byte string or the ValueError that both call sites
    turn into a diagnosed IllegalParseTree (the harness checks the call sites of the current source) *)
Definition bin_outcome (r : pyres pystr) : Prop :=
  match r with Ok v => is_bytes v | Raise ValueError => True | Raise Diagnosed => True | _ => False end.

Lemma every_other_in {A} : forall (l : list A) x, In x (every_other l) -> In x l.
Proof.
  fix IH 1. intros l x H. destruct l as [|a [|b r]].
  - exact H.
  - exact H.
  - simpl in H. destruct H as [H|H]; [left; exact H|right; right; apply IH; exact H].
Qed.

Lemma skipn_in {A} : forall k (l : list A) x, In x (skipn k l) -> In x l.
Proof. induction k; intros [|a l] x H; simpl in *; auto. Qed.

Lemma bin_loop_total : forall l bs contents acc,
  (forall w, In w l -> exists h lo vh vl, w = ([h], [lo]) /\ hexval h = Some vh /\ hexval lo = Some vl) ->
  is_bytes acc -> exists v, convert_binary_string_loop1 l bs contents acc = Ok v /\ is_bytes v.
Proof.
  induction l as [|w l IH]; intros bs contents acc Hw Hacc; cbn [convert_binary_string_loop1].
  - eauto.
  - destruct (Hw w (or_introl eq_refl)) as [h [lo [vh [vl [-> [Hh Hl]]]]]]. cbn [fst snd app].
    pose proof (hex2 h lo vh vl Hh Hl) as H2.
    destruct (py_int_lit [h; lo] 16) as [t| |]; cbn [bind] in H2 |- *; try discriminate.
    rewrite H2. cbn [bind]. apply IH.
    + intros w' Hin. apply Hw. right; auto.
    + apply is_bytes_snoc; auto. destruct (hexval_lt _ _ Hh), (hexval_lt _ _ Hl). lia.
Qed.

Lemma hex_singletons (s : pystr) x :
  In x (filter (fun x => py_in_chars x hexdigits_str) (map (fun c_ => [c_]) s)) -> exists c v, x = [c] /\ hexval c = Some v.
Proof.
  intros H. apply filter_In in H as [Hin Hf]. apply in_map_iff in Hin as [c [<- _]].
  destruct (in_hexdigits_hexval _ Hf) as [v Hv]. eauto.
Qed.

Theorem convert_binary_string_total : forall t, bin_outcome (convert_binary_string t).
Proof.
  intros t. unfold convert_binary_string. cbv zeta. fold hexdigits_str.
  replace (2 =? 0)%Z with false by reflexivity.
  match goal with |- context [if negb ?b then _ else _] => destruct b end; cbn [negb]; [|exact I].
  match goal with |- bin_outcome (convert_binary_string_loop1 ?l ?a ?b ?c) =>
    destruct (bin_loop_total l a b c) as [v [Hv Hb]] end.
  - intros [a b] Hin. unfold zip in Hin.
    pose proof (in_combine_l _ _ _ _ Hin) as Ha. pose proof (in_combine_r _ _ _ _ Hin) as Hb.
    unfold py_slice_step2 in Ha, Hb. apply every_other_in, skipn_in in Ha. apply every_other_in, skipn_in in Hb.
    destruct (hex_singletons _ _ Ha) as [h [vh [-> Hh]]]. destruct (hex_singletons _ _ Hb) as [lo [vl [-> Hl]]].
    exists h, lo, vh, vl. auto.
  - constructor.
  - rewrite Hv. exact Hb.
Qed.

(** ** _integer_containing: the C type of an `int` output.  Declarations carry (signed?, size N) with ANY number N;
    the counters of strings and the state variable call it with a maximum value and signed=False. *)
Definition width_known (w : option Z) : Prop :=
  w = None \/ w = Some 1%Z \/ w = Some 2%Z \/ w = Some 4%Z \/ w = Some 8%Z.

Ltac ic_solve :=
  unfold integer_containing; cbn [negb zdict_get];
  repeat match goal with
         | |- context [Z.eqb ?a ?b] => destruct (Z.eqb_spec a b); try lia; subst
         | |- context [(?a <? ?b)%Z] => destruct (Z.ltb_spec a b); try lia
         end;
  cbn [negb]; try (eexists; reflexivity); try reflexivity.

Theorem integer_containing_total_partial : forall sg w, (sg = false -> width_known w) ->
  exists v, integer_containing None sg w = Ok v.
Proof.
  intros sg w H. destruct sg.
  - destruct w as [w|]; ic_solve.
  - destruct (H eq_refl) as [->|[->|[-> | [-> | ->]]]]; ic_solve.
Qed.

Theorem integer_containing_counter_total : forall m, exists v, integer_containing (Some m) false None = Ok v.
Proof. intros m. ic_solve. Qed.

(** ** _escape_string and _create_casei_from on what _convert_string can produce (byte strings) *)
Theorem escape_string_total : forall bs, is_bytes bs ->
  (exists t, escape_string_bytes (map Z.of_N bs) = Ok t) /\ (exists t, escape_string_str bs = Ok t).
Proof.
  intros bs H. assert (C : esc_byte_check = true) by (vm_compute; reflexivity).
  destruct (emit_roundtrip_bytes C bs H) as [t [Ht _]]. destruct (emit_roundtrip_str C bs H) as [t' [Ht' _]]. eauto.
Qed.

Definition casei_ok_check : bool := forallb (fun c => is_ok (create_casei_from [c])) bytes256.

Lemma existsb_eqb_big c l : forallb (fun x => x <? 256)%N l = true -> (256 <= c)%N -> existsb (N.eqb c) l = false.
Proof.
  intros Hl Hc. induction l as [|x l IH]; cbn [existsb]; auto.
  cbn [forallb] in Hl. apply andb_prop in Hl as [Hx Hl]. apply N.ltb_lt in Hx.
  rewrite IH by auto. replace (N.eqb c x) with false; auto. symmetry. apply N.eqb_neq. lia.
Qed.

Theorem create_casei_from_total : forall c, exists l, create_casei_from [c] = Ok l.
Proof.
  intros c. destruct (N.ltb_spec c 256) as [H|H].
  - assert (C : casei_ok_check = true) by (vm_compute; reflexivity).
    unfold casei_ok_check in C. rewrite forallb_forall in C. specialize (C c (in_bytes256 c H)).
    destruct (create_casei_from [c]); try discriminate. eauto.
  - unfold create_casei_from.
    match goal with |- context [py_in_chars [c] ?L] =>
      replace (py_in_chars [c] L) with false
        by (symmetry; unfold py_in_chars; apply existsb_eqb_big; [vm_compute; reflexivity|exact H]) end.
    eexists. reflexivity.
Qed.
