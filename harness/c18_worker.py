"""Worker for C18: compiles programs in ONE fresh process and prints one JSON line per program.

stdin : JSON list of jobs {"id", "src", "flags", "limit"}
stdout: one line per job  {"id", "verdict", "message", "exc", "fn", "sig", "traceback", "secs", "phase"}

The classification is the one of main() in nmfu.py (and of harness/nm.py compile_source):
  ok         generated header and source
  diagnosed  RuntimeError from load_commandline_flags, lark.LarkError from the parser, or an NMFUError from
             ParseCtx.parse / DfaCompileCtx.compile / CodegenCtx.generate_* whose str() can be rendered
  internal   any other exception (or an NMFUError whose str() raises, or one raised where main() has no handler:
             the constructors of ParseCtx / DfaCompileCtx / CodegenCtx)
  timeout    the per-compilation limit (SIGALRM) expired
For internal failures the worker also reports `exc` (exception type), `fn` (innermost function of nmfu.py in the
traceback; for a RecursionError the sorted set of functions that make up the recursion cycle) and `sig` (the last
two distinct nmfu.py functions of the traceback, the
generic ProgramData.imbue aside) so that the parent can build stable keys.
"""
import sys, os, json, io, contextlib, traceback, signal, time, collections
sys.path.insert(0, os.path.dirname(os.path.abspath(__file__)))
import nmfu

NMFU_FILE = os.path.abspath(nmfu.__file__)


class Timeout(BaseException):
    pass


def _alarm(signum, frame):
    raise Timeout()


def tb_info(e):
    tb = traceback.extract_tb(e.__traceback__)
    names = [f.name for f in tb if os.path.abspath(f.filename) == NMFU_FILE]
    foreign = [f for f in tb if os.path.abspath(f.filename) != NMFU_FILE and "harness" not in f.filename]
    if isinstance(e, RecursionError):
        cnt = collections.Counter(names)
        cyc = sorted(n for n, c in cnt.items() if c >= 20)
        fn = "+".join(cyc) if cyc else (names[-1] if names else "?")
        sig = cyc
    else:
        fn = names[-1] if names else ("lark" if foreign else "?")
        sig = []
        for n in reversed(names):
            if n not in sig and n != "imbue":
                sig.append(n)
            if len(sig) == 2:
                break
        sig.reverse()
    text = "".join(traceback.format_exception(type(e), e, e.__traceback__))
    if len(text) > 6000:
        text = text[:2500] + "\n   [...]\n" + text[-3000:]
    return fn, sig, text


def compile_one(src, flags, limit):
    res = {"verdict": None, "message": "", "exc": None, "fn": None, "sig": None, "traceback": None, "phase": "flags"}
    old = signal.signal(signal.SIGALRM, _alarm)
    signal.alarm(limit)
    phase = "flags"
    try:
        with contextlib.redirect_stdout(io.StringIO()), contextlib.redirect_stderr(io.StringIO()):
            try:
                nmfu.ProgramData.load_commandline_flags(list(flags) + ["prog.nmfu"])
            except RuntimeError as e:
                res["verdict"], res["message"] = "diagnosed", "flags: " + str(e)
                return res
            phase = "lark"
            nmfu.ProgramData.load_source(src)
            try:
                pt = nmfu.parser.parse(src, start="start")
            except nmfu.lark.LarkError as e:
                res["verdict"], res["message"] = "diagnosed", "syntax: " + str(e)[:300]
                return res
            phase = "construct"
            pctx = nmfu.ParseCtx(pt)
            diag = None
            try:
                phase = "parse"
                pctx.parse()
            except nmfu.NMFUError as e:
                diag = e
            if diag is None:
                phase = "construct"
                dctx = nmfu.DfaCompileCtx(pctx)
                try:
                    phase = "compile"
                    dctx.compile()
                except nmfu.NMFUError as e:
                    diag = e
            if diag is None:
                phase = "construct"
                cctx = nmfu.CodegenCtx(dctx, "prog")
                try:
                    phase = "codegen"
                    h = cctx.generate_header()
                    c = cctx.generate_source()
                    if not isinstance(h, str) or not isinstance(c, str):
                        raise TypeError("generate_header/generate_source did not return text")
                except nmfu.NMFUError as e:
                    diag = e
            if diag is not None:
                phase_d = phase
                phase = "render"
                try:
                    msg = str(diag)
                    if not isinstance(msg, str):
                        raise TypeError("str() of the error is not a string")
                except Timeout:
                    raise
                except BaseException as e2:
                    fn, sig, text = tb_info(e2)
                    res.update(verdict="internal", exc=type(e2).__name__, fn=fn, sig=sig, traceback=text, phase="render",
                               message="%s whose str() raises %s: %s" % (type(diag).__name__, type(e2).__name__, str(e2)[:200]))
                    return res
                res.update(verdict="diagnosed", message=("%s error: " % phase_d) + msg[:500], phase=phase_d)
                return res
        res["verdict"] = "ok"
        res["phase"] = "done"
        return res
    except Timeout:
        res.update(verdict="timeout", message="compilation exceeded %ds (in phase %s)" % (limit, phase), phase=phase)
        return res
    except SystemExit as e:
        res.update(verdict="internal", exc="SystemExit", fn="exit", sig=["exit"], message="SystemExit(%r) in phase %s" % (e.code, phase), phase=phase, traceback="")
        return res
    except BaseException as e:
        if isinstance(e, KeyboardInterrupt):
            raise
        fn, sig, text = tb_info(e)
        try:
            m = str(e)[:300]
        except BaseException:
            m = "<unprintable>"
        res.update(verdict="internal", exc=type(e).__name__, fn=fn, sig=sig, traceback=text, phase=phase,
                   message="%s: %s (phase %s)" % (type(e).__name__, m, phase))
        return res
    finally:
        signal.alarm(0)
        signal.signal(signal.SIGALRM, old)


def main():
    jobs = json.load(sys.stdin)
    out = sys.stdout
    real_stdout = os.fdopen(os.dup(1), "w")
    for j in jobs:
        t = time.time()
        print(json.dumps({"id": j["id"], "start": True}), file=real_stdout, flush=True)
        r = compile_one(j["src"], j.get("flags", []), int(j.get("limit", 20)))
        r["id"] = j["id"]
        r["secs"] = round(time.time() - t, 3)
        print(json.dumps(r), file=real_stdout, flush=True)


if __name__ == "__main__":
    main()
