"""Worker for C20: compiles a sequence of programs in ONE process (whose PYTHONHASHSEED the parent chose)
and prints, for each, the verdict and the exported machine with the structural keys of its primitives."""
import sys, os, json
sys.path.insert(0, os.path.dirname(os.path.abspath(__file__)))
import nm, export

def main():
    jobs = json.load(sys.stdin)
    out = []
    # perturb the heap layout a little so that id()-dependent orders have a chance to differ
    junk = [object() for _ in range(int(os.environ.get("VERIF_JUNK", "0")))]
    for j in jobs:
        I = export.Interner()
        r = nm.compile_source(j["src"], j["flags"], interner=I)
        m = r["machines"].get("post_optimize")
        out.append({"verdict": r["verdict"], "message": r["message"][:200], "machine": m,
                    "prims": [p["key"] for p in I.prim_info], "tests": [t["key"] for t in I.test_info],
                    "prim_info": I.prim_info, "test_info": I.test_info})
    json.dump(out, sys.stdout)

main()
