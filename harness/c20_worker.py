"""Worker for C20: compiles a sequence of programs in ONE process (whose PYTHONHASHSEED the parent chose)
and prints, for each, the verdict and the exported machine with the structural keys of its primitives."""
import sys, os, json
sys.path.insert(0, os.path.dirname(os.path.abspath(__file__)))
import nm, export

def main():
    jobs = json.load(sys.stdin)
    out = []
    # perturb the heap layout a little so that id()-dependent orders have a chance to differ
    junk = [object() for _ in range(int(os.environ.get("VERIF_JUNK", "0")))]
    import gc, locale
    def interp_state():
        # what a later compilation in this process could feel besides the compiler's own objects
        return {"recursionlimit": sys.getrecursionlimit(), "cwd": os.getcwd(), "sys.path": list(sys.path), "environ": dict(os.environ),
                "gc.threshold": gc.get_threshold(), "locale": locale.setlocale(locale.LC_ALL), "switchinterval": sys.getswitchinterval()}
    for j in jobs:
        I = export.Interner()
        before = interp_state()
        r = nm.compile_source(j["src"], j["flags"], interner=I)
        after = interp_state()
        m = r["machines"].get("post_optimize")
        out.append({"verdict": r["verdict"], "message": r["message"][:200], "machine": m,
                    "interp_changed": {k: [repr(before[k])[:80], repr(after[k])[:80]] for k in before if before[k] != after[k]},
                    "prims": [p["key"] for p in I.prim_info], "tests": [t["key"] for t in I.test_info],
                    "prim_info": I.prim_info, "test_info": I.test_info})
    json.dump(out, sys.stdout)

main()
