"""C correspondence: build the generated parser with a generated driver, run the same commands through the
gcc-built binary and through the extracted Coq model (ocaml/crun), and diff canonical result lines.

Command language (shared by cdriver and crun):
   init <val>...      val := I <z> | B <counter> <ncells> <cell>...        (cell -1 = leave indeterminate)
   step <q> <sym>     forced-state single step (sym 256 = end of input)
   stepn <q> <n> <byte>...   forced state, one feed call on an n-byte chunk
   run <nchunks> <len>... <byte>... <mode>      mode bit 0: call end() afterwards; bit 1: keep calling after a terminal result
Result lines:  <code> <state> <consumed> | <outs> | <hooks>      (or UNDEF from the model)
"""
import os, subprocess, shutil, re, hashlib
import common, export
from common import VERIF, BUILD, sh

CRUN = os.path.join(VERIF, "ocaml", "crun")


# ---------------------------------------------------------------------------
# cfg text for the extracted model
# ---------------------------------------------------------------------------
def int_cty(o, packed_enums=False):
    if o["type"] == "BOOL":
        return "bool"
    if o["type"] == "ENUM":
        return "u8" if packed_enums else "u32"
    w, sg = o["width"], o["signed"]
    if w is None:
        return "i32" if sg else "u32"
    return {1: "8", 2: "16", 4: "32", 8: "64"}[w].join(["i" if sg else "u", ""])


RAW_SIZES = {"int8_t": 1, "uint8_t": 1, "int16_t": 2, "uint16_t": 2, "int32_t": 4, "uint32_t": 4, "int64_t": 8, "uint64_t": 8, "float": 4, "double": 8}


class CfgPrinter:
    def __init__(self, m, interner, flags):
        self.m, self.I, self.flags = m, interner, flags
        self.outs = m["outs"]
        self.vidx = {o["name"]: i for i, o in enumerate(self.outs)}
        self.u8 = "-fstrings-as-u8" in flags
        self.packed = "-fuse-packed-enums" in flags
        self.unsafe = "-funsafe-string-indexing" in flags

    def decl(self, o):
        if o["type"] in ("INT", "BOOL", "ENUM"):
            return "I " + int_cty(o, self.packed)
        if o["type"] == "STR":
            return "B %d %d %d" % (o["size"], 1 if o["null"] else 0, 1 if self.u8 else 0)
        if o["type"] == "RAW":
            return "B %d 0 1" % RAW_SIZES.get(o["raw"], 8)
        raise ValueError(o)

    def expr(self, k):
        t = k[0]
        if t == "lit": return "L %d" % k[1]
        if t == "bool": return "K %d" % (1 if k[1] else 0)
        if t == "enum":
            o = self.outs[self.vidx[k[2]]]
            return "K %d" % o["enum"].index(k[1])
        if t == "var": return "V %d" % self.vidx[k[1]]
        if t == "len": return "N %d" % self.vidx[k[1]]
        if t == "index": return "X %d %s" % (self.vidx[k[1]], self.expr(k[2]))
        if t == "last": return "$"
        def fold(children, ops):
            out = self.expr(children[0])
            for c, op in zip(children[1:], ops):
                out = "O %s %s %s" % (op, out, self.expr(c))
            return out
        if t == "sum": return fold(k[1], ["-" if n else "+" for n in k[2][1:]])
        if t == "mul": return fold(k[1], list(k[2][1:]))
        if t == "cmp": return "O %s %s %s" % (k[1], self.expr(k[2]), self.expr(k[3]))
        if t == "shift": return "O %s %s %s" % ("<<" if k[1] else ">>", self.expr(k[2]), self.expr(k[3]))
        if t == "bit": return fold(k[2], [k[1]] * (len(k[2]) - 1))
        if t == "or": return fold(k[1], ["||"] * (len(k[1]) - 1))
        if t == "and": return fold(k[1], ["&&"] * (len(k[1]) - 1))
        raise ValueError(k)

    def prim(self, info):
        k = info["kind"]
        if k == "setint": return "SI %d %s" % (self.vidx[info["var"]], self.expr(info["expr"]))
        if k == "setstr": return "SS %d %d %s" % (self.vidx[info["var"]], len(info["bytes"]), " ".join(map(str, info["bytes"])))
        if k == "delete":
            # with on-demand allocation and -fdelete-string-free-memory delete frees the heap buffer: no content survives
            o = self.outs[self.vidx[info["var"]]]
            freed = o["type"] == "STR" and "-fallocate-str-space-dynamic-on-demand" in self.flags and "-fdelete-string-free-memory" in self.flags
            return "%s %d" % ("DF" if freed else "DL", self.vidx[info["var"]])
        if k == "append": return "AP %d" % self.vidx[info["var"]]
        if k == "appendexpr": return "AE %d %s" % (self.vidx[info["var"]], self.expr(info["expr"]))
        if k == "hook": return "HK %d" % self.m["hooks"].index(info["name"])
        raise ValueError(info)

    def test(self, info):
        if info["kind"] == "full": return "FU %d" % self.vidx[info["var"]]
        return "CD %s" % self.expr(info["expr"])

    def text(self):
        L = ["cfg %d %d %s" % (0 if self.unsafe else 1, len(self.outs), " ".join(self.decl(o) for o in self.outs))]
        L.append("%d %s" % (len(self.I.prim_info), " ".join(self.prim(p) for p in self.I.prim_info)))
        L.append("%d %s" % (len(self.I.test_info), " ".join(self.test(t) for t in self.I.test_info)))
        dfl = []
        ondemand = "-fallocate-str-space-dynamic-on-demand" in self.flags
        for i, o in enumerate(self.outs):
            if o["default"] is None:
                if o["type"] == "STR" and o["null"] and not ondemand:
                    dfl.append("DL %d" % i)          # start() terminates the empty string (in-struct and heap; on-demand has no buffer yet)
                continue
            if o["type"] in ("STR", "RAW"):
                dfl.append("SS %d %d %s" % (i, len(o["default"]), " ".join(map(str, o["default"]))))
            else:
                dfl.append("SI %d %s" % (i, self.expr(o["default"])))
        L.append("%d %s" % (len(dfl), " ".join(dfl)))
        return "\n".join(L)

    def init_vals(self, zeroed=True, overrides=None):
        """the data the C driver establishes before start(): struct memset to 0; heap buffers indeterminate"""
        dyn = any(f.startswith("-fallocate-str-space-dynamic") for f in self.flags)
        out = []
        for o in self.outs:
            ov = (overrides or {}).get(o["name"])
            if o["type"] in ("INT", "BOOL", "ENUM"):
                out.append("I %d" % (ov if ov is not None else 0))
            else:
                size = o["size"] if o["type"] == "STR" else RAW_SIZES.get(o["raw"], 8)
                if ov is not None:
                    term = [0] if (o["type"] == "STR" and o["null"]) else []      # contexts keep terminated strings terminated
                    cells = list(ov) + term + [(-1 if (dyn and o["type"] == "STR") else 0)] * (size - len(ov) - len(term))
                    out.append("B %d %d %s" % (len(ov), size, " ".join(map(str, cells[:size]))))
                else:
                    c = -1 if (dyn and o["type"] == "STR") else 0
                    out.append("B 0 %d %s" % (size, " ".join([str(c)] * size)))
        return "init " + " ".join(out)


# ---------------------------------------------------------------------------
# generated C driver
# ---------------------------------------------------------------------------
def driver_source(name, m, flags):
    P = name
    U = name.upper()
    outs = m["outs"]
    indirect = "-findirect-start-ptr" in flags or "-fyield-support" in flags
    eof = "-feof-support" in flags
    per_state = "-fhook-per-state" in flags
    dyn = any(f.startswith("-fallocate-str-space-dynamic") for f in flags)
    u8 = "-fstrings-as-u8" in flags
    L = ['#include "%s.h"' % P, "#include <stdio.h>", "#include <stdlib.h>", "#include <string.h>", "#include <inttypes.h>", ""]
    L.append("static %s_state_t st;" % P)
    L.append("static char hooklog[1 << 16]; static size_t hooklen;")
    L.append("static char outbuf[1 << 14];")
    # dump outputs into a buffer
    L.append("static void dump_outs(char *b) { char *p = b; *p = 0;")
    for i, o in enumerate(outs):
        sep = '","' if i else '""'
        nm = o["name"]
        if o["type"] in ("INT", "BOOL", "ENUM"):
            sg = o["type"] == "INT" and o["signed"]
            if sg:
                L.append('  p += sprintf(p, %s "%%lld", (long long)st.c.%s);' % (sep, nm))
            else:
                L.append('  p += sprintf(p, %s "%%llu", (unsigned long long)st.c.%s);' % (sep, nm))
        else:
            isstr = o["type"] == "STR"
            ptr = ("((const unsigned char *)st.c.%s)" % nm) if isstr else ("((const unsigned char *)&st.c.%s)" % nm)
            L.append('  p += sprintf(p, %s "%%u:", (unsigned)st.%s_counter);' % (sep, nm))
            L.append('  if (%s) for (unsigned i = 0; i < (unsigned)st.%s_counter; i++) p += sprintf(p, "%%02x", %s[i]);' % (ptr if isstr and dyn else "1", nm, ptr))
            if isstr and o["null"]:
                if dyn:
                    L.append('  if (!st.c.%s) p += sprintf(p, ":TN"); else p += sprintf(p, %s[st.%s_counter] == 0 ? ":T1" : ":T0");' % (nm, ptr, nm))
                else:
                    L.append('  p += sprintf(p, %s[st.%s_counter] == 0 ? ":T1" : ":T0");' % (ptr, nm))
    L.append("}")
    for hi, h in enumerate(m["hooks"]):
        fn = "%s_%s_hook" % (P, h) if not per_state else "hook_%s" % h
        L.append("%svoid %s(%s_state_t *s, uint8_t inval) { (void)s; char b[1 << 12]; dump_outs(b); hooklen += snprintf(hooklog + hooklen, sizeof hooklog - hooklen, \"%%s%d@%%u[%%s]\", hooklen ? \";\" : \"\", (unsigned)inval, b); }" % ("static " if per_state else "", fn, P, hi))
    def code_name(c):
        return c
    L.append("static const char *code_str(int c) { static char b[16]; switch (c) { case %s_OK: return \"OK\"; case %s_FAIL: return \"FAIL\"; case %s_DONE: return \"DONE\";" % (U, U, U))
    for i, fc in enumerate(m["finish_codes"]):
        L.append('  case %s_FINISH_%s: return "F%d";' % (U, fc, i))
    for i, yc in enumerate(m["yield_codes"]):
        L.append('  case %s_YIELD_%s: return "Y%d";' % (U, yc, i))
    L.append('  default: snprintf(b, sizeof b, "?%d", c); return b; } }')
    L.append("static int is_yield(int c) { switch (c) {" + "".join(" case %s_YIELD_%s:" % (U, yc) for yc in m["yield_codes"]) + (" return 1;" if m["yield_codes"] else "") + " default: return 0; } }")
    L.append("static void report(int code, long consumed) { dump_outs(outbuf); printf(\"%s %u %ld | %s | %s\\n\", code_str(code), (unsigned)st.state, consumed, outbuf, hooklog); hooklen = 0; hooklog[0] = 0; }")
    L.append("static void set_hooks(void) {" + "".join(" st.%s_hook = hook_%s;" % (h, h) for h in m["hooks"]) + " }" if per_state else "static void set_hooks(void) {}")
    # init: read values
    L.append("static void do_init(void) {")
    for o in outs:
        nm = o["name"]
        if o["type"] in ("INT", "BOOL", "ENUM"):
            L.append('  { char t[4]; char v[64]; if (scanf("%%3s %%63s", t, v) != 2) exit(3); st.c.%s = (__typeof__(st.c.%s))%s(v, NULL, 10); }' % (nm, nm, "strtoll" if (o["type"] == "INT" and o["signed"]) else "strtoull"))
        else:
            isstr = o["type"] == "STR"
            L.append('  { char t[4]; long cnt, n; if (scanf("%3s %ld %ld", t, &cnt, &n) != 3) exit(3);')
            if isstr and dyn:
                L.append('    if (!st.c.%s && (cnt > 0)) st.c.%s = malloc(%d);' % (nm, nm, o["size"]))
            tgt = ("((unsigned char *)st.c.%s)" % nm) if isstr else ("((unsigned char *)&st.c.%s)" % nm)
            L.append('    for (long i = 0; i < n; i++) { long c; if (scanf("%%ld", &c) != 1) exit(3); if (c >= 0 && %s) %s[i] = (unsigned char)c; }' % (tgt if (isstr and dyn) else "1", tgt))
            L.append('    st.%s_counter = cnt; }' % nm)
    L.append("}")
    # context snapshot: every forced step starts from the data established by the last `init`
    dynstrs = [o for o in outs if o["type"] == "STR" and dyn]
    L.append("static %s_state_t saved;" % P)
    for o in dynstrs:
        L.append("static unsigned char saved_%s[%d]; static int saved_has_%s;" % (o["name"], o["size"], o["name"]))
    L.append("static void save_ctx(void) { saved = st;")
    for o in dynstrs:
        L.append("  saved_has_%s = st.c.%s != NULL; if (st.c.%s) memcpy(saved_%s, st.c.%s, %d);" % (o["name"], o["name"], o["name"], o["name"], o["name"], o["size"]))
    L.append("}")
    L.append("static void restore_ctx(void) {")
    for o in dynstrs:
        L.append("  if (st.c.%s && st.c.%s != saved.c.%s) free(st.c.%s);" % (o["name"], o["name"], o["name"], o["name"]))
    L.append("  st = saved;")
    for o in dynstrs:
        L.append("  if (saved_has_%s) { st.c.%s = saved.c.%s = malloc(%d); memcpy(st.c.%s, saved_%s, %d); }" % (o["name"], o["name"], o["name"], o["size"], o["name"], o["name"], o["size"]))
    L.append("}")
    feed_call = "%s_feed(&cur, end, &st)" % P if indirect else "%s_feed(cur, end, &st)" % P
    L.append("int main(void) { char cmd[16]; memset(&st, 0, sizeof st); int started = 0; static unsigned char buf[1 << 16];")
    L.append("  while (scanf(\"%15s\", cmd) == 1) {")
    L.append("    if (!strcmp(cmd, \"init\")) { if (!started) { set_hooks(); %s_start(&st); started = 1; hooklen = 0; hooklog[0] = 0; } do_init(); save_ctx(); }" % P)
    L.append("    else if (!strcmp(cmd, \"step\")) { long q, s; if (scanf(\"%ld %ld\", &q, &s) != 2) exit(3); restore_ctx(); st.state = q; hooklen = 0; hooklog[0] = 0;")
    L.append("      if (s == 256) { %s }" % (("int c = %s_end(&st); report(c, 0);" % P) if eof else 'printf("NOEND\\n");'))
    L.append("      else { unsigned char b = (unsigned char)s; const uint8_t *cur = &b; const uint8_t *end = &b + 1; int c = %s; report(c, %s); } }" % (feed_call, "(long)(cur - &b)" if indirect else "-1"))
    L.append("    else if (!strcmp(cmd, \"stepn\")) { long q, n; if (scanf(\"%ld %ld\", &q, &n) != 2) exit(3); for (long i = 0; i < n; i++) { long c; if (scanf(\"%ld\", &c) != 1) exit(3); buf[i] = (unsigned char)c; }")
    L.append("      restore_ctx(); st.state = q; hooklen = 0; hooklog[0] = 0; const uint8_t *cur = buf; const uint8_t *end = buf + n; int c = %s; report(c, %s); }" % (feed_call, "(long)(cur - buf)" if indirect else "-1"))
    L.append("    else if (!strcmp(cmd, \"run\")) { long nch; if (scanf(\"%ld\", &nch) != 1) exit(3); static long lens[1 << 14]; long tot = 0; for (long i = 0; i < nch; i++) { if (scanf(\"%ld\", &lens[i]) != 1) exit(3); tot += lens[i]; }")
    L.append("      for (long i = 0; i < tot; i++) { long c; if (scanf(\"%ld\", &c) != 1) exit(3); buf[i] = (unsigned char)c; } long endflag; if (scanf(\"%ld\", &endflag) != 1) exit(3);")
    L.append("      /* every run starts from the init data: the driver keeps a pristine copy */")
    L.append("      memset(&st, 0, sizeof st); set_hooks(); hooklen = 0; hooklog[0] = 0; int c = %s_start(&st); report(c, 0); int keep = (endflag & 2) != 0; int stop = (c != %s_OK) && !keep;" % (P, U))
    L.append("      long off = 0; for (long i = 0; i < nch && !stop; i++) { const uint8_t *base = buf + off; const uint8_t *cur = base; const uint8_t *end = base + lens[i]; off += lens[i];")
    L.append("        for (;;) { const uint8_t *before = cur; c = %s; report(c, %s);" % (feed_call, "(long)(cur - before)" if indirect else "-1"))
    L.append("          if (is_yield(c)) { %s continue; } if (c != %s_OK && !keep) stop = 1; break; } }" % ("if (cur == end && !%d) break;" % (1 if m["end_check"] else 0), U))
    L.append("      if ((endflag & 1) && !stop) { %s }" % (("c = %s_end(&st); report(c, 0);" % P) if eof else ""))
    if dyn:
        L.append("      %s_free(&st);" % P)
    L.append("      printf(\"--\\n\");")
    L.append("    }")
    L.append("    else { fprintf(stderr, \"bad command %s\\n\", cmd); return 3; } }")
    L.append("  return 0; }")
    return "\n".join(L) + "\n"


def build(workdir, name, c_src, h_src, drv_src, cflags=("-O1",), sanitize=False):
    os.makedirs(workdir, exist_ok=True)
    open(os.path.join(workdir, name + ".c"), "w").write(c_src)
    open(os.path.join(workdir, name + ".h"), "w").write(h_src)
    open(os.path.join(workdir, "drv.c"), "w").write(drv_src)
    cmd = ["gcc", "-std=gnu11", "-w"] + list(cflags) + (["-fsanitize=address,undefined", "-fno-sanitize-recover=undefined", "-g"] if sanitize else []) + \
          ["-o", os.path.join(workdir, "drv"), os.path.join(workdir, "drv.c"), os.path.join(workdir, name + ".c")]
    rc, out = sh(cmd, timeout=180)
    return rc, out


def run_c(workdir, commands, timeout=20):
    try:
        p = subprocess.run([os.path.join(workdir, "drv")], input=commands, capture_output=True, text=True, timeout=timeout,
                           env=dict(os.environ, ASAN_OPTIONS="detect_leaks=1:abort_on_error=0", UBSAN_OPTIONS="print_stacktrace=0"))
        return p.returncode, p.stdout.splitlines(), p.stderr
    except subprocess.TimeoutExpired as e:
        out = e.stdout or b""
        if isinstance(out, bytes):
            out = out.decode("utf-8", "replace")
        return 124, out.splitlines(), "timeout"


def run_model(dfa_text, cfg_text, commands, timeout=120):
    p = subprocess.run(["bash", "-c", "ulimit -s unlimited 2>/dev/null; exec " + CRUN], input=dfa_text + "\n" + cfg_text + "\n" + commands,
                       capture_output=True, text=True, timeout=timeout)
    return p.returncode, p.stdout.splitlines(), p.stderr


def canon(line, direct):
    """canonicalise a result line for comparison"""
    line = line.strip()
    if line.startswith("UNDEF") or line.startswith("NOEND"):
        return line
    parts = [x.strip() for x in line.split("|")]
    head = parts[0].split()
    if direct and len(head) == 3:
        head[2] = "-"
    return " ".join(head) + " | " + " | ".join(parts[1:])


def compare(c_lines, m_lines, direct):
    """returns list of (index, c_line, model_line) for differing lines; UNDEF model lines are skipped;
    a buffer whose C pointer is NULL prints :TN and matches either terminator verdict"""
    diffs, undef = [], 0
    n = max(len(c_lines), len(m_lines))
    for i in range(n):
        c = c_lines[i] if i < len(c_lines) else "<missing>"
        mm = m_lines[i] if i < len(m_lines) else "<missing>"
        if mm.startswith("UNDEF"):
            undef += 1
            if "run" in "":
                pass
            continue
        cc, mc = canon(c, direct), canon(mm, direct)
        # a NULL buffer (:TN in C) or an indeterminate terminator cell (:T? in the model) matches either verdict
        cfs, mfs = re.findall(r":T[01N?]", cc), re.findall(r":T[01N?]", mc)
        if len(cfs) == len(mfs):
            for k, (a, b) in enumerate(zip(cfs, mfs)):
                if a == ":TN" or b == ":T?":
                    cfs[k] = mfs[k] = ":T_"
            it1, it2 = iter(cfs), iter(mfs)
            cc2 = re.sub(r":T[01N?]", lambda _: next(it1), cc)
            mc2 = re.sub(r":T[01N?]", lambda _: next(it2), mc)
        else:
            mc2, cc2 = mc, cc
        if cc2 != mc2:
            diffs.append((i, c, mm))
    return diffs, undef


# ---------------------------------------------------------------------------
# inputs and data contexts
# ---------------------------------------------------------------------------
def special_bytes(I):
    """byte values mentioned as literals in conditions / expressions of a compiled program ($last == 'f')"""
    lits = set()
    def collect(k):
        if isinstance(k, tuple):
            if len(k) == 2 and k[0] == "lit" and isinstance(k[1], int) and 0 <= k[1] < 256:
                lits.add(k[1])
            for x in k:
                collect(x)
    for info in I.test_info + I.prim_info:
        collect(info.get("expr"))
    return sorted(lits)


def random_input(m, rng, maxlen=24, special=(), clean=False):
    """random walk over the exported graph (conditions ignored): mostly-accepted inputs (clean: only non-error
    transitions, no stray bytes - long walks that get deep into the machine); bytes that occur as
    literals in the program's conditions are preferred when a transition admits them"""
    q = m["start"]
    out = []
    hops = 0
    while len(out) < maxlen and hops < 400:
        hops += 1
        st = m["states"][q] if q is not None and q < len(m["states"]) else None
        if st is None or st["kind"] == "fail":
            break
        trs = st.get("trans") if st["kind"] == "normal" else [t for _, t in st["brs"]]
        if not trs:
            break
        # prefer non-error transitions
        good = [t for t in trs if not t["err"]] or trs
        if st["kind"] == "normal" and not clean and rng.random() < 0.12:
            # a byte right next to the end of a run of byte values of some transition (off-by-one in range tests)
            cand = set()
            for t2 in trs:
                bs2 = sorted(b for b in t2["on"] if b < 256)
                for i, b in enumerate(bs2):
                    if i == 0 or bs2[i - 1] != b - 1:
                        cand.add(b - 1)
                    if i == len(bs2) - 1 or bs2[i + 1] != b + 1:
                        cand.add(b + 1)
            cand = [b for b in cand if 0 <= b < 256]
            if cand:
                b = rng.choice(cand)
                tsel = [t2 for t2 in trs if b in t2["on"]] or [t2 for t2 in trs if 257 in t2["on"]]
                if tsel:
                    out.append(b)
                    q = tsel[0]["tgt"]
                    continue
        t = rng.choice(good if clean or rng.random() < 0.85 else trs)
        if st["kind"] == "normal" and not t["fall"]:
            bs = [b for b in t["on"] if b < 256]
            if not bs or (257 in t["on"] and rng.random() < 0.4):     # (a transition may list bytes next to Else)
                if 257 in t["on"]:
                    used = set(b for t2 in trs for b in t2["on"])
                    bs = [b for b in (list(range(97, 123)) + [32, 48, 0, 255]) if b not in used] or [rng.randrange(256)]
                else:
                    break
            sp = [b for b in bs if b in special]
            out.append(rng.choice(sp) if sp and rng.random() < 0.5 else rng.choice(bs))
        gt = export_goto_targets(t["acts"])
        q = rng.choice(gt) if gt and rng.random() < 0.1 else t["tgt"]
    if not clean and rng.random() < 0.3:
        out.append(rng.randrange(256))
    return out


def export_goto_targets(a):
    k = a[0]
    if k in ("goto", "break"):
        return [a[1]] if a[1] is not None else []
    if k == "prim":
        return export_goto_targets(a[2])
    if k == "test":
        return export_goto_targets(a[2]) + export_goto_targets(a[3])
    return []


INT_RANGE = {"bool": (0, 1), "i8": (-128, 127), "u8": (0, 255), "i16": (-32768, 32767), "u16": (0, 65535), "i32": (-2**31, 2**31 - 1),
             "u32": (0, 2**32 - 1), "i64": (-2**63, 2**63 - 1), "u64": (0, 2**64 - 1)}


def contexts(cp, rng, n_random=2):
    """data contexts for forced single steps: zeros, boundary values / full buffers, random"""
    outs = cp.outs
    ctxs = [{}]
    full = {}
    for o in outs:
        if o["type"] in ("INT", "BOOL", "ENUM"):
            lo, hi = INT_RANGE[int_cty(o, cp.packed)]
            full[o["name"]] = min(hi, 3) if o["type"] != "ENUM" else min(len(o["enum"]) - 1, 1)
        elif o["type"] == "STR":
            eff = o["size"] - (1 if o["null"] else 0)
            full[o["name"]] = [97 + (i % 26) for i in range(eff)]
        else:
            full[o["name"]] = [1] * RAW_SIZES.get(o["raw"], 8)
    ctxs.append(full)
    for _ in range(n_random):
        c = {}
        for o in outs:
            if o["type"] in ("INT", "BOOL"):
                lo, hi = INT_RANGE[int_cty(o, cp.packed)]
                c[o["name"]] = rng.choice([v for v in (0, 1, 2, 3, 5, 10, 48, 97, 100, 255, -1, hi, lo, hi - 1) if lo <= v <= hi])
            elif o["type"] == "ENUM":
                c[o["name"]] = rng.randrange(len(o["enum"]))
            elif o["type"] == "STR":
                eff = o["size"] - (1 if o["null"] else 0)
                n = rng.choice([0, 1, max(0, eff - 1), eff])
                c[o["name"]] = [rng.choice([97, 98, 48, 57, 0, 128, 255, 102]) for _ in range(min(n, eff))]
            else:
                sz = RAW_SIZES.get(o["raw"], 8)
                c[o["name"]] = [rng.randrange(256) for _ in range(rng.choice([0, 1, sz]))]
        ctxs.append(c)
    return ctxs


# ---------------------------------------------------------------------------
# one-stop preparation of a program x option set
# ---------------------------------------------------------------------------
def prepare_compile(src, flags, max_states=None, interner=None):
    """(main thread: the compile helper uses SIGALRM) compile with the real compiler, export, print cfg"""
    import nm
    I = interner or export.Interner()
    r = nm.compile_source(src, flags, want_c=True, name="prog", interner=I)
    out = {"ok": False, "verdict": r["verdict"], "why": r["message"], "flags": flags, "src": src}
    if r["verdict"] != "ok":
        return out
    m = r["machines"]["post_optimize"]
    if max_states and len(m["states"]) > max_states:
        out["why"] = "too-large"
        return out
    cp = CfgPrinter(m, I, flags)
    try:
        cfg_text = cp.text()
    except Exception as e:
        out["why"] = "cfg-unsupported: %r" % e
        return out
    out.update(ok=True, m=m, I=I, cp=cp, cfg_text=cfg_text, dfa_text=export.text_dfa(m), c=r["c"], h=r["h"],
               direct=not ("-findirect-start-ptr" in flags or "-fyield-support" in flags), eof="-feof-support" in flags)
    return out


def prepare_build(P, workdir, sanitize=False, cflags=("-O1",)):
    """(any thread) generate + build the driver for a compiled program"""
    if not P["ok"]:
        return P
    shutil.rmtree(workdir, ignore_errors=True)
    rc, bout = build(workdir, "prog", P["c"], P["h"], driver_source("prog", P["m"], P["flags"]), sanitize=sanitize, cflags=cflags)
    if rc != 0:
        P = dict(P, ok=False, why="c-build-failed", build_output=bout[-800:])
        shutil.rmtree(workdir, ignore_errors=True)
        return P
    return dict(P, wd=workdir)


def prepare(src, flags, workdir, sanitize=False, max_states=None, cflags=("-O1",)):
    return prepare_build(prepare_compile(src, flags, max_states), workdir, sanitize, cflags)


def split_blocks(lines):
    """result lines of consecutive `run` commands -> list of blocks (lists of lines), delimited by '--'"""
    blocks, cur = [], []
    for l in lines:
        if l.strip() == "--":
            blocks.append(cur); cur = []
        else:
            cur.append(l)
    if cur:
        blocks.append(cur)
    return blocks


def parse_line(l):
    parts = [x.strip() for x in l.split("|")]
    head = parts[0].split()
    if len(head) != 3 or len(parts) < 3:
        return None
    try:
        return {"code": head[0], "state": int(head[1]), "consumed": int(head[2]), "outs": parts[1], "hooks": parts[2]}
    except ValueError:
        return None


def observation(block, direct):
    """chunk-independent observation of one run: hook calls in order, every non-OK return with its absolute offset,
    final outputs, final machine state"""
    pos = 0
    hooks, rets = [], []
    last = None
    for i, l in enumerate(block):
        p = parse_line(l)
        if p is None:
            return ("unparsable", l)
        if i > 0 and not direct and p["consumed"] >= 0:
            pos += p["consumed"]
        if p["hooks"]:
            hooks.append(p["hooks"])
        if p["code"] != "OK":
            rets.append((p["code"], None if direct else pos))
        last = p
    return (";".join(hooks), tuple(rets), last["outs"] if last else None, last["state"] if last else None,
            last["code"] if last else None)


def all_splits(n, rng, limit=40):
    """compositions of n into positive chunk sizes: all of them when n is small, else whole / all-ones / single cuts / random"""
    if n <= 1:
        return [[n]] if n else [[]]
    if n <= 6:
        out = []
        for mask in range(1 << (n - 1)):
            lens, cur = [], 1
            for i in range(n - 1):
                if mask >> i & 1:
                    lens.append(cur); cur = 1
                else:
                    cur += 1
            lens.append(cur)
            out.append(lens)
        return out
    out = [[n], [1] * n]
    cuts = list(range(1, n))
    rng.shuffle(cuts)
    for c in cuts[:12]:
        out.append([c, n - c])
    for _ in range(limit - len(out)):
        k = rng.randint(2, min(6, n))
        cs = sorted(rng.sample(range(1, n), k - 1))
        out.append([b - a for a, b in zip([0] + cs, cs + [n])])
    return out
