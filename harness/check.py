#!/usr/bin/env python3
"""Entry point of every registered check:  python3 harness/check.py --property Cxx --tier quick|thorough

Re-executes itself under /venv/bin/python with PYTHONPATH=/repo (the current
working tree is what is imported), PYTHONHASHSEED=0 and the hook guard
NMFU_VERIF=1, then dispatches to harness/props/cxx.py: run(ctx).
"""
import os, sys, argparse

HERE = os.path.dirname(os.path.abspath(__file__))
VERIF = os.path.dirname(HERE)


def reexec():
    want = "/venv/bin/python"
    if os.environ.get("NMFU_VERIF_REEXEC") == "1":
        return
    env = dict(os.environ)
    env["NMFU_VERIF_REEXEC"] = "1"
    env["NMFU_VERIF"] = "1"
    env["PYTHONPATH"] = os.environ.get("NMFU_REPO", "/repo") + ":" + HERE
    env["PYTHONHASHSEED"] = env.get("VERIF_HASHSEED", "0")
    env["PYTHONDONTWRITEBYTECODE"] = "1"
    os.execve(want, [want, os.path.abspath(__file__)] + sys.argv[1:], env)


def main():
    reexec()
    ap = argparse.ArgumentParser()
    ap.add_argument("--property", required=True)
    ap.add_argument("--tier", default=os.environ.get("VERIF_TIER", "quick"))
    ap.add_argument("--replay", default=None)
    a = ap.parse_args()
    os.chdir(VERIF)
    sys.path.insert(0, HERE)
    seed = int(os.environ.get("VERIF_SEED", "1"))
    import importlib, common
    mod = importlib.import_module("props." + a.property.lower())
    ctx = common.Ctx(a.property, a.tier if a.tier in ("quick", "thorough") else "quick", seed, mod.LEVEL)
    if a.replay:
        rc = mod.replay(ctx, a.replay) if hasattr(mod, "replay") else common.generic_replay(ctx, a.replay)
        sys.exit(rc)
    try:
        mod.run(ctx)
    except Exception as e:  # machinery failure: fail closed, as a violation without input
        import traceback
        tb = traceback.format_exc()
        print(tb)
        ctx.violation("harness-exception:" + type(e).__name__, "the check itself failed: " + repr(e),
                      {"traceback": tb, "broken": "harness"}, found_input=False)
    sys.exit(ctx.finish())


if __name__ == "__main__":
    main()
