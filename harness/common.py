"""Shared machinery for every property check (DESIGN.md section 6).

Everything here runs under /venv/bin/python with PYTHONPATH=/repo so that the
*current working tree* of /repo is what gets imported, compiled and exported.
"""
import os, sys, json, time, hashlib, subprocess, random, fcntl, shutil, traceback, re

VERIF = os.path.dirname(os.path.dirname(os.path.abspath(__file__)))
REPO = os.environ.get("NMFU_REPO", "/repo")
COQ = os.path.join(VERIF, "coq")
BUILD = os.path.join(VERIF, "build")
EVID = os.path.join(VERIF, "evidence")
REPLAYS = os.path.join(VERIF, "replays")
PY = "/venv/bin/python"
NCPU = os.cpu_count() or 4

for d in (BUILD, EVID, REPLAYS):
    os.makedirs(d, exist_ok=True)


def sh(cmd, timeout=600, cwd=None, env=None, input=None):
    """run a command, return (rc, stdout+stderr)"""
    e = dict(os.environ)
    if env:
        e.update(env)
    try:
        p = subprocess.run(cmd, shell=isinstance(cmd, str), cwd=cwd, env=e, input=input,
                           stdout=subprocess.PIPE, stderr=subprocess.STDOUT, timeout=timeout, text=True)
        return p.returncode, p.stdout
    except subprocess.TimeoutExpired as ex:
        out = ex.stdout or ""
        if isinstance(out, bytes):
            out = out.decode("utf-8", "replace")
        return 124, out + "\n[timeout after %ss]" % timeout


def repo_hash():
    h = hashlib.sha256()
    with open(os.path.join(REPO, "nmfu.py"), "rb") as f:
        h.update(f.read())
    return h.hexdigest()[:16]


class Lock:
    """exclusive advisory lock so that checks invoked in parallel do not trample the Coq build"""
    def __init__(self, name):
        self.path = os.path.join(BUILD, name + ".lock")
    def __enter__(self):
        self.f = open(self.path, "w")
        fcntl.flock(self.f, fcntl.LOCK_EX)
        return self
    def __exit__(self, *a):
        fcntl.flock(self.f, fcntl.LOCK_UN)
        self.f.close()


def load_known_findings():
    p = os.path.join(VERIF, "known_findings.json")
    if not os.path.exists(p):
        return {"findings": [], "fixed": []}
    return json.load(open(p))


class Ctx:
    """state of one check run: collects obligations, violations, evidence"""
    def __init__(self, prop, tier, seed, level):
        self.prop = prop
        self.tier = tier
        self.seed = seed
        self.level = level
        self.rng = random.Random(seed * 1000003 + int(prop[1:]))
        self.t0 = time.time()
        self.violations = []          # (key, what, replay_path, no_input)
        self.known_hits = []
        self.known_printed = set()
        self.obligations = 0
        self.discharged = 0
        self.coverage = {}
        self.assumptions = []
        self.samples = []
        self.notes = []
        self.known = load_known_findings()
        self.trusted = [
            "Coq 8.16.1 kernel incl. vm_compute (no native_compute)",
            "no axioms declared by the development; Print Assumptions output is recorded per theorem",
        ]

    # ---- reporting -------------------------------------------------------
    def log(self, *a):
        print("[%s %6.1fs]" % (self.prop, time.time() - self.t0), *a, flush=True)

    def known_match(self, key):
        for f in self.known.get("findings", []):
            if f["property"] == self.prop and re.fullmatch(f["key"], key):
                return f
        return None

    def violation(self, key, what, replay, found_input=True):
        """key identifies the specific witness; replay is a dict written to replays/"""
        kf = self.known_match(key)
        if kf is not None:
            if key not in self.known_hits:
                self.known_hits.append(key)
                if kf["key"] not in self.known_printed:      # one line per listed finding, however many witnesses hit it
                    self.known_printed.add(kf["key"])
                    print("KNOWN-FINDING: property=%s %s [first witness: %s]" % (self.prop, kf.get("what", what), key), flush=True)
            return False
        h = hashlib.sha256(key.encode()).hexdigest()[:12]
        path = os.path.join(REPLAYS, "%s_%s.json" % (self.prop, h))
        rec = dict(replay)
        rec.update({"property": self.prop, "key": key, "what": what, "seed": self.seed, "tier": self.tier,
                    "found_failing_input": found_input})
        with open(path, "w") as f:
            json.dump(rec, f, indent=1, default=str)
        self.violations.append((key, what, path, not found_input))
        return True

    def obligation(self, ok, name=None):
        self.obligations += 1
        if ok:
            self.discharged += 1

    def finish(self):
        wall = time.time() - self.t0
        cov = dict(self.coverage)
        cov.setdefault("samples", self.samples[:12] if self.samples else ["(none)"])
        cov["trusted_base"] = self.trusted
        if self.level == "proof":
            # the schema wants >= 1 for both; a run in which nothing was discharged (a violation run)
            # falls back to the generic counters instead of lying
            if self.obligations >= 1 and self.discharged >= 1:
                cov["obligations"] = self.obligations
                cov["discharged"] = self.discharged
            else:
                cov["proof_obligations_attempted"] = self.obligations
                cov["proof_obligations_discharged"] = self.discharged
                cov.setdefault("evaluations", max(1, self.obligations))
                cov.setdefault("distinct_nontrivial", max(2, self.obligations))
            cov.setdefault("checker_cmd", "coqc (make in /verif/coq) + Print Assumptions audit")
        cov.setdefault("known_findings_hit", self.known_hits)
        if self.notes:
            cov["notes"] = self.notes
        ev = {
            "property_id": self.prop, "tier": self.tier, "seed": self.seed, "level": self.level,
            "coverage": cov, "assumptions": self.assumptions, "wall_s": round(wall, 2),
            "violations": len(self.violations),
        }
        with open(os.path.join(EVID, self.prop + ".json"), "w") as f:
            json.dump(ev, f, indent=1, default=str)
        for key, what, path, noinput in self.violations:
            print("VIOLATION property=%s replay=%s%s" % (self.prop, path, " no-failing-input-found" if noinput else ""), flush=True)
            print("   (%s: %s)" % (key, what), flush=True)
        self.log("done: %d violations, %d known findings hit, %.1fs" % (len(self.violations), len(self.known_hits), wall))
        return 1 if self.violations else 0


# ---------------------------------------------------------------------------
# Coq build helpers
# ---------------------------------------------------------------------------
FORBIDDEN = re.compile(r"\b(Admitted|admit|Axiom|Parameter|Conjecture|Admit Obligations|bypass_check|Unset Guard Checking|Unset Positivity|type-in-type)\b")


def coq_audit_sources():
    """grep of the development for forbidden vernacular; returns list of hits"""
    hits = []
    for root, _, files in os.walk(COQ):
        for fn in files:
            if fn.endswith(".v"):
                p = os.path.join(root, fn)
                for n, line in enumerate(open(p, errors="replace"), 1):
                    l = re.sub(r"\(\*.*?\*\)", "", line)
                    if FORBIDDEN.search(l):
                        hits.append("%s:%d: %s" % (os.path.relpath(p, COQ), n, line.strip()))
    return hits


def coq_make(targets, timeout=900):
    """(re)build the given .vo targets (paths relative to coq/), under the build lock"""
    with Lock("coq"):
        if not os.path.exists(os.path.join(COQ, "Makefile")):
            rc, out = sh("coq_makefile -f _CoqProject -o Makefile", cwd=COQ, timeout=60)
            if rc != 0:
                return rc, out
        # dependency file must see generated files
        rc, out = sh(["make", "-j%d" % NCPU] + list(targets), cwd=COQ, timeout=timeout)
        return rc, out


def coqc_file(path, timeout=600, extra=()):
    """compile one stand-alone .v file (certificates) against the built development"""
    cmd = ["coqc", "-Q", COQ, "NV"] + list(extra) + [path]
    return sh(cmd, timeout=timeout, cwd=os.path.dirname(path))


def parse_assumptions(out):
    """split coqc output on 'Print Assumptions' results -> list of blocks"""
    blocks = []
    cur = None
    for line in out.splitlines():
        if line.startswith("Closed under the global context"):
            blocks.append("closed")
            cur = None
        elif line.startswith("Axioms:"):
            cur = []
            blocks.append(cur)
        elif cur is not None:
            if line.strip() == "" or not (line.startswith(" ") or ":" in line):
                cur = None
            else:
                cur.append(line.strip())
    return blocks


def write_if_changed(path, text):
    os.makedirs(os.path.dirname(path), exist_ok=True)
    if os.path.exists(path) and open(path).read() == text:
        return False
    with open(path, "w") as f:
        f.write(text)
    return True
