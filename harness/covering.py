"""Covering arrays over nmfu's code-generation parameters (C11, DESIGN.md section 5).

The parameter list is read from the imported nmfu module at run time, so a new ProgramFlag is picked up
without touching this file.  Every flag is a three-valued parameter {absent, -fX, -fno-X}; the options are
-O0..-O3 / absent and --collapsed-range-length {absent, 1, 3, 20}.  A row is *legal* when
ProgramData.load_commandline_flags accepts it (implies are resolved, explicit conflicts are rejected);
tuples of values that no legal row can contain (e.g. -fhook-global with -fhook-per-state) are taken out of the
universe that has to be covered and are counted separately.  Construction is greedy (AETG style): a row is
seeded with a still uncovered tuple and completed parameter by parameter with the value that covers the most
uncovered tuples, the best of a few candidates is kept.
"""
import itertools, random

NON_CODEGEN_PREFIXES = ("VERBOSE_", "DEBUG_")
NON_CODEGEN = ("CODEPOINTS_IN_ERRORS",)


def flag_cli(name, value):
    n = name.lower().replace("_", "-")
    return "-f" + n if value else "-fno-" + n


def parameters(nmfu):
    """[(param name, [values])] where a value is a tuple of command-line words (() = absent)"""
    params = []
    for f in nmfu.ProgramFlag:
        if f.name.startswith(NON_CODEGEN_PREFIXES) or f.name in NON_CODEGEN:
            continue
        params.append((f.name, [(), (flag_cli(f.name, True),), (flag_cli(f.name, False),)]))
    params.append(("-O", [(), ("-O0",), ("-O1",), ("-O2",), ("-O3",)]))
    if "COLLAPSED_RANGE_LENGTH" in nmfu.ProgramOption.__members__:
        params.append(("COLLAPSED_RANGE_LENGTH", [(), ("--collapsed-range-length", "1"), ("--collapsed-range-length", "3"),
                                                  ("--collapsed-range-length", "20")]))
    return params


def row_words(params, row):
    out = []
    for (name, values), vi in zip(params, row):
        out += list(values[vi])
    return out


def legal(nmfu, words):
    try:
        nmfu.ProgramData.load_commandline_flags(list(words) + ["x.nmfu"])
        return True
    except RuntimeError:
        return False


class Universe:
    def __init__(self, nmfu, params, t):
        self.nmfu, self.params, self.t = nmfu, params, t
        self.k = len(params)
        self.nv = [len(v) for _, v in params]
        self.uncovered = set()
        self.infeasible = 0
        self.total = 0
        for combo in itertools.combinations(range(self.k), t):
            for vals in itertools.product(*[range(self.nv[i]) for i in combo]):
                self.total += 1
                words = []
                for i, v in zip(combo, vals):
                    words += list(params[i][1][v])
                if legal(nmfu, words):
                    self.uncovered.add((combo, vals))
                else:
                    self.infeasible += 1
        self.feasible = len(self.uncovered)

    def tuples_of(self, row):
        for combo in itertools.combinations(range(self.k), self.t):
            yield (combo, tuple(row[i] for i in combo))

    def gain(self, row):
        return sum(1 for tp in self.tuples_of(row) if tp in self.uncovered)

    def cover(self, row):
        for tp in list(self.tuples_of(row)):
            self.uncovered.discard(tp)


def _complete(U, rng, seed_tuple):
    """complete a partial assignment greedily; returns a full row or None when it cannot be made legal"""
    k, t = U.k, U.t
    row = [None] * k
    combo, vals = seed_tuple
    for i, v in zip(combo, vals):
        row[i] = v
    order = [i for i in range(k) if row[i] is None]
    rng.shuffle(order)
    for i in order:
        assigned = [j for j in range(k) if row[j] is not None]
        best, best_v = -1, []
        for v in range(U.nv[i]):
            row[i] = v
            if not legal(U.nmfu, row_words(U.params, [x if x is not None else 0 for x in row])):
                continue
            g = 0
            for others in itertools.combinations(assigned, t - 1):
                c = tuple(sorted(others + (i,)))
                if (c, tuple(row[j] for j in c)) in U.uncovered:
                    g += 1
            if g > best:
                best, best_v = g, [v]
            elif g == best:
                best_v.append(v)
        if not best_v:
            return None
        row[i] = rng.choice(best_v)
    return row


def covering_array(nmfu, t=2, seed=1, candidates=None, max_rows=2000):
    """returns dict(params, rows (index vectors), words (command-line lists), stats)"""
    rng = random.Random(seed * 7919 + t)
    params = parameters(nmfu)
    U = Universe(nmfu, params, t)
    if candidates is None:
        candidates = 8 if t == 2 else 2
    rows = []
    while U.uncovered and len(rows) < max_rows:
        pool = rng.sample(sorted(U.uncovered), min(candidates, len(U.uncovered)))
        best, best_g = None, -1
        for seed_tuple in pool:
            row = _complete(U, rng, seed_tuple)
            if row is None:
                continue
            g = U.gain(row)
            if g > best_g:
                best, best_g = row, g
        if best is None or best_g <= 0:
            # the sampled tuples cannot be extended to a legal row together with anything: count them as infeasible
            for tp in pool:
                U.uncovered.discard(tp)
                U.infeasible += 1
                U.feasible -= 1
            continue
        U.cover(best)
        rows.append(best)
    covered = U.feasible - len(U.uncovered)
    return {"params": params, "rows": rows, "words": [row_words(params, r) for r in rows],
            "stats": {"t": t, "parameters": len(params), "rows": len(rows), "tuples_total": U.total, "tuples_infeasible": U.infeasible,
                      "tuples_feasible": U.feasible, "tuples_covered": covered}}


def coverage_of(nmfu, word_rows, t=2):
    """which fraction of the feasible t-tuples a given list of command lines covers (measured, for the evidence)"""
    params = parameters(nmfu)
    U = Universe(nmfu, params, t)
    index = []
    for name, values in params:
        index.append({tuple(v): i for i, v in enumerate(values)})
    for words in word_rows:
        row = []
        ws = list(words)
        for (name, values), idx in zip(params, index):
            vi = 0
            for v, i in idx.items():
                if v and all(w in ws for w in v):
                    if len(v) == 2:
                        if any(ws[j] == v[0] and j + 1 < len(ws) and ws[j + 1] == v[1] for j in range(len(ws))):
                            vi = i
                    else:
                        vi = i
            row.append(vi)
        U.cover(row)
    return U.feasible - len(U.uncovered), U.feasible
