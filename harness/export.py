"""Structural export of the DFA objects the real compiler builds (Tie 3, DESIGN.md section 2).

No object identities survive: states are numbered by their position in dfa.states, actions become
decision trees over interned primitive / test keys (structural strings), so machines coming from
different compilations of the same program are comparable.
"""
import nmfu

END, ELSE = 256, 257


class Interner:
    def __init__(self, empty_setstr_is_delete=False):
        self.prims, self.tests = {}, {}
        self.prim_info, self.test_info = [], []
        # -fuse-delete-for-empty-string rewrites `s = "";` into `delete s;`: when machines compiled with and
        # without it are compared the two primitives are identified (same contents and length afterwards;
        # the C templates of both are exercised against the concrete model by C06/C12)
        self.empty_setstr_is_delete = empty_setstr_is_delete

    def pid(self, key, info):
        if self.empty_setstr_is_delete and key[0] == "setstr" and key[2] == ():
            key = ("delete", key[1])
            info = dict(kind="delete", var=key[1], reads=[], writes=[key[1]], reads_last=False, strict=info.get("strict", False))
        if key not in self.prims:
            self.prims[key] = len(self.prims)
            self.prim_info.append(dict(info, key=repr(key)))
        return self.prims[key]

    def tid(self, key, info):
        if key not in self.tests:
            self.tests[key] = len(self.tests)
            self.test_info.append(dict(info, key=repr(key)))
        return self.tests[key]


def expr_key(e):
    """canonical structural key of an IntegerExpr"""
    N = nmfu
    if isinstance(e, N.LiteralIntegerExpr):
        v = e.value
        if e.typ == N.OutputStorageType.ENUM:
            return ("enum", v if not hasattr(v, "name") else v.name, getattr(e.model_ref, "name", None))
        if isinstance(v, bool):
            return ("bool", bool(v))
        return ("lit", int(v))
    if isinstance(e, N.OutIntegerExpr):
        return ("var", e.ref.name)
    if isinstance(e, N.StringRefIntegerExpr):
        return ("index", e.ref.name, expr_key(e.index))
    if isinstance(e, N.StringLengthIntegerExpr):
        return ("len", e.ref.name)
    if isinstance(e, N.LastCharIntegerExpr):
        return ("last",)
    if isinstance(e, N.SumIntegerExpr):
        return ("sum", tuple(expr_key(c) for c in e.children), tuple(bool(x) for x in e.negate))
    if isinstance(e, N.MulIntegerExpr):
        return ("mul", tuple(expr_key(c) for c in e.children), tuple(getattr(x, "value", x) for x in e.divide))
    if isinstance(e, N.CompareIntegerExpr):
        return ("cmp", e.op.value, expr_key(e.left), expr_key(e.right))
    if isinstance(e, N.BitShiftIntegerExpr):
        return ("shift", bool(e.towards_left), expr_key(e.left), expr_key(e.right))
    if isinstance(e, N.BitwiseIntegerExpr):
        return ("bit", e.op.value, tuple(expr_key(c) for c in e.children))
    if isinstance(e, N.DisjunctionIntegerExpr):
        return ("or", tuple(expr_key(c) for c in e.children))
    if isinstance(e, N.ConjunctionIntegerExpr):
        return ("and", tuple(expr_key(c) for c in e.children))
    raise NotImplementedError("expr " + repr(e))


def key_reads(k):
    """(variables read, reads_last) of an expression key"""
    vars_, last = set(), False
    def go(k):
        nonlocal last
        if not isinstance(k, tuple):
            return
        if k and k[0] in ("var", "len"):
            vars_.add(k[1])
        elif k and k[0] == "index":
            vars_.add(k[1]); go(k[2])
        elif k and k[0] == "last":
            last = True
        else:
            for x in k[1:]:
                if isinstance(x, tuple):
                    if x and isinstance(x[0], str):
                        go(x)
                    else:
                        for y in x:
                            go(y)
    go(k)
    return sorted(vars_), last


class Exporter:
    def __init__(self, dctx, interner=None):
        self.dctx = dctx
        self.I = interner or Interner()
        self.finish_codes = list(dctx.finish_codes)
        self.yield_codes = list(dctx.yield_codes)

    def sidx(self, state):
        try:
            return self.states.index(state)
        except ValueError:
            return None

    def on_bits(self, on_values):
        out = []
        for v in on_values:
            if v is nmfu.DFTransition.Else:
                out.append(ELSE)
            elif v is nmfu.DFTransition.End:
                out.append(END)
            else:
                out.append(ord(v))
        return sorted(set(out))

    # ---- actions -> decision tree -------------------------------------
    def acts(self, actions, k):
        if not actions:
            return k
        a, rest = actions[0], list(actions[1:])
        N = nmfu
        if isinstance(a, N.CustomFinishAction):
            return ["ret", ["finish", self.finish_codes.index(a.result_code)]]
        if isinstance(a, N.FinishAction):
            return ["ret", ["done"]]
        if isinstance(a, N.CustomYieldAction):
            return ["ret", ["yield", self.yield_codes.index(a.result_code)]]
        kk = self.acts(rest, k)
        strict = bool(a.is_timing_strict())
        if isinstance(a, N.SetTo):
            ek = expr_key(a.value_expr)
            rd, last = key_reads(ek)
            return ["prim", self.I.pid(("setint", a.into_storage.name, ek), dict(kind="setint", var=a.into_storage.name, expr=ek, reads=rd, writes=[a.into_storage.name], reads_last=last, strict=strict)), kk]
        if isinstance(a, N.SetToStr):
            v = a.value_expr
            bs = tuple(v) if isinstance(v, (bytes, bytearray)) else tuple(ord(c) for c in v)
            return ["prim", self.I.pid(("setstr", a.into_storage.name, bs), dict(kind="setstr", var=a.into_storage.name, bytes=list(bs), reads=[], writes=[a.into_storage.name], reads_last=False, strict=strict)), kk]
        if isinstance(a, N.DeleteBuf):
            return ["prim", self.I.pid(("delete", a.into_storage.name), dict(kind="delete", var=a.into_storage.name, reads=[], writes=[a.into_storage.name], reads_last=False, strict=strict)), kk]
        if isinstance(a, N.AppendTo):
            nm = a.into_storage.name
            t = self.I.tid(("full", nm), dict(kind="full", var=nm, reads=[nm], reads_last=False))
            p = self.I.pid(("append", nm), dict(kind="append", var=nm, reads=[nm], writes=[nm], reads_last=True, strict=True))
            return ["test", t, ["goto", self.sidx(a.end_target)], ["prim", p, kk]]
        if isinstance(a, N.AppendCharTo):
            nm = a.into_storage.name
            ek = expr_key(a.append_value)
            rd, last = key_reads(ek)
            t = self.I.tid(("full", nm), dict(kind="full", var=nm, reads=[nm], reads_last=False))
            p = self.I.pid(("appendexpr", nm, ek), dict(kind="appendexpr", var=nm, expr=ek, reads=sorted(set(rd + [nm])), writes=[nm], reads_last=last, strict=True))
            return ["test", t, ["goto", self.sidx(a.end_target)], ["prim", p, kk]]
        if isinstance(a, N.CallHook):
            return ["prim", self.I.pid(("hook", a.name), dict(kind="hook", name=a.name, reads=["*"], writes=[], reads_last=False, hook=True, strict=True)), kk]
        if isinstance(a, N.ConditionalAction):
            def chain(conds):
                if not conds:
                    return kk
                c = conds[0]
                sub = list(a.sub_actions[c])
                if isinstance(c, N.ElseCondition):
                    return self.acts(sub, kk)
                if isinstance(c, N.ConstantCondition):
                    return self.acts(sub, kk) if c.value else chain(conds[1:])
                ek = expr_key(c.expr)
                rd, last = key_reads(ek)
                t = self.I.tid(("cond", ek), dict(kind="cond", expr=ek, reads=rd, reads_last=last))
                return ["test", t, self.acts(sub, kk), chain(conds[1:])]
            return chain(list(a.conditions))
        if isinstance(a, N.BreakAction):
            return self.acts(list(a.replacement_actions()), ["break", self.sidx(a.refers_to.end_state)])
        raise NotImplementedError("action " + repr(a))

    def trans(self, t):
        return {"on": self.on_bits(t.on_values), "tgt": self.sidx(t.target), "fall": bool(t.is_fallthrough),
                "err": bool(t.error_handling), "early": any(x.may_return_early() for x in t.actions),
                "acts": self.acts(list(t.actions), ["end"]),
                "modes": sorted(set(x.get_target_override_mode().name for x in t.actions))}

    def export(self):
        dfa = self.dctx.dfa
        self.states = list(dfa.states)
        N = nmfu
        out_states = []
        for st in self.states:
            if st is self.dctx.generic_fail_state:
                out_states.append({"kind": "fail"})
            elif isinstance(st, N.DFConditionPoint):
                brs = []
                for ct in st.transitions:
                    c = ct.condition
                    if isinstance(c, N.ElseCondition):
                        brs.append([None, self.trans(ct)])
                    elif isinstance(c, N.ConstantCondition):
                        if c.value:
                            brs.append([None, self.trans(ct)])
                    else:
                        ek = expr_key(c.expr)
                        rd, last = key_reads(ek)
                        brs.append([self.I.tid(("cond", ek), dict(kind="cond", expr=ek, reads=rd, reads_last=last)), self.trans(ct)])
                out_states.append({"kind": "cond", "brs": brs})
            else:
                out_states.append({"kind": "normal", "trans": [self.trans(t) for t in st.transitions]})
        needs_end_check = bool(N.ProgramData.do(N.ProgramFlag.ZERO_LEN_INPUT_SUPPORT)) or any(
            any(x.may_return_early() for x in t.actions) for st in self.states for t in st.transitions)
        outs = []
        for o in self.dctx.state_object_spec.values():
            dv = o.default_value
            if o.holds_buflike():
                if dv is not None:
                    dv = list(dv) if isinstance(dv, (bytes, bytearray)) else [ord(c) for c in dv]
            elif dv is not None:
                dv = expr_key(dv)
            outs.append({"name": o.name, "type": o.type.name, "size": o.str_size, "null": bool(o.str_null), "signed": bool(o.int_signed),
                         "width": o.int_width, "enum": list(o.enum_values), "raw": o.raw_underlying, "default": dv})
        return {
            "states": out_states, "start": self.sidx(dfa.starting_state), "acc": sorted(self.sidx(s) for s in dfa.accepting_states if self.sidx(s) is not None),
            "start_acts": self.acts(list(self.dctx.start_actions), ["end"]),
            "strict_done": bool(N.ProgramData.do(N.ProgramFlag.STRICT_DONE_TOKEN_GENERATION)),
            "end_check": needs_end_check,
            "finish_codes": self.finish_codes, "yield_codes": self.yield_codes, "hooks": list(self.dctx.hooks),
            "outs": outs,
        }


# ---------------------------------------------------------------------------
# printing as Coq terms
# ---------------------------------------------------------------------------
def coq_res(r):
    if r[0] == "done":
        return "RDone"
    if r[0] == "finish":
        return "(RFinish %d%%N)" % r[1]
    return "(RYield %d%%N)" % r[1]


def coq_atree(a):
    k = a[0]
    if k == "end":
        return "AEnd"
    if k == "prim":
        return "(APrim %d%%N %s)" % (a[1], coq_atree(a[2]))
    if k == "test":
        return "(ATest %d%%N %s %s)" % (a[1], coq_atree(a[2]), coq_atree(a[3]))
    if k == "ret":
        return "(ARet %s)" % coq_res(a[1])
    if k == "goto":
        return "(AGoto %d)" % (a[1] if a[1] is not None else 999999)
    if k == "break":
        return "(ABreak %d)" % (a[1] if a[1] is not None else 999999)
    raise ValueError(a)


def on_mask(on):
    m = 0
    for b in on:
        m |= 1 << b
    return m


def coq_trans(t):
    return "(mkT %d%%N %s %s %s %s %s)" % (on_mask(t["on"]), "None" if t["tgt"] is None else "(Some %d)" % t["tgt"],
                                          "true" if t["fall"] else "false", "true" if t["err"] else "false",
                                          "true" if t["early"] else "false", coq_atree(t["acts"]))


def coq_dfa(m):
    sts = []
    for st in m["states"]:
        if st["kind"] == "fail":
            sts.append("SFail")
        elif st["kind"] == "cond":
            sts.append("(SCond [%s])" % "; ".join("(%s, %s)" % ("None" if c is None else "Some %d%%N" % c, coq_trans(t)) for c, t in st["brs"]))
        else:
            sts.append("(SNormal [%s])" % "; ".join(coq_trans(t) for t in st["trans"]))
    return "(mkD [%s] %d [%s] %s %s %s)" % (";\n ".join(sts), m["start"], "; ".join(str(a) for a in m["acc"]),
                                          coq_atree(m["start_acts"]), "true" if m["strict_done"] else "false",
                                          "true" if m["end_check"] else "false")


COQ_PRELUDE = """From Coq Require Import NArith List Bool.
Import ListNotations.
From NV Require Import Machine.Dfa.
Notation mkT := Build_trans.
Notation mkD := Build_dfa.
"""


# ---------------------------------------------------------------------------
# printing in the text format read by ocaml/machk.ml
# ---------------------------------------------------------------------------
def text_atree(a):
    k = a[0]
    if k == "end":
        return "E"
    if k == "prim":
        return "P %d %s" % (a[1], text_atree(a[2]))
    if k == "test":
        return "T %d %s %s" % (a[1], text_atree(a[2]), text_atree(a[3]))
    if k == "ret":
        r = a[1]
        return "R D" if r[0] == "done" else ("R F %d" % r[1] if r[0] == "finish" else "R Y %d" % r[1])
    if k == "goto":
        return "G %d" % (a[1] if a[1] is not None else 999999)
    if k == "break":
        return "B %d" % (a[1] if a[1] is not None else 999999)
    raise ValueError(a)


def text_trans(t):
    return "%x %d %d %d %d %s" % (on_mask(t["on"]), -1 if t["tgt"] is None else t["tgt"], t["fall"], t["err"], t["early"], text_atree(t["acts"]))


def text_dfa(m):
    L = ["dfa %d %d %d %d %d %s %s" % (len(m["states"]), m["start"], m["strict_done"], m["end_check"], len(m["acc"]),
                                      " ".join(map(str, m["acc"])), text_atree(m["start_acts"]))]
    for st in m["states"]:
        if st["kind"] == "fail":
            L.append("F")
        elif st["kind"] == "cond":
            L.append("C %d %s" % (len(st["brs"]), " ".join("%d %s" % (-1 if c is None else c, text_trans(t)) for c, t in st["brs"])))
        else:
            L.append("N %d %s" % (len(st["trans"]), " ".join(text_trans(t) for t in st["trans"])))
    return "\n".join(L)


def remap_ids(m, prim_keys, test_keys, shared):
    """rewrite the primitive / test ids of an exported machine (ids local to the compilation that produced it)
    into the ids of the shared table `shared` = {"prims": {key: id}, "tests": {key: id}} (extended on demand)"""
    def pid(i):
        return shared["prims"].setdefault(prim_keys[i], len(shared["prims"]))
    def tid(i):
        return shared["tests"].setdefault(test_keys[i], len(shared["tests"]))
    def at(a):
        k = a[0]
        if k == "prim":
            return ["prim", pid(a[1]), at(a[2])]
        if k == "test":
            return ["test", tid(a[1]), at(a[2]), at(a[3])]
        return a
    def tr(t):
        t = dict(t); t["acts"] = at(t["acts"]); return t
    mm = dict(m)
    mm["start_acts"] = at(m["start_acts"])
    sts = []
    for st in m["states"]:
        if st["kind"] == "normal":
            sts.append({"kind": "normal", "trans": [tr(t) for t in st["trans"]]})
        elif st["kind"] == "cond":
            sts.append({"kind": "cond", "brs": [[None if c is None else tid(c), tr(t)] for c, t in st["brs"]]})
        else:
            sts.append(st)
    mm["states"] = sts
    return mm
