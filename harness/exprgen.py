"""Random well-typed math expressions for C14: generation, printing with minimal parentheses, Coq terms.

Expression trees (tuples), one form per alternative of nmfu's _math_expr grammar:
  ("num", z) ("chr", b) ("bool", b) ("enum", k, name) ("var", name) ("len", name) ("idx", name, e) ("last",)
  ("paren", e) ("not", e) ("neg", e) ("bin", op, a, b)
The generator builds an operator tree WITHOUT parentheses; `parenthesize` then inserts ("paren", .) nodes exactly where
C's precedence table (fixed here, independent of /repo) needs them for the text to denote that tree, plus where nmfu's
grammar is stricter than C (nested comparisons / shifts, prefix operator on a non-atom), plus a few redundant ones.
"""
import random

CP = {"||": 1, "&&": 2, "|": 3, "^": 4, "&": 5, "==": 6, "!=": 6, "<": 7, ">": 7, "<=": 7, ">=": 7, "<<": 8, ">>": 8,
      "+": 9, "-": 9, "*": 10, "/": 10, "%": 10}
CMP = ("==", "!=", "<", ">", "<=", ">=")
SHIFT = ("<<", ">>")
COQ_OP = {"||": "OLOr", "&&": "OLAnd", "|": "OOr", "^": "OXor", "&": "OAnd", "==": "OEq", "!=": "ONe", "<": "OLt", ">": "OGt",
          "<=": "OLe", ">=": "OGe", "<<": "OShl", ">>": "OShr", "+": "OAdd", "-": "OSub", "*": "OMul", "/": "ODiv", "%": "OMod"}

# the outputs every generated program declares: (name, kind, declaration, model type)
INT_VARS = [("a", "int{signed, size 1}", "i8"), ("b", "int{unsigned, size 1}", "u8"), ("c", "int{signed, size 2}", "i16"),
            ("d", "int{unsigned, size 2}", "u16"), ("e", "int", "i32"), ("f", "int{unsigned}", "u32"), ("g", "int{signed, size 8}", "i64"),
            ("h", "int{unsigned, size 8}", "u64"), ("i4", "int{signed, size 4}", "i32"), ("j4", "int{unsigned, size 4}", "u32")]
BOOL_VARS = ["p", "q"]
ENUM_VAR, ENUM_VALUES = "en", ["EA", "EB", "EC"]
STR_VARS = [("s", 6, True), ("u", 4, False)]          # (name, size, null terminated)
RANGE = {"bool": (0, 1), "i8": (-128, 127), "u8": (0, 255), "i16": (-32768, 32767), "u16": (0, 65535), "i32": (-2**31, 2**31 - 1),
         "u32": (0, 2**32 - 1), "i64": (-2**63, 2**63 - 1), "u64": (0, 2**64 - 1)}
RESULT_TYPES = [("int{signed, size 1}", "i8"), ("int{unsigned, size 1}", "u8"), ("int{signed, size 2}", "i16"), ("int{unsigned, size 2}", "u16"),
                ("int{signed, size 4}", "i32"), ("int{unsigned, size 4}", "u32"), ("int{signed, size 8}", "i64"), ("int{unsigned, size 8}", "u64"),
                ("int", "i32"), ("int{unsigned}", "u32")]
COQ_CTY = {"bool": "TBool", "i8": "TI8", "u8": "TU8", "i16": "TI16", "u16": "TU16", "i32": "TI32", "u32": "TU32", "i64": "TI64", "u64": "TU64"}


def boundary_values(ty, rng):
    lo, hi = RANGE[ty]
    cands = [lo, lo + 1, hi, hi - 1, 0, 1, 2, 3, -1, -2, 7, 100, 127, 128, 255, 256, 65535, 2**31 - 1, 2**31, 2**32 - 1, 2**63 - 1]
    cands = [v for v in cands if lo <= v <= hi]
    return rng.choice(cands) if rng.random() < 0.85 else rng.randint(lo, hi)


LITERALS = [0, 1, 2, 3, 5, 7, 8, 10, 31, 32, 33, 63, 64, 100, 127, 128, 255, 256, 32767, 32768, 65535, 65536, 2**31 - 1, 2**31, 2**32 - 1, 2**32,
            2**63 - 1, -1, -2, -128, -129, -32768, -2**31, -2**31 - 1, -2**63 + 1]


class ExprGen:
    def __init__(self, rng, max_depth=3, allow_last=True):
        self.r = rng
        self.max_depth = max_depth
        self.allow_last = allow_last

    def num(self):
        r = self.r
        if r.random() < 0.55:
            return ("num", r.choice([0, 1, 2, 3, 5, 7, 10]))
        return ("num", r.choice(LITERALS))

    def int_atom(self, io, depth):
        r = self.r
        k = r.choice(["num", "num", "var", "var", "var", "chr", "len", "idx", "last", "boollit"])
        if k == "num":
            return self.num()
        if k == "var":
            return ("var", r.choice(INT_VARS)[0])
        if k == "chr":
            return ("chr", r.choice([97, 48, 0, 10, 39, 92, 126, 32]))
        if k == "len":
            return ("len", r.choice(STR_VARS)[0])
        if k == "idx":
            if depth >= self.max_depth:
                return ("len", r.choice(STR_VARS)[0])
            sub = self.num() if r.random() < 0.5 else self.int_expr(depth + 1, None)
            return ("idx", r.choice(STR_VARS)[0], sub)
        if k == "last":
            return ("last",) if self.allow_last else ("var", r.choice(INT_VARS)[0])
        if io == "int":                  # `true` / `false` take the type of the target: INT only directly under an int target
            return ("bool", r.random() < 0.5)
        return self.num()

    def int_expr(self, depth, io):
        r = self.r
        if depth >= self.max_depth or r.random() < 0.25:
            return self.int_atom(io, depth)
        k = r.choice(["arith"] * 6 + ["bit"] * 3 + ["shift"] * 2 + ["neg"])
        if k == "neg":
            return ("neg", self.int_expr(depth + 1, io))
        if k == "arith":
            op = r.choice(["+", "+", "-", "-", "*", "*", "/", "%"])
        elif k == "bit":
            op = r.choice(["&", "|", "^"])
        else:
            op = r.choice(SHIFT)
        a = self.int_expr(depth + 1, io)
        if op in SHIFT:
            b = ("num", r.choice([0, 1, 2, 3, 7, 8, 15, 31, 32, 33, 63, 64])) if r.random() < 0.7 else self.int_expr(depth + 1, io)
        elif op in ("/", "%") and r.random() < 0.6:
            b = ("num", r.choice([1, 2, 3, 7, 10, -1, -2, 255]))
        else:
            b = self.int_expr(depth + 1, io)
        return ("bin", op, a, b)

    def bool_expr(self, depth, io, pure=False):
        """pure: every leaf is BOOL-typed (only those can be assigned to a bool output)"""
        r = self.r
        if depth >= self.max_depth or r.random() < 0.15:
            if r.random() < 0.3 and io != "int":
                return ("bool", r.random() < 0.5)
            return ("var", r.choice(BOOL_VARS))
        ks = ["andor"] * 3 + ["not"] * 2 + ["booleq"] * 2
        if not pure:
            ks += ["cmp"] * 6 + ["enumcmp"]
        k = r.choice(ks)
        if k == "andor":
            return ("bin", r.choice(["&&", "||"]), self.bool_expr(depth + 1, io, pure), self.bool_expr(depth + 1, io, pure))
        if k == "not":
            if pure or r.random() < 0.5:
                return ("not", self.bool_expr(depth + 1, io, pure))
            return ("not", self.int_expr(depth + 1, io))
        if k == "booleq":
            # the right operand is parsed with the left operand's variable as target when the left is a plain variable
            left = self.bool_expr(depth + 1, None, pure)
            rio = "bool" if left[0] == "var" else None
            return ("bin", r.choice(["==", "!="]), left, self.bool_expr(depth + 1, rio, pure))
        if k == "enumcmp":
            return ("bin", r.choice(["==", "!="]), ("var", ENUM_VAR), ("enum", r.randrange(len(ENUM_VALUES)), r.choice(ENUM_VALUES)))
        left = self.int_expr(depth + 1, None)
        rio = "int" if left[0] == "var" else None
        return ("bin", r.choice(CMP), left, self.int_expr(depth + 1, rio))


def fix_enum(e):
    if e[0] == "enum":
        return ("enum", ENUM_VALUES.index(e[2]), e[2])
    if e[0] in ("idx",):
        return (e[0], e[1], fix_enum(e[2]))
    if e[0] in ("paren", "not", "neg"):
        return (e[0], fix_enum(e[1]))
    if e[0] == "bin":
        return ("bin", e[1], fix_enum(e[2]), fix_enum(e[3]))
    return e


def parenthesize(e, rng=None, extra=0.06):
    """insert ("paren", .) nodes: C-minimal + nmfu's stricter forms (+ a few redundant ones)"""
    k = e[0]
    def maybe(x):
        if rng is not None and x[0] != "paren" and rng.random() < extra:
            return ("paren", x)
        return x
    if k == "idx":
        return ("idx", e[1], parenthesize(e[2], rng, extra))
    if k == "paren":
        return ("paren", parenthesize(e[1], rng, extra))
    if k in ("not", "neg"):
        a = parenthesize(e[1], rng, extra)
        if a[0] in ("bin", "not", "neg"):
            a = ("paren", a)
        return (k, a)
    if k == "bin":
        op = e[1]
        p = CP[op]
        a = parenthesize(e[2], rng, extra)
        b = parenthesize(e[3], rng, extra)
        def need(c, right):
            if c[0] != "bin":
                return False
            cp = CP[c[1]]
            if (op in CMP and c[1] in CMP) or (op in SHIFT and c[1] in SHIFT):
                return True
            return cp <= p if right else cp < p
        a = ("paren", a) if need(a, False) else maybe(a)
        b = ("paren", b) if need(b, True) else maybe(b)
        return ("bin", op, a, b)
    return e


CHR_ESC = {10: "\\n", 13: "\\r", 9: "\\t", 39: "\\'", 92: "\\\\", 0: "\\0"}


def text(e):
    k = e[0]
    if k == "num":
        return str(e[1])
    if k == "chr":
        return "'%s'" % CHR_ESC.get(e[1], chr(e[1]))
    if k == "bool":
        return "true" if e[1] else "false"
    if k == "enum":
        return e[2]
    if k == "var":
        return e[1]
    if k == "len":
        return e[1] + ".len"
    if k == "idx":
        return "%s[%s]" % (e[1], text(e[2]))
    if k == "last":
        return "$last"
    if k == "paren":
        return "(%s)" % text(e[1])
    if k == "not":
        return "!" + text(e[1])
    if k == "neg":
        # `-5` would be lexed as one (negative) number
        return ("- " if e[1][0] == "num" else "-") + text(e[1])
    if k == "bin":
        return "%s %s %s" % (text(e[2]), e[1], text(e[3]))
    raise ValueError(e)


def coq_z(z):
    return "(%d)" % z


def coq_sexpr(e, vidx):
    k = e[0]
    if k == "num":
        return "(SNum %s)" % coq_z(e[1])
    if k == "chr":
        return "(SChr %s)" % coq_z(e[1])
    if k == "bool":
        return "(SBool %s)" % ("true" if e[1] else "false")
    if k == "enum":
        return "(SEnum %s)" % coq_z(e[1])
    if k == "var":
        return "(SVar %d)" % vidx[e[1]]
    if k == "len":
        return "(SLen %d)" % vidx[e[1]]
    if k == "idx":
        return "(SIdx %d %s)" % (vidx[e[1]], coq_sexpr(e[2], vidx))
    if k == "last":
        return "SLast"
    if k == "paren":
        return "(SParen %s)" % coq_sexpr(e[1], vidx)
    if k == "not":
        return "(SNot %s)" % coq_sexpr(e[1], vidx)
    if k == "neg":
        return "(SNeg %s)" % coq_sexpr(e[1], vidx)
    if k == "bin":
        return "(SBin %s %s %s)" % (COQ_OP[e[1]], coq_sexpr(e[2], vidx), coq_sexpr(e[3], vidx))
    raise ValueError(e)


def uses(e, kind):
    if e[0] == kind:
        return True
    return any(isinstance(x, tuple) and uses(x, kind) for x in e[1:])


def size(e):
    return 1 + sum(size(x) for x in e[1:] if isinstance(x, tuple))


def operators(e, acc=None):
    acc = set() if acc is None else acc
    if e[0] == "bin":
        acc.add(e[1])
    elif e[0] in ("not", "neg", "idx", "len", "last", "chr", "bool", "enum", "paren"):
        acc.add(e[0])
    for x in e[1:]:
        if isinstance(x, tuple):
            operators(x, acc)
    return acc


ARITH = ("+", "-", "*", "/", "%", "&", "|", "^", "<<", ">>")
LOGIC = ("&&", "||")


def _res(op):
    return "int" if op in ARITH else "bool"


def _leaf(ty, i):
    if ty == "int":
        return [("num", 7), ("num", 2), ("num", 3)][i]
    return [("bool", True), ("bool", False), ("bool", False)][i]


def targeted_cases():
    """small well-typed expressions in which every pair of binary operators meets (both nestings), with operand values
    that tell the two readings apart; used first, and as the search set when a proof breaks.
    Returns [(tree, "int"|"bool")]"""
    out = []
    ops = list(CP)
    for x in ops:
        for y in ops:
            for shape in (0, 1):
                inner, outer = (x, y) if shape == 0 else (y, x)
                it = _res(inner)
                # operand type the outer operator needs where the inner expression sits
                if outer in ARITH and it != "int":
                    continue
                if outer in LOGIC and it != "bool":
                    continue
                if outer in CMP and it == "bool" and outer not in ("==", "!="):
                    continue
                other = it if outer in CMP else ("int" if outer in ARITH else "bool")
                ity = "bool" if inner in LOGIC else "int"
                if shape == 0:
                    e = ("bin", outer, ("bin", inner, _leaf(ity, 0), _leaf(ity, 1)), _leaf(other, 2))
                else:
                    e = ("bin", outer, _leaf(other, 0), ("bin", inner, _leaf(ity, 1), _leaf(ity, 2)))
                out.append((e, _res(outer)))
    for inner in ops:
        ity = "bool" if inner in LOGIC else "int"
        sub = ("bin", inner, _leaf(ity, 0), _leaf(ity, 1))
        out.append((("not", sub), "bool"))
        if _res(inner) == "int":
            out.append((("neg", sub), "int"))
            out.append((("bin", "-", ("num", 10), ("neg", sub)), "int"))
            out.append((("bin", "-", ("var", "e"), ("bin", "-", ("var", "i4"), ("var", "c"))), "int"))
    return out
