"""Grammar-based generator of nmfu programs (DESIGN.md 5.0): programs are born as AST tuples and
printed to source, so tree and text agree by construction.  Mostly-valid by construction (first /
follow sets are tracked so that joins are unambiguous most of the time), then rejection-sampled on
the real compiler by the callers.

Patterns   ('lit', bytes) ('casei', bytes) ('re', R) ('bre', R) ('end',) ('concat', [P...])
Regexes R  ('c', byte) ('cls', name) ('set', [(lo,hi)...], inverted) ('any',) ('seq', [R...]) ('alt', [R...])
           ('star', R) ('plus', R) ('opt', R) ('rep', R, n, m|None)
Statements ('match', P) ('append', var, P) ('appc', var, E) ('assign', var, E) ('assigns', var, bytes)
           ('delete', var) ('hook', name) ('finish', code|None) ('yield', code) ('break', label|None)
           ('wait', P) ('loop', label|None, [S]) ('case', [([P|'else'...], [S])...]) ('gcase', [(prio, [P...], [S])...])
           ('optional', [S]) ('try', [S], reasons|None, [S]) ('foreach', [S], [S]) ('if', [(E, [S])...], [S]|None)
Exprs E    ('num', n) ('chr', byte) ('var', name) ('last',) ('len', s) ('idx', s, E) ('bin', op, E, E) ('not', E) ('neg', E)
           ('true',) ('false',)
"""
import random

CLASSES = {"\\d": set(range(48, 58)), "\\w": set(range(48, 58)) | set(range(65, 91)) | set(range(97, 123)) | {95},
           "\\s": {32, 9, 10, 13, 11, 12}}
ALL = set(range(256))


# ---------------------------------------------------------------------------
# printing
# ---------------------------------------------------------------------------
def esc_str(bs):
    out = []
    for b in bs:
        if b == 34: out.append('\\"')
        elif b == 92: out.append("\\\\")
        elif b == 10: out.append("\\n")
        elif b == 13: out.append("\\r")
        elif b == 9: out.append("\\t")
        elif 32 <= b < 127: out.append(chr(b))
        else: out.append("\\x%02x" % b)
    return "".join(out)


RE_SPECIAL = set(b".?*()[]\\+{}|/")


def re_char(b):
    if b in RE_SPECIAL:
        return "\\" + chr(b)
    if b == 32:
        return "\\ "
    if b == 10:
        return "\\n"
    if b == 9:
        return "\\t"
    if b == 13:
        return "\\r"
    if 33 <= b < 127 and chr(b) not in "\"'":
        return chr(b)
    return None    # not expressible as a raw char in a text regex


def set_elem(b):
    if b in b"-]\\/":
        return "\\" + chr(b)
    if 33 <= b < 127 and chr(b) not in "[^\"'":
        return chr(b)
    return None


def pr_re(r, binary=False, top=True):
    k = r[0]
    if k == "c":
        return "%02x" % r[1] if binary else re_char(r[1])
    if k == "cls":
        return r[1]
    if k == "any":
        return "."
    if k == "set":
        parts = []
        for lo, hi in r[1]:
            if isinstance(lo, str):
                parts.append(lo)
            elif binary:
                parts.append("%02x" % lo if lo == hi else "%02x-%02x" % (lo, hi))
            else:
                parts.append(set_elem(lo) if lo == hi else "%s-%s" % (set_elem(lo), set_elem(hi)))
        return "[%s%s]" % ("^" if r[2] else "", "".join(parts))
    if k == "seq":
        return "".join(pr_re(x, binary, False) for x in r[1])
    if k == "alt":
        s = "|".join(pr_re(x, binary, False) for x in r[1])
        return s if top else "(" + s + ")"
    def atom(x):
        s = pr_re(x, binary, False)
        return s if x[0] in ("c", "cls", "any", "set") or (s.startswith("(") and s.endswith(")") and x[0] == "alt") else "(" + s + ")"
    if k == "star":
        return atom(r[1]) + "*"
    if k == "plus":
        return atom(r[1]) + "+"
    if k == "opt":
        return atom(r[1]) + "?"
    if k == "rep":
        return atom(r[1]) + ("{%d}" % r[2] if r[3] == r[2] else "{%d,%s}" % (r[2], "" if r[3] is None else r[3]))
    raise ValueError(r)


def pr_pat(p):
    k = p[0]
    if k == "lit":
        return '"%s"' % esc_str(p[1])
    if k == "casei":
        return '"%s"i' % esc_str(p[1])
    if k == "bin":
        return '"%s"b' % " ".join("%02x" % b for b in p[1])
    if k == "re":
        return "/%s/" % pr_re(p[1])
    if k == "bre":
        return "b/%s/" % pr_re(p[1], True)
    if k == "end":
        return "end"
    if k == "concat":
        return "(" + " ".join(pr_pat(x) for x in p[1]) + ")"
    raise ValueError(p)


PREC = {"||": 1, "&&": 2, "|": 3, "^": 4, "&": 5, "==": 6, "!=": 6, "<": 6, ">": 6, "<=": 6, ">=": 6, "<<": 7, ">>": 7,
        "+": 8, "-": 8, "*": 9, "/": 9, "%": 9}


def pr_expr(e, ctx=0):
    k = e[0]
    if k == "num":
        return str(e[1]) if e[1] >= 0 else "(0 - %d)" % -e[1]
    if k == "chr":
        b = e[1]
        return "'%s'" % ({10: "\\n", 13: "\\r", 9: "\\t", 39: "\\'", 92: "\\\\", 0: "\\0"}.get(b, chr(b)))
    if k == "var":
        return e[1]
    if k == "last":
        return "$last"
    if k == "len":
        return e[1] + ".len"
    if k == "idx":
        return "%s[%s]" % (e[1], pr_expr(e[2]))
    if k == "true":
        return "true"
    if k == "false":
        return "false"
    if k == "not":
        return "!(%s)" % pr_expr(e[1])
    if k == "neg":
        return "-(%s)" % pr_expr(e[1])
    if k == "bin":
        op = e[1]
        p = PREC[op]
        # nmfu's comparison and shift levels are non-associative, the others left-associative
        l = pr_expr(e[2], p if op not in ("==", "!=", "<", ">", "<=", ">=", "<<", ">>") else p + 1)
        r = pr_expr(e[3], p + 1)
        s = "%s %s %s" % (l, op, r)
        return "(" + s + ")" if p < ctx else s
    raise ValueError(e)


def pr_stmts(stmts, ind):
    return "".join(pr_stmt(s, ind) for s in stmts)


def pr_stmt(s, ind):
    I = "    " * ind
    k = s[0]
    if k == "match":
        return "%s%s;\n" % (I, pr_pat(s[1]))
    if k == "append":
        return "%s%s += %s;\n" % (I, s[1], pr_pat(s[2]))
    if k == "appc":
        return "%s%s += [%s];\n" % (I, s[1], pr_expr(s[2]))
    if k == "assign":
        e = s[2]
        if e[0] in ("true", "false") or e[0] == "enumv":
            return "%s%s = %s;\n" % (I, s[1], pr_expr(e) if e[0] != "enumv" else e[1])
        return "%s%s = [%s];\n" % (I, s[1], pr_expr(e))
    if k == "assigns":
        return '%s%s = "%s";\n' % (I, s[1], esc_str(s[2]))
    if k == "delete":
        return "%sdelete %s;\n" % (I, s[1])
    if k == "hook":
        return "%s%s();\n" % (I, s[1])
    if k == "finish":
        return "%sfinish%s;\n" % (I, "" if s[1] is None else " " + s[1])
    if k == "yield":
        return "%syield %s;\n" % (I, s[1])
    if k == "break":
        return "%sbreak%s;\n" % (I, "" if s[1] is None else " " + s[1])
    if k == "wait":
        return "%swait %s;\n" % (I, pr_pat(s[1]))
    if k == "loop":
        return "%sloop%s {\n%s%s}\n" % (I, "" if s[1] is None else " " + s[1], pr_stmts(s[2], ind + 1), I)
    if k == "case":
        out = "%scase {\n" % I
        for preds, body in s[1]:
            out += "%s    %s -> {\n%s%s    }\n" % (I, ", ".join("else" if p == "else" else pr_pat(p) for p in preds), pr_stmts(body, ind + 2), I)
        return out + "%s}\n" % I
    if k == "gcase":
        out = "%sgreedy case {\n" % I
        for prio, preds, body in s[1]:
            pre = "" if prio is None else "prio %d " % prio
            out += "%s    %s%s -> {\n%s%s    }\n" % (I, pre, ", ".join(pr_pat(p) for p in preds), pr_stmts(body, ind + 2), I)
        return out + "%s}\n" % I
    if k == "optional":
        return "%soptional {\n%s%s}\n" % (I, pr_stmts(s[1], ind + 1), I)
    if k == "try":
        reasons = "" if s[2] is None else " (%s)" % ", ".join(s[2])
        return "%stry {\n%s%s}\n%scatch%s {\n%s%s}\n" % (I, pr_stmts(s[1], ind + 1), I, I, reasons, pr_stmts(s[3], ind + 1), I)
    if k == "foreach":
        return "%sforeach {\n%s%s} do {\n%s%s}\n" % (I, pr_stmts(s[1], ind + 1), I, pr_stmts(s[2], ind + 1), I)
    if k == "if":
        out = ""
        for i, (c, body) in enumerate(s[1]):
            out += "%s%s %s {\n%s%s}\n" % (I, "if" if i == 0 else "elif", pr_expr(c), pr_stmts(body, ind + 1), I)
        if s[2] is not None:
            out += "%selse {\n%s%s}\n" % (I, pr_stmts(s[2], ind + 1), I)
        return out
    raise ValueError(s)


def pr_prog(p):
    out = ""
    for o in p["outs"]:
        if o["type"] == "int":
            attrs = []
            if o.get("signed") is not None:
                attrs.append("signed" if o["signed"] else "unsigned")
            if o.get("width"):
                attrs.append("size %d" % o["width"])
            out += "out int%s %s%s;\n" % ("{%s}" % ", ".join(attrs) if attrs else "", o["name"], "" if o.get("default") is None else " = %d" % o["default"])
        elif o["type"] == "bool":
            out += "out bool %s%s;\n" % (o["name"], "" if o.get("default") is None else " = %s" % ("true" if o["default"] else "false"))
        elif o["type"] == "enum":
            out += "out enum{%s} %s;\n" % (",".join(o["values"]), o["name"])
        elif o["type"] == "str":
            out += "out %sstr[%d] %s%s;\n" % ("" if o.get("null", True) else "unterminated ", o["size"], o["name"],
                                              "" if o.get("default") is None else ' = "%s"' % esc_str(o["default"]))
        elif o["type"] == "raw":
            out += "out raw{%s} %s;\n" % (o["ctype"], o["name"])
    for h in p["hooks"]:
        out += "hook %s;\n" % h
    if p["finish_codes"]:
        out += "finishcode %s;\n" % ", ".join(p["finish_codes"])
    if p["yield_codes"]:
        out += "yieldcode %s;\n" % ", ".join(p["yield_codes"])
    for m in p.get("macros", []):
        out += m
    out += "parser {\n" + pr_stmts(p["body"], 1) + "}\n"
    return out


# ---------------------------------------------------------------------------
# generation
# ---------------------------------------------------------------------------
class Profile:
    """feature weights; a profile is a dict stmt-kind -> weight plus switches"""
    def __init__(self, **kw):
        self.w = dict(match=6, append=3, appc=1, assign=3, assigns=1, delete=1, hook=2, finish=1, yield_=0, wait=1, loop=2,
                      case=3, gcase=0, optional=2, try_=2, foreach=1, if_=2, break_=0, ifact=2)
        self.max_depth = 3
        self.max_stmts = 5
        self.eof = False
        self.yields = False
        self.macros = False
        self.high_bytes = True
        self.regex = True
        for k, v in kw.items():
            if k in self.w:
                self.w[k] = v
            else:
                setattr(self, k, v)


CONTENT = b"abcdefgh"
DELIMS = b";,:!#@\n "


class Gen:
    def __init__(self, rng, profile=None):
        self.r = rng
        self.p = profile or Profile()
        self.outs, self.hooks, self.fcodes, self.ycodes = [], [], [], []
        self.nlabel = 0

    # ---- declarations ----
    def decls(self):
        r = self.r
        for i in range(r.randint(0, 2)):
            self.outs.append({"type": "int", "name": "n%d" % i, "signed": r.choice([None, True, False]), "width": r.choice([None, None, 1, 2, 4, 8]),
                              "default": r.choice([None, None, 0, 7])})
        if r.random() < 0.3:
            self.outs.append({"type": "bool", "name": "flag", "default": None})
        if r.random() < 0.3:
            self.outs.append({"type": "enum", "name": "en", "values": ["EA", "EB", "EC"]})
        for i in range(r.randint(0, 2)):
            size = r.choice([2, 3, 4, 6, 8, 16] + ([255, 256, 257] if getattr(self.p, "big_strings", False) else []))
            dflt = None
            if r.random() < 0.25:      # defaults of every length around the capacity (too long ones must be rejected)
                dflt = bytes(r.choice(b"abc\x00\xff") for _ in range(r.choice([0, 1, 1, max(0, size - 2), size - 1, size, size + 1]) if size < 64 else r.choice([1, 3])))
            self.outs.append({"type": "str", "name": "s%d" % i, "size": size, "null": r.random() < 0.7, "default": dflt})
        for i in range(r.randint(0, 2)):
            self.hooks.append("h%d" % i)
        for i in range(r.randint(0, 2)):
            self.fcodes.append("F%d" % i)
        if self.p.yields:
            for i in range(r.randint(1, 3)):
                self.ycodes.append("Y%d" % i)

    def ints(self):
        return [o["name"] for o in self.outs if o["type"] == "int"]

    def strs(self):
        return [o["name"] for o in self.outs if o["type"] == "str"]

    # ---- patterns: returns (pattern, first set, cont set, nullable) ----
    def lit_bytes(self, n=None, alphabet=CONTENT):
        r = self.r
        n = n or r.randint(1, 4)
        bs = bytes(r.choice(alphabet) for _ in range(n))
        if self.p.high_bytes and r.random() < 0.08:
            bs = bs[:-1] + bytes([r.choice([0, 1, 127, 128, 200, 255])])
        return bs

    def regex(self, depth=0):
        """(R, first, cont, nullable, binary_ok)"""
        r = self.r
        k = r.choice(["c", "c", "cls", "set", "seq", "seq", "alt", "star", "plus", "opt", "rep", "any"] if depth < 2 else ["c", "cls", "set"])
        if k == "c":
            b = r.choice(CONTENT + b"019")
            return ("c", b), {b}, set(), False
        if k == "cls":
            nm = r.choice(["\\d", "\\w"])
            return ("cls", nm), set(CLASSES[nm]), set(), False
        if k == "any":
            return ("any",), set(ALL), set(), False
        if k == "set":
            inv = r.random() < 0.3
            items, chars = [], set()
            for _ in range(r.randint(1, 3)):
                lo = r.choice(CONTENT + b"0123456789")
                hi = lo if r.random() < 0.5 else min(lo + r.randint(1, 4), 122 if lo >= 97 else 57)
                if hi < lo or not ((97 <= lo <= 122 and 97 <= hi <= 122) or (48 <= lo <= 57 and 48 <= hi <= 57)):
                    hi = lo
                items.append((lo, hi)); chars |= set(range(lo, hi + 1))
            if inv:
                items.append((r.choice(DELIMS[:6]),) * 2); chars.add(items[-1][0])
            s = (ALL - chars) if inv else chars
            return ("set", items, inv), s, set(), False
        if k == "seq":
            parts = [self.regex(depth + 1) for _ in range(r.randint(2, 3))]
            first, nullable = set(), True
            for (_, f, c, n) in parts:
                if nullable:
                    first |= f
                nullable = nullable and n
            cont = set(parts[-1][2])
            if parts[-1][3] and len(parts) > 1:
                cont |= parts[-2][2] | parts[-1][1]
            return ("seq", [x[0] for x in parts]), first, cont, nullable
        if k == "alt":
            parts = [self.regex(depth + 1) for _ in range(2)]
            return ("alt", [x[0] for x in parts]), parts[0][1] | parts[1][1], parts[0][2] | parts[1][2] | parts[0][1] | parts[1][1], parts[0][3] or parts[1][3]
        sub = self.regex(depth + 1)
        if k == "star":
            return ("star", sub[0]), sub[1], sub[1] | sub[2], True
        if k == "plus":
            return ("plus", sub[0]), sub[1], sub[1] | sub[2], sub[3]
        if k == "opt":
            return ("opt", sub[0]), sub[1], sub[2] | sub[1], True
        n = r.randint(0, 2); m = r.choice([n, n + 1, None])
        return ("rep", sub[0], n, m), sub[1], sub[1] | sub[2], n == 0 or sub[3]

    def pattern(self, allow_re=True):
        """(P, first, cont, nullable)"""
        r = self.r
        k = r.choice(["lit", "lit", "lit", "casei", "re", "re", "bin", "concat"] if allow_re and self.p.regex else ["lit", "lit", "casei"])
        if k == "lit":
            bs = self.lit_bytes()
            return ("lit", bs), {bs[0]}, set(), False
        if k == "casei":
            bs = self.lit_bytes(alphabet=CONTENT + b"XY9")
            f = {bs[0]} | ({bs[0] ^ 32} if chr(bs[0]).isalpha() else set())
            return ("casei", bs), f, set(), False
        if k == "bin":
            bs = bytes(self.r.choice([0, 1, 65, 97, 128, 255, 98]) for _ in range(r.randint(1, 3)))
            return ("bin", bs), {bs[0]}, set(), False
        if k == "re":
            R, f, c, n = self.regex()
            if n and not f:
                return self.pattern(allow_re)
            return ("re", R), f, c, n
        a = self.pattern(False); b = self.pattern(True)
        if getattr(self.p, "closed_blocks", False):
            # (known finding C01, lost finish actions: actions behind a concatenation whose last part can match nothing are lost)
            for _ in range(8):
                if not pat_tail_nullable(b[0]):
                    break
                b = self.pattern(True)
            else:
                b = self.pattern(False)
        return ("concat", [a[0], b[0]]), a[1], b[2], False

    # ---- expressions ----
    def expr(self, depth=0, allow_last=False, boolean=False):
        r = self.r
        ints, strs = self.ints(), self.strs()
        if boolean:
            if depth > 1 or r.random() < 0.5:
                op = r.choice(["==", "!=", "<", ">", "<=", ">="])
                return ("bin", op, self.expr(depth + 1, allow_last), self.expr(depth + 1, allow_last))
            op = r.choice(["&&", "||"])
            return ("bin", op, self.expr(depth + 1, allow_last, True), self.expr(depth + 1, allow_last, True))
        choices = ["num", "num", "chr"]
        if ints: choices += ["var", "var"]
        if strs: choices += ["len"] + (["idx"] if depth < 2 else [])
        if allow_last: choices += ["last", "last"]
        if depth < 2: choices += ["bin", "bin", "bin"]
        k = r.choice(choices)
        if k == "num": return ("num", r.choice([0, 1, 2, 3, 5, 10, 48, 100, 255]))
        if k == "chr": return ("chr", r.choice(CONTENT + b"0"))
        if k == "var": return ("var", r.choice(ints))
        if k == "len": return ("len", r.choice(strs))
        if k == "idx": return ("idx", r.choice(strs), self.expr(depth + 1, allow_last))
        if k == "last": return ("last",)
        op = r.choice(["+", "+", "-", "*", "&", "|", "^"])
        return ("bin", op, self.expr(depth + 1, allow_last), self.expr(depth + 1, allow_last))

    # ---- statements ----
    def action(self, after_match=False):
        """an action statement (no input consumed)"""
        r = self.r
        ints, strs = self.ints(), self.strs()
        opts = []
        if ints: opts += ["assign"] * self.p.w["assign"]
        if strs: opts += ["assigns"] * self.p.w["assigns"] + ["delete"] * self.p.w["delete"] + ["appc"] * self.p.w["appc"]
        if self.hooks: opts += ["hook"] * self.p.w["hook"]
        if not opts:
            return None
        k = r.choice(opts)
        if k == "assign":
            v = r.choice(ints)
            if r.random() < 0.35:
                return ("assign", v, ("bin", "+", ("var", v), ("num", 1)))
            if getattr(self.p, "strict_ints", False):
                # n = [n * 0 + e]: the same value, but the compiler must schedule it exactly once (timing-strict)
                return ("assign", v, ("bin", "+", ("bin", "*", ("var", v), ("num", 0)), self.expr(allow_last=after_match)))
            return ("assign", v, self.expr(allow_last=after_match))
        if k == "assigns":
            v = r.choice(strs)
            sz = [o for o in self.outs if o["name"] == v][0]
            eff = sz["size"] - (1 if sz["null"] else 0)
            if eff < 40 and r.random() < 0.2:       # constants right at / just over the capacity
                n = r.choice([eff, eff, eff + 1])
                return ("assigns", v, bytes(r.choice(CONTENT) for _ in range(n)))
            return ("assigns", v, self.lit_bytes(r.randint(0, max(0, min(eff, 3)))) if eff > 0 else b"")
        if k == "delete":
            return ("delete", r.choice(strs))      # (an `s = "";` assignment becomes a delete at -O2)
        if k == "appc":
            return ("appc", r.choice(strs), self.expr(allow_last=after_match))
        return ("hook", r.choice(self.hooks))

    def block(self, depth, loops, follow_first=frozenset(), min_consume=True, loop_body=False):
        """list of statements; returns (stmts, first, cont, nullable)"""
        r = self.r
        n = r.randint(1, self.p.max_stmts if depth == 0 else 3)
        stmts = []
        first, nullable, cont = set(), True, set()
        prev_cont = set()
        consumed = False
        self.prev_definite = False
        for i in range(n):
            # $last is only well defined immediately behind a match statement of the same block (docs/user-ref/parser.md);
            # elsewhere the optimiser may legitimately shift the byte it observes (C05), so it is not generated there
            s = self.stmt(depth, loops, prev_cont, after_match=bool(stmts) and stmts[-1][0] in ("match", "append"))
            if s is None:
                continue
            st, f, c, nl, term = s
            if term and getattr(self.p, "closed_blocks", False):
                # (known findings C01: a finish / break right behind a statement that can match nothing is lost on the path
                # where it matches nothing)
                cons = [x for x in stmts if x[0] not in ("assign", "assigns", "delete", "hook", "appc") and not (x[0] == "if" and all_actions(x))]
                if cons and last_nullable(cons[-1]):
                    continue
            stmts.append(st)
            self.prev_definite = st[0] == "match" and st[1][0] in ("lit", "casei", "bin")
            if f is not None:
                if nullable:
                    first |= f
                nullable = nullable and nl
                prev_cont = (prev_cont | c) if nl else set(c)
                if not nl:
                    consumed = True
            if term:
                break
        if getattr(self.p, "closed_blocks", False) and stmts and depth > 0 and not loop_body:
            # known finding C01 (lost finish actions): actions that follow a statement which can match nothing at the end of a
            # nested block (inside the block or right behind the enclosing statement) are lost on the path where it matches
            # nothing; close such blocks with a delimiter
            j = len(stmts)
            while j > 0 and stmts[j - 1][0] in ("assign", "assigns", "delete", "hook", "appc") or (j > 0 and stmts[j - 1][0] == "if" and all_actions(stmts[j - 1])):
                j -= 1
            if j > 0 and stmts[j - 1][0] in ("optional", "match", "append", "wait", "if", "try", "foreach", "case") and last_nullable(stmts[j - 1]):
                ds = [x for x in DELIMS[:6] if x not in prev_cont]
                d = bytes([ds[0] if ds else 35])
                stmts.append(("match", ("lit", d)))
                if nullable:
                    first |= {d[0]}
                nullable = False; prev_cont = set()
        if min_consume and nullable and not (stmts and stmts[-1][0] in ("finish", "break")):
            bs = self.lit_bytes(alphabet=DELIMS[:6])
            bs = bytes([b for b in bs if b not in prev_cont]) or bytes([r.choice([x for x in DELIMS[:6] if x not in prev_cont] or [59])])
            stmts.append(("match", ("lit", bs)))
            first |= {bs[0]}; nullable = False; prev_cont = set()
        return stmts, first, prev_cont, nullable

    def stmt(self, depth, loops, prev_cont, after_match):
        """(stmt, first|None, cont, nullable, terminates)"""
        r = self.r
        w = dict(self.p.w)
        if depth >= self.p.max_depth:
            for k in ("loop", "case", "gcase", "optional", "try_", "foreach", "if_"):
                w[k] = 0
        if not loops:
            w["break_"] = 0
        if not self.p.yields:
            w["yield_"] = 0
        kinds = [k for k, v in w.items() for _ in range(v)]
        k = r.choice(kinds)
        def avoid(pgen, tries=6):
            for _ in range(tries):
                p, f, c, n = pgen()
                if not (f & prev_cont):
                    return p, f, c, n
            bs = bytes([r.choice([x for x in DELIMS[:6] if x not in prev_cont] or [35])])
            return ("lit", bs), {bs[0]}, set(), False
        if k == "match":
            p, f, c, n = avoid(self.pattern)
            return ("match", p), f, c, n, False
        if k == "append":
            if not self.strs():
                return None
            p, f, c, n = avoid(self.pattern)
            return ("append", r.choice(self.strs()), p), f, c, n, False
        if k in ("assign", "assigns", "delete", "hook", "appc"):
            a = self.action(after_match)
            return None if a is None else (a, None, set(), True, False)
        if k == "ifact":
            # action-only if: conditional action / conditional break / conditional finish, often on $last or a counter
            ints = self.ints()
            conds = []
            if after_match:
                conds.append(("bin", r.choice(["==", "!=", "<", ">"]), ("last",), ("chr", r.choice(CONTENT + b"09"))))
            if ints:
                conds.append(("bin", r.choice(["==", ">=", "<", "!="]), ("var", r.choice(ints)), ("num", r.choice([0, 1, 2, 3]))))
            if self.strs():
                conds.append(("bin", r.choice(["==", ">", "<"]), ("len", r.choice(self.strs())), ("num", r.choice([0, 1, 2]))))
            if not conds:
                return None
            body_opts = []
            a = self.action(after_match)
            if a: body_opts += [[a]] * 2
            # (known finding C01: a conditional break deferred onto the consuming transition of the statement that follows
            # swallows that byte; with safe_break it is only generated right behind a literal match, where it runs at once)
            if loops and (not getattr(self.p, "safe_break", False) or getattr(self, "prev_definite", False)): body_opts += [[("break", None)]] * 3
            body_opts += [[("finish", r.choice([None] + self.fcodes))]]
            if getattr(self.p, "yields", False) and self.ycodes:
                # a yield inside an if (not embeddable: the if becomes a condition point; as the last statement of a loop body or
                # of the program every path behind it ends in a state without transitions - fixed defect 3688b30)
                body_opts += [[("yield", r.choice(self.ycodes))]] * 2
                if a: body_opts += [[a, ("yield", r.choice(self.ycodes))]]
            body = r.choice(body_opts)
            els = None
            if r.random() < 0.3:
                a2 = self.action(after_match)
                els = [a2] if a2 else None
            return ("if", [(r.choice(conds), body)], els), None, set(), True, False
        if k == "finish":
            return ("finish", r.choice([None] + self.fcodes)), None, set(), True, True
        if k == "yield_":
            return ("yield", r.choice(self.ycodes)), None, set(), True, False
        if k == "break_":
            return ("break", r.choice(loops) if r.random() < 0.3 else None), None, set(), True, True
        if k == "wait":
            p, f, c, n = self.pattern(allow_re=r.random() < 0.3)
            if n:
                return None
            return ("wait", p), set(ALL), c, False, False
        if k == "loop":
            self.nlabel += 1
            label = "L%d" % self.nlabel if r.random() < 0.4 else None
            body, f, c, n = self.block(depth + 1, loops + [label], min_consume=True, loop_body=True)
            if f & prev_cont:
                return None
            # make the loop leavable: add a case with break somewhere at the head with some probability
            if r.random() < 0.7:
                d = bytes([r.choice([x for x in DELIMS[:6] if x not in f and x not in c and x not in prev_cont] or [64])])
                if d[0] in f:
                    return None
                body = [("case", [([("lit", d)], [("break", label if label and r.random() < 0.5 else None)]), (["else"], [])])] + body
                f = f | {d[0]}
            return ("loop", label, body), f, c | f, False, False
        if k == "optional":
            body, f, c, n = self.block(depth + 1, loops)
            if f & prev_cont:
                return None
            if getattr(self.p, "plain_heads", False) and (body[0][0] not in ("match", "append", "case") or
                                                          (body[0][0] == "case" and any("else" in pats for pats, _ in body[0][1]))):
                # known finding C01 (lost actions): actions at the head of a block that heads an optional body are lost;
                # a case with an else clause at the head makes the optional ambiguous (C09)
                return None
            return ("optional", body), f, c | prev_cont, True, False
        if k == "case":
            clauses, first, cont = [], set(), set()
            ncl = r.randint(1, 3)
            used_first = set()
            for i in range(ncl):
                preds = []
                for _ in range(r.randint(1, 2)):
                    for _ in range(5):
                        p, f, c, n = self.pattern(allow_re=r.random() < 0.4)
                        if not n and not (f & used_first) and not (f & prev_cont):
                            preds.append(p); used_first |= f; cont |= c
                            break
                if not preds:
                    continue
                body, bf, bc, bn = self.block(depth + 1, loops, min_consume=False)
                clauses.append((preds, body))
                cont |= bc
            if not clauses:
                return None
            nullable = False
            if r.random() < 0.5:
                body, bf, bc, bn = self.block(depth + 1, loops, min_consume=False)
                clauses.append((["else"], body))
                cont |= bc
                if bn:
                    nullable = True
                first_else = bf
            return ("case", clauses), used_first | (first_else if clauses[-1][0] == ["else"] else set()), cont, nullable, False
        if k == "gcase":
            clauses = []
            for i in range(r.randint(2, 4)):
                p, f, c, n = self.pattern()
                if n:
                    continue
                body = [self.action() or ("match", ("lit", b";"))] if not self.p.yields else [("yield", r.choice(self.ycodes))]
                clauses.append((r.choice([None, None, 1, 2]), [p], body))
            if len(clauses) < 2:
                return None
            return ("gcase", clauses), set(ALL), set(ALL), False, False
        if k == "try_":
            body, f, c, n = self.block(depth + 1, loops)
            if f & prev_cont:
                return None
            handler, hf, hc, hn = self.block(depth + 1, loops, min_consume=False)
            reasons = r.choice([None, ["nomatch"], ["outofspace"], ["nomatch", "outofspace"]])
            if getattr(self.p, "safe_appc", False) and (has_kind(body, "appc") or has_kind(handler, "appc")):
                # known finding C01: an expression append that overflows right behind a consumed byte hands that byte to the
                # outofspace handler again; with safe_appc such appends never have an outofspace handler
                reasons = ["nomatch"]
            return ("try", body, reasons, handler), f | hf, c | hc, n, False
        if k == "foreach":
            body, f, c, n = self.block(depth + 1, loops)
            if f & prev_cont:
                return None
            each = [a for a in (self.action(after_match=True) for _ in range(r.randint(1, 2))) if a]
            if not each:
                return None
            return ("foreach", body, each), f, c, n, False
        if k == "if_":
            if not self.ints():
                return None
            brs = []
            first, cont, nullable = set(), set(), False
            for _ in range(r.randint(1, 2)):
                body, f, c, n = self.block(depth + 1, loops, min_consume=r.random() < 0.5)
                if f & prev_cont:
                    return None
                brs.append((self.expr(boolean=True), body))
                first |= f; cont |= c; nullable = nullable or n
            els = None
            if r.random() < 0.5:
                els, f, c, n = self.block(depth + 1, loops, min_consume=r.random() < 0.5)
                if f & prev_cont:
                    return None
                first |= f; cont |= c; nullable = nullable or n
            else:
                nullable = True
            return ("if", brs, els), first, cont | prev_cont, nullable, False
        return None

    def program(self):
        self.decls()
        body, f, c, n = self.block(0, [])
        if getattr(self.p, "closed_end", False) and body and body[-1][0] not in ("finish", "break"):
            # the end of the program is not left to lookahead: a final delimiter that cannot continue what precedes it
            # (a program whose last statement ends by lookahead never reports DONE from feed: known finding C01)
            ds = [x for x in b"\n;#@!:," if x not in c]
            body.append(("match", ("lit", bytes([ds[0] if ds else 10]))))
        return {"outs": self.outs, "hooks": self.hooks, "finish_codes": self.fcodes, "yield_codes": self.ycodes, "body": body}


def has_kind(stmts, kind):
    for s in stmts:
        if s[0] == kind:
            return True
        subs = []
        k = s[0]
        if k == "loop": subs = [s[2]]
        elif k == "case": subs = [b for _, b in s[1]]
        elif k == "gcase": subs = [b for _, _, b in s[1]]
        elif k == "optional": subs = [s[1]]
        elif k == "try": subs = [s[1], s[3]]
        elif k == "foreach": subs = [s[1], s[2]]
        elif k == "if": subs = [b for _, b in s[1]] + ([s[2]] if s[2] else [])
        if any(has_kind(b, kind) for b in subs):
            return True
    return False


def all_actions(s):
    """an if statement made of actions only (it becomes a conditional action)"""
    def acts(b):
        return all(x[0] in ("assign", "assigns", "delete", "hook", "appc", "finish", "break") or (x[0] == "if" and all_actions(x)) for x in b)
    return all(acts(b) for _, b in s[1]) and acts(s[2] or [])


def pat_nullable(p):
    def rn(R):
        k = R[0]
        if k in ("c", "cls", "set", "any"): return False
        if k == "seq": return all(rn(x) for x in R[1])
        if k == "alt": return any(rn(x) for x in R[1])
        if k in ("star", "opt"): return True
        if k == "plus": return rn(R[1])
        if k == "rep": return R[2] == 0 or rn(R[1])
        return False
    k = p[0]
    if k in ("re", "bre"): return rn(p[1])
    if k == "concat": return all(pat_nullable(x) for x in p[1])
    if k in ("lit", "casei", "bin"): return len(p[1]) == 0
    return False


def pat_tail_nullable(p):
    """the pattern, or the last component of a concatenation, can match nothing"""
    if p[0] == "concat":
        return pat_nullable(p) or pat_tail_nullable(p[1][-1])
    return pat_nullable(p)


def last_nullable(s):
    """can this statement (or its final part) complete without consuming anything?"""
    k = s[0]
    if k == "optional": return True
    if k == "match": return pat_tail_nullable(s[1])
    if k == "append": return pat_tail_nullable(s[2])
    if k == "wait": return pat_tail_nullable(s[1])
    def blk(b):
        cons = [x for x in b if x[0] not in ("assign", "assigns", "delete", "hook", "appc", "finish", "break", "yield")]
        return all(last_nullable(x) for x in cons)
    if k == "if": return any(blk(b) for _, b in s[1]) or s[2] is None or blk(s[2])
    if k == "try": return blk(s[1]) or blk(s[3])
    if k == "foreach": return blk(s[1])
    if k == "case": return any(blk(b) for pats, b in s[1] if "else" in pats)
    return False


def gen_program(rng, profile=None):
    g = Gen(rng, profile)
    p = g.program()
    return p, pr_prog(p)


def features(p):
    """multiset of statement kinds, for the evidence's input distribution"""
    from collections import Counter
    c = Counter()
    def go(stmts):
        for s in stmts:
            c[s[0]] += 1
            k = s[0]
            if k == "loop": go(s[2])
            elif k == "case": [go(b) for _, b in s[1]]
            elif k == "gcase": [go(b) for _, _, b in s[1]]
            elif k == "optional": go(s[1])
            elif k == "try": go(s[1]); go(s[3])
            elif k == "foreach": go(s[1]); go(s[2])
            elif k == "if":
                [go(b) for _, b in s[1]]
                if s[2]: go(s[2])
    go(p["body"])
    return c


# ---------------------------------------------------------------------------
# near-invalid programs for C04: loops / handlers with paths that consume nothing
# ---------------------------------------------------------------------------
def gen_spin_candidate(rng):
    """programs whose loops have non-consuming paths guarded by conditional breaks / finishes, empty else
    arms, optional-only bodies, handlers re-entering their try: most must be REJECTED by the compiler,
    the accepted ones must not spin"""
    lits = [b"a", b"b", b"cd", b"e", b"x"]
    def act():
        return rng.choice([("assign", "t", ("bin", "+", ("var", "t"), ("num", 1))), ("assign", "t", ("num", rng.choice([0, 3]))),
                           ("assign", "u", ("var", "t")), ("hook", "hk")])
    def cond():
        return ("bin", rng.choice(["==", "!=", "<", ">"]), ("var", rng.choice(["t", "u"])), ("num", rng.choice([0, 1, 3])))
    def element(depth, labels):
        k = rng.choice(["case_else", "case_else", "optional", "try_empty", "try_act", "ifbreak", "ifbreak", "iffinish", "ifmatch", "act",
                        "lit", "lit", "nested", "wait", "foreach"])
        lit = ("lit", rng.choice(lits))
        rx = lambda: ("re", rng.choice([("set", [(rng.choice(b"ab,;"),) * 2, (rng.choice(b"ab,;"),) * 2], True), ("any",), ("plus", ("set", [(97, 99)], False)),
                                        ("seq", [("c", 97), ("set", [(59, 59)], True)]), ("cls", "\\w")]))
        if k == "try_re_empty":
            return ("try", [("match", rx())], rng.choice([None, ["nomatch"]]), [])
        if k == "try_nested_empty":
            return ("try", [("match", rx())], None, [("try", [("match", lit)], None, [])])
        if k == "append_empty":
            return ("try", [("append", "sb", rx())], rng.choice([["outofspace"], None]), rng.choice([[], [act()], [("delete", "sb")]]))
        if k == "break_first" and depth < 2:
            return ("loop", None, [("break", None), ("match", lit)])
        if k == "case_else":
            body = [act()] if rng.random() < 0.6 else []
            els = [] if rng.random() < 0.6 else [act()]
            if rng.random() < 0.2:
                els = [("break", None)]
            return ("case", [([lit], body), (["else"], els)])
        if k == "optional":
            return ("optional", [("match", lit)] + ([act()] if rng.random() < 0.5 else []))
        if k == "try_empty":
            return ("try", [("match", lit)], rng.choice([None, ["nomatch"]]), [])
        if k == "try_act":
            return ("try", [("match", lit), act()], rng.choice([None, ["nomatch"]]), [act()] + ([("break", None)] if rng.random() < 0.3 else []))
        if k == "ifbreak":
            return ("if", [(cond(), [("break", rng.choice(labels) if labels and rng.random() < 0.3 else None)])], None if rng.random() < 0.7 else [act()])
        if k == "iffinish":
            return ("if", [(cond(), [("finish", None)])], None)
        if k == "ifmatch":
            return ("if", [(cond(), [("match", lit)])], None if rng.random() < 0.5 else [("match", ("lit", b"y"))])
        if k == "act":
            return act()
        if k == "lit":
            return ("match", lit)
        if k == "wait":
            return ("wait", lit)
        if k == "foreach":
            return ("foreach", [("match", ("re", ("plus", ("cls", "\\d"))))], [act()])
        if k == "nested" and depth < 2:
            lab = "M%d" % rng.randrange(100) if rng.random() < 0.5 else None
            body = [element(depth + 1, labels + ([lab] if lab else [])) for _ in range(rng.randint(1, 3))]
            return ("loop", lab, body)
        return ("match", lit)
    lab = "L0" if rng.random() < 0.4 else None
    body = [element(0, [lab] if lab else []) for _ in range(rng.randint(1, 4))]
    if rng.random() < 0.2:
        # a loop whose whole body is one regex match with an empty handler: must be rejected (combinations of several such
        # matches are accepted and spin: known finding, kept as a witness only)
        rxs = [("set", [(rng.choice(b"ab,;"),) * 2, (rng.choice(b"ab,;"),) * 2], True), ("any",), ("plus", ("set", [(97, 99)], False)),
               ("seq", [("c", 97), ("set", [(59, 59)], True)]), ("cls", "\\w")]
        body = [("try", [("match", ("re", rng.choice(rxs)))], rng.choice([None, ["nomatch"]]), [])]
    stmts = []
    if rng.random() < 0.3:
        stmts.append(("match", ("lit", b"s")))
    outer = ("loop", lab, body)
    if rng.random() < 0.25:
        outer = ("try", [outer], None, [act()] if rng.random() < 0.5 else [])
    stmts.append(outer)
    stmts.append(("match", ("lit", b"end")))
    p = {"outs": [{"type": "int", "name": "t", "default": 0}, {"type": "int", "name": "u", "default": None},
                  {"type": "str", "name": "sb", "size": 3, "null": True, "default": None}], "hooks": ["hk"],
         "finish_codes": [], "yield_codes": [], "body": stmts}
    return p, pr_prog(p)


# ---------------------------------------------------------------------------
# yield / resumption shapes (C02, C10): yields right before the end of the program, before nullable
# tails, in token loops, after waits -- the places where re-invocation at a chunk boundary is delicate
# ---------------------------------------------------------------------------
def gen_yield_shape(rng):
    lit = lambda: ("lit", bytes(rng.choice(b"HKabxyz:;=") for _ in range(rng.randint(1, 3))))
    tail = lambda: rng.choice([("re", ("star", ("cls", "\\d"))), ("re", ("star", ("cls", "\\w"))), ("re", ("opt", ("c", 33)))])
    outs = [{"type": "str", "name": "s0", "size": rng.choice([4, 8]), "null": True, "default": None}, {"type": "int", "name": "n0", "default": None}]
    ycodes = ["Y0", "Y1", "Y2"]
    k = rng.choice(["case_tail", "lit_yield_end", "lit_yield_optional", "token_loop", "wait_yield", "yield_first", "two_yields", "yield_in_try"])
    a = lit(); b = lit()
    while b[1][0] == a[1][0]:
        b = lit()
    y = lambda: ("yield", rng.choice(ycodes))
    act = lambda: rng.choice([("assign", "n0", ("bin", "+", ("var", "n0"), ("num", 1))), ("assign", "n0", ("last",))])
    if k == "case_tail":
        body = [("case", [([a], [y()])] + ([([b], [act(), y()])] if rng.random() < 0.5 else [])), rng.choice([("append", "s0", tail()), ("match", tail())])]
    elif k == "lit_yield_end":
        body = [("match", a), y()] + ([act()] if rng.random() < 0.3 else [])
    elif k == "lit_yield_optional":
        body = [("match", a), y(), ("optional", [("match", b)])]
    elif k == "token_loop":
        body = [("loop", None, [("case", [([a], [y()]), ([b], [act(), y()]), ([("re", ("plus", ("cls", "\\d")))], [y()])])])]
    elif k == "wait_yield":
        body = [("wait", a), y(), ("match", tail())]
    elif k == "yield_first":
        body = [y(), ("match", a), y(), ("match", tail())]
    elif k == "two_yields":
        body = [("match", a), y(), y(), ("match", b), y()]
    else:
        body = [("try", [("match", a), y(), ("match", b)], ["nomatch"], [y(), ("match", tail())])]
    p = {"outs": outs, "hooks": [], "finish_codes": [], "yield_codes": ycodes, "body": body}
    return p, pr_prog(p)


# ---------------------------------------------------------------------------
# end-of-input shapes (C17): `end` in match, case and wait positions, after optional/loop, inside try
# ---------------------------------------------------------------------------
def gen_eof_shape(rng, reading_safe=False):
    """reading_safe: leave out the shape that ends the program in an open-ended match (known finding C01: a program that ends by
    lookahead never reports DONE on the byte behind it) - it is for the end() sweep of the binaries only"""
    lit = lambda: ("lit", bytes(rng.choice(b"abxyz:;=") for _ in range(rng.randint(1, 3))))
    outs = [{"type": "int", "name": "n0", "default": None}, {"type": "str", "name": "s0", "size": 8, "null": True, "default": None},
            {"type": "enum", "name": "en", "values": ["EA", "EB", "EC"]}]
    fcodes = ["F0", "F1"]
    a, b = lit(), lit()
    while b[1][0] == a[1][0]:
        b = lit()
    act = lambda: rng.choice([("assign", "n0", ("bin", "+", ("var", "n0"), ("num", 1))), ("assign", "en", ("enumv", rng.choice(["EA", "EB", "EC"]))),
                              ("hook", "hk"), ("appc", "s0", ("num", 33)), ("assigns", "s0", b"ok")])
    fin = lambda: rng.choice([[], [("finish", rng.choice([None, "F0", "F1"]))]])
    END = ("end",)
    k = rng.choice(["lit_end", "optional_end", "loop_case_end", "try_end", "wait_end", "case_else_end", "foreach_end", "end_only", "regex_end", "end_in_case_with_data",
                    "case_inv_in_try", "end_then_handler", "try_wild_catch_end", "case_wild_else_end"] + ([] if reading_safe else ["wait_regex_last"]))
    if k == "wait_regex_last":
        # a wait on an open-ended regex is the last thing the parser does: end() right behind a complete match is DONE
        c1, c2 = rng.choice(b"abxy"), rng.choice(b"abxy")
        w = ("wait", rng.choice([("re", ("seq", [("c", c1), ("plus", ("c", c2))])), ("re", ("plus", ("cls", "\\d"))),
                                 ("concat", [("lit", b"id="), ("re", ("plus", ("cls", "\\d")))])]))
        body = rng.choice([[w], [("match", a), w], [("try", [("match", a), w], ["nomatch"], [act()])]])
        p = {"outs": outs, "hooks": ["hk"], "finish_codes": fcodes, "yield_codes": [], "body": body}
        return p, pr_prog(p)
    if k == "try_wild_catch_end":
        # the end of input where a wildcard expects its byte goes to the handler like any other mismatch
        wild = ("re", rng.choice([("any",), ("seq", [("any",), ("any",)]), ("plus", ("any",))]))
        body = [("try", [("match", a), ("match", wild), ("match", b)], rng.choice([None, ["nomatch"]]), [("match", END), act()])] + fin()
        p = {"outs": outs, "hooks": ["hk"], "finish_codes": fcodes, "yield_codes": [], "body": body}
        return p, pr_prog(p)
    if k == "case_wild_else_end":
        wild = ("re", rng.choice([("seq", [("any",), ("any",)]), ("any",)]))
        body = [("match", a), ("case", [([wild], [act()]), (["else"], [("match", END), act()])])] + fin()
        p = {"outs": outs, "hooks": ["hk"], "finish_codes": fcodes, "yield_codes": [], "body": body}
        return p, pr_prog(p)
    if k == "case_inv_in_try":
        sep = rng.choice(b",;")
        lab = ("re", ("seq", [("plus", ("set", [(44, 44), (59, 59)], True)), ("c", sep)]))
        other = ("lit", bytes([59 if sep == 44 else 44]))
        body = [("try", [("match", a), ("case", [([lab], [act()]), ([other], [act()])]), ("match", ("lit", b"z"))], ["nomatch"],
                        [("case", [([END], [act()] + fin()), (["else"], [act()])])])]
        p = {"outs": outs, "hooks": ["hk"], "finish_codes": fcodes, "yield_codes": [], "body": body}
        return p, pr_prog(p)
    if k == "end_then_handler":
        body = [("try", [("match", a), ("match", END), act()], ["nomatch"], [("match", b), act()])] + fin()
        p = {"outs": outs, "hooks": ["hk"], "finish_codes": fcodes, "yield_codes": [], "body": body}
        return p, pr_prog(p)
    if k == "lit_end":
        body = [("match", a), ("match", END)] + [act()] * rng.randint(0, 2) + fin()
        if not reading_safe and rng.random() < 0.3:
            # something that could go on behind the end pattern (it cannot: the input is over) - the program is complete there
            # (end() sweep of the binaries only: the reading has no rule yet for "the rest can finish without input")
            body = [("match", a), ("match", END), act(), ("optional", [("match", b), act()])]
    elif k == "optional_end":
        body = [("match", a), ("optional", [("match", b)]), ("match", END), act()] + fin()
    elif k == "loop_case_end":
        body = [("loop", None, [("case", [([END], [act(), ("break", None)]), ([("re", ("any",))], [act()])])])] + fin()
    elif k == "try_end":
        body = [("try", [("match", a), act()], ["nomatch"], [("case", [(["else"], [("wait", END), act()]), ([END], [act()])])])]
    elif k == "wait_end":
        body = [("match", a), ("wait", END), act()] + fin()
    elif k == "case_else_end":
        body = [("case", [([a], [act()]), (["else"], [])]), ("match", END), act()]
    elif k == "foreach_end":
        body = [("foreach", [("match", ("re", ("plus", ("cls", "\\d"))))], [("assign", "n0", ("bin", "+", ("bin", "*", ("var", "n0"), ("num", 10)), ("bin", "-", ("last",), ("chr", 48))))]), ("match", END)] + fin()
    elif k == "end_only":
        body = [("match", END), act()]
    elif k == "regex_end":
        body = [("append", "s0", ("re", ("star", ("set", [(97, 122)], False)))), ("match", END), act()] + fin()
    else:
        body = [("case", [([a, END], [act()]), ([b], [act(), ("match", END)])])] + fin()
    p = {"outs": outs, "hooks": ["hk"], "finish_codes": fcodes, "yield_codes": [], "body": body}
    return p, pr_prog(p)


# ---------------------------------------------------------------------------
# macros (C13): a program is generated once with macro declarations and calls and printed twice from the
# same AST: with macros, and hand-inlined by `inline_prog` (textual substitution of arguments -- the
# specification of what a macro call means)
#   macro declaration: {"name", "params": [(kind, pname)], "body": [S]}   kinds: macro out match expr hook loop finishcode yieldcode
#   inside macro bodies parameters appear as: ('var', p) / target names p (out), ('pmatch', p) patterns, ('pexpr', p) expressions,
#   ('hook', p), ('break', p), ('finish', p), ('yield', p), ('call', p, args) (macro parameter)
#   call statement: ('call', macroname, [arg...])   arg: ('id', name) | ('pat', P) | ('expr', E)
# ---------------------------------------------------------------------------
def pr_arg(a):
    if a[0] == "id":
        return a[1]
    if a[0] == "pat":
        return pr_pat(a[1])
    e = a[1]
    return "[%s]" % pr_expr(e)


_pr_stmt_base = pr_stmt
_pr_pat_base = pr_pat
_pr_expr_base = pr_expr


def pr_pat(p):
    if p[0] == "pmatch":
        return p[1]
    return _pr_pat_base(p)


def pr_expr(e, ctx=0):
    if e[0] == "pexpr":
        return e[1]
    if e[0] == "paren":
        return "(" + pr_expr(e[1], 0) + ")"
    return _pr_expr_base(e, ctx)


def pr_stmt(s, ind):
    I = "    " * ind
    if s[0] == "call":
        return "%s%s(%s);\n" % (I, s[1], ", ".join(pr_arg(a) for a in s[2]))
    if s[0] == "assign" and s[2][0] == "pexpr":
        return "%s%s = %s;\n" % (I, s[1], s[2][1])
    return _pr_stmt_base(s, ind)


def pr_macro(m):
    return "macro %s(%s) {\n%s}\n" % (m["name"], ", ".join("%s %s" % (k, n) for k, n in m["params"]), pr_stmts(m["body"], 1))


def subst_expr(e, env, top=True):
    k = e[0]
    if k == "pexpr":
        v = env[e[1]]
        if v[0] != "expr":
            return ("var", v[1])
        # an argument substituted into a larger expression keeps its own tree: textual expansion puts it in parentheses
        return v[1] if (top or v[1][0] in ("num", "var", "chr", "last", "len")) else ("paren", v[1])
    if k == "var":
        return ("var", env[e[1]][1]) if e[1] in env and env[e[1]][0] == "id" else e
    if k in ("len",):
        return (k, env[e[1]][1]) if e[1] in env else e
    if k == "idx":
        return ("idx", env[e[1]][1] if e[1] in env else e[1], subst_expr(e[2], env, True))
    if k == "bin":
        return ("bin", e[1], subst_expr(e[2], env, False), subst_expr(e[3], env, False))
    if k in ("not", "neg"):
        return (k, subst_expr(e[1], env, False))
    return e


def subst_pat(p, env):
    if p[0] == "pmatch":
        return env[p[1]][1]
    if p[0] == "concat":
        return ("concat", [subst_pat(x, env) for x in p[1]])
    return p


def subst_stmts(stmts, env, macros):
    out = []
    nm = lambda n: env[n][1] if n in env else n
    for s in stmts:
        k = s[0]
        if k == "call":
            target = nm(s[1])
            args = []
            for a in s[2]:
                if a[0] == "id":
                    args.append(env.get(a[1], a))
                elif a[0] == "pat":
                    args.append(("pat", subst_pat(a[1], env)))
                else:
                    args.append(("expr", subst_expr(a[1], env)))
            m = macros[target]
            env2 = {pn: av for (pk, pn), av in zip(m["params"], args)}
            out += subst_stmts(m["body"], env2, macros)
        elif k == "match": out.append(("match", subst_pat(s[1], env)))
        elif k == "wait": out.append(("wait", subst_pat(s[1], env)))
        elif k == "append": out.append(("append", nm(s[1]), subst_pat(s[2], env)))
        elif k == "appc": out.append(("appc", nm(s[1]), subst_expr(s[2], env)))
        elif k == "assign" and s[2][0] == "pexpr" and env[s[2][1]][0] == "id":
            out.append(("assign", nm(s[1]), ("enumv", env[s[2][1]][1])))      # `o = v;` with v bound to a bare name (an enumeration constant)
        elif k == "assign": out.append(("assign", nm(s[1]), subst_expr(s[2], env)))
        elif k == "assigns": out.append(("assigns", nm(s[1]), s[2]))
        elif k == "delete": out.append(("delete", nm(s[1])))
        elif k == "hook": out.append(("hook", nm(s[1])))
        elif k == "finish": out.append(("finish", nm(s[1]) if s[1] else None))
        elif k == "yield": out.append(("yield", nm(s[1])))
        elif k == "break": out.append(("break", nm(s[1]) if s[1] else None))
        elif k == "loop": out.append(("loop", s[1], subst_stmts(s[2], env, macros)))
        elif k == "case": out.append(("case", [([p if p == "else" else subst_pat(p, env) for p in preds], subst_stmts(b, env, macros)) for preds, b in s[1]]))
        elif k == "optional": out.append(("optional", subst_stmts(s[1], env, macros)))
        elif k == "try": out.append(("try", subst_stmts(s[1], env, macros), s[2], subst_stmts(s[3], env, macros)))
        elif k == "foreach": out.append(("foreach", subst_stmts(s[1], env, macros), subst_stmts(s[2], env, macros)))
        elif k == "if": out.append(("if", [(subst_expr(c, env), subst_stmts(b, env, macros)) for c, b in s[1]], subst_stmts(s[2], env, macros) if s[2] is not None else None))
        else:
            out.append(s)
    return out


def gen_macro_program(rng, capture=False):
    """returns (source with macros, source hand-inlined, description)"""
    outs = [{"type": "int", "name": "n0", "default": None}, {"type": "int", "name": "n1", "default": 3},
            {"type": "str", "name": "s0", "size": 8, "null": True, "default": None},
            {"type": "enum", "name": "en", "values": ["EA", "EB", "EC"]}]
    hooks, fcodes, ycodes = ["h0", "h1"], ["F0", "F1"], ["Y0", "Y1"]
    lit = lambda: ("lit", bytes(rng.choice(b"abcdefgh") for _ in range(rng.randint(1, 3))))
    delim = lambda: ("lit", bytes([rng.choice(b";,:!#")]))
    pname = (lambda base: base) if capture else (lambda base: base)
    M = {}
    def add(name, params, body):
        M[name] = {"name": name, "params": params, "body": body}
    add("m_set", [("out", "o"), ("expr", "e")], [("assign", "o", ("bin", "+", ("pexpr", "e"), ("num", 1)))])
    add("m_set2", [("out", "o"), ("expr", "e")], [("assign", "o", ("pexpr", "e"))])
    add("m_app", [("match", "w"), ("out", "t")], [("append", "t", ("pmatch", "w"))])
    add("m_hook", [("hook", "h"), ("match", "w")], [("hook", "h"), ("match", ("pmatch", "w")), ("hook", "h")])
    add("m_fin", [("finishcode", "c"), ("match", "w")], [("match", ("pmatch", "w")), ("finish", "c")])
    add("m_brk", [("loop", "tgt"), ("match", "w")], [("match", ("pmatch", "w")), ("break", "tgt")])
    add("m_zero", [], [("match", delim()), ("assign", "n0", ("num", 7))])
    # an enumeration constant handed through an expr parameter (directly and forwarded under another name) into `o = v;`
    add("m_enum", [("out", "o"), ("expr", "v")], [("assign", "o", ("pexpr", "v"))])
    add("m_enum2", [("out", "o2"), ("expr", "v2")], [("match", delim()), ("call", "m_enum", [("id", "o2"), ("id", "v2")])])
    add("m_mac", [("macro", "mm"), ("hook", "h")], [("call", "mm", []), ("hook", "h")])
    # (parameter names differ from the callees' so that no late-bound argument is captured; the capture case is generated separately)
    add("m_nest", [("out", "o2"), ("match", "w2"), ("expr", "e2")], [("call", "m_app", [("pat", ("pmatch", "w2")), ("id", "s0")]), ("call", "m_set", [("id", "o2"), ("expr", ("bin", "+", ("pexpr", "e2"), ("num", 2)))])])
    add("m_each", [("out", "o"), ("match", "w")], [("assign", "o", ("num", 0)), ("foreach", [("match", ("pmatch", "w"))], [("assign", "o", ("bin", "+", ("bin", "*", ("var", "o"), ("num", 10)), ("bin", "-", ("last",), ("chr", 48))))])])
    add("m_yield", [("yieldcode", "y"), ("match", "w")], [("match", ("pmatch", "w")), ("yield", "y")])
    # one match argument used in two plain match statements, each with its own actions behind it (every use is a fresh match
    # in the textual expansion; an implementation that shares one object between the uses accumulates the actions)
    add("m_twice", [("match", "w"), ("out", "o"), ("hook", "h")],
        [("match", ("pmatch", "w")), ("assign", "o", ("bin", "+", ("var", "o"), ("num", 1))), ("match", delim()),
         ("match", ("pmatch", "w")), ("hook", "h"), ("match", delim()), ("match", ("pmatch", "w"))])
    # parameters named like global entities, called with the names rotated (simultaneous substitution)
    add("m_swap", [("out", "n0"), ("out", "n1")], [("assign", "n0", ("num", 1)), ("assign", "n1", ("bin", "+", ("var", "n0"), ("num", 2)))])
    add("m_hswap", [("hook", "h0"), ("hook", "h1"), ("match", "w")], [("hook", "h0"), ("match", ("pmatch", "w")), ("hook", "h1")])
    add("m_cswap", [("finishcode", "F0"), ("finishcode", "F1"), ("match", "w")], [("case", [([("pmatch", "w")], [("finish", "F0")]), (["else"], [("finish", "F1")])])])
    if capture:
        # the inner macro's expr parameter has the same name as the outer one's and is passed straight through
        add("m_cap_in", [("expr", "e")], [("assign", "n0", ("pexpr", "e"))])
        add("m_cap_out", [("expr", "e")], [("call", "m_cap_in", [("expr", ("pexpr", "e"))])])
    body = []
    use_yield = rng.random() < 0.3
    calls = ["m_set", "m_set2", "m_app", "m_hook", "m_zero", "m_mac", "m_nest", "m_each", "m_swap", "m_hswap", "m_enum", "m_enum2", "m_twice"] + (["m_yield"] if use_yield else [])
    for _ in range(rng.randint(2, 4)):
        c = rng.choice(calls)
        e = rng.choice([("num", rng.choice([1, 5, 40])), ("bin", "*", ("var", "n1"), ("num", 2)), ("var", "n1"), ("bin", "+", ("var", "n0"), ("var", "n1"))])
        w = rng.choice([lit(), ("re", ("plus", ("cls", "\\d"))), ("casei", b"xy")])
        if c in ("m_set", "m_set2"): body.append(("call", c, [("id", rng.choice(["n0", "n1"])), ("expr", e)])); body.append(("match", delim()))
        elif c == "m_app": body.append(("call", c, [("pat", w), ("id", "s0")])); body.append(("match", delim()))
        elif c == "m_hook": body.append(("call", c, [("id", rng.choice(hooks)), ("pat", lit())]))
        elif c == "m_zero": body.append(("call", c, []))
        elif c == "m_twice": body.append(("call", c, [("pat", rng.choice([lit(), ("casei", b"xy")])), ("id", rng.choice(["n0", "n1"])), ("id", rng.choice(hooks))])); body.append(("match", delim()))
        elif c in ("m_enum", "m_enum2"): body.append(("call", c, [("id", "en"), ("id", rng.choice(["EA", "EB", "EC"]))])); body.append(("match", delim()))
        elif c == "m_mac": body.append(("call", c, [("id", "m_zero"), ("id", rng.choice(hooks))]))
        elif c == "m_nest": body.append(("call", c, [("id", "n1"), ("pat", w), ("expr", e)])); body.append(("match", delim()))
        elif c == "m_each": body.append(("call", c, [("id", "n0"), ("pat", ("re", ("plus", ("cls", "\\d"))))])); body.append(("match", delim()))
        elif c == "m_yield": body.append(("call", c, [("id", rng.choice(ycodes)), ("pat", lit())]))
        elif c == "m_swap": body.append(("call", c, [("id", "n1"), ("id", "n0")])); body.append(("match", delim()))
        elif c == "m_hswap": body.append(("call", c, [("id", "h1"), ("id", "h0"), ("pat", lit())]))
    if capture:
        body.insert(0, ("call", "m_cap_out", [("expr", ("bin", "+", ("var", "n1"), ("num", 1)))]))
        body.insert(1, ("match", delim()))
    if rng.random() < 0.5:
        body.append(("loop", "LP", [("case", [([lit()], [("hook", "h0")]), (["else"], [("call", "m_brk", [("id", "LP"), ("pat", delim())])])])]))
    if rng.random() < 0.5:
        body.append(("call", "m_fin", [("id", rng.choice(fcodes)), ("pat", lit())]))
    elif rng.random() < 0.5:
        body.append(("call", "m_cswap", [("id", "F1"), ("id", "F0"), ("pat", lit())]))
    prog = {"outs": outs, "hooks": hooks, "finish_codes": fcodes, "yield_codes": ycodes if use_yield else [], "body": body}
    used = set()
    def collect(stmts):
        for s in stmts:
            if s[0] == "call" and s[1] in M and s[1] not in used:
                used.add(s[1]); collect(M[s[1]]["body"])
                for a in s[2]:
                    if a[0] == "id" and a[1] in M and a[1] not in used:
                        used.add(a[1]); collect(M[a[1]]["body"])
            for part in s[1:]:
                if isinstance(part, list):
                    for x in part:
                        if isinstance(x, tuple) and len(x) >= 2 and isinstance(x[-1], list):
                            collect(x[-1])
                    if part and isinstance(part[0], tuple) and isinstance(part[0][0], str):
                        collect(part)
    collect(body)
    order = [n for n in M if n in used]
    with_macros = dict(prog, macros=[pr_macro(M[n]) for n in order])
    inlined = dict(prog, body=subst_stmts(body, {}, M), macros=[])
    return pr_prog(with_macros), pr_prog(inlined), {"macros_used": order, "yield": use_yield, "capture": capture}


def gen_greedy_program(rng):
    """greedy case statements with priorities, overlapping literals and general regexes (C08, C09, C20)"""
    words = [b"if", b"in", b"int", b"for", b"id", b"i", b"fo"]
    rng.shuffle(words)
    clauses = []
    general = rng.choice([("re", ("plus", ("set", [(97, 122)], False))), ("re", ("plus", ("cls", "\\w"))), ("re", ("seq", [("c", 105), ("set", [(97, 122)], False)]))])
    k = 0
    def body():
        nonlocal k
        k += 1
        return [("assign", "kind", ("num", k))]
    clauses.append((None, [general], body()))
    for w in words[:rng.randint(1, 3)]:
        clauses.append((rng.choice([1, 1, 2]), [("lit", w)], body()))
    if rng.random() < 0.5:
        clauses.append((rng.choice([None, 1]), [("re", ("plus", ("cls", "\\d")))], body()))
    if rng.random() < 0.5:
        # a second pattern at an explicit priority that matches some of the literal words too (ties must be rejected, not resolved silently)
        clauses.append((rng.choice([1, 1, 2]), [("re", ("seq", [("c", rng.choice(b"if")), ("set", [(97, 122)], False)]))], body()))
    rng.shuffle(clauses)
    p = {"outs": [{"type": "int", "name": "kind", "default": None}], "hooks": [], "finish_codes": [], "yield_codes": [],
         "body": [("loop", None, [("gcase", clauses), ("match", ("lit", b";"))])]}
    return p, pr_prog(p)


# ---------------------------------------------------------------------------
# near-ambiguous programs for C09: statement pairs `A; B` whose join is decided by one byte of lookahead, clause sets
# with overlapping / prefix patterns, greedy cases with priority ties.  Tiny alphabet so that overlaps are frequent.
# Returns (program, source, shape tag).
# ---------------------------------------------------------------------------
def gen_ambig_candidate(rng):
    r = rng
    AB = b"abc"
    def lit(n=None):
        return bytes(r.choice(AB) for _ in range(n or r.randint(1, 3)))
    def cls():
        k = r.choice(["c", "set", "nset", "any", "w"])
        if k == "c": return ("c", r.choice(AB))
        if k == "set": return ("set", [(97, r.choice([97, 98, 99]))], False)
        if k == "nset": return ("set", [(r.choice(AB),) * 2], True)
        if k == "any": return ("any",)
        return ("cls", "\\w")
    def open_re():
        k = r.choice(["plus", "star-tail", "opt-tail", "alt", "rep"])
        if k == "plus": return ("plus", cls())
        if k == "star-tail": return ("seq", [("c", r.choice(AB)), ("star", cls())])
        if k == "opt-tail": return ("seq", [("c", r.choice(AB)), ("opt", ("c", r.choice(AB)))])
        if k == "alt": return ("alt", [("c", r.choice(AB)), ("seq", [("c", r.choice(AB)), ("c", r.choice(AB))])])
        return ("rep", ("c", r.choice(AB)), 1, r.choice([2, 3, None]))
    def pat(open_ok=True):
        k = r.choice(["lit", "lit", "casei", "re"] if open_ok else ["lit", "lit", "casei"])
        if k == "lit": return ("lit", lit())
        if k == "casei": return ("casei", lit())
        return ("re", open_re())
    outs = [{"type": "int", "name": "n0", "signed": None, "width": None, "default": None}]
    hooks = ["h0", "h1", "h2"]
    mark = lambda i: ("hook", hooks[i % 3])
    def B():
        k = r.choice(["lit", "lit", "re", "case", "caseelse", "wait", "optional", "if"])
        if k == "lit": return [("match", ("lit", lit()))], "lit"
        if k == "re": return [("match", ("re", open_re())), ("match", ("lit", b";"))], "re"
        if k == "case": return [("case", [([pat(False)], [mark(0)]), ([("lit", b";")], [])])], "case"
        if k == "caseelse": return [("case", [([pat(False)], [mark(0)]), (["else"], [("match", ("lit", lit()))])])], "case-else"
        if k == "wait": return [("wait", ("lit", lit(2)))], "wait"
        if k == "optional": return [("optional", [("match", ("lit", lit()))]), ("match", ("lit", b";"))], "optional"
        cond = ("bin", "==", ("var", "n0"), ("num", 1))
        b1 = [("match", r.choice([("lit", lit()), ("re", ("set", [(r.choice(AB),) * 2], True))]))]
        b2 = [("match", ("lit", lit()))]
        return [("if", [(cond, b1)], b2)], "if"
    shape = r.choice(["open;B", "open;B", "optional;B", "optional-else-head;B", "optional-wait;B", "foreach-open;B", "try-open;B", "if-open;B",
                      "case-overlap", "case-prefix", "case-open-clause;B", "greedy-tie", "greedy-3", "wait-open;B", "loop-break;B", "loop-open-if-break;B", "loop-open-if-break;B", "open;inverted"])
    body = [("match", ("lit", b"q"))]
    tag = shape
    if shape == "open;B":
        b, t = B(); body += [("match", ("re", open_re()))] + b; tag += ":" + t
    elif shape == "optional;B":
        b, t = B(); body += [("optional", [("match", pat()), mark(1)])] + b; tag += ":" + t
    elif shape == "optional-else-head;B":
        b, t = B()
        els = r.choice([[("assign", "n0", ("num", 1))], [], [("match", ("lit", lit()))]])
        body += [("optional", [("case", [([pat(False)], [mark(0)]), (["else"], els)]), ("match", ("lit", lit()))])] + b; tag += ":" + t
    elif shape == "optional-wait;B":
        b, t = B(); body += [("optional", [("wait", ("lit", lit(2)))])] + b; tag += ":" + t
    elif shape == "foreach-open;B":
        b, t = B(); body += [("foreach", [("match", ("re", open_re()))], [("assign", "n0", ("bin", "+", ("var", "n0"), ("num", 1)))])] + b; tag += ":" + t
    elif shape == "try-open;B":
        b, t = B(); body += [("try", [("match", ("re", open_re()))], ["nomatch"], [("match", ("lit", b"x"))])] + b; tag += ":" + t
    elif shape == "if-open;B":
        b, t = B()
        body += [("if", [(("bin", "==", ("var", "n0"), ("num", 1)), [("match", ("re", open_re()))])], [("match", ("lit", lit()))])] + b; tag += ":" + t
    elif shape == "case-overlap":
        p1 = pat(False)
        p2 = r.choice([p1, ("casei", p1[1]) if p1[0] == "lit" else pat(False), pat(False)])
        body += [("case", [([p1], [mark(0)]), ([p2], [mark(1)])])]
    elif shape == "case-prefix":
        s = lit(2)
        body += [("case", [([("lit", s)], [mark(0)]), ([("lit", s + lit(1))] if r.random() < 0.6 else [("lit", lit(3))], [mark(1)])])]
    elif shape == "case-open-clause;B":
        b, t = B(); body += [("case", [([("re", open_re())], []), ([("lit", b";")], [mark(1)])])] + b; tag += ":" + t
    elif shape in ("greedy-tie", "greedy-3"):
        n = 2 if shape == "greedy-tie" else 3
        pats = [("re", ("plus", ("cls", "\\w")))] + [r.choice([("lit", lit(2)), ("re", ("seq", [("c", r.choice(AB)), ("cls", "\\w")]))]) for _ in range(n - 1 + r.randint(0, 1))]
        prios = [r.choice([None, None, 1, 1, 2]) for _ in pats]
        body += [("gcase", [(prios[i], [pats[i]], [mark(i), ("match", ("lit", b";"))]) for i in range(len(pats))])]
    elif shape == "wait-open;B":
        b, t = B(); body += [("wait", ("re", ("seq", [("c", r.choice(AB)), ("plus", ("c", r.choice(AB)))])))] + b; tag += ":" + t
    elif shape == "loop-open-if-break;B":
        b, t = B()
        brk = r.choice([[("break", None)], [("if", [(("bin", "==", ("var", "n0"), ("num", 2)), [("break", None)])], None)]])
        ch = r.choice(AB)
        others = bytes(x for x in AB if x != ch)
        inner = [("if", [(("bin", "==", ("var", "n0"), ("num", 1)), brk + [("match", ("lit", bytes([r.choice(others)])))])], [("match", ("lit", bytes([r.choice(others)])))])]
        if r.random() < 0.6:
            b, t = [("match", ("lit", bytes([ch]) + lit(1)))], "lit-continuing"
        body += [("loop", None, [("match", ("re", ("plus", ("c", ch))))] + inner)] + b; tag += ":" + t
    elif shape == "open;inverted":
        first = r.choice([("match", ("re", open_re())), ("optional", [("match", pat())])])
        foll = r.choice([("re", ("any",)), ("re", ("set", [(r.choice(AB),) * 2], True)), ("re", ("seq", [("set", [(r.choice(AB),) * 2], True), ("c", r.choice(AB))]))])
        body += [first, ("match", foll), ("match", ("lit", b";"))]
    elif shape == "loop-break;B":
        b, t = B()
        body += [("loop", None, [("case", [([("lit", lit(1))], [("break", None)]), (["else"], [])]), ("match", pat(False))])] + b; tag += ":" + t
    body.append(("match", ("lit", b"\n")))
    p = {"outs": outs, "hooks": hooks, "finish_codes": [], "yield_codes": [], "body": body}
    return p, pr_prog(p), tag


# ---------------------------------------------------------------------------
# case-centred programs (C08) and wait-centred programs (C16) for the simulation validator
# ---------------------------------------------------------------------------
def _rx(r, alphabet, depth=0, nset=True, closed=False):
    """small regexes over a small alphabet, classes and (unless nset=False) inverted sets included; closed=True: no
    repetition operators (every match has a definite end)"""
    kinds = ["c", "c", "set", "nset", "w", "seq", "alt", "plus", "star", "opt", "rep"] if depth < 2 else ["c", "set", "nset"]
    if not nset: kinds = [k for k in kinds if k != "nset"]
    if closed: kinds = [k for k in kinds if k not in ("plus", "star", "opt")]
    k = r.choice(kinds)
    ch = lambda: r.choice(alphabet)
    if k == "c": return ("c", ch())
    if k == "set": a = ch(); return ("set", [(min(a, ch()), a)], False)
    if k == "nset": return ("set", [(ch(),) * 2] + ([(ch(),) * 2] if r.random() < 0.5 else []), True)
    if k == "w": return ("cls", r.choice(["\\w", "\\d"]))
    if k == "seq": return ("seq", [_rx(r, alphabet, depth + 1, nset, closed) for _ in range(r.randint(2, 3))])
    if k == "alt": return ("alt", [_rx(r, alphabet, depth + 1, nset, closed) for _ in range(2)])
    if k == "plus": return ("plus", _rx(r, alphabet, depth + 1, nset, closed))
    if k == "star": return ("seq", [_rx(r, alphabet, depth + 1, nset, closed), ("star", _rx(r, alphabet, depth + 1, nset, closed))])
    if k == "opt": return ("seq", [_rx(r, alphabet, depth + 1, nset, closed), ("opt", _rx(r, alphabet, depth + 1, nset, closed))])
    n = r.randint(1, 2)
    return ("rep", _rx(r, alphabet, depth + 1, nset, closed), n, n if closed else r.choice([2, 3]))


def gen_case_program(rng):
    """(program, source, flags): case statements with several patterns per clause, else alone / combined, regex clauses,
    cases inside try with a handler that looks at the offending byte, greedy cases with priorities (markers: hooks /
    yield codes).  Many are rejected by the compiler (ambiguity, scheduling); the callers keep the accepted ones."""
    r = rng
    AB = b"abcdk"
    hooks = ["h%d" % i for i in range(5)]
    ycodes = ["Y%d" % i for i in range(5)]
    greedy = r.random() < 0.4
    yields = greedy and r.random() < 0.7
    def lit(n=None):
        return bytes(r.choice(AB) for _ in range(n or r.randint(1, 3)))
    def pat(regex_ok=True):
        k = r.choice(["lit", "lit", "casei", "re", "re"] if regex_ok else ["lit", "lit", "casei"])
        if k == "lit": return ("lit", lit())
        if k == "casei": return ("casei", lit())
        # (known findings C08: an inverted class in a clause pattern loses its rejected symbols in the merged decider; a
        # clause pattern whose matches can be extended runs its clause once per completion - so non-greedy clause patterns
        # are generated without repetition operators)
        return ("re", _rx(r, AB, nset=False, closed=not greedy))
    outs = [{"type": "int", "name": "n0", "signed": None, "width": None, "default": None}]
    body = [("match", ("lit", b"q"))]
    if greedy:
        cls = []
        for i in range(r.randint(2, 4)):
            # (known finding C08: an action-only clause of a greedy case runs as soon as its pattern completes, although a longer
            # match may follow; greedy clause bodies are therefore generated with a consuming statement behind the marker)
            mark = [("yield", ycodes[i])] if yields else [("hook", hooks[i]), ("match", ("lit", b";"))]
            cls.append((r.choice([None, None, 1, 1, 2]), [r.choice([("re", ("plus", ("cls", "\\w"))), ("re", ("plus", ("set", [(97, 100)], False))), pat(), ("lit", lit(2)), ("lit", lit(3))])], mark))
        if not yields and r.random() < 0.5:
            # patterns of one fixed length: no match can be extended, so action-only clauses are safe from the finding above and
            # the priorities decide between a literal and a class pattern that both match it (some combinations are ties and
            # must be rejected)
            cls = []
            c0, c1 = r.choice(b"abcd"), r.choice(b"abcd")
            pts = [("lit", bytes([c0, c1])), r.choice([("re", ("seq", [("c", c0), ("set", [(97, 100)], False)])), ("re", ("seq", [("set", [(97, 100)], False), ("c", c1)]))])]
            if r.random() < 0.4:
                pts.append(r.choice([("lit", lit(2)), ("re", ("seq", [("set", [(97, 100)], False), ("c", r.choice(AB))]))]))
            r.shuffle(pts)
            for i, pt in enumerate(pts):
                bd = r.choice([[("hook", hooks[i])], [("assign", "n0", ("num", i + 1))], [("assign", "n0", ("num", i + 1)), ("hook", hooks[i])],
                               [("hook", hooks[i]), ("match", ("lit", b";"))], [("hook", hooks[i]), ("match", ("lit", b";"))], []])
                cls.append((r.choice([None, None, 1, 2, 3]), [pt], bd))
        inner = ("gcase", cls)
        if yields:
            body.append(("loop", None, [inner]))
        else:
            body += [inner, ("match", ("lit", b"\n"))]
    else:
        ncl = r.randint(1, 3)
        cls = []
        for i in range(ncl):
            pats = [pat() for _ in range(r.randint(1, 2))]
            b = r.choice([[("hook", hooks[i])], [("hook", hooks[i]), ("match", ("lit", lit(1)))], [("match", ("lit", lit(1))), ("hook", hooks[i])], [],
                          [("hook", hooks[i]), ("optional", [("match", ("lit", lit(1)))])], [("assign", "n0", ("num", i + 1)), ("optional", [("match", ("lit", b"z"))])]])
            cls.append((pats, b))
        e = r.random()
        if e < 0.3:
            cls.append((["else"], r.choice([[("hook", hooks[4])], [("hook", hooks[4]), ("match", ("re", ("set", [(97, 122)], False)))], []])))
        elif e < 0.4 and cls:
            cls[-1] = (cls[-1][0] + ["else"], cls[-1][1])
        cs = ("case", cls)
        if r.random() < 0.4:
            handler = r.choice([[("assign", "n0", ("num", 9)), ("match", ("re", ("set", [(97, 122)], False))), ("match", ("lit", b"!"))],
                                [("hook", hooks[4]), ("match", ("re", ("any",)))], [("match", ("lit", lit(1)))]])
            body.append(("try", [cs], r.choice([["nomatch"], None]), handler))
        else:
            body.append(cs)
        # (known finding C01 lost-finish-actions: no action directly behind a case one of whose clause bodies can end by matching nothing)
        nullable_end = any(b and b[-1][0] == "optional" for pats, b in cls)
        body += ([] if nullable_end else [("hook", hooks[3])]) + [("match", ("lit", b"\n"))]
    p = {"outs": outs, "hooks": hooks, "finish_codes": [], "yield_codes": ycodes if yields else [], "body": body}
    return p, pr_prog(p), (["-fyield-support"] if yields else [])


def gen_wait_program(rng):
    """(program, source, flags): waits on literals, case-insensitive literals, regexes (classes, inverted sets,
    alternation at the head, repeats) and concatenations; alone, inside try / loop / foreach, behind appends, followed
    by marker actions; optionally with end() support."""
    r = rng
    AB = b"ab<>x"
    hooks = ["h0", "h1"]
    def lit(n=None):
        return bytes(r.choice(AB) for _ in range(n or r.randint(2, 4)))
    def wpat():
        k = r.choice(["lit", "lit", "casei", "re", "re", "re", "concat", "inv-led", "cls-led", "cls-led"])
        if k == "cls-led":
            # a class first, then symbols of that class: the byte that breaks a partial match can begin the pattern again
            cs = sorted(set(r.choice(AB) for _ in range(r.randint(2, 3))))
            return ("re", ("seq", [("set", [(c, c) for c in cs], False)] + [("c", r.choice(cs)) for _ in range(r.randint(1, 2))]))
        if k == "inv-led":
            # begins with a repeated inverted class / wildcard whose excluded symbol is matched next: the start state rejects only End
            c = r.choice(AB)
            head = r.choice([("star", ("set", [(c, c)], True)), ("star", ("any",)), ("opt", ("set", [(c, c)], True))])
            return ("re", ("seq", [head, ("c", c)] + [("c", r.choice(AB)) for _ in range(r.randint(0, 2))]))
        if k == "lit": return ("lit", lit())
        if k == "casei": return ("casei", lit())
        if k == "re": return ("re", _rx(r, AB))
        return ("concat", [("lit", lit(2)), r.choice([("lit", lit(1)), ("re", _rx(r, AB, 1))])])
    outs = [{"type": "int", "name": "n0", "signed": None, "width": None, "default": None},
            {"type": "str", "name": "s0", "size": r.choice([3, 8]), "null": True, "default": None}]
    w = ("wait", wpat())
    after = [("hook", "h0"), ("match", ("lit", r.choice([b";", b"a", b"<"])))]
    shape = r.choice(["plain", "plain", "try", "loop", "foreach", "append-before", "two", "handler", "after-open", "after-open"])
    if shape == "plain":
        body = [w] + after
    elif shape == "try":
        body = [("try", [("match", ("lit", lit(1))), w, ("match", ("lit", lit(1)))], r.choice([["nomatch"], None]), [("hook", "h1"), ("match", ("lit", b"!"))])] + after
    elif shape == "loop":
        body = [("loop", None, [("case", [([("lit", b";")], [("break", None)]), (["else"], [])]), w, ("hook", "h1")])] + after
    elif shape == "foreach":
        body = [("foreach", [w], [("assign", "n0", ("bin", "+", ("var", "n0"), ("num", 1)))])] + after
    elif shape == "append-before":
        body = [("append", "s0", ("lit", lit(2))), w] + after
    elif shape == "two":
        body = [w, ("hook", "h1"), ("wait", wpat())] + after
    elif shape == "after-open":
        opn = ("re", r.choice([("plus", ("set", [(r.choice(AB),) * 2, (r.choice(AB),) * 2], True)), ("plus", ("set", [(97, 98)], False)), ("seq", [("c", r.choice(AB)), ("star", ("set", [(r.choice(AB),) * 2], True))])]))
        inner = [("match", opn), ("wait", ("lit", lit(1))) if r.random() < 0.6 else w]
        body = [("try", inner, r.choice([None, ["nomatch"]]), [("hook", "h1")])] + after if r.random() < 0.7 else inner + after
    else:
        body = [("try", [("match", ("lit", lit(2)))], ["nomatch"], [w, ("hook", "h1")])] + after
    body.append(("match", ("lit", b"\n")))
    eof = r.random() < (0.6 if shape == "after-open" else 0.3)
    p = {"outs": outs, "hooks": hooks, "finish_codes": [], "yield_codes": [], "body": body}
    return p, pr_prog(p), (["-feof-support"] if eof else [])


def gen_loop_shape(rng):
    """(program, source, flags): loops that start with action statements (self-referential assignment, hook, conditional
    break) and whose body can end by matching nothing (optional at the end, or at the end of a case clause), so that the
    next iteration is entered through different transitions; followed by a marker."""
    r = rng
    lit = lambda n=None: bytes(r.choice(b"abcpx") for _ in range(n or r.randint(1, 2)))
    outs = [{"type": "int", "name": "n0", "signed": None, "width": None, "default": None}]
    head = []
    for _ in range(r.randint(1, 2)):
        head.append(r.choice([("assign", "n0", ("bin", "+", ("var", "n0"), ("num", 1))), ("hook", "h0"),
                              ("if", [(("bin", "==", ("var", "n0"), ("num", r.choice([2, 3]))), [("hook", "h1")])], None)]))
    opt = ("optional", [("match", ("lit", lit(2)))] + ([("hook", "h1")] if r.random() < 0.4 else []))
    k = r.choice(["case-opt", "case-opt", "tail-opt", "try-opt"])
    if k == "case-opt":
        body = head + [("case", [([("lit", b";")], [("break", None)]), ([("re", ("cls", "\\d"))], [opt] if r.random() < 0.7 else [("match", ("lit", lit(1))), opt]),
                                 ([("lit", b"!")], [("hook", "h1")])])]
    elif k == "tail-opt":
        body = head + [("case", [([("lit", b";")], [("break", None)]), (["else"], [])]), ("match", ("re", ("cls", "\\d"))), opt]
    else:
        body = head + [("case", [([("lit", b";")], [("break", None)]), (["else"], [])]), ("try", [("match", ("re", ("cls", "\\d"))), opt], ["nomatch"], [("match", ("lit", b"?"))])]
    stmts = ([("match", ("lit", b"q"))] if r.random() < 0.5 else []) + [("loop", None, body), ("hook", "h2"), ("match", ("lit", b"\n"))]
    p = {"outs": outs, "hooks": ["h0", "h1", "h2"], "finish_codes": [], "yield_codes": [], "body": stmts}
    return p, pr_prog(p), []


# ---------------------------------------------------------------------------------------------------------------
# Feature programs for the C-level correspondences (C05, C06): one small program per code-generation path that random
# generation reaches only rarely - each is meant to be compiled under several option sets (FEATURE_OPTION_SETS)
FEATURE_PROGRAMS = [
    ("feat-empty-literal", r'''out str[8] s;
out str[6] t = "";
hook hk;
parser {
    s += /[a-z]+/;
    ",";
    s = "";
    hk();
    t = "ab";
    ";";
    t = "";
    hk();
    s += /[a-z]*/;
    "\n";
}
'''),
    ("feat-mixed-else", r'''out str[16] v;
hook hk;
parser {
    "v=";
    v += /(\w|[^;])+/;
    ";";
    hk();
    /(a|.)b/;
    /[^,]|x/;
    hk();
    "\n";
}
'''),
    ("feat-else-in-case", r'''out int n = 0;
out str[6] s;
hook hk;
parser {
    loop {
        case {
            "ab", /[0-9]x/ -> { n = [n + 1]; }
            /[^a0-9;]/ -> { n = [n + 2]; hk(); }
            ";" -> { break; }
        }
    }
    s += /[^\n]*/;
    "\n";
    hk();
}
'''),
    ("feat-ranges", r'''out int n = 0;
out str[10] s;
hook hk;
parser {
    s += /[a-cx-y0-46]+/;
    "|";
    hk();
    foreach {
        /[0-9a-fA-F]+/;
    } do {
        n = [n + 1];
    }
    ".";
    hk();
}
'''),
    ("feat-casei-wait", r'''out bool f = false;
out str[12] s;
hook hk;
parser {
    wait "Key:"i;
    f = true;
    optional { "_"; }
    s += /[^\r\n;_]+/;
    ";";
    hk();
    wait /\r?\n/;
    s = "done";
    hk();
}
'''),
    ("feat-try-overflow", r'''out str[4] s;
out str[5] t = "zz";
out int n = 0;
hook hk;
parser {
    try {
        s += /\w+/;
        ",";
    } catch (outofspace) {
        n = 9;
        s = "";
        hk();
        wait ",";
    }
    t += "q";
    t = "";
    t += /\d*/;
    ";";
    hk();
}
'''),
]
# a conditional break on a consuming transition whose nominal target looks at no byte: the state the break leaves for must
# dispatch on the NEXT byte (a stale copy of the current one would be chunking-dependent)
FEATURE_PROGRAMS.append(("feat-break-then-any", r'''out int n = 0;
out int r = 0;
hook hk;
parser {
    loop {
        /[a-z]/;
        if n == 2 {
            break;
        }
        n = [n + 1];
        /./;
    }
    hk();
    case {
        "x" -> { r = 1; }
        "y", "cz" -> { r = 2; }
    }
    "!";
}
'''))
# bytes >= 0x80 stored in a string and read back through an index: the value is 128..255 whatever the element type of the buffer
FEATURE_PROGRAMS.append(("feat-index-high-byte", r'''out str[8] buf;
out int first = 0;
out int{size 2} sum = 0;
hook high;
parser {
    buf += /[^;]+/;
    ";";
    first = [buf[0]];
    sum = [buf[0] + buf[1] * 2];
    if buf[0] >= 128 {
        high();
        "H";
    }
    else {
        "L";
    }
}
'''))
# directed inputs for feature programs whose interesting path depends on data (used next to the random walks)
FEATURE_INPUTS = {"feat-break-then-any": [b"a.b.cx!", b"a.b.cy!", b"a.b.ccz!", b"a.b.c!", b"azb.cx!"],
                  "feat-empty-literal": [b"abc,;xy\n", b"abc,;\n"],
                  "feat-index-high-byte": [b"\xc3\xa9;H", b"\xc3\xa9;L", b"\x80\xff;H", b"\xff;H", b"ab;L", b"\x7f\x80;L"],
                  "feat-mixed-else": [b"v=a b;xbz\n", b"v=ab;abx\n"]}
# more than 256 emitted states at -O0 (unreachable ones are numbered too), fewer than 256 reachable: the width of the state field
FEATURE_PROGRAMS.append(("feat-many-states", "out int n = 0;\nhook tick;\nmacro item() {\n    case {\n        \"a\" -> { \"1\"; }\n        \"b\" -> { }\n    }\n"
                         "    n = [n + 1];\n    tick();\n}\nparser {\n" + "    item();\n" * 60 + "    \"END\";\n}\n"))
FEATURE_OPTION_SETS = [["-O0"], ["-O1"], ["-O2"], ["-O3"], ["-O3", "-fno-simplify-else-conditions"], ["-O1", "-fuse-delete-for-empty-string"],
                       ["-O3", "-fno-use-delete-for-empty-string"], ["-O0", "-fcollapse-transition-ranges"], ["-O2", "--collapsed-range-length", "1"]]


def gen_retry_handler(rng):
    """source of a program whose out-of-space handler makes room in the SAME string and lets the enclosing loop retry the
    byte that did not fit - terminating for every data state, but only because the handler really empties the string
    (C04: concrete runs under every string representation, with a wall-clock guard)"""
    n = rng.randint(2, 6)
    unterm = rng.random() < 0.3
    clear = rng.choice(["delete s;", "delete s;", 's = "";'])
    extra = rng.choice(["", "n = [n + 1];", "hk();"])
    k = rng.choice(["word-loop", "char-loop", "foreach", "case"])
    decl = "out %sstr[%d] s;\nout int n = 0;\nhook hk;\n" % ("unterminated " if unterm else "", n)
    h = "catch (outofspace) { %s %s }" % (clear, extra)
    if k == "word-loop":
        body = 'loop { try { s += /\\w+/; " "; } %s }' % h
    elif k == "char-loop":
        body = 'loop { try { s += /[a-z0-9]/; } %s }' % h
    elif k == "foreach":
        body = 'loop { try { foreach { /\\w+/; } do { s += [$last]; } " "; } %s }' % h
    else:
        body = 'loop { try { case { /[a-z]/ -> { s += "x"; } /[0-9]/ -> { s += "12"; } } } %s }' % h
    return decl + "parser {\n    " + body + "\n}\n"
