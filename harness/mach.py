"""Running the verified checkers on exported machines: extracted OCaml (volume) and in-Coq
certificates (vm_compute + reflexivity, accepted by the kernel)."""
import os, subprocess, shutil, re
from concurrent.futures import ThreadPoolExecutor
import common, export
from common import VERIF, BUILD, COQ, sh

MACHK = os.path.join(VERIF, "ocaml", "machk")


def ensure_machk():
    """(re)build the extracted checker if missing or older than its sources"""
    srcs = [os.path.join(COQ, "Extract", "Extract.v"), os.path.join(VERIF, "ocaml", "machk.ml"), os.path.join(VERIF, "ocaml", "crun.ml"),
            os.path.join(COQ, "Expr", "CArith.v"), os.path.join(COQ, "CSkel", "Store.v"), os.path.join(COQ, "CSkel", "Run.v"), os.path.join(COQ, "CSkel", "Safety.v")] + \
           [os.path.join(COQ, "Machine", f) for f in ("Dfa.v", "Sem.v", "NoSpin.v", "Bisim.v", "Search.v", "Chunk.v", "FailPos.v", "FailSticky.v", "CallEquiv.v", "Eof.v", "BBisim.v", "BSearch.v") if os.path.exists(os.path.join(COQ, "Machine", f))]
    CRUNP = os.path.join(VERIF, "ocaml", "crun")
    fresh = lambda: os.path.exists(MACHK) and os.path.exists(CRUNP) and all(min(os.path.getmtime(MACHK), os.path.getmtime(CRUNP)) >= os.path.getmtime(s) for s in srcs)
    if fresh():
        return None
    with common.Lock("ocaml"):
        if fresh():
            return None
        rc, out = common.coq_make(["Machine/Search.vo", "Machine/Chunk.vo", "Machine/FailPos.vo", "Machine/FailSticky.vo", "Machine/Eof.vo", "CSkel/Run.vo", "CSkel/Safety.vo"] + (["Machine/BBisim.vo", "Machine/BSearch.vo"] if os.path.exists(os.path.join(COQ, "Machine", "BSearch.v")) else []))
        if rc != 0:
            return "coq build failed: " + out[-1500:]
        gen = os.path.join(VERIF, "ocaml", "gen")
        os.makedirs(gen, exist_ok=True)
        rc, out = sh(["coqc", "-Q", COQ, "NV", os.path.join(COQ, "Extract", "Extract.v")], cwd=gen, timeout=600)
        if rc != 0:
            return "extraction failed: " + out[-1500:]
        shutil.copy(os.path.join(VERIF, "ocaml", "machk.ml"), gen)
        rc, out = sh("ocamlfind ocamlopt -O3 -package str machine.mli machine.ml machk.ml -o ../machk", cwd=gen, timeout=600)
        if rc != 0:
            return "ocaml build failed: " + out[-1500:]
        shutil.copy(os.path.join(VERIF, "ocaml", "crun.ml"), gen)
        rc, out = sh("ocamlfind ocamlopt -O3 -package str machine.mli machine.ml crun.ml -o ../crun", cwd=gen, timeout=600)
        if rc != 0:
            return "ocaml build (crun) failed: " + out[-1500:]
    return None


def run_machk(tasks, chunk=None):
    """tasks: list of task texts -> list of result lines (same order).  Runs in parallel chunks."""
    if not tasks:
        return []
    n = common.NCPU
    chunk = chunk or max(1, (len(tasks) + n - 1) // n)
    parts = [tasks[i:i + chunk] for i in range(0, len(tasks), chunk)]

    def one(part):
        p = subprocess.run(["bash", "-c", "ulimit -s unlimited 2>/dev/null; exec " + MACHK], input="\n".join(part) + "\n",
                           capture_output=True, text=True, timeout=3000)
        lines = p.stdout.splitlines()
        if len(lines) != len(part):
            lines += ["crash " + p.stderr[-200:].replace("\n", " ")] * (len(part) - len(lines))
        return lines

    with ThreadPoolExecutor(max_workers=n) as ex:
        res = list(ex.map(one, parts))
    return [l for part in res for l in part]


def task_nospin(m):
    return "nospin\n" + export.text_dfa(m)


def task_wf(m):
    return "wf\n" + export.text_dfa(m)


def task_failpos(m):
    return "failpos\n" + export.text_dfa(m)


def task_endsafe(m):
    return "endsafe\n" + export.text_dfa(m)


def free_ids(I):
    """ids of the primitives / tests that do not look at the current byte (may be moved by one position)"""
    fp = [i for i, p in enumerate(I.prim_info) if not p.get("reads_last") and p["kind"] not in ("append",)]
    ft = [i for i, t in enumerate(I.test_info) if not t.get("reads_last")]
    return fp, ft


def task_bbisim(m_eager, m_lazy, I, eof=True):
    """eof=False: parsers without an end function are never given the end-of-input symbol - the certificate covers bytes only"""
    fp, ft = free_ids(I)
    return "%s %d %s %d %s\n%s\n%s" % ("bbisim" if eof else "bbisim0", len(fp), " ".join(map(str, fp)), len(ft), " ".join(map(str, ft)), export.text_dfa(m_eager), export.text_dfa(m_lazy))


def task_bisim(m1, m2, eof=True):
    return ("bisim\n" if eof else "bisim0\n") + export.text_dfa(m1) + "\n" + export.text_dfa(m2)


def coq_certs(dirname, items, per_file=8, timeout=900):
    """items: list of (name, [definitions...], certificate_boolean_expr, soundness_instance or None).
    Writes <= per_file certificates per .v file under build/<dirname>/, compiles them in parallel.
    Returns list of (name, ok, output_tail)."""
    d = os.path.join(BUILD, dirname)
    shutil.rmtree(d, ignore_errors=True)
    os.makedirs(d, exist_ok=True)
    files = []
    for fi in range(0, len(items), per_file):
        part = items[fi:fi + per_file]
        L = [export.COQ_PRELUDE, "From NV Require Import Machine.Sem Machine.NoSpin Machine.Bisim Machine.Search."]
        if os.path.exists(os.path.join(COQ, "Machine", "BBisim.vo")):
            L.append("From NV Require Import Machine.BBisim Machine.BSearch.")
        for k, (name, defs, cert, inst) in enumerate(part):
            L += defs
            L.append("Example cert_%d : %s = true. Proof. vm_compute. reflexivity. Qed." % (fi + k, cert))
            if inst:
                L.append("Definition thm_%d := %s cert_%d." % (fi + k, inst, fi + k))
                L.append("Check thm_%d." % (fi + k))
        path = os.path.join(d, "cert_%03d.v" % (fi // per_file))
        open(path, "w").write("\n".join(L) + "\n")
        files.append((path, part, fi))

    def one(f):
        path, part, fi = f
        rc, out = common.coqc_file(path, timeout=timeout)
        if rc == 0:
            return [(name, True, "") for name, _, _, _ in part]
        m = re.search(r"cert_(\d+)", out[out.find("Error"):] if "Error" in out else out)
        # find which certificate failed: the line number of the error
        ml = re.search(r'line (\d+)', out)
        bad = None
        if ml:
            ln = int(ml.group(1))
            text = open(path).read().splitlines()
            for j in range(ln - 1, -1, -1):
                mm = re.match(r"Example cert_(\d+)", text[j]) if j < len(text) else None
                if mm:
                    bad = int(mm.group(1)); break
        res = []
        for k, (name, _, _, _) in enumerate(part):
            idx = fi + k
            if bad is None:
                res.append((name, False, out[-400:]))
            elif idx < bad:
                res.append((name, True, ""))
            elif idx == bad:
                res.append((name, False, out[-400:]))
            else:
                res.append((name, None, "not reached"))
        return res

    with ThreadPoolExecutor(max_workers=common.NCPU) as ex:
        res = list(ex.map(one, files))
    return [x for part in res for x in part]


def reach_path(m, target_state):
    """a byte string driving the exported machine (ignoring data conditions) from its start state to
    target_state: plain graph search over transitions, used only to build replay inputs"""
    from collections import deque
    start = m["start"]
    prev = {start: None}
    dq = deque([start])
    while dq:
        q = dq.popleft()
        if q == target_state:
            break
        st = m["states"][q]
        trs = st.get("trans") or [t for _, t in st.get("brs", [])]
        for t in trs:
            tgts = [t["tgt"]] + goto_targets(t["acts"])
            for tg in tgts:
                if tg is None or tg in prev or tg >= len(m["states"]):
                    continue
                if t["fall"] or st["kind"] == "cond":
                    byte = None
                else:
                    bs = [b for b in t["on"] if b < 256]
                    if not bs and 257 in t["on"]:
                        used = set(b for t2 in trs for b in t2["on"])
                        bs = [b for b in (list(range(97, 123)) + list(range(256))) if b not in used]
                    byte = bs[0] if bs else None
                    if byte is None:
                        continue
                prev[tg] = (q, byte)
                dq.append(tg)
    if target_state not in prev:
        return None
    out = []
    q = target_state
    while prev[q] is not None:
        q, b = prev[q]
        if b is not None:
            out.append(b)
    return list(reversed(out))


def goto_targets(a):
    k = a[0]
    if k in ("goto", "break"):
        return [a[1]]
    if k == "prim":
        return goto_targets(a[2])
    if k == "test":
        return goto_targets(a[2]) + goto_targets(a[3])
    return []
